"""Shared by C03 and C06: program population (well-typed Elements programs with jets as leaves,
witnesses, assertions, disconnect, words), libsimplicity limits, verdict classes, parsers of the
harness_cdiff output."""
import os

import proggen as pg
import vplib
from proggen import P, S, U

CRATE = None  # merged into the main harness crate

# libsimplicity's documented limits (simplicity-sys/depend/simplicity/limitations.h); re-read from the
# source on every run by `read_limits` so that a change there is noticed
LIMITS = {"DAG_LEN_MAX": 8000000, "NUMBER_OF_TYPENAMES_MAX": 0x1000, "CELLS_MAX": 0x500000, "BUDGET_MAX": 4000050}

DECODE_CLASS = {
    0: "ok", 1: "program-eof", 2: "program-trailing/padding", 3: "out-of-range", 4: "not-canonical-order",
    5: "fail-node(C only)", 6: "reserved-code/one-child-disconnect", 7: "hidden-misplaced", 8: "type-error",
    9: "witness-stream", 10: "sharing-not-maximal", 11: "libsimplicity-resource-limit", 12: "other", 13: "panic",
}
EXEC_KIND = {0: "success", 1: "assertion", 2: "jet-failed", 3: "fail-node", 4: "resource-limit", 5: "input-type",
             6: "jet-family", 7: "anti-dos", 9: "panic", 12: "other"}

CLASS_MAPPING_TEXT = (
    "decode classes: C SIMPLICITY_ERR_* -> class: NO_ERROR 0; BITSTREAM_EOF(-12) 1; BITSTREAM_TRAILING_BYTES(-14), "
    "BITSTREAM_ILLEGAL_PADDING(-16) 2; DATA_OUT_OF_RANGE(-2) 3; DATA_OUT_OF_ORDER(-4) 4; FAIL_CODE(-6) 5; "
    "RESERVED_CODE(-8) 6; HIDDEN(-10), HIDDEN_ROOT(-44) 7; TYPE_INFERENCE_UNIFICATION(-18), _OCCURS_CHECK(-20), "
    "_NOT_PROGRAM(-22) 8; WITNESS_EOF(-24), WITNESS_TRAILING_BYTES(-26), WITNESS_ILLEGAL_PADDING(-28) 9; "
    "UNSHARED_SUBEXPRESSION(-30) 10; EXEC_MEMORY(-36), MALLOC(-1) 11; anything else 12.  "
    "Rust DecodeError -> class: Decode(EndOfStream) 1 (9 when the program alone decodes); Decode(BitIter close error) 2 "
    "(9 when the program alone decodes); Decode(Natural overflow/bad index), Decode(InvalidJet) 3; "
    "Decode(NotInCanonicalOrder) 4; DisconnectRedeemTime 6; Decode(HiddenNode), Decode(BothChildrenHidden) 7; "
    "Type(_), Decode(Type(_)) 8; Decode(SharingNotMaximal) 10; panic 13.  "
    "execution kinds: C NO_ERROR 0; EXEC_ASSERT(-40) 1; EXEC_JET(-38) 2; EXEC_BUDGET(-34), EXEC_MEMORY(-36), MALLOC(-1) 4; "
    "ANTIDOS(-42) 7; else 12.  Rust ExecutionError: ReachedPrunedBranch 1; JetFailed 2; ReachedFailNode 3; "
    "LimitExceeded 4; InputWrongType 5; JetTypeMismatch 6; panic 9.  (reference copy: coq/Cdiff/VerdictRef.v, "
    "compared with the harness tables on every run)")


# observations made while building these checks (not violations of C03 / C06; recorded for the reader)
CODE_NOTES = [
    "analysis.rs Cost::of_type(w) is `w as u32`: bit widths >= 2^32 wrap, where libsimplicity clips type bit sizes at "
    "UBOUNDED_MAX (the comment 'bit width cannot be more than 2^32 - 1' is wrong: Final::bit_width saturates at usize::MAX). "
    "Only programs needing more than CELLS_MAX cells are affected, i.e. outside libsimplicity's limits where C03 does not "
    "compare costs; the difference of the two formulas is pinned as theorem C03_rust_c_differ_wide (about the reference).",
    "bit_machine/limits.rs LimitError::check_max_frames builds MaxFramesExceeded { max: MAX_CELLS } (should be MAX_FRAMES); "
    "cosmetic, only the error text is affected.",
    "simplicity-sys/src/tests/ffi.rs SimplicityErr::from_i32 has no arm for -48 (SIMPLICITY_ERR_OVERWEIGHT) and would panic "
    "'unexpected error code'; unreachable from decodeMallocDag, its only caller.",
    "fixed finding F-C03: simplicity-sys/src/tests/mod.rs run_program passed the budget VALUE as a pointer (SIGSEGV with "
    "Some(budget)); regression cases corpus/C06/run_program_budget.case.",
]


def read_limits():
    """limits as written in the vendored C sources; returns (dict, error string | None)"""
    p = os.path.join(vplib.REPO, "simplicity-sys/depend/simplicity/limitations.h")
    out = {}
    try:
        import re
        for m in re.finditer(r"#define\s+(\w+)\s+(0x[0-9a-fA-F]+|\d+)U", open(p).read()):
            out[m.group(1)] = int(m.group(2), 0)
    except OSError as e:
        return {}, str(e)
    for k, v in LIMITS.items():
        if out.get(k) != v:
            return out, "limitations.h: %s is %s, the check assumes %s" % (k, out.get(k), v)
    return out, None


# ------------------------------------------------------------------ jets
_jets = {}


def jets(binary, workdir, max_width=600):
    """Elements jets of moderate I/O width: ('e', name, src, tgt)"""
    key = (binary, max_width)
    if key not in _jets:
        allj = pg.jet_list(binary, "e", workdir)
        # proggen's Builder wants (family, name, src, tgt)
        _jets[key] = [("e", j[1], j[2], j[3]) for j in allj if pg.width(j[2]) <= max_width and pg.width(j[3]) <= max_width]
        _jets["all"] = allj
    return _jets[key]


def all_jets(binary, workdir):
    jets(binary, workdir)
    return _jets["all"]


# ------------------------------------------------------------------ programs of type 1 -> 1
def hexs(bs):
    return "".join("%02x" % b for b in bs) if bs else "-"


class JetBuilder(pg.Builder):
    """Builder with value producers that prefer literal words/witnesses, so that jets get inputs."""

    def producer(self, t, depth):
        """term 1 -> t"""
        return self.gen(U, t, depth)

    def consumer(self, t, depth):
        """term t -> 1, exercising assertions / verify where the type allows"""
        rng = self.rng
        if t == pg.BIT and rng.below(100) < 60:
            return self.add(("jet", "e", "verify"))
        if t[0] == "s" and rng.below(100) < 35:
            # explicit assertion on one side of the sum
            pr = self.add(("pair", self.add(("iden",)), self.add(("unit",))))
            h = ("hid", "".join("%02x" % v for v in rng.bytes(32)))
            if rng.below(2):
                x = self.gen(P(t[1], U), U, depth)
                body = self.add(("case", x, self.add(h)))
            else:
                hh = self.add(h)
                y = self.gen(P(t[2], U), U, depth)
                body = self.add(("case", hh, y))
            return self.add(("comp", pr, body))
        if t[0] == "s" and rng.below(100) < 50:
            # (A + B) -> 1 through  pair iden unit ; case/assert
            pr = self.add(("pair", self.add(("iden",)), self.add(("unit",))))
            body = self.gen(P(t, U), U, max(depth, 1))
            return self.add(("comp", pr, body))
        return self.gen(t, U, depth)


def gen_unit_program(rng, jetlist, depth, opts=None, segments=None):
    """well-typed program 1 -> 1:  comp (1 -> T) (T -> 1)  segments, several of them around jets"""
    o = dict(share=25, witness=18, fail=0, hidden=15, disconnect=8, jets=jetlist, word=35, comp=25)
    if opts:
        o.update(opts)
    b = JetBuilder(rng, o)
    nseg = segments if segments is not None else rng.choice([1, 1, 1, 2, 2, 3])
    roots = []
    for _ in range(nseg):
        r = rng.below(10)
        if r < 6 and jetlist:
            j = rng.choice(jetlist)
            x = b.producer(j[2], depth)
            jn = b.add(("jet", "e", j[1]))
            c1 = b.add(("comp", x, jn))
            y = b.consumer(j[3], depth)
            roots.append(b.add(("comp", c1, y)))
        elif r < 9:
            t = pg.rand_ty(rng, 2)
            x = b.producer(t, depth)
            y = b.consumer(t, depth)
            roots.append(b.add(("comp", x, y)))
        else:
            roots.append(b.gen(U, U, depth))
    root = roots[0]
    for r in roots[1:]:
        root = b.add(("comp", root, r))
    if root != len(b.nodes) - 1:
        # make the root the last node
        b.add(("comp", root, b.add(("unit",))))
    return pg.compact_prog(b.nodes)


def typed_programs(rng, binary, workdir, count, depth_choices, opts=None, tag="gen"):
    """generate `count` structures, ask the implementation for the inferred arrows (program = 1 -> 1),
    fill the witnesses with values of the inferred types.  Returns list of (prog, arrows, structure without
    witness values) and statistics."""
    jl = jets(binary, workdir)
    structs = []
    for _ in range(count):
        o = dict(opts or {})
        if rng.below(10) == 0:
            o["fail"] = 6
        structs.append(gen_unit_program(rng, jl, rng.choice(depth_choices), o))
    lines = ["g%d arrows 1 %s" % (i, pg.prog_pdl(p)) for i, p in enumerate(structs)]
    res = vplib.run_harness(binary, "prog", lines, workdir=workdir)
    out = []
    stats = {"generated": count, "ill_typed": 0}
    for i, p in enumerate(structs):
        ar = pg.parse_arrows(res.get("g%d" % i))
        if isinstance(ar, tuple):
            stats["ill_typed"] += 1
            continue
        mode = rng.below(10)
        filled = pg.fill_witnesses(rng, p, ar, zero=(mode == 0))
        out.append((filled, ar, p))
    return out, stats


def prog_features(p):
    ks = [n[0] for n in p]
    return {
        "nodes": len(p),
        "jets": sum(1 for n in p if n[0] == "jet"),
        "wit": sum(1 for n in p if n[0] == "wit"),
        "hid": ks.count("hid"),
        "disc": ks.count("disc"),
        "case": ks.count("case"),
        "word": ks.count("word"),
        "fail": ks.count("fail"),
    }


# ------------------------------------------------------------------ environments (C06, described to the harness)
def rand_env(rng):
    if rng.below(12) == 0:
        return "dummy"
    nin = rng.range(1, 4)
    nout = rng.range(1, 4)
    ix = rng.below(nin)
    annex = rng.choice([0, 0, 1, 1, 2])
    lock = rng.choice([0, 0, 1, 100, 499999999, 500000000, 500000001, 1700000000, 0xFFFFFFFF, rng.below(2**32)])
    seq = rng.choice([0xFFFFFFFF, 0xFFFFFFFE, 0, 1, 0xFFFF, (1 << 22) | 5, (1 << 31) | 7, rng.below(2**32)])
    return "env.%d.%d.%d.%d.%d.%d.%d" % (rng.below(2**48), nin, nout, ix, annex, lock, seq)


# ------------------------------------------------------------------ parsers
def take(nums, pos, n):
    return nums[pos:pos + n], pos + n


def parse_c03(nums, is_pdl):
    """harness `c03` result -> dict (see harness_cdiff/src/cdiff.rs for the layout)"""
    d = {}
    pos = 0
    if is_pdl:
        if nums[0] != 0:
            return {"build_error": nums[1] if len(nums) > 1 else -1}
        pl = nums[1]
        d["prog"], pos = take(nums, 2, pl)
        wl = nums[pos]
        d["wit"], pos = take(nums, pos + 1, wl)
        assert nums[pos] == 76
        pos += 1
        d["built_cmr"], pos = take(nums, pos, 32)
        d["built_amr"], pos = take(nums, pos, 32)
        d["built_ihr"], pos = take(nums, pos, 32)
        d["built_cost"] = nums[pos]
        pos += 1
    assert nums[pos] == 77, nums[pos:pos + 5]
    pos += 1
    d["r_class"], d["r_detail"] = nums[pos], nums[pos + 1]
    pos += 2
    if d["r_class"] == 0:
        d["r_cmr"], pos = take(nums, pos, 32)
        d["r_amr"], pos = take(nums, pos, 32)
        d["r_ihr"], pos = take(nums, pos, 32)
        d["r_cost"], d["r_nfail"] = nums[pos], nums[pos + 1]
        pos += 2
    assert nums[pos] == 78
    pos += 1
    d["c_class"], d["c_raw"], d["c_stage"] = nums[pos], nums[pos + 1], nums[pos + 2]
    pos += 3
    if d["c_class"] == 0:
        d["c_cmr"], pos = take(nums, pos, 32)
        d["c_amr"], pos = take(nums, pos, 32)
        d["c_ihr"], pos = take(nums, pos, 32)
        d["c_cost"], d["c_cells"] = nums[pos], nums[pos + 1]
        pos += 2
    elif d["c_stage"] > 1:
        d["c_cmr"], pos = take(nums, pos, 32)
    assert nums[pos] == 79
    pos += 1
    d["rp_status"], d["rp_raw"] = nums[pos], nums[pos + 1]
    pos += 2
    if d["rp_status"] == 0:
        d["rp_cmr"], pos = take(nums, pos, 32)
        d["rp_amr"], pos = take(nums, pos, 32)
        d["rp_ihr"], pos = take(nums, pos, 32)
        d["rp_cost"] = nums[pos]
        pos += 1
    assert nums[pos] == 80
    d["table"] = nums[pos + 1:]
    return d


def parse_table(tnums):
    """node table of the decoded program -> list of (code, a, b, extra, (src, tgt) | None) or None"""
    if not tnums or tnums[0] != 0:
        return None
    n = tnums[1]
    pos = 2
    rows = []
    for _ in range(n):
        code, a, b, extra, marker = tnums[pos:pos + 5]
        pos += 5
        if marker == 5:
            rows.append((code, a, b, extra, None))
        else:
            s, pos = pg.ty_from_nums(tnums, pos)
            t, pos = pg.ty_from_nums(tnums, pos)
            rows.append((code, a, b, extra, (s, t)))
    return rows


def ty_tree_size(t, cache={}):
    if t not in cache:
        cache[t] = 1 if t[0] == "u" else 1 + ty_tree_size(t[1]) + ty_tree_size(t[2])
    return cache[t]


def table_coq(rows):
    """Coq text (jets association list, typed_prog) of a node table"""
    ents = []
    jets_ = {}
    for code, a, b, extra, ar in rows:
        if code == 0:
            n = "NIden"
        elif code == 1:
            n = "NUnit"
        elif code in (2, 3, 4, 5):
            n = "(N%s %d)" % ({2: "InjL", 3: "InjR", 4: "Take", 5: "Drop"}[code], a)
        elif code in (6, 7, 8):
            n = "(N%s %d %d)" % ({6: "Comp", 7: "Case", 8: "Pair"}[code], a, b)
        elif code == 9:
            n = "(NDisconnect %d (Some %d%%nat))" % (a, b)
        elif code == 10:
            n = "(NHidden [])"
        elif code == 11:
            n = "(NFail [])"
        elif code == 12:
            n = "(NJet 1 %d)" % a
            jets_[a] = extra
        elif code == 13:
            n = "(NWord %d [])" % a
        else:
            n = "(NWitness WNone)"
        if ar is None:
            ents.append("(%s, None)" % n)
        else:
            ents.append("(%s, Some (%s, %s))" % (n, pg.ty_coq(ar[0]), pg.ty_coq(ar[1])))
    jl = "[" + "; ".join("(%d, %d)" % kv for kv in sorted(jets_.items())) + "]"
    return jl, "[" + "; ".join(ents) + "]"


def table_type_size(rows):
    tot = 0
    for r in rows:
        if r[4] is not None:
            tot += ty_tree_size(r[4][0]) + ty_tree_size(r[4][1])
    return tot


# ------------------------------------------------------------------ bit-level encoder of arbitrary node tables
def natural_bits(n):
    if n == 1:
        return [0]
    ln = n.bit_length() - 1
    return [1] + natural_bits(ln) + [(n >> i) & 1 for i in range(ln - 1, -1, -1)]


def pack(bits):
    out = []
    for i in range(0, len(bits), 8):
        ch = bits[i:i + 8]
        ch = ch + [0] * (8 - len(ch))
        v = 0
        for b in ch:
            v = 2 * v + b
        out.append(v)
    return out


def hexbits(h):
    return [(int(h[i:i + 2], 16) >> (7 - k)) & 1 for i in range(0, len(h), 2) for k in range(8)]


_jetcodes = {}


def jet_codes(binary, workdir):
    """name -> bit code of the jet (after the `11` prefix), from the implementation's own encoder"""
    if binary not in _jetcodes:
        res = vplib.run_harness(binary, "c03", ["jc jetcodes"], workdir=workdir)
        nums = res["jc"]
        names = [j[1] for j in all_jets(binary, workdir)]
        codes = {}
        pos = 0
        while pos < len(nums):
            assert nums[pos] == 7
            idx, n = nums[pos + 1], nums[pos + 2]
            codes[names[idx]] = nums[pos + 3:pos + 3 + n]
            pos += 3 + n
        _jetcodes[binary] = codes
    return _jetcodes[binary]


def encode_table(p, codes):
    """(program bytes, witness bytes) of a node table *as it is* (no canonical order, no sharing, no typing)."""
    bits = natural_bits(len(p))
    wbits = []
    for i, n in enumerate(p):
        k = n[0]

        def ref(c):
            return natural_bits(i - c) if 0 <= c < i else natural_bits(max(1, i + 1))  # invalid reference stays invalid
        if k in ("comp", "case", "pair"):
            bits += [0, 0, 0] + {"comp": [0, 0], "case": [0, 1], "pair": [1, 0]}[k] + ref(n[1]) + ref(n[2])
        elif k == "disc":
            if n[2] is None:
                bits += [0, 1, 0, 1, 1] + ref(n[1])
            else:
                bits += [0, 0, 0, 1, 1] + ref(n[1]) + ref(n[2])
        elif k in ("injl", "injr", "take", "drop"):
            bits += [0, 0, 1] + {"injl": [0, 0], "injr": [0, 1], "take": [1, 0], "drop": [1, 1]}[k] + ref(n[1])
        elif k == "iden":
            bits += [0, 1, 0, 0, 0]
        elif k == "unit":
            bits += [0, 1, 0, 0, 1]
        elif k == "fail":
            bits += [0, 1, 0, 1, 0] + hexbits(n[1])
        elif k == "hid":
            bits += [0, 1, 1, 0] + hexbits(n[1])
        elif k == "wit":
            bits += [0, 1, 1, 1]
            w = n[1]
            if w is not None:
                wbits += list(w[-1])
        elif k == "jet":
            bits += [1, 1] + codes[n[2]]
        elif k == "word":
            bits += [1, 0] + natural_bits(n[1] + 1) + list(n[2])
        else:
            raise ValueError(k)
    return pack(bits), pack(wbits)


def canon_table(p, arrows=None):
    """post-order (left child first) from the root with equal nodes merged (equal = same structure and,
    when the inferred arrows are given, same arrow; witnesses: same value)"""
    memo = {}
    out = []
    ren = {}

    def visit(i):
        if i in ren:
            return ren[i]
        n = p[i]
        k = n[0]
        if k in ("injl", "injr", "take", "drop"):
            m = (k, visit(n[1]))
        elif k in ("comp", "case", "pair"):
            a = visit(n[1])
            m = (k, a, visit(n[2]))
        elif k == "disc":
            a = visit(n[1])
            m = (k, a, None if n[2] is None else visit(n[2]))
        else:
            m = n
        if arrows is None:
            key = m if k != "wit" else ("wit", i)
        else:
            key = (m if k != "wit" else ("wit", tuple(n[1][-1]) if n[1] else None), arrows[i])
        try:
            hash(key)
        except TypeError:
            key = repr(key)
        if key not in memo:
            out.append(m)
            memo[key] = len(out) - 1
        ren[i] = memo[key]
        return ren[i]

    import sys
    sys.setrecursionlimit(10000)
    visit(len(p) - 1)
    return out


def mutate_table(rng, p):
    """one structural mutation of a node table; returns (table, name)"""
    p = [tuple(n) for n in p]
    n = len(p)
    k = rng.below(12)
    i = rng.below(n)
    if k == 0 and n >= 2:
        j = rng.below(n - 1)
        # swap two adjacent nodes, keeping references pointing at the same contents when possible
        a, b = p[j], p[j + 1]
        if j in pg.children(b):
            return p, "none"
        q = p[:j] + [b, a] + p[j + 2:]

        def fix(c):
            return j + 1 if c == j else (j if c == j + 1 else c)
        q = [_map_children(x, fix) for x in q]
        return q, "swap-adjacent"
    if k == 1:
        # unshare: duplicate node i right after itself and retarget one later reference
        q = p[:i + 1] + [p[i]] + [_map_children(x, lambda c: c + 1 if c > i else c) for x in p[i + 1:]]
        users = [u for u in range(i + 2, len(q)) if i in pg.children(q[u])]
        if users:
            u = rng.choice(users)
            done = [False]

            def once(c):
                if c == i and not done[0]:
                    done[0] = True
                    return i + 1
                return c
            q[u] = _map_children(q[u], once)
        return q, "duplicate-node"
    if k == 2 and p[i][0] in ("comp", "case", "pair"):
        q = list(p)
        q[i] = (p[i][0], p[i][2], p[i][1])
        return q, "swap-children"
    if k == 3:
        groups = [("comp", "case", "pair"), ("injl", "injr", "take", "drop"), ("iden", "unit")]
        for g in groups:
            if p[i][0] in g:
                q = list(p)
                q[i] = (rng.choice(g),) + p[i][1:]
                return q, "change-kind"
        return p, "none"
    if k == 4 and pg.children(p[i]) and i > 0:
        q = list(p)
        tgt = rng.below(i)
        first = [True]

        def re(c):
            if first[0]:
                first[0] = False
                return tgt
            return c
        q[i] = _map_children(p[i], re)
        return q, "retarget-child"
    if k == 5:
        # unreachable extra node
        extra = rng.choice([("unit",), ("iden",), ("wit", None)])
        q = p[:i] + [extra] + [_map_children(x, lambda c: c + 1 if c >= i else c) for x in p[i:]]
        return q, "insert-unreachable"
    if k == 6:
        h = ("hid", "".join("%02x" % v for v in rng.bytes(32)))
        q = list(p)
        q[i] = h
        return q, "node-to-hidden"
    if k == 7:
        hs = [j for j in range(n) if p[j][0] == "hid"]
        if hs:
            q = list(p)
            j = rng.choice(hs)
            q.insert(j + 1, p[j])
            q = q[:j + 2] + [_map_children(x, lambda c: c + 1 if c > j else c) for x in q[j + 2:]]
            return q, "duplicate-hidden"
        return p, "none"
    if k == 8 and n >= 2:
        # root is not last: append a copy of an inner node
        return p + [p[rng.below(n - 1)]], "extra-root"
    if k == 9 and p[i][0] == "word":
        q = list(p)
        m = max(0, p[i][1] + rng.choice([-1, 1]))
        q[i] = ("word", m, rng.bits(2 ** m))
        return q, "word-size"
    if k == 10 and p[i][0] == "disc" and p[i][2] is not None:
        q = list(p)
        q[i] = ("disc", p[i][1], None)
        return q, "disconnect-one-child"
    if k == 11 and p[i][0] == "wit" and p[i][1] is not None:
        q = list(p)
        w = list(p[i][1][-1])
        if w and rng.below(2):
            w[rng.below(len(w))] ^= 1
        elif rng.below(2):
            w = w + rng.bits(rng.range(1, 9))
        else:
            w = w[:rng.below(len(w) + 1)]
        q[i] = ("wit", ("c", w))
        return q, "witness-bits"
    return p, "none"


def _map_children(n, f):
    k = n[0]
    if k in ("injl", "injr", "take", "drop"):
        return (k, f(n[1]))
    if k in ("comp", "case", "pair"):
        a = f(n[1])
        return (k, a, f(n[2]))
    if k == "disc":
        a = f(n[1])
        return (k, a, None if n[2] is None else f(n[2]))
    return n


# ------------------------------------------------------------------ environment probes (independent expectation)
def word32(x):
    return [(x >> i) & 1 for i in range(31, -1, -1)]


def probe_cases(rng, env):
    """one-jet programs whose verdict follows from the parameters of the environment description alone:
    returns list of (pdl, expected kind, name).  env = 'env.seed.nin.nout.ix.annex.lock.seq'"""
    f = env.split(".")
    nin, nout, ix, annex, lock, seq = [int(x) for x in f[2:8]]
    out = []
    for jet, val in (("num_inputs", nin), ("num_outputs", nout), ("current_index", ix), ("lock_time", lock),
                     ("current_sequence", seq)):
        good = rng.below(2) == 0
        v = val if good else (val + rng.choice([1, 2, 255, 2**31])) % 2**32
        pdl = "jet.e.%s,word.5.%s,pair.0.1,jet.e.eq_32,comp.2.3,jet.e.verify,comp.4.5" % (jet, pg.bstr(word32(v)))
        out.append((pdl, 0 if good else 2, jet))
    h = "".join("%02x" % v for v in rng.bytes(32))
    # current_annex_hash : 1 -> 1 + 2^256 ; assert it is Right (annex present) or Left (absent)
    want_right = rng.below(2) == 0
    if want_right:
        pdl = "jet.e.current_annex_hash,unit,pair.0.1,hid.%s,unit,case.3.4,comp.2.5" % h
    else:
        pdl = "jet.e.current_annex_hash,unit,pair.0.1,unit,hid.%s,case.3.4,comp.2.5" % h
    present = annex in (1, 2)
    out.append((pdl, 0 if present == want_right else 1, "current_annex_hash"))
    return out
