(* C04, phase 2 - the error CLASS of the reference inference, characterised by the constraints as
   a SET (Infer/Rational.v), so that what is and what is not independent of the order is explicit:

     infer = Err (EBind 0)   <->  the constructors' constraints have no model even in infinite trees
     infer = Err (EBind 1)   <->  they have one, but not together with "root : 1 -> 1"
     infer = Err EOccurs     <->  all constraints have a model in infinite trees but no finite one
     infer = Ok _            <->  all constraints have a finite model

   (infer_class_char).  None of the right-hand sides mentions the order in which the equations are
   solved.  For two CONSTRUCTION orders of one DAG the variables are numbered differently; that the
   class is the same is stated in full (class_order_statement), proved here for the executable
   renumbering `Run.permute` on every program of at most 3 nodes over a 12-combinator alphabet x every
   order x program flag by computation (class_order_small), and compared on the implementation for
   all DAGs of <= 5 nodes (tools/props/c04.py). *)
From RS Require Import Lib.Tac Lib.Outcome Ty.Ty Core.Prog Infer.Constraints Infer.Unify Infer.Infer
  Infer.Principal Infer.Gen Infer.Theorems Infer.Order Infer.Run Infer.Rational.
Import ListNotations.
Local Open Scope outcome_scope.

(* ---- models of an appended store *)
Definition tsat_from (al : tval) (n : nat) (l : list bnd) : Prop :=
  forall k, (k < length l)%nat -> dholds itree teq tone tsum tprod al (n + k) (nth k l BFree).

Lemma tsat_app al s l : tsat al (s ++ l) <-> tsat al s /\ tsat_from al (length s) l.
Proof.
  unfold tsat, dsat, tsat_from. split.
  - intros H. split.
    + intros v Hv. specialize (H v ltac:(rewrite app_length; lia)). rewrite sget_app_l in H by exact Hv. exact H.
    + intros k Hk. specialize (H (length s + k)%nat ltac:(rewrite app_length; lia)). rewrite sget_app_r in H. exact H.
  - intros [H1 H2] v Hv. rewrite app_length in Hv. destruct (Nat.lt_ge_cases v (length s)) as [L|G].
    + rewrite sget_app_l by exact L. apply H1. exact L.
    + replace v with (length s + (v - length s))%nat by lia. rewrite sget_app_r. apply H2. lia.
Qed.

Lemma teqs_app al e1 e2 : teqs_hold al (e1 ++ e2) <-> teqs_hold al e1 /\ teqs_hold al e2.
Proof.
  unfold teqs_hold, deqs_hold. split.
  - intros H. split; intros x y Hin; apply H; apply in_or_app; auto.
  - intros [H1 H2] x y Hin. apply in_app_or in Hin. destruct Hin; auto.
Qed.

Lemma eqs_app al e1 e2 : eqs_hold al (e1 ++ e2) <-> eqs_hold al e1 /\ eqs_hold al e2.
Proof.
  unfold eqs_hold. split.
  - intros H. split; intros x y Hin; apply H; apply in_or_app; auto.
  - intros [H1 H2] x y Hin. apply in_app_or in Hin. destruct Hin; auto.
Qed.

(* solving keeps exactly the tree models (both directions) *)
Lemma t_solve_exact s s' eqs : wf s -> eqs_in (length s) eqs -> solve s eqs = Ok s' ->
  forall al, tsat al s' <-> (tsat al s /\ teqs_hold al eqs).
Proof.
  intros W In_ U al. split.
  - apply (t_solve_sound eqs s s' W In_ U).
  - intros [Sa E]. destruct (t_solve_complete eqs s al W In_ Sa E) as (s2 & U2 & S2). rewrite U in U2. injection U2 as <-. exact S2.
Qed.

Definition finite_model (s : store) (eqs : list (nat * nat)) : Prop :=
  exists al, sat al s /\ eqs_hold al eqs.

Theorem infer_class_char jt root p g rb re : gen jt p = Some g -> root_tmpl g root = Some (rb, re) ->
  let c0 := consistent (g_store g) (g_eqs g) in
  let c1 := consistent (g_store g ++ rb) (g_eqs g ++ re) in
  let fin := finite_model (g_store g ++ rb) (g_eqs g ++ re) in
  (infer jt root p = Err (EBind 0) <-> ~ c0) /\
  (infer jt root p = Err (EBind 1) <-> c0 /\ ~ c1) /\
  (infer jt root p = Err EOccurs <-> c1 /\ ~ fin) /\
  ((exists tau, infer jt root p = Ok tau) <-> fin).
Proof.
  intros G R c0 c1 fin.
  destruct (gen_nodes_inv jt p empty_g g ginv_empty G) as (Ig & _).
  pose proof (gi_wf _ Ig) as W0. pose proof (gi_eqs _ Ig) as E0.
  pose proof (solve_total _ _ W0 E0) as T1.
  pose proof (solve_ok_iff _ _ W0 E0) as O1.
  unfold infer. rewrite G, R.
  destruct (solve (g_store g) (g_eqs g)) as [s1|[]| |] eqn:S1; try contradiction; cbn [lift_solve obind].
  2:{ (* clash in the constructors *)
      assert (N0 : ~ c0) by (intros C; apply O1 in C; destruct C as (s' & C); discriminate).
      assert (N1 : ~ c1).
      { intros (al & Sa & E). apply N0. apply tsat_app in Sa. apply teqs_app in E. exists al. tauto. }
      repeat split; try tauto; try discriminate; try (intros _; exact N0).
      - intros (tau & H). discriminate.
      - intros (al & Sa & E). exfalso.
        apply sat_app in Sa. apply eqs_app in E.
        destruct (solve_complete _ _ al W0 E0 (proj1 Sa) (proj1 E)) as (s2 & U2 & _). congruence. }
  assert (C0 : c0) by (apply O1; eauto).
  destruct (pipeline_wf _ _ _ _ _ _ _ G R S1) as (_ & W1 & L1 & W1r & E1r & A1).
  pose proof (solve_total _ _ W1r E1r) as T2.
  pose proof (solve_ok_iff _ _ W1r E1r) as O2.
  (* tree models and finite models of (s1 ++ rb, re) are those of all constraints *)
  assert (M1 : consistent (s1 ++ rb) re <-> c1).
  { unfold c1, consistent. split; intros (al & Sa & E); exists al.
    - apply tsat_app in Sa. destruct Sa as [Sa Sr].
      apply (t_solve_exact _ _ _ W0 E0 S1) in Sa. destruct Sa as [Sa Eg].
      split; [apply tsat_app; split; [exact Sa|rewrite <- L1; exact Sr]|apply teqs_app; tauto].
    - apply tsat_app in Sa. apply teqs_app in E. destruct Sa as [Sa Sr]. destruct E as [Eg Er].
      split; [|exact Er]. apply tsat_app. split; [|rewrite L1; exact Sr].
      apply (t_solve_exact _ _ _ W0 E0 S1). tauto. }
  assert (F1 : finite_model (s1 ++ rb) re <-> fin).
  { unfold fin, finite_model. split; intros (al & Sa & E); exists al.
    - apply sat_app in Sa. destruct Sa as [Sa Sr].
      apply (solve_exact _ _ _ W0 E0 S1) in Sa. destruct Sa as [Sa Eg].
      split; [apply sat_app; split; [exact Sa|rewrite <- L1; exact Sr]|apply eqs_app; tauto].
    - apply sat_app in Sa. apply eqs_app in E. destruct Sa as [Sa Sr]. destruct E as [Eg Er].
      split; [|exact Er]. apply sat_app. split; [|rewrite L1; exact Sr].
      apply (solve_exact _ _ _ W0 E0 S1). tauto. }
  destruct (solve (s1 ++ rb) re) as [s2|[]| |] eqn:S2; try contradiction; cbn [lift_solve obind].
  2:{ assert (N1 : ~ c1) by (intros C; apply M1, O2 in C; destruct C as (s' & C); discriminate).
      repeat split; try tauto; try discriminate.
      - intros (tau & H). discriminate.
      - intros F. exfalso. apply F1 in F. destruct F as (al & Sa & E).
        destruct (solve_complete _ _ al W1r E1r Sa E) as (s3 & U3 & _). congruence. }
  assert (C1 : c1) by (apply M1, O2; eauto).
  destruct (solve_sound _ _ _ W1r E1r S2) as (W2 & L2 & _).
  assert (F2 : occurs_ok s2 = true <-> fin).
  { rewrite <- F1, (occurs_check_exact s2 W2). unfold finite_model. split; intros (al & H); exists al.
    - apply (solve_exact _ _ _ W1r E1r S2). exact H.
    - apply (solve_exact _ _ _ W1r E1r S2). exact H. }
  destruct (occurs_ok s2) eqn:O.
  - assert (Ff : fin) by (apply F2; reflexivity).
    repeat split; try tauto; try discriminate. eauto.
  - assert (Nf : ~ fin) by (intros F; apply F2 in F; discriminate).
    repeat split; try tauto; try discriminate. intros (tau & H). discriminate.
Qed.

(* ---- construction orders *)
Definition class_of (r : outcome ierr (list (option tarrow))) : N :=
  match r with
  | Ok _ => 0
  | Err EShape => 1
  | Err (EBind st) => (2 + st)%N
  | Err ECompleteMismatch => 6
  | Err EOccurs => 7
  | Panic _ => 8
  | OutOfFuel => 9
  end.

Definition root_of (program : bool) (p : prog) (pos : nat -> nat) : option nat :=
  if program then Some (pos (length p - 1)%nat) else None.

(* the full statement: every valid construction order of a table gives the same class *)
Definition class_order_statement : Prop :=
  forall (jt : jet_table) (program : bool) (p : prog) (order : list nat),
    valid_order (length p) order = true -> wf_from 0 p = true -> wf_from 0 (permute p order) = true ->
    class_of (infer jt (root_of program p (pos_of order)) (permute p order)) =
    class_of (infer jt (root_of program p (fun i => i)) p).

(* ---- the finite sweep *)
Definition sweep_jets : jet_table := [(0%N, 0%N, GProd (GWord 0) (GWord 4), GProd (GWord 0) (GWord 3))].

Definition alpha_nodes (k : nat) : list node :=
  [NIden; NUnit; NWord 0 [true]; NWord 3 [true; false; true; false; false; true; false; true]; NJet 0 0] ++
  flat_map (fun c => [NInjL c; NInjR c; NTake c; NDrop c] ++
                     flat_map (fun d => [NComp c d; NCase c d; NPair c d]) (seq 0 k)) (seq 0 k).

Fixpoint all_tables (n : nat) : list prog :=
  match n with
  | O => [[]]
  | S k => flat_map (fun t => map (fun x => t ++ [x]) (alpha_nodes k)) (all_tables k)
  end.

Fixpoint insert_all (x : nat) (l : list nat) : list (list nat) :=
  match l with
  | [] => [[x]]
  | y :: r => (x :: l) :: map (cons y) (insert_all x r)
  end.

Fixpoint perms (l : list nat) : list (list nat) :=
  match l with
  | [] => [[]]
  | x :: r => flat_map (insert_all x) (perms r)
  end.

Definition check_table (p : prog) : bool :=
  forallb (fun order =>
    if (valid_order (length p) order && wf_from 0 (permute p order))%bool then
      forallb (fun program =>
        N.eqb (class_of (infer sweep_jets (root_of program p (pos_of order)) (permute p order)))
              (class_of (infer sweep_jets (root_of program p (fun i => i)) p))) [false; true]
    else true) (perms (seq 0 (length p))).

Theorem class_order_small :
  forallb check_table (all_tables 1 ++ all_tables 2 ++ all_tables 3) = true.
Proof. vm_compute. reflexivity. Qed.

Example class_order_small_counts :
  length (all_tables 1 ++ all_tables 2 ++ all_tables 3) = 1565%nat /\ length (perms (seq 0 3)) = 6%nat.
Proof. vm_compute. split; reflexivity. Qed.
