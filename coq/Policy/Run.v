(* C16 - executable entry points for the correspondence check: each maps a case (as generated
   by tools/props/c16.py) to the flat list of numbers that harness_policy prints.

   Roots are computed with the free hash (a root is the term of committed structure), i.e. the
   collision-free idealisation: root equalities are booleans the implementation must agree on. *)
From RS Require Import Lib.Tac Lib.Outcome Policy.PolicyAst Policy.Sort Policy.Compile Policy.Satisfy
  Policy.Sem Policy.Cost.
Import ListNotations.
Local Open Scope N_scope.

(* ------------------------------------------------------------------ the free hash *)
Inductive fh :=
| FIden | FUnit | FInjl (c : fh) | FInjr (c : fh) | FTake (c : fh) | FDrop (c : fh)
| FComp (a b : fh) | FCase (a b : fh) | FPair (a b : fh)
| FWitness | FFail (e : N) | FWord (w v : N) | FJet (j : jet).

Definition free_hf : hashfns fh :=
  {| h_iden := FIden; h_unit := FUnit; h_injl := FInjl; h_injr := FInjr; h_take := FTake; h_drop := FDrop;
     h_comp := FComp; h_case := FCase; h_pair := FPair; h_witness := FWitness; h_fail := FFail;
     h_word := FWord; h_jet := FJet |}.

Fixpoint fh_eq (a b : fh) : bool :=
  match a, b with
  | FIden, FIden | FUnit, FUnit | FWitness, FWitness => true
  | FInjl x, FInjl y | FInjr x, FInjr y | FTake x, FTake y | FDrop x, FDrop y => fh_eq x y
  | FComp x1 x2, FComp y1 y2 | FCase x1 x2, FCase y1 y2 | FPair x1 x2, FPair y1 y2 => fh_eq x1 y1 && fh_eq x2 y2
  | FFail x, FFail y => x =? y
  | FWord w x, FWord u y => (w =? u) && (x =? y)
  | FJet i, FJet j => jet_code i =? jet_code j
  | _, _ => false
  end.

Lemma fh_eq_refl a : fh_eq a a = true.
Proof. induction a; cbn [fh_eq]; rewrite ?IHa, ?IHa1, ?IHa2, ?N.eqb_refl; reflexivity. Qed.

Definition fh_eqb (a b : fh) : N := if fh_eq a b then 1 else 0.

Definition b2n (b : bool) : N := if b then 1 else 0.

(* ------------------------------------------------------------------ dumps *)
(* Keys and hash images are abstract numbers whose order is the order of the Rust values.  The
   cases use ranks: key i is the rank (1..8) of the x-only key among the harness's eight keys,
   image j is 100 + its rank among the eight images; the harness prints the same ranks, computed
   with the implementation's own `Ord`. *)
Definition limbs (v : N) : list N := [v / 2 ^ 128; v mod 2 ^ 128].

Fixpoint dump (p : policy) : list N :=
  match p with
  | Unsat e => [0; e]
  | Trivial => [1]
  | Key k => [2; k]
  | After n => [3; n]
  | Older n => [4; n]
  | Sha256 h => [5; h]
  | And l r => 6 :: dump l ++ dump r
  | Or l r => 7 :: dump l ++ dump r
  | Thresh k subs => 8 :: k :: N.of_nat (length subs) :: flat_map dump subs
  end.

Notation fnode := (node fh).

(* witnesses in post-order *)
Fixpoint wits_of (n : fnode) : list (option wval) :=
  match n with
  | NInjl c | NInjr c | NTake c | NDrop c | NAssertL c _ | NAssertR _ c => wits_of c
  | NComp a b | NCase a b | NPair a b => wits_of a ++ wits_of b
  | NWitness w => [w]
  | _ => []
  end.

Definition dump_wit (w : option wval) : list N :=
  match w with
  | Some (WBit b) => [1; b2n b]
  | Some (WSig k) => [2; k]
  | Some (WPre h) => [3; h]
  | None => [4]
  end.

Fixpoint nodes_of (n : fnode) : list fnode :=
  match n with
  | NInjl c | NInjr c | NTake c | NDrop c | NAssertL c _ | NAssertR _ c => nodes_of c ++ [n]
  | NComp a b | NCase a b | NPair a b => nodes_of a ++ nodes_of b ++ [n]
  | _ => [n]
  end.

Definition dump_node (n : fnode) : list N :=
  match n with
  | NIden => [0] | NUnit => [1] | NInjl _ => [2] | NInjr _ => [3] | NTake _ => [4] | NDrop _ => [5]
  | NComp _ _ => [6] | NCase _ _ => [7] | NAssertL _ _ => [8] | NAssertR _ _ => [9] | NPair _ _ => [10]
  | NWitness _ => [12] | NFail _ => [13]
  | NJet j => [14; jet_code j]
  | NWord w v => [15; w; v]
  end.

(* ------------------------------------------------------------------ kinds *)
Definition run_jets : list N :=
  CONSENSUS_MAX :: flat_map (fun j => [jet_cost j; pwidth (jet_src j); pwidth (jet_tgt j)]) all_jets.

Definition roots_flag (p : policy) : N :=
  match policy_cmr free_hf p, policy_commit fh p with
  | Ok h, Ok n => fh_eqb h (cmr free_hf n)
  | _, _ => 9
  end.

Definition policy_eqb (p q : policy) : bool := match pcmp p q with Eq => true | _ => false end.

Definition run_pol (p : policy) : list N :=
  let s := sort p in
  roots_flag p :: b2n (policy_eqb (sort s) s) :: dump s.

Definition run_norm (p : policy) : list N := dump (normalized p).

Definition run_perm (p q : policy) : list N :=
  b2n (policy_eqb (sort p) (sort q)) :: dump (sort p) ++ dump (sort q).

(* the environment as far as the two lock-time jets read it (C: env.c / elementsJets.c;
   one input, transaction version 2) *)
Definition lock_height (lock_time sequence : N) : N :=
  if sequence =? 4294967295 then 0                 (* all inputs final: the lock time is disabled *)
  else if lock_time <? HEIGHT_LIMIT then lock_time else 0.

Definition lock_distance (sequence : N) : N :=
  if sequence <? 2 ^ 31 then (if N.testbit sequence 22 then 0 else sequence mod 2 ^ 16) else 0.

Definition mk_env (lock_time sequence : N) : envo :=
  {| e_verify := fun k m sg => match m, sg with VMsg, VSig k' => k =? k' | _, _ => false end;
     e_lock_height := lock_height lock_time sequence;
     e_lock_distance := lock_distance sequence;
     e_sha := fun l => match l with [VPre h] => h | _ => 0 end |}.

Definition memN (x : N) (l : list N) : bool := existsb (N.eqb x) l.

Definition mk_sat (after_max older_max : N) (keys pres : list N) : satisfier :=
  {| s_sig := fun k => memN k keys; s_pre := fun h => memN h pres;
     s_after := fun n => n <=? after_max; s_older := fun n => n <=? older_max |}.

Definition run_sat (p : policy) (lock_time sequence after_max older_max : N) (keys pres : list N) : list N :=
  let e := mk_env lock_time sequence in
  let s := mk_sat after_max older_max keys pres in
  roots_flag p ::
  match satisfy free_hf fh_eq e (fin_cost (H := fh)) CONSENSUS_MAX s p with
  | Panic _ => [9]
  | OutOfFuel => [8]
  | Err Unsatisfiable => [0]
  | Err AssemblyFailed => [2]
  | Ok prog =>
      let ws := wits_of prog in
      let ns := nodes_of prog in
      [1;
       match policy_cmr free_hf p with Ok h => fh_eqb h (cmr free_hf prog) | _ => 9 end;
       match eval e prog VUnit with Some VUnit => 1 | _ => 0 end;
       match fin_cost prog with Some k => k | None => 0 end;
       N.of_nat (length ws)] ++ flat_map dump_wit ws ++ N.of_nat (length ns) :: flat_map dump_node ns
  end.

(* the two satisfiers that satisfy.rs provides: (&Context, LockTime) and (&Context, Sequence) *)
Definition lib_check_after (self_lock_time n : N) : bool :=
  (* (Blocks(n), Blocks(lock_time)) => n <= lock_time; different units => false.  n is a height. *)
  (self_lock_time <? HEIGHT_LIMIT) && (n <=? self_lock_time).

Definition relative_blocks (sequence : N) : option N :=
  (* bitcoin::Sequence::to_relative_lock_time: None if bit 31 is set; Time if bit 22 is set *)
  if 2 ^ 31 <=? sequence then None
  else if N.testbit sequence 22 then None else Some (sequence mod 2 ^ 16).

Definition lib_check_older (self_sequence n : N) : bool :=
  match relative_blocks self_sequence, relative_blocks n with
  | Some lock, Some m => m <=? lock
  | _, _ => false
  end.

Definition run_lib (lock_time sequence n_after n_older : N) : list N :=
  [b2n (lib_check_after lock_time n_after); b2n (lib_check_older sequence n_older);
   b2n (n_after <=? lock_height lock_time sequence); b2n (n_older <=? lock_distance sequence)].

(* ------------------------------------------------------------------ sanity *)
Example run_pol_example :
  run_pol (And (Or (After 1) (After 2)) (After 3)) = [1; 1; 6; 7; 3; 2; 3; 1; 3; 3].
Proof. vm_compute. reflexivity. Qed.

Example run_sat_example :
  run_sat (After 41) 42 0 42 0 [] [] = [1; 1; 1; 1; 441; 0; 3; 15; 32; 41; 14; 2; 6].
Proof. vm_compute. reflexivity. Qed.
