(* C04, phase 2 - model of src/types/union_bound.rs AS WRITTEN.

   A `UbElement` is an `Arc<GhostCell<UbInner>>`: here an index into a heap of cells
       UbInner { data : Root(T) | EqualTo(UbElement), rank : usize }
   with T = BoundRef = index into the slab of bounds (types/context.rs).

     UbElement::new            -> ub_new
     UbElement::root_element   -> root_element   (the PATH HALVING loop, statement by statement)
     UbElement::root           -> root
     UbElement::unify          -> ub_unify       (rank comparison, swap, rank increment BEFORE the
                                                  callback, `y.data := EqualTo(x)` BEFORE the callback,
                                                  restored when the callback fails; the rank is NOT
                                                  restored), generic in the callback and its state

   Theorems (this file): under the rank invariant `uf_wf` (every parent has a strictly larger rank,
   which `ub_link` - the linking step of unify - preserves),
     root_element returns the representative `rep` of its argument, never runs out of the fuel
     `uf_fuel` (1 + the largest rank), keeps the invariant and does NOT change the represented
     partition: `rep` of every element is the same before and after (path halving only shortcuts);
     linking two distinct roots merges exactly their two classes. *)
From RS Require Import Lib.Tac Lib.Outcome.
Import ListNotations.
Local Open Scope outcome_scope.

Inductive ubdata : Type :=
| URoot (b : nat)          (* UbData::Root(BoundRef) *)
| UEq (p : nat).           (* UbData::EqualTo(UbElement) *)

Record ubelt : Type := mk_ub { ub_data : ubdata; ub_rank : N }.

Definition uf := list ubelt.

Definition usize_max : N := 18446744073709551615.

Definition ufget (u : uf) (e : nat) : ubelt := nth e u (mk_ub (URoot 0) 0).

Fixpoint ufset (u : uf) (e : nat) (x : ubelt) : uf :=
  match u, e with
  | [], _ => []
  | _ :: r, O => x :: r
  | y :: r, S k => y :: ufset r k x
  end.

Definition set_data (u : uf) (e : nat) (d : ubdata) : uf := ufset u e (mk_ub d (ub_rank (ufget u e))).
Definition set_rank (u : uf) (e : nat) (r : N) : uf := ufset u e (mk_ub (ub_data (ufget u e)) r).

(* UbElement::new: a singleton class, rank 0; returns the new heap and the element *)
Definition ub_new (u : uf) (b : nat) : uf * nat := (u ++ [mk_ub (URoot b) 0], length u).

(* UbElement::root_element: the loop of the Rust function; one turn = one fuel *)
Fixpoint root_element (fuel : nat) (u : uf) (x : nat) : outcome unit (uf * nat) :=
  match fuel with
  | O => OutOfFuel
  | S f =>
      match ub_data (ufget u x) with
      | URoot _ => Ok (u, x)
      | UEq parent =>
          match ub_data (ufget u parent) with
          | URoot _ => Ok (u, parent)
          | UEq grandparent =>
              (* x.data = EqualTo(grandparent); x = grandparent *)
              root_element f (set_data u x (UEq grandparent)) grandparent
          end
      end
  end.

Fixpoint max_rank (u : uf) : N :=
  match u with
  | [] => 0
  | x :: r => N.max (ub_rank x) (max_rank r)
  end.

(* enough fuel for every root_element on this heap (see root_element_spec) *)
Definition uf_fuel (u : uf) : nat := S (N.to_nat (max_rank u)).

(* data.unwrap_root(): `unreachable!()` on a non-root is a panic *)
Definition unwrap_root (u : uf) (e : nat) : outcome unit nat :=
  match ub_data (ufget u e) with
  | URoot b => Ok b
  | UEq _ => Panic 1
  end.

(* UbElement::root: representative's data *)
Definition root (u : uf) (e : nat) : outcome unit (uf * nat) :=
  '(u1, r) <- root_element (uf_fuel u) u e ;;
  b <- unwrap_root u1 r ;;
  Ok (u1, b).

(* UbElement::unify, generic in the state S that carries the heap (WithGhostToken<D>) and in the
   callback.  The callback gets the bound of the representative that is KEPT and the bound of the one
   that is dropped; on its failure the old data of y is put back. *)
Section Unify.
  Context {S E : Type}.
  Variable get_uf : S -> uf.
  Variable put_uf : S -> uf -> S.
  (* the failing callback returns its error together with the state it left behind *)
  Variable bind_fn : S -> nat -> nat -> outcome (E * S) S.

  Definition lift_unit {A} (o : outcome unit A) : outcome (E * S) A :=
    match o with
    | Ok a => Ok a
    | Err _ => Panic 2
    | Panic c => Panic c
    | OutOfFuel => OutOfFuel
    end.

  Definition ub_unify (st : S) (x y : nat) : outcome (E * S) S :=
    let u := get_uf st in
    '(u1, x_root) <- lift_unit (root_element (uf_fuel u) u x) ;;
    '(u2, y_root) <- lift_unit (root_element (uf_fuel u1) u1 y) ;;
    xb <- lift_unit (unwrap_root u2 x_root) ;;
    yb <- lift_unit (unwrap_root u2 y_root) ;;
    if Nat.eqb xb yb then Ok (put_uf st u2) else
    let rx := ub_rank (ufget u2 x_root) in
    let ry := ub_rank (ufget u2 y_root) in
    (* swap so that x has rank >= y; on equal ranks x.rank += 1 (assert_ne!(rank, usize::MAX)) *)
    let '(x_root, y_root) := if N.ltb rx ry then (y_root, x_root) else (x_root, y_root) in
    if (N.eqb rx ry && N.eqb rx usize_max)%bool then Panic 3 else
    let u3 := if N.eqb rx ry then set_rank u2 x_root (rx + 1) else u2 in
    x_data <- lift_unit (unwrap_root u3 x_root) ;;
    let old_y_data := ub_data (ufget u3 y_root) in
    let u4 := set_data u3 y_root (UEq x_root) in
    match old_y_data with
    | UEq _ => Panic 4
    | URoot y_data =>
        match bind_fn (put_uf st u4) x_data y_data with
        | Ok st' => Ok st'
        | Err (e, st') => Err (e, put_uf st' (set_data (get_uf st') y_root old_y_data))
        | Panic c => Panic c
        | OutOfFuel => OutOfFuel
        end
    end.
End Unify.

(* ================================================================== the union-find layer, proved *)

Lemma ufset_length u : forall e x, length (ufset u e x) = length u.
Proof. induction u as [|y r IH]; intros [|e] x; cbn; auto. Qed.

Lemma ufget_ufset_eq u : forall e x, (e < length u)%nat -> ufget (ufset u e x) e = x.
Proof.
  unfold ufget. induction u as [|y r IH]; intros [|e] x H; cbn in *; try lia; auto. all: try (apply IH; lia).
Qed.

Lemma ufget_ufset_neq u : forall e e' x, e <> e' -> ufget (ufset u e x) e' = ufget u e'.
Proof.
  unfold ufget. induction u as [|y r IH]; intros [|e] [|e'] x H; cbn; auto; try lia. all: try (apply IH; lia).
Qed.

Lemma set_data_length u e d : length (set_data u e d) = length u.
Proof. apply ufset_length. Qed.

Lemma set_rank_length u e r : length (set_rank u e r) = length u.
Proof. apply ufset_length. Qed.

(* the rank invariant of union by rank: parents are allocated and have a strictly larger rank *)
Definition uf_wf (u : uf) : Prop :=
  forall e, (e < length u)%nat ->
    match ub_data (ufget u e) with
    | UEq p => (p < length u)%nat /\ (ub_rank (ufget u e) < ub_rank (ufget u p))%N
    | URoot _ => True
    end.

Lemma max_rank_ge u : forall e, (e < length u)%nat -> (ub_rank (ufget u e) <= max_rank u)%N.
Proof.
  unfold ufget. induction u as [|x r IH]; intros [|e] H; cbn [length] in H; try lia; cbn [nth max_rank]; [lia|].
  specialize (IH e ltac:(lia)). lia.
Qed.

(* the representative, without mutation *)
Fixpoint rep_f (fuel : nat) (u : uf) (x : nat) : nat :=
  match fuel with
  | O => x
  | S f => match ub_data (ufget u x) with
           | URoot _ => x
           | UEq p => rep_f f u p
           end
  end.

Definition rep (u : uf) (x : nat) : nat := rep_f (uf_fuel u) u x.

Definition is_uroot (u : uf) (e : nat) : Prop :=
  match ub_data (ufget u e) with URoot _ => True | UEq _ => False end.

(* with enough fuel (more than max_rank - rank x) rep_f reaches a root and is fuel-independent *)
Lemma rep_f_spec u : uf_wf u -> forall fuel x, (x < length u)%nat ->
  (N.to_nat (max_rank u) - N.to_nat (ub_rank (ufget u x)) < fuel)%nat ->
  is_uroot u (rep_f fuel u x) /\ (rep_f fuel u x < length u)%nat /\
  (ub_rank (ufget u x) <= ub_rank (ufget u (rep_f fuel u x)))%N /\
  forall fuel', (N.to_nat (max_rank u) - N.to_nat (ub_rank (ufget u x)) < fuel')%nat -> rep_f fuel' u x = rep_f fuel u x.
Proof.
  intros W. induction fuel as [|f IH]; intros x Hx Hf; [lia|].
  cbn [rep_f]. pose proof (W x Hx) as Wx. unfold is_uroot.
  destruct (ub_data (ufget u x)) as [b|p] eqn:E.
  - rewrite E. repeat split; auto; try lia. intros [|f'] Hf'; [lia|]. cbn [rep_f]. rewrite E. reflexivity.
  - destruct Wx as [Lp Rk]. pose proof (max_rank_ge u p Lp) as Mp.
    destruct (IH p Lp ltac:(lia)) as (R & L & K & F).
    repeat split; auto; try lia. intros [|f'] Hf'; [lia|]. cbn [rep_f]. rewrite E. apply F. lia.
Qed.

Lemma rep_root u x : uf_wf u -> (x < length u)%nat -> is_uroot u (rep u x) /\ (rep u x < length u)%nat.
Proof.
  intros W Hx. unfold rep, uf_fuel. pose proof (max_rank_ge u x Hx).
  destruct (rep_f_spec u W (S (N.to_nat (max_rank u))) x Hx ltac:(lia)) as (R & L & _). auto.
Qed.

Lemma rep_of_root u x : is_uroot u x -> rep u x = x.
Proof. unfold is_uroot, rep, uf_fuel. cbn [rep_f]. destruct (ub_data (ufget u x)); tauto. Qed.

Lemma rep_step u x p : uf_wf u -> (x < length u)%nat -> ub_data (ufget u x) = UEq p -> rep u x = rep u p.
Proof.
  intros W Hx E. unfold rep at 1. unfold uf_fuel. cbn [rep_f]. rewrite E.
  pose proof (W x Hx) as Wx. rewrite E in Wx. destruct Wx as [Lp Rk].
  pose proof (max_rank_ge u p Lp).
  destruct (rep_f_spec u W (N.to_nat (max_rank u)) p Lp ltac:(lia)) as (_ & _ & _ & F).
  unfold rep, uf_fuel. symmetry. apply F. lia.
Qed.

(* any heap with the same parent pointers up to shortcuts: we compare representatives through a
   generic lemma: if u' agrees with u except that x now points to an ANCESTOR of x with a larger
   rank, all representatives are unchanged. *)
Lemma set_data_wf u x g : uf_wf u -> (x < length u)%nat -> (g < length u)%nat ->
  (ub_rank (ufget u x) < ub_rank (ufget u g))%N -> uf_wf (set_data u x (UEq g)).
Proof.
  intros W Hx Hg Rk e He. unfold set_data in *. rewrite ufset_length in *.
  destruct (Nat.eq_dec x e) as [<-|N].
  - rewrite ufget_ufset_eq by exact Hx. cbn [ub_data ub_rank]. split; [exact Hg|].
    destruct (Nat.eq_dec x g) as [<-|Ng]; [lia|]. rewrite ufget_ufset_neq by exact Ng. exact Rk.
  - rewrite ufget_ufset_neq by exact N. pose proof (W e He) as We.
    destruct (ub_data (ufget u e)) as [b|p]; [exact I|]. destruct We as [Lp Rp]. split; [exact Lp|].
    destruct (Nat.eq_dec x p) as [<-|Np].
    + rewrite ufget_ufset_eq by exact Hx. cbn [ub_rank]. exact Rp.
    + rewrite ufget_ufset_neq by exact Np. exact Rp.
Qed.

Lemma max_rank_ufset_same u : forall e x, (e < length u)%nat -> ub_rank x = ub_rank (ufget u e) ->
  max_rank (ufset u e x) = max_rank u.
Proof.
  unfold ufget. induction u as [|y r IH]; intros [|e] x H Hr; cbn [length] in H; try lia; cbn [ufset max_rank nth] in *.
  - rewrite Hr. reflexivity.
  - rewrite (IH e x ltac:(lia) Hr). reflexivity.
Qed.

Lemma set_data_max_rank u x d : (x < length u)%nat -> max_rank (set_data u x d) = max_rank u.
Proof. intros H. unfold set_data. apply max_rank_ufset_same; [exact H|reflexivity]. Qed.

Lemma set_data_rank u x d e : (x < length u)%nat -> ub_rank (ufget (set_data u x d) e) = ub_rank (ufget u e).
Proof.
  intros H. unfold set_data. destruct (Nat.eq_dec x e) as [<-|N].
  - rewrite ufget_ufset_eq by exact H. reflexivity.
  - rewrite ufget_ufset_neq by exact N. reflexivity.
Qed.

(* path halving keeps every representative: x is re-pointed to its grandparent *)
Lemma halve_rep u x p g : uf_wf u -> (x < length u)%nat ->
  ub_data (ufget u x) = UEq p -> ub_data (ufget u p) = UEq g ->
  uf_wf (set_data u x (UEq g)) /\ forall e, (e < length u)%nat -> rep (set_data u x (UEq g)) e = rep u e.
Proof.
  intros W Hx Ex Ep.
  pose proof (W x Hx) as Wx. rewrite Ex in Wx. destruct Wx as [Lp Rxp].
  pose proof (W p Lp) as Wp. rewrite Ep in Wp. destruct Wp as [Lg Rpg].
  assert (W' : uf_wf (set_data u x (UEq g))) by (apply set_data_wf; auto; lia).
  split; [exact W'|].
  set (u' := set_data u x (UEq g)) in *.
  assert (Len : length u' = length u) by apply set_data_length.
  (* induction on the distance to the top: max_rank - rank e *)
  assert (H : forall k e, (e < length u)%nat -> (N.to_nat (max_rank u) - N.to_nat (ub_rank (ufget u e)) < k)%nat ->
                rep u' e = rep u e).
  { induction k as [|k IH]; intros e He Hk; [lia|].
    destruct (Nat.eq_dec x e) as [<-|Ne].
    - (* x itself: rep u' x = rep u' g = rep u g = rep u p = rep u x *)
      assert (E' : ub_data (ufget u' x) = UEq g).
      { unfold u', set_data. rewrite ufget_ufset_eq by exact Hx. reflexivity. }
      rewrite (rep_step u' x g W' ltac:(lia) E').
      rewrite (rep_step u x p W Hx Ex), (rep_step u p g W Lp Ep).
      apply IH; [exact Lg|]. pose proof (max_rank_ge u g Lg). lia.
    - assert (E' : ub_data (ufget u' e) = ub_data (ufget u e)).
      { unfold u', set_data. rewrite ufget_ufset_neq by exact Ne. reflexivity. }
      destruct (ub_data (ufget u e)) as [b|q] eqn:Ee.
      + rewrite (rep_of_root u' e), (rep_of_root u e); auto; unfold is_uroot; rewrite ?E', ?Ee; exact I.
      + pose proof (W e He) as We. rewrite Ee in We. destruct We as [Lq Rq].
        rewrite (rep_step u' e q W' ltac:(lia) E'), (rep_step u e q W He Ee).
        apply IH; [exact Lq|]. pose proof (max_rank_ge u q Lq). lia. }
  intros e He. apply (H (S (N.to_nat (max_rank u))) e He). lia.
Qed.

(* root_element: returns the representative, never out of the fuel uf_fuel, keeps the invariant, the
   length, the ranks, the roots' data and the whole partition *)
Theorem root_element_spec : forall fuel u x, uf_wf u -> (x < length u)%nat ->
  (N.to_nat (max_rank u) - N.to_nat (ub_rank (ufget u x)) < fuel)%nat ->
  exists u', root_element fuel u x = Ok (u', rep u x) /\ uf_wf u' /\ length u' = length u /\
    max_rank u' = max_rank u /\
    (forall e, ub_rank (ufget u' e) = ub_rank (ufget u e)) /\
    (forall e, (e < length u)%nat -> rep u' e = rep u e) /\
    (forall e, is_uroot u e -> ufget u' e = ufget u e) /\
    (forall e, is_uroot u' e -> is_uroot u e).
Proof.
  induction fuel as [|f IH]; intros u x W Hx Hf; [lia|].
  cbn [root_element]. pose proof (W x Hx) as Wx.
  destruct (ub_data (ufget u x)) as [b|p] eqn:Ex.
  - exists u. rewrite (rep_of_root u x) by (unfold is_uroot; rewrite Ex; exact I). repeat split; auto.
  - destruct Wx as [Lp Rxp]. pose proof (W p Lp) as Wp.
    destruct (ub_data (ufget u p)) as [b|g] eqn:Ep.
    + exists u. rewrite (rep_step u x p W Hx Ex), (rep_of_root u p) by (unfold is_uroot; rewrite Ep; exact I).
      repeat split; auto.
    + destruct Wp as [Lg Rpg].
      destruct (halve_rep u x p g W Hx Ex Ep) as [W' R'].
      set (u1 := set_data u x (UEq g)) in *.
      assert (L1 : length u1 = length u) by apply set_data_length.
      assert (M1 : max_rank u1 = max_rank u) by (apply set_data_max_rank; exact Hx).
      assert (K1 : forall e, ub_rank (ufget u1 e) = ub_rank (ufget u e)) by (intros e; apply set_data_rank; exact Hx).
      pose proof (max_rank_ge u g Lg) as Mg.
      destruct (IH u1 g W' ltac:(lia) ltac:(rewrite M1, K1; lia)) as (u' & E & W2 & L2 & M2 & K2 & R2 & D2 & I2).
      exists u'. rewrite E. rewrite (R' g Lg).
      rewrite (rep_step u x p W Hx Ex), (rep_step u p g W Lp Ep).
      split; [reflexivity|]. split; [exact W2|]. split; [lia|]. split; [congruence|].
      split; [intros e; rewrite K2, K1; reflexivity|].
      split; [intros e He; rewrite R2 by lia; apply R'; exact He|].
      assert (Dx : forall e, is_uroot u e -> ufget u1 e = ufget u e).
      { intros e He. unfold u1, set_data. destruct (Nat.eq_dec x e) as [<-|N].
        - unfold is_uroot in He. rewrite Ex in He. tauto.
        - apply ufget_ufset_neq. exact N. }
      split.
      * intros e He. rewrite D2; [apply Dx; exact He|]. unfold is_uroot in *. rewrite (Dx e He). exact He.
      * intros e He. specialize (I2 e He). unfold is_uroot in *. unfold u1, set_data in I2.
        destruct (Nat.eq_dec x e) as [<-|N].
        -- rewrite ufget_ufset_eq in I2 by exact Hx. cbn in I2. tauto.
        -- rewrite ufget_ufset_neq in I2 by exact N. exact I2.
Qed.

Corollary root_element_ok u x : uf_wf u -> (x < length u)%nat ->
  exists u', root_element (uf_fuel u) u x = Ok (u', rep u x) /\ uf_wf u' /\ length u' = length u /\
    max_rank u' = max_rank u /\
    (forall e, ub_rank (ufget u' e) = ub_rank (ufget u e)) /\
    (forall e, (e < length u)%nat -> rep u' e = rep u e) /\
    (forall e, is_uroot u e -> ufget u' e = ufget u e) /\
    (forall e, is_uroot u' e -> is_uroot u e).
Proof. intros W Hx. apply root_element_spec; auto. unfold uf_fuel. lia. Qed.

(* ---- the linking step of unify: y_root.data := EqualTo(x_root), after the rank adjustment *)
Definition ub_link (u : uf) (x_root y_root : nat) : uf :=
  let rx := ub_rank (ufget u x_root) in
  let ry := ub_rank (ufget u y_root) in
  let u3 := if N.eqb rx ry then set_rank u x_root (rx + 1) else u in
  set_data u3 y_root (UEq x_root).

Lemma set_rank_wf u x r : uf_wf u -> is_uroot u x -> (ub_rank (ufget u x) <= r)%N -> uf_wf (set_rank u x r).
Proof.
  intros W R Le e He. unfold set_rank in *. rewrite ufset_length in *.
  destruct (Nat.eq_dec x e) as [<-|N].
  - rewrite ufget_ufset_eq by exact He. cbn [ub_data]. unfold is_uroot in R. destruct (ub_data (ufget u x)); tauto.
  - rewrite ufget_ufset_neq by exact N. pose proof (W e He) as We.
    destruct (ub_data (ufget u e)) as [b|p]; [exact I|]. destruct We as [Lp Rp]. split; [exact Lp|].
    destruct (Nat.eq_dec x p) as [<-|Np].
    + rewrite ufget_ufset_eq by exact Lp. cbn [ub_rank]. lia.
    + rewrite ufget_ufset_neq by exact Np. exact Rp.
Qed.

Lemma set_rank_rep u x r : uf_wf u -> is_uroot u x -> (ub_rank (ufget u x) <= r)%N ->
  forall e, (e < length u)%nat -> rep (set_rank u x r) e = rep u e.
Proof.
  intros W R Le.
  pose proof (set_rank_wf u x r W R Le) as W'.
  set (u' := set_rank u x r) in *.
  assert (D : forall e, ub_data (ufget u' e) = ub_data (ufget u e)).
  { intros e. unfold u', set_rank. destruct (Nat.eq_dec x e) as [<-|N].
    - destruct (Nat.lt_ge_cases x (length u)) as [H|H].
      + rewrite ufget_ufset_eq by exact H. reflexivity.
      + unfold ufget. rewrite !nth_overflow; auto; rewrite ?ufset_length; lia.
    - rewrite ufget_ufset_neq by exact N. reflexivity. }
  assert (H : forall k e, (e < length u)%nat -> (N.to_nat (max_rank u) - N.to_nat (ub_rank (ufget u e)) < k)%nat ->
                rep u' e = rep u e).
  { induction k as [|k IH]; intros e He Hk; [lia|].
    destruct (ub_data (ufget u e)) as [b|q] eqn:Ee.
    - rewrite (rep_of_root u' e), (rep_of_root u e); auto; unfold is_uroot; rewrite ?D, ?Ee; exact I.
    - pose proof (W e He) as We. rewrite Ee in We. destruct We as [Lq Rq].
      rewrite (rep_step u' e q W' ltac:(unfold u', set_rank; rewrite ufset_length; exact He) ltac:(rewrite D; exact Ee)),
              (rep_step u e q W He Ee).
      apply IH; [exact Lq|]. pose proof (max_rank_ge u q Lq). lia. }
  intros e He. apply (H (S (N.to_nat (max_rank u))) e He). lia.
Qed.

(* linking two distinct roots, the one that is kept having the larger (or, after the increment, a
   strictly larger) rank: the invariant holds and exactly the two classes are merged *)
Theorem ub_link_spec u x y : uf_wf u -> (x < length u)%nat -> (y < length u)%nat ->
  is_uroot u x -> is_uroot u y -> x <> y -> (ub_rank (ufget u y) <= ub_rank (ufget u x))%N ->
  uf_wf (ub_link u x y) /\ length (ub_link u x y) = length u /\
  forall e, (e < length u)%nat -> rep (ub_link u x y) e = if Nat.eqb (rep u e) y then x else rep u e.
Proof.
  intros W Hx Hy Rx Ry Nxy Rk. unfold ub_link.
  set (rx := ub_rank (ufget u x)) in *. set (ry := ub_rank (ufget u y)) in *.
  set (u3 := if N.eqb rx ry then set_rank u x (rx + 1) else u).
  assert (W3 : uf_wf u3).
  { unfold u3. destruct (N.eqb rx ry); [apply set_rank_wf; auto; fold rx; lia|exact W]. }
  assert (L3 : length u3 = length u).
  { unfold u3. destruct (N.eqb rx ry); [apply set_rank_length|reflexivity]. }
  assert (R3 : forall e, (e < length u)%nat -> rep u3 e = rep u e).
  { unfold u3. destruct (N.eqb rx ry); [apply set_rank_rep; auto; fold rx; lia|auto]. }
  assert (D3 : forall e, ub_data (ufget u3 e) = ub_data (ufget u e)).
  { intros e. unfold u3. destruct (N.eqb rx ry); [|reflexivity]. unfold set_rank.
    destruct (Nat.eq_dec x e) as [<-|N].
    - rewrite ufget_ufset_eq by exact Hx. reflexivity.
    - rewrite ufget_ufset_neq by exact N. reflexivity. }
  assert (K3 : (ub_rank (ufget u3 y) < ub_rank (ufget u3 x))%N).
  { unfold u3. destruct (N.eqb rx ry) eqn:E.
    - apply N.eqb_eq in E. unfold set_rank. rewrite ufget_ufset_eq by exact Hx.
      rewrite ufget_ufset_neq by exact Nxy. cbn [ub_rank]. fold ry. lia.
    - apply N.eqb_neq in E. fold rx ry. lia. }
  assert (W4 : uf_wf (set_data u3 y (UEq x))) by (apply set_data_wf; auto; lia).
  split; [exact W4|]. split; [rewrite set_data_length; exact L3|].
  set (u4 := set_data u3 y (UEq x)) in *.
  assert (L4 : length u4 = length u) by (unfold u4; rewrite set_data_length; exact L3).
  assert (Rx4 : is_uroot u4 x).
  { unfold is_uroot, u4, set_data. rewrite ufget_ufset_neq by auto. rewrite D3. exact Rx. }
  assert (H : forall k e, (e < length u)%nat -> (N.to_nat (max_rank u3) - N.to_nat (ub_rank (ufget u3 e)) < k)%nat ->
                rep u4 e = if Nat.eqb (rep u3 e) y then x else rep u3 e).
  { induction k as [|k IH]; intros e He Hk; [lia|].
    destruct (Nat.eq_dec y e) as [<-|Ne].
    - assert (E4 : ub_data (ufget u4 y) = UEq x).
      { unfold u4, set_data. rewrite ufget_ufset_eq by lia. reflexivity. }
      rewrite (rep_step u4 y x W4 ltac:(lia) E4), (rep_of_root u4 x Rx4).
      rewrite (rep_of_root u3 y) by (unfold is_uroot; rewrite D3; exact Ry). rewrite Nat.eqb_refl. reflexivity.
    - assert (E4 : ub_data (ufget u4 e) = ub_data (ufget u3 e)).
      { unfold u4, set_data. rewrite ufget_ufset_neq by exact Ne. reflexivity. }
      destruct (ub_data (ufget u3 e)) as [b|q] eqn:Ee.
      + rewrite (rep_of_root u4 e), (rep_of_root u3 e); try (unfold is_uroot; rewrite ?E4, ?Ee; exact I).
        destruct (Nat.eqb_spec e y); [congruence|reflexivity].
      + pose proof (W3 e ltac:(lia)) as We. rewrite Ee in We. destruct We as [Lq Rq].
        rewrite (rep_step u4 e q W4 ltac:(lia) E4), (rep_step u3 e q W3 ltac:(lia) Ee).
        apply IH; [lia|]. pose proof (max_rank_ge u3 q Lq). lia. }
  intros e He. rewrite (H (S (N.to_nat (max_rank u3))) e He) by lia. rewrite (R3 e He). reflexivity.
Qed.
