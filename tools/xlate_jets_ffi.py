#!/usr/bin/env python3
"""Helper of xlate_jets.py: the foreign-function interface of simplicity-sys.
Rust side: every item of every `extern "C" { }` block, the `extern "C" fn` callback type aliases and the
`#[no_mangle] extern "C" fn` definitions; C side: the prototype (or object declaration) each one links to.
Types are parsed structurally and classified into portable scalar classes / named structs / pointers."""
import os
import re
from xlate_jets_rust import TranslateError

# ------------------------------------------------------------------------------------ type syntax
# structural types: ('s', scalar class) | ('n', struct name) | ('p', is_const, T) | ('a', T) | ('cb', alias name)

RUST_SCALARS = {
    "()": "KVoid", "c_void": "KVoid", "bool": "KBool",
    "i32": "KI32", "c_int": "KI32",
    "u32": "KU32", "c_uint": "KU32", "c_uint_least32_t": "KU32", "ubounded": "KU32",
    "u8": "KU8", "c_uchar": "KU8", "c_uint_fast8_t": "KU8",
    "usize": "KSize", "c_size_t": "KSize",
    "UWORD": "KUFast16", "c_uint_fast16_t": "KUFast16",
    "c_uint_fast32_t": "KUFast32",
    "u64": "KU64",
    "SimplicityErr": "KErr",
}
# aliases the table above relies on; each is checked against the source text
RUST_ALIAS_CHECKS = [
    ("src/ffi.rs", r"pub type c_uchar = u8;"), ("src/ffi.rs", r"pub type c_int = i32;"),
    ("src/ffi.rs", r"pub type c_uint = u32;"), ("src/ffi.rs", r"pub type c_size_t = usize;"),
    ("src/ffi.rs", r"pub type c_uint_fast8_t = u8;"), ("src/ffi.rs", r"pub type c_uint_least32_t = u32;"),
    ("src/ffi.rs", r"pub type ubounded = c_uint_least32_t;"), ("src/ffi.rs", r"pub type UWORD = c_uint_fast16_t;"),
    ("src/ffi.rs", r"pub use core::ffi::c_void;"),
    ("src/lib.rs", r"pub use c_jets::elements::CTxEnv as CElementsTxEnv;"),
    ("src/lib.rs", r"pub use c_jets::CFrameItem;"),
    ("src/c_jets/mod.rs", r"pub use jets_ffi as elements_ffi;"),
    ("src/tests/ffi.rs", r"#\[repr\(C\)\]\s*#\[derive\(Copy, Clone, Eq, PartialEq, Debug\)\]\s*pub enum SimplicityErr \{"),
]
C_SCALARS = {
    "void": "KVoid", "bool": "KBool",
    "int": "KI32", "int32_t": "KI32",
    "unsigned int": "KU32", "uint32_t": "KU32", "uint_least32_t": "KU32", "ubounded": "KU32",
    "unsigned char": "KU8", "flags_type": "KU8",
    "size_t": "KSize",
    "UWORD": "KUFast16", "uint_fast16_t": "KUFast16",
    "uint_fast32_t": "KUFast32", "int_fast32_t": "KIFast32",
    "uint64_t": "KU64",
    "simplicity_err": "KErr",
}
C_ALIAS_CHECKS = [
    ("simplicity/bounded.h", r"typedef uint_least32_t ubounded;"),
    ("simplicity/uword.h", r"#define UWORD uint_fast16_t"),
    ("simplicity/eval.h", r"typedef unsigned char flags_type;"),
    ("simplicity/include/simplicity/errorCodes.h", r"typedef enum \{\s*SIMPLICITY_NO_ERROR = 0,[^}]*\} simplicity_err;"),
]
# Rust struct name -> C struct name ("types are converted to CamelCase and prefixed with C", plus the exceptions)
STRUCT_MAP = {
    "CFrameItem": "frameItem", "CBitstream": "bitstream", "CBitstring": "bitstring", "CDagNode": "dag_node",
    "CCombinatorCounters": "combinator_counters", "CAnalyses": "analyses", "CType": "type",
    "CSha256Midstate": "sha256_midstate", "CUnificationVar": "unification_var",
    "CTxEnv": "txEnv", "CElementsTxEnv": "txEnv", "CTransaction": "elementsTransaction", "CTapEnv": "elementsTapEnv",
    "CRawTapEnv": "rawElementsTapEnv", "CRawTransaction": "rawElementsTransaction",
}
CALLBACK_MAP = {
    "CCallbackDecodeJet": "rustsimplicity_0_7_callback_decodeJet",
    "CCallbackMallocBoundVars": "rustsimplicity_0_7_callback_mallocBoundVars",
}
C_STRUCTS = set(STRUCT_MAP.values())


def parse_rust_type(s, where):
    s = s.strip()
    m = re.fullmatch(r"\*(const|mut)\s+(.*)", s)
    if m:
        return ("p", m.group(1) == "const", parse_rust_type(m.group(2), where))
    m = re.fullmatch(r"&\s*(mut\s+)?(.*)", s)
    if m:
        return ("p", m.group(1) is None, parse_rust_type(m.group(2), where))
    m = re.fullmatch(r"\[(.*);\s*(\d+)\]", s)
    if m:
        return ("a", parse_rust_type(m.group(1), where))
    if s == "()":
        return ("s", "KVoid")
    m = re.fullmatch(r"(?:[A-Za-z_][A-Za-z0-9_]*::)*([A-Za-z_][A-Za-z0-9_]*)(?:<'[a-z]+>)?", s)
    if not m:
        raise TranslateError("%s: unparsable Rust type %r" % (where, s))
    n = m.group(1)
    if n in RUST_SCALARS:
        return ("s", RUST_SCALARS[n])
    if n in STRUCT_MAP:
        return ("n", n)
    if n in CALLBACK_MAP:
        return ("cb", n)
    raise TranslateError("%s: Rust type %r is not in the translator's dictionary" % (where, n))


def parse_c_type(s, where, allow_name=True):
    """`s` is a C parameter or return type, optionally followed by a parameter name.  Returns (type, name|None)."""
    s = re.sub(r"\s+", " ", s.replace("*", " * ")).strip()
    toks = s.split(" ")
    toks = [t for t in toks if t not in ("extern", "static")]
    # base type: leading const / unsigned words
    i = 0
    const_base = False
    base = []
    while i < len(toks) and toks[i] in ("const", "unsigned"):
        if toks[i] == "const":
            const_base = True
        else:
            base.append(toks[i])
        i += 1
    if i >= len(toks):
        raise TranslateError("%s: unparsable C type %r" % (where, s))
    base.append(toks[i])
    i += 1
    if i < len(toks) and toks[i] == "const":
        const_base = True
        i += 1
    bname = " ".join(base)
    if bname in C_SCALARS:
        t = ("s", C_SCALARS[bname])
    elif bname in C_STRUCTS:
        t = ("n", bname)
    elif bname in CALLBACK_MAP.values():
        t = ("cb", bname)
    else:
        raise TranslateError("%s: C type %r is not in the translator's dictionary (in %r)" % (where, bname, s))
    cst = const_base
    name = None
    arr = False
    while i < len(toks):
        tk = toks[i]
        if tk == "*":
            t = ("p", cst, t)
            cst = False
        elif tk == "const":
            cst = True   # const pointer itself / const by-value parameter: irrelevant for the ABI
        elif re.fullmatch(r"[A-Za-z_]\w*(\[\])?", tk) and name is None and allow_name and i == len(toks) - 1:
            name = tk
            if tk.endswith("[]"):
                arr = True
                name = tk[:-2]
        else:
            raise TranslateError("%s: unparsable C type %r" % (where, s))
        i += 1
    if arr:
        t = ("a", t)
    return t, name


# ------------------------------------------------------------------------------------ Rust side
def strip_rust_comments(txt):
    txt = re.sub(r"/\*.*?\*/", " ", txt, flags=re.S)
    txt = re.sub(r"//[^\n]*", "", txt)
    return txt


def extern_blocks(txt, where):
    """yields the body text of every `extern "C" { ... }` block (comments already stripped)"""
    out = []
    for m in re.finditer(r'extern "C" \{', txt):
        depth = 1
        j = m.end()
        while depth and j < len(txt):
            if txt[j] == "{":
                depth += 1
            elif txt[j] == "}":
                depth -= 1
            j += 1
        if depth:
            raise TranslateError("%s: unterminated extern block" % where)
        out.append(txt[m.end():j - 1])
    return out


ITEM = re.compile(
    r"\s*(?:#\[link_name = \"(\w+)\"\]\s*)?"
    r"pub(?:\(crate\))?\s+"
    r"(?:static\s+(\w+)\s*:\s*((?:\[[^\]]*\]|[^;\[])+);"
    r"|fn\s+(\w+)\s*\(([^()]*)\)\s*(?:->\s*([^;{]+?))?\s*;)")


def parse_rust_params(s, where):
    ps = []
    for p in [x.strip() for x in s.split(",")]:
        if not p:
            continue
        m = re.fullmatch(r"(\w+)\s*:\s*(.+)", p, re.S)
        if not m:
            raise TranslateError("%s: unparsable parameter %r" % (where, p))
        ps.append((m.group(1), parse_rust_type(re.sub(r"\s+", " ", m.group(2)), where)))
    return ps


def rust_extern_items(path, rel):
    txt = strip_rust_comments(open(path).read())
    items = []
    for body in extern_blocks(txt, rel):
        pos = 0
        while True:
            if body[pos:].strip() == "":
                break
            m = ITEM.match(body, pos)
            if not m:
                raise TranslateError("%s: unparsable extern item near %r" % (rel, body[pos:pos + 120].strip()))
            pos = m.end()
            link, sname, stype, fname, fparams, fret = m.groups()
            if sname:
                items.append({"kind": "static", "file": rel, "rust": sname, "link": link or sname,
                              "params": [], "ret": parse_rust_type(re.sub(r"\s+", " ", stype), rel + ":" + sname)})
            else:
                w = rel + ":" + fname
                items.append({"kind": "fn", "file": rel, "rust": fname, "link": link or fname,
                              "params": parse_rust_params(fparams, w),
                              "ret": parse_rust_type(fret, w) if fret else ("s", "KVoid")})
    # extern "C" fn type aliases (callbacks)
    for m in re.finditer(r'pub type (\w+)\s*=\s*unsafe extern "C" fn\s*\(([^()]*)\)\s*(?:->\s*([^;]+?))?\s*;', txt):
        name, ps, ret = m.groups()
        if name not in CALLBACK_MAP:
            raise TranslateError("%s: callback alias %s is not in the translator's dictionary" % (rel, name))
        w = rel + ":" + name
        params = [("_", parse_rust_type(re.sub(r"\s+", " ", p), w)) for p in [x.strip() for x in ps.split(",")] if p]
        items.append({"kind": "callback", "file": rel, "rust": name, "link": CALLBACK_MAP[name], "params": params,
                      "ret": parse_rust_type(ret, w) if ret else ("s", "KVoid")})
    # functions defined in Rust and called from C
    for m in re.finditer(r'#\[no_mangle\]\s*pub unsafe extern "C" fn (\w+)\s*\(([^()]*)\)\s*(?:->\s*([^{]+?))?\s*\{', txt):
        name, ps, ret = m.groups()
        w = rel + ":" + name
        items.append({"kind": "export", "file": rel, "rust": name, "link": name, "params": parse_rust_params(ps, w),
                      "ret": parse_rust_type(ret, w) if ret else ("s", "KVoid")})
    n_ext = len(re.findall(r'extern "C"', txt))
    return items, n_ext


def parse_wrappers(path, rel):
    """jets_wrapper.rs: every wrapper has one of two shapes.  Returns [(name, called extern, passes_env)]."""
    ls = open(path).read().split("\n")
    i = 0

    def exp(pat):
        nonlocal i
        if i >= len(ls):
            raise TranslateError("%s: unexpected end of file" % rel)
        m = re.fullmatch(pat, ls[i])
        if not m:
            raise TranslateError("%s:%d: expected /%s/, found %r" % (rel, i + 1, pat, ls[i][:160]))
        i += 1
        return m
    exp(r"/\* This file has been automatically generated\. \*/")
    exp(r"")
    exp(r"use crate::\{CElementsTxEnv, CFrameItem\};")
    exp(r"use super::elements_ffi;")
    out = []
    while i < len(ls):
        if ls[i] == "":
            i += 1
            continue
        m = exp(r"pub fn (\w+)(<T>\(dst: &mut CFrameItem, src: CFrameItem, _env: &T\)|\(dst: &mut CFrameItem, src: CFrameItem, env: &CElementsTxEnv\)) -> bool \{")
        name = m.group(1)
        generic = m.group(2).startswith("<T>")
        if generic:
            m2 = exp(r"    unsafe \{ elements_ffi::(\w+)\(dst, &src, std::ptr::null\(\)\) \}")
        else:
            m2 = exp(r"    unsafe \{ elements_ffi::(\w+)\(dst, &src, env\) \}")
        exp(r"\}")
        out.append((name, m2.group(1), not generic))
    if len(set(n for n, _, _ in out)) != len(out):
        raise TranslateError("%s: duplicate wrapper" % rel)
    return out


# ------------------------------------------------------------------------------------ C side
def strip_c_comments(txt):
    txt = re.sub(r"/\*.*?\*/", " ", txt, flags=re.S)
    txt = re.sub(r"//[^\n]*", "", txt)
    return txt


def c_sources(depend):
    fs = []
    for root, _d, files in os.walk(depend):
        if "/secp256k1" in root or "/bitcoin" in root:
            continue
        for fn in sorted(files):
            if fn.endswith((".h", ".c")) and fn != "test.c":
                fs.append(os.path.join(root, fn))
    return sorted(fs)


class CIndex:
    def __init__(self, depend):
        self.depend = depend
        self.texts = {}
        for p in c_sources(depend):
            t = strip_c_comments(open(p, errors="replace").read())
            t = "\n".join(l for l in t.split("\n") if not l.lstrip().startswith("#"))
            self.texts[os.path.relpath(p, depend)] = re.sub(r"\s+", " ", t)

    def prototypes(self, name):
        """all declarations/definitions `ret name(params)` followed by ; or { -> [(file, ret type, [param types])]"""
        res = []
        pat = re.compile(r"(?:^|[;{}]) ?((?:[A-Za-z_]\w*[ \*]+)+)" + re.escape(name) + r" ?\(([^()]*)\) ?([;{])")
        for f, t in self.texts.items():
            if name not in t:
                continue
            for m in pat.finditer(t):
                rets = m.group(1).strip()
                if rets.split(" ")[0] in ("return", "else", "typedef"):
                    continue
                w = "%s:%s" % (f, name)
                ret, _ = parse_c_type(rets, w, allow_name=False)
                ps = []
                pl = m.group(2).strip()
                if pl not in ("", "void"):
                    for p in pl.split(","):
                        ps.append(parse_c_type(p, w)[0])
                res.append((f, ret, ps))
        return res

    def callback_typedef(self, name):
        res = []
        pat = re.compile(r"typedef ((?:[A-Za-z_]\w*[ \*]+)+)\( ?\* ?" + re.escape(name) + r" ?\) ?\(([^()]*)\) ?;")
        for f, t in self.texts.items():
            if name not in t:
                continue
            for m in pat.finditer(t):
                w = "%s:%s" % (f, name)
                ret, _ = parse_c_type(m.group(1), w, allow_name=False)
                ps = [parse_c_type(p, w)[0] for p in m.group(2).split(",") if p.strip() not in ("", "void")]
                res.append((f, ret, ps))
        return res

    def objects(self, name):
        """object declarations/definitions `[extern] const T name[[]] [= ...];`"""
        res = []
        pat = re.compile(r"(?:^|[;{}]) ?((?:extern )?(?:const )?(?:unsigned )?[A-Za-z_]\w*(?: const)?) " + re.escape(name) + r"(\[\])? ?(?:=|;)")
        for f, t in self.texts.items():
            if name not in t:
                continue
            for m in pat.finditer(t):
                w = "%s:%s" % (f, name)
                ty, _ = parse_c_type(m.group(1), w, allow_name=False)
                if m.group(2):
                    ty = ("a", ty)
                res.append((f, ty))
        return res


def parse_wrap_macro(depend):
    """wrapper.h: the WRAP_ macro; returns (template ret, template params) after checking its exact shape."""
    txt = re.sub(r"\s+", " ", open(os.path.join(depend, "wrapper.h")).read())
    want = ("#define WRAP_(jet) \\ bool rustsimplicity_0_7_c_##jet(frameItem* dst, const frameItem* src, const txEnv* env) { \\ "
            "bool result = rustsimplicity_0_7_##jet(dst, *src, env); \\ rustsimplicity_0_7_assert(!result || 0 == dst->offset); \\ "
            "return result; \\ }")
    if want not in txt:
        raise TranslateError("wrapper.h: WRAP_ no longer has the modelled shape")
    w = "wrapper.h:WRAP_"
    ret = parse_c_type("bool", w, allow_name=False)[0]
    ps = [parse_c_type(p, w)[0] for p in "frameItem* dst, const frameItem* src, const txEnv* env".split(",")]
    return ret, ps


def parse_wrap_list(depend):
    ls = open(os.path.join(depend, "jets_wrapper.c")).read().split("\n")
    hdr = ["/* This file has been automatically generated. */", "", '#include "simplicity/elements/elementsJets.h"',
           '#include "simplicity/simplicity_assert.h"', '#include "wrapper.h"', ""]
    if ls[:len(hdr)] != hdr:
        raise TranslateError("jets_wrapper.c: unexpected header")
    names = []
    for k, l in enumerate(ls[len(hdr):]):
        if l == "":
            continue
        m = re.fullmatch(r"WRAP_\((\w+)\)", l)
        if not m:
            raise TranslateError("jets_wrapper.c:%d: unparsable line %r" % (k + len(hdr) + 1, l))
        names.append(m.group(1))
    if len(set(names)) != len(names):
        raise TranslateError("jets_wrapper.c: duplicate WRAP_")
    return names


def inner_jet_prototypes(depend):
    """jets.h and elementsJets.h: `bool rustsimplicity_0_7_X(frameItem* dst, frameItem src, const txEnv* env);`"""
    out = {}
    for rel in ("simplicity/jets.h", "simplicity/elements/elementsJets.h"):
        txt = strip_c_comments(open(os.path.join(depend, rel)).read())
        for l in txt.split("\n"):
            l = l.strip()
            if not l.startswith("bool "):
                continue
            m = re.fullmatch(r"bool rustsimplicity_0_7_(\w+)\(frameItem\* dst, frameItem src, const txEnv\* env\);", l)
            if not m:
                raise TranslateError("%s: jet prototype of unexpected shape: %r" % (rel, l))
            out[m.group(1)] = rel
    return out


RUST_FILES = ["src/c_jets/jets_ffi.rs", "src/c_jets/frame_ffi.rs", "src/c_jets/c_env/elements.rs", "src/ffi.rs",
              "src/tests/ffi.rs", "src/alloc.rs"]
# other Rust files of simplicity-sys that must not contain extern items (checked)
RUST_FILES_NO_EXTERN = ["src/lib.rs", "src/c_jets/mod.rs", "src/c_jets/c_frame.rs", "src/c_jets/exec_ffi.rs",
                        "src/c_jets/jets_wrapper.rs", "src/c_jets/c_env/mod.rs", "src/tests/mod.rs"]


def translate_ffi(repo):
    sys_dir = os.path.join(repo, "simplicity-sys")
    depend = os.path.join(sys_dir, "depend")
    for rel, pat in RUST_ALIAS_CHECKS:
        if not re.search(pat, open(os.path.join(sys_dir, rel)).read()):
            raise TranslateError("simplicity-sys/%s: expected `%s`" % (rel, pat))
    for rel, pat in C_ALIAS_CHECKS:
        if not re.search(pat, open(os.path.join(depend, rel)).read()):
            raise TranslateError("depend/%s: expected `%s`" % (rel, pat))
    # every .rs file of simplicity-sys/src is accounted for
    known = set(RUST_FILES) | set(RUST_FILES_NO_EXTERN)
    for root, _d, files in os.walk(os.path.join(sys_dir, "src")):
        for fn in files:
            rel = os.path.relpath(os.path.join(root, fn), sys_dir)
            if fn.endswith(".rs") and rel not in known:
                raise TranslateError("simplicity-sys/%s: file unknown to the translator" % rel)
    items = []
    for rel in RUST_FILES:
        its, _n = rust_extern_items(os.path.join(sys_dir, rel), rel)
        items += its
    for rel in RUST_FILES_NO_EXTERN:
        txt = strip_rust_comments(open(os.path.join(sys_dir, rel)).read())
        if re.search(r'extern\s+"C"', txt):
            raise TranslateError('simplicity-sys/%s: contains extern "C" but is not translated' % rel)
    links = [it["link"] for it in items]
    if len(set(links)) != len(links):
        dup = sorted(set(l for l in links if links.count(l) > 1))
        raise TranslateError("two extern items share a link name: %s" % dup[:5])

    cidx = CIndex(depend)
    wrap_ret, wrap_ps = parse_wrap_macro(depend)
    wraps = parse_wrap_list(depend)
    inner = inner_jet_prototypes(depend)
    wrapset = set(wraps)
    for it in items:
        ln = it["link"]
        where = "%s:%s" % (it["file"], it["rust"])
        if it["kind"] == "static":
            objs = cidx.objects(ln)
            if not objs:
                raise TranslateError("%s: no C object named %s" % (where, ln))
            tys = set(repr(o[1]) for o in objs)
            if len(tys) != 1:
                raise TranslateError("%s: C declarations of %s disagree: %s" % (where, ln, objs))
            it["c_file"] = objs[0][0]
            it["c_params"] = []
            it["c_ret"] = objs[0][1]
            continue
        if it["kind"] == "callback":
            ps = cidx.callback_typedef(ln)
        elif ln.startswith("rustsimplicity_0_7_c_") and ln[len("rustsimplicity_0_7_c_"):] in wrapset:
            ps = [("jets_wrapper.c(WRAP_)", wrap_ret, wrap_ps)]
        else:
            ps = cidx.prototypes(ln)
        if not ps:
            raise TranslateError("%s: no C prototype for link name %s" % (where, ln))
        sigs = set(repr((p[1], _drop_const(p[2]))) for p in ps)
        if len(sigs) != 1:
            raise TranslateError("%s: C prototypes of %s disagree: %s" % (where, ln, ps))
        it["c_file"] = ps[0][0]
        it["c_ret"] = ps[0][1]
        it["c_params"] = ps[0][2]
    wrappers = parse_wrappers(os.path.join(sys_dir, "src/c_jets/jets_wrapper.rs"), "src/c_jets/jets_wrapper.rs")
    return {"items": items, "wraps": wraps, "inner": inner, "wrappers": wrappers}


def _drop_const(ps):
    def dc(t):
        if t[0] == "p":
            return ("p", False, dc(t[2]))
        if t[0] == "a":
            return ("a", dc(t[1]))
        return t
    return [dc(p) for p in ps]
