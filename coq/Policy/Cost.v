(* C16 - executable instance of `finalize_unpruned().bounds().cost` for policy programs
   (src/analysis.rs: NodeBounds::{iden, unit, comp, case, assertl, assertr, pair, witness, jet,
   const_word}, Cost::OVERHEAD = 100, saturating u32 addition) and of Cost::CONSENSUS_MAX.

   Types are tracked only as far as costs need them (bit widths; sums and products where a
   case / drop has to take the source apart).  `PW n` is any type of bit width n that the
   program never takes apart (words, the SHA-256 context).  Jet costs, source and target widths
   are copied from src/jet/init/elements.rs; the correspondence check compares them with the
   implementation on every run (case kind `jets`). *)
From RS Require Import Lib.Tac Lib.Outcome Policy.PolicyAst Policy.Compile.
Import ListNotations.
Local Open Scope N_scope.

Inductive pty := PUnit | PSum (a b : pty) | PProd (a b : pty) | PW (bits : N).

Fixpoint pwidth (t : pty) : N :=
  match t with
  | PUnit => 0
  | PSum a b => 1 + N.max (pwidth a) (pwidth b)
  | PProd a b => pwidth a + pwidth b
  | PW n => n
  end.

Definition PBit : pty := PSum PUnit PUnit.
Definition CTX8_BITS : N := 830.

Definition jet_src (j : jet) : pty :=
  match j with
  | SigAllHash | Sha256Ctx8Init => PUnit
  | Bip0340Verify => PProd (PProd (PW 256) (PW 256)) (PW 512)
  | CheckLockHeight => PW 32
  | CheckLockDistance => PW 16
  | Sha256Ctx8Add32 => PProd (PW CTX8_BITS) (PW 256)
  | Sha256Ctx8Finalize => PW CTX8_BITS
  | Verify => PBit
  | Eq256 => PProd (PW 256) (PW 256)
  | Eq32 | Add32 => PProd (PW 32) (PW 32)
  end.

Definition jet_tgt (j : jet) : pty :=
  match j with
  | SigAllHash | Sha256Ctx8Finalize => PW 256
  | Bip0340Verify | CheckLockHeight | CheckLockDistance | Verify => PUnit
  | Sha256Ctx8Init | Sha256Ctx8Add32 => PW CTX8_BITS
  | Eq256 | Eq32 => PBit
  | Add32 => PProd PBit (PW 32)
  end.

Definition jet_cost (j : jet) : N :=
  match j with
  | SigAllHash => 133 | Bip0340Verify => 49087 | CheckLockHeight => 77 | CheckLockDistance => 105
  | Sha256Ctx8Init => 118 | Sha256Ctx8Add32 => 896 | Sha256Ctx8Finalize => 835 | Verify => 57
  | Eq256 => 225 | Eq32 => 88 | Add32 => 117
  end.

Definition all_jets : list jet :=
  [SigAllHash; Bip0340Verify; CheckLockHeight; CheckLockDistance; Sha256Ctx8Init; Sha256Ctx8Add32;
   Sha256Ctx8Finalize; Verify; Eq256; Eq32; Add32].

Definition CONSENSUS_MAX : N := 4000050000.
Definition OVERHEAD : N := 100.
Definition U32_MAX : N := 4294967295.

(* impl Add for Cost: saturating *)
Definition cadd (a b : N) : N := N.min (a + b) U32_MAX.

Definition wval_ty (w : wval) : pty :=
  match w with WBit _ => PBit | WSig _ => PW 512 | WPre _ => PW 256 end.

Section CostOf.
  Variable H : Type.

  (* target type and cost of a node whose source type is known; None = not typeable this way *)
  Fixpoint infer (src : pty) (n : node H) : option (pty * N) :=
    match n with
    | NIden => Some (src, cadd OVERHEAD (pwidth src))
    | NUnit => Some (PUnit, OVERHEAD)
    | NInjl _ | NInjr _ => None            (* never produced by the policy compiler *)
    | NTake c =>
        match src with
        | PProd a _ => match infer a c with Some (t, k) => Some (t, cadd OVERHEAD k) | None => None end
        | _ => None
        end
    | NDrop c =>
        match src with
        | PProd _ b => match infer b c with Some (t, k) => Some (t, cadd OVERHEAD k) | None => None end
        | _ => None
        end
    | NComp a b =>
        match infer src a with
        | Some (tb, ka) =>
            match infer tb b with
            | Some (tc, kb) => Some (tc, cadd (cadd (cadd OVERHEAD (pwidth tb)) ka) kb)
            | None => None
            end
        | None => None
        end
    | NCase a b =>
        match src with
        | PProd (PSum x y) z =>
            match infer (PProd x z) a, infer (PProd y z) b with
            | Some (ta, ka), Some (_, kb) => Some (ta, cadd OVERHEAD (N.max ka kb))
            | _, _ => None
            end
        | _ => None
        end
    | NAssertL a _ =>
        match src with
        | PProd (PSum x _) z => match infer (PProd x z) a with Some (t, k) => Some (t, cadd OVERHEAD k) | None => None end
        | _ => None
        end
    | NAssertR _ b =>
        match src with
        | PProd (PSum _ y) z => match infer (PProd y z) b with Some (t, k) => Some (t, cadd OVERHEAD k) | None => None end
        | _ => None
        end
    | NPair a b =>
        match infer src a, infer src b with
        | Some (ta, ka), Some (tb, kb) => Some (PProd ta tb, cadd (cadd OVERHEAD ka) kb)
        | _, _ => None
        end
    | NFail _ => None                      (* fail nodes are always hidden by the satisfier *)
    | NWord w _ => Some (PW w, cadd OVERHEAD w)
    | NJet j => Some (jet_tgt j, cadd OVERHEAD (jet_cost j))
    | NWitness (Some w) => Some (wval_ty w, cadd OVERHEAD (pwidth (wval_ty w)))
    | NWitness None => None
    end.

  Definition fin_cost (n : node H) : option N :=
    match infer PUnit n with Some (_, k) => Some k | None => None end.
End CostOf.
Arguments infer {H} src n.
Arguments fin_cost {H} n.

Example cost_trivial : fin_cost (@NUnit unit) = Some 100.
Proof. reflexivity. Qed.
