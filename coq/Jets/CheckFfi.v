(* C14: every extern item of simplicity-sys against the C prototype / object it links to.
   Finite checks by vm_compute over Generated/Ffi.v. *)
From RS Require Import Lib.Tac Lib.Outcome Lib.Sweep Jets.JetTable Jets.JetLemmas Generated.Ffi.
From Coq Require Import String.
Import ListNotations.
Local Open Scope N_scope.
Local Open Scope string_scope.

(* Return types that differ from the C prototype in this revision (reported in the evidence as notes; the
   property's FFI clause is about arity and parameter types).  Parameters of these items are still checked. *)
Definition tolerated_returns : list string :=
  [ "rustsimplicity_0_7_decodeMallocDag";            (* Rust i32, C int_fast32_t *)
    "rustsimplicity_0_7_elements_mallocBoundVars";   (* Rust SimplicityErr, C size_t *)
    "rustsimplicity_0_7_callback_mallocBoundVars" ]. (* the callback type of the same function *)
(* Objects whose Rust type differs from the C definition in this revision *)
Definition tolerated_statics : list string :=
  [ "c_overhead" ].                                  (* Rust ubounded (u32), C const uint64_t *)

Lemma ffi_length : List.length (ft_items ffi_tables) = 593%nat.
Proof. vm_compute. reflexivity. Qed.

Lemma ffi_params_b :
  forallb (fun it => is_static it || params_ok ffi_tables it) (ft_items ffi_tables) = true.
Proof. vm_compute. reflexivity. Qed.

Lemma ffi_params : forall it, In it (ft_items ffi_tables) -> is_static it = false ->
  List.length (fi_rparams it) = List.length (fi_cparams it) /\
  Forall2 (compatible ffi_tables) (fi_rparams it) (fi_cparams it).
Proof.
  intros it Hi Hs. pose proof ffi_params_b as H. rewrite forallb_forall in H. specialize (H it Hi).
  rewrite Hs in H. apply params_lift, H.
Qed.

Lemma ffi_returns_b :
  forallb (fun it => is_static it || ret_ok ffi_tables tolerated_returns it) (ft_items ffi_tables) = true.
Proof. vm_compute. reflexivity. Qed.

Lemma ffi_returns : forall it, In it (ft_items ffi_tables) -> is_static it = false ->
  compatible ffi_tables (fi_rret it) (fi_cret it) \/ In (fi_link it) tolerated_returns.
Proof.
  intros it Hi Hs. pose proof ffi_returns_b as H. rewrite forallb_forall in H. specialize (H it Hi).
  rewrite Hs in H. apply ret_lift, H.
Qed.

Lemma ffi_statics_b :
  forallb (fun it => negb (is_static it) || ret_ok ffi_tables tolerated_statics it) (ft_items ffi_tables) = true.
Proof. vm_compute. reflexivity. Qed.

Lemma ffi_statics : forall it, In it (ft_items ffi_tables) -> is_static it = true ->
  compatible ffi_tables (fi_rret it) (fi_cret it) \/ In (fi_link it) tolerated_statics.
Proof.
  intros it Hi Hs. pose proof ffi_statics_b as H. rewrite forallb_forall in H. specialize (H it Hi).
  rewrite Hs in H. apply ret_lift, H.
Qed.
