(* Type roots (src/merkle/tmr.rs), identity roots (src/merkle/ihr.rs: Imr, Ihr) and annotated
   roots (src/merkle/amr.rs) over the abstract compression function of Merkle/Tagged.v, and
   the tables `RedeemData::new` (src/node/redeem.rs) computes for a typed program.
   Executable library for the program-level checks (sharing by IHR, pruning, encoding); no
   theorem of C09 depends on it.  The instance with SHA-256 is at the end of Merkle/Run.v.

   Extra parameters: ivi = the IV table of ihr.rs (its commitment-tag constants are separate
   constants of the code), compact_value = SHA-256 of a value's compact bits
   (merkle/mod.rs compact_value). *)
From RS Require Import Lib.Tac Lib.Outcome Ty.Ty Core.Prog Merkle.Tagged Merkle.Cmr.
Import ListNotations.
Local Open Scope N_scope.

Definition P_AS_SUM : N := 21.       (* ty.target.as_sum().unwrap() *)
Definition P_AS_PRODUCT : N := 22.   (* ty.source.as_product().unwrap() *)
Definition E_NO_ARROW : N := 31.     (* a node without arrow / child without data *)
Definition E_NO_WITNESS : N := 32.   (* witness node without value at redemption time *)

Section Hash.
  Variable H : Type.
  Variable compress : H -> H * H -> H.
  Variable iv : tag -> H.
  Variable ivi : tag -> H.
  Variable zero : H.
  Variable of_weight : N -> H.
  Variable bit_cmr : bool -> H.
  Variable tmr_unit : H.
  Variable tmr_two_two_n : list H.
  Variable jet_cmr : N -> N -> H.
  Variable h_of_bytes : list N -> H.
  Variable compact_value : list bool -> H.

  Local Notation u2 := (update_2x32 H compress).
  Local Notation u0 := (update_0_then_32 H compress zero).

  (* ---------------------------------------------------------------- tmr.rs *)
  (* (equal children are hashed once: the word types 2^(2^n) have 2^(n+1) nodes as trees) *)
  Fixpoint tmr_of (t : ty) : H :=
    match t with
    | One => iv TtUnit
    | Sum a b =>
        if ty_eqb a b then let x := tmr_of a in tmr_sum H compress iv x x
        else tmr_sum H compress iv (tmr_of a) (tmr_of b)
    | Prod a b =>
        if ty_eqb a b then let x := tmr_of a in tmr_product H compress iv x x
        else tmr_product H compress iv (tmr_of a) (tmr_of b)
    end.

  (* ---------------------------------------------------------------- ihr.rs: impl Imr *)
  Definition imr_iden : H := ivi TcIden.
  Definition imr_unit : H := ivi TcUnit.
  Definition imr_injl (c : H) : H := u0 (ivi TcInjL) c.
  Definition imr_injr (c : H) : H := u0 (ivi TcInjR) c.
  Definition imr_take (c : H) : H := u0 (ivi TcTake) c.
  Definition imr_drop (c : H) : H := u0 (ivi TcDrop) c.
  Definition imr_comp (l r : H) : H := u2 (ivi TcComp) l r.
  Definition imr_case (l r : H) : H := u2 (ivi TcCase) l r.
  Definition imr_pair (l r : H) : H := u2 (ivi TcPair) l r.
  Definition imr_disconnect (l r : H) : H := u2 (ivi TiDisconnect) l r.
  Definition imr_witness (target : ty) (value : list bool) : H :=
    u2 (ivi TiWitness) (compact_value value) (tmr_of target).
  Definition imr_fail (e : H * H) : H := update_64 H compress (ivi TcFail) e.

  (* Ihr::from_imr *)
  Definition ihr_from_imr (imr : H) (a : arrow) : H :=
    u2 (u0 (iv TIdentity) imr) (tmr_of (fst a)) (tmr_of (snd a)).

  (* ---------------------------------------------------------------- amr.rs *)
  Definition as_sum (t : ty) : outcome N (ty * ty) :=
    match t with Sum a b => Ok (a, b) | _ => Panic P_AS_SUM end.
  Definition as_product (t : ty) : outcome N (ty * ty) :=
    match t with Prod a b => Ok (a, b) | _ => Panic P_AS_PRODUCT end.

  Definition amr_iden (a : arrow) : H := u0 (iv TaIden) (tmr_of (fst a)).
  Definition amr_unit (a : arrow) : H := u0 (iv TaUnit) (tmr_of (fst a)).
  Definition amr_inj (t : tag) (a : arrow) (child : H) : outcome N H :=
    obind (as_sum (snd a)) (fun bc =>
      Ok (u2 (u2 (iv t) (tmr_of (fst a)) (tmr_of (fst bc))) (tmr_of (snd bc)) child)).
  Definition amr_takedrop (t : tag) (a : arrow) (child : H) : outcome N H :=
    obind (as_product (fst a)) (fun ab =>
      Ok (u2 (u2 (iv t) (tmr_of (fst ab)) (tmr_of (snd ab))) (tmr_of (snd a)) child)).
  Definition amr_comp (a left_arrow : arrow) (l r : H) : H :=
    u2 (u2 (u0 (iv TaComp) (tmr_of (fst a))) (tmr_of (snd left_arrow)) (tmr_of (snd a))) l r.
  Definition amr_case_helper (t : tag) (a : arrow) (l r : H) : outcome N H :=
    obind (as_product (fst a)) (fun sc =>
    obind (as_sum (fst sc)) (fun ab =>
      Ok (u2 (u2 (u2 (iv t) (tmr_of (fst ab)) (tmr_of (snd ab))) (tmr_of (snd sc)) (tmr_of (snd a))) l r))).
  Definition amr_pair (a la ra : arrow) (l r : H) : H :=
    u2 (u2 (u0 (iv TaPair) (tmr_of (fst a))) (tmr_of (snd la)) (tmr_of (snd ra))) l r.
  Definition amr_disconnect (a right_arrow : arrow) (l r : H) : outcome N H :=
    obind (as_product (snd a)) (fun bd =>
      Ok (u2 (u2 (u2 (iv TaDisconnect) (tmr_of (fst a)) (tmr_of (fst bd)))
                 (tmr_of (fst right_arrow)) (tmr_of (snd bd))) l r)).
  Definition amr_witness (a : arrow) (value : list bool) : H :=
    u2 (u0 (iv TaWitness) (tmr_of (fst a))) (tmr_of (snd a)) (compact_value value).
  Definition amr_fail (e : H * H) : H := update_64 H compress (iv TaFail) e.

  (* ---------------------------------------------------------------- RedeemData::new over a table *)
  Record rdata := mk_rdata { rd_amr : H; rd_imr : H; rd_ihr : H; rd_arrow : arrow }.

  (* a table position: redeem data of a node, or the root of a hidden placeholder *)
  Definition rget (tbl : list (rdata + H)) (k : nat) : outcome N rdata :=
    match nth_error tbl k with
    | Some (inl d) => Ok d
    | Some (inr _) => Err E_HIDDEN_USE
    | None => Err E_FORWARD
    end.

  Local Notation c_const_word := (cmr_const_word H compress iv zero of_weight bit_cmr tmr_unit tmr_two_two_n).

  (* the witness value of a node as its compact bits (the harness decodes `wit.c.<bits>` at the
     inferred type and `wit.t.<ty>.<bits>` at the given one; both hash `value.iter_compact()`) *)
  Definition wit_bits (w : wit_spec) : outcome N (list bool) :=
    match w with
    | WNone => Err E_NO_WITNESS
    | WCompact b => Ok b
    | WTyped _ b => Ok b
    end.

  Definition redeem_node (tbl : list (rdata + H)) (na : node * option arrow) : outcome N (rdata + H) :=
    let '(nd, oa) := na in
    match nd, oa with
    | NHidden h, _ => Ok (inr (h_of_bytes h))
    | _, None => Err E_NO_ARROW
    | _, Some a =>
        let fin (amr imr : H) : outcome N (rdata + H) :=
          Ok (inl (mk_rdata amr imr (ihr_from_imr imr a) a)) in
        match nd with
        | NIden => fin (amr_iden a) imr_iden
        | NUnit => fin (amr_unit a) imr_unit
        | NInjL c => obind (rget tbl c) (fun d => obind (amr_inj TaInjL a (rd_amr d)) (fun x => fin x (imr_injl (rd_imr d))))
        | NInjR c => obind (rget tbl c) (fun d => obind (amr_inj TaInjR a (rd_amr d)) (fun x => fin x (imr_injr (rd_imr d))))
        | NTake c => obind (rget tbl c) (fun d => obind (amr_takedrop TaTake a (rd_amr d)) (fun x => fin x (imr_take (rd_imr d))))
        | NDrop c => obind (rget tbl c) (fun d => obind (amr_takedrop TaDrop a (rd_amr d)) (fun x => fin x (imr_drop (rd_imr d))))
        | NComp l r => obind (rget tbl l) (fun x => obind (rget tbl r) (fun y =>
            fin (amr_comp a (rd_arrow x) (rd_amr x) (rd_amr y)) (imr_comp (rd_imr x) (rd_imr y))))
        | NPair l r => obind (rget tbl l) (fun x => obind (rget tbl r) (fun y =>
            fin (amr_pair a (rd_arrow x) (rd_arrow y) (rd_amr x) (rd_amr y)) (imr_pair (rd_imr x) (rd_imr y))))
        | NCase l r =>
            match nth_error tbl l, nth_error tbl r with
            | Some (inl x), Some (inl y) =>
                obind (amr_case_helper TaCase a (rd_amr x) (rd_amr y)) (fun m => fin m (imr_case (rd_imr x) (rd_imr y)))
            | Some (inl x), Some (inr h) =>     (* AssertL(left, r_cmr): `r_cmr.into()` *)
                obind (amr_case_helper TaAssertL a (rd_amr x) h) (fun m => fin m (imr_case (rd_imr x) h))
            | Some (inr h), Some (inl y) =>
                obind (amr_case_helper TaAssertR a h (rd_amr y)) (fun m => fin m (imr_case h (rd_imr y)))
            | Some (inr _), Some (inr _) => Err E_BOTH_HIDDEN
            | _, _ => Err E_FORWARD
            end
        | NDisconnect l (Some r) => obind (rget tbl l) (fun x => obind (rget tbl r) (fun y =>
            obind (amr_disconnect a (rd_arrow y) (rd_amr x) (rd_amr y)) (fun m =>
            fin m (imr_disconnect (rd_imr x) (rd_imr y)))))
        | NDisconnect l None => Err E_DISC_REDEEM
        | NHidden h => Ok (inr (h_of_bytes h))
        | NFail e => fin (amr_fail (fail_halves H h_of_bytes e)) (imr_fail (fail_halves H h_of_bytes e))
        | NJet fam id => fin (jet_cmr fam id) (jet_cmr fam id)
        | NWord n bits =>
            if word_ok n bits then obind (c_const_word n bits) (fun c => fin c c) else Err E_WORD_LEN
        | NWitness w => obind (wit_bits w) (fun b => fin (amr_witness a b) (imr_witness (snd a) b))
        end
    end.

  Definition redeem_table (tp : typed_prog) : outcome N (list (rdata + H)) := tfoldM redeem_node [] tp.

End Hash.
