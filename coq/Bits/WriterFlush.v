(* flush_all in the MIDDLE of a stream (src/bit_encoding/bitwriter.rs): the cached bits go out padded with
   zeros to a whole byte, the cache is cleared, and the writes that follow start a new byte.  The counter
   counts the written bits only, never the padding. *)
From RS Require Import Lib.Tac Lib.Outcome Lib.ListExtra Lib.Bits Lib.Sweep Lib.ByteSweep
  Bits.BitIter Bits.BitWriter.
Import ListNotations.
Local Open Scope N_scope.

(* a segment padded with zeros to a whole number of bytes *)
Definition pad8 (l : list bool) : list bool := l ++ repeat false ((8 - length l mod 8) mod 8).

(* write every segment, flush_all after each *)
Definition write_segments (segs : list (list bool)) (w : bwriter) : bwriter :=
  fold_left (fun w s => bw_flush_all (bw_write_bits w s)) segs w.

Lemma pad8_length l : (length (pad8 l) mod 8 = 0)%nat.
Proof. unfold pad8. rewrite app_length, repeat_length. lia. Qed.

(* the bits of the writer after flush_all: nothing is cached any more *)
Theorem bw_flush_all_bits w : bw_inv w ->
  let w' := bw_flush_all w in
  bw_inv w' /\ bw_cache_len w' = 0 /\ bw_total w' = bw_total w /\
  bw_bits w' = bw_bits w ++ repeat false (pad_of (bw_cache_len w)).
Proof.
  intros Hi. destruct (bw_flush_all_spec w Hi) as (Hi' & Hcl & Ht & Hb). cbv zeta in *.
  split; [exact Hi'|]. split; [exact Hcl|]. split; [exact Ht|].
  unfold bw_bits at 1. rewrite Hcl. cbn [N.to_nat firstn]. rewrite app_nil_r. exact Hb.
Qed.

Lemma bw_bits_length w : bw_inv w ->
  length (bw_bits w) = (8 * length (bw_out w) + N.to_nat (bw_cache_len w))%nat.
Proof.
  intros (Hcl & _). unfold bw_bits. rewrite app_length, bits_of_bytes_length, firstn_length, bits_be_length. lia.
Qed.

(* one segment written on a byte boundary and flushed: exactly the padded segment is appended *)
Theorem write_flush_segment w s : bw_inv w -> bw_cache_len w = 0 ->
  let w' := bw_flush_all (bw_write_bits w s) in
  bw_inv w' /\ bw_cache_len w' = 0 /\
  bw_total w' = bw_total w + N.of_nat (length s) /\
  bits_of_bytes (bw_out w') = bits_of_bytes (bw_out w) ++ pad8 s.
Proof.
  intros Hi Hcl0. cbv zeta.
  destruct (bw_write_bits_spec s w Hi) as (Hi1 & Hb1 & Ht1). cbv zeta in *.
  set (w1 := bw_write_bits w s) in *.
  destruct (bw_flush_all_spec w1 Hi1) as (Hi2 & Hcl2 & Ht2 & Hb2). cbv zeta in *.
  split; [exact Hi2|]. split; [exact Hcl2|]. split; [rewrite Ht2, Ht1; reflexivity|].
  rewrite Hb2, Hb1. unfold bw_bits at 1. rewrite Hcl0. cbn [N.to_nat firstn]. rewrite app_nil_r, <- app_assoc.
  f_equal. unfold pad8. f_equal. f_equal.
  pose proof (bw_bits_length w1 Hi1) as Hl1. rewrite Hb1, app_length in Hl1.
  pose proof (bw_bits_length w Hi) as Hl0. rewrite Hcl0 in Hl0. rewrite Hl0 in Hl1.
  destruct Hi1 as (Hc1 & _). unfold pad_of.
  destruct (N.eqb_spec (bw_cache_len w1) 0) as [E|E]; [rewrite E in Hl1|]; lia.
Qed.

(* any number of segments, each followed by flush_all: the bytes are the padded segments in order, the
   counter is the number of bits written (padding not counted) *)
Theorem write_segments_spec segs : forall w, bw_inv w -> bw_cache_len w = 0 ->
  let w' := write_segments segs w in
  bw_inv w' /\ bw_cache_len w' = 0 /\
  bw_total w' = bw_total w + N.of_nat (length (concat segs)) /\
  bits_of_bytes (bw_out w') = bits_of_bytes (bw_out w) ++ concat (map pad8 segs).
Proof.
  induction segs as [|s r IH]; intros w Hi Hcl; cbn [write_segments fold_left concat map length].
  - rewrite app_nil_r. repeat split; try assumption; try apply Hi. cbn. lia.
  - destruct (write_flush_segment w s Hi Hcl) as (Hi1 & Hcl1 & Ht1 & Hb1). cbv zeta in *.
    destruct (IH _ Hi1 Hcl1) as (Hi2 & Hcl2 & Ht2 & Hb2). cbv zeta in *. unfold write_segments in *.
    split; [exact Hi2|]. split; [exact Hcl2|].
    split; [rewrite Ht2, Ht1, app_length; lia|].
    rewrite Hb2, Hb1, <- app_assoc. reflexivity.
Qed.

(* from a fresh writer, read back through the bit reader *)
Theorem writer_segments_reader segs :
  let w := write_segments segs bw_new in
  bytes_ok (bw_out w) /\
  bw_total w = N.of_nat (length (concat segs)) /\
  bi_remaining (biter_of_bytes (bw_out w)) = concat (map pad8 segs).
Proof.
  cbv zeta. destruct (write_segments_spec segs bw_new bw_inv_new eq_refl) as (Hi & _ & Ht & Hb).
  cbv zeta in *. destruct Hi as (_ & _ & Hout & _).
  split; [exact Hout|]. split; [rewrite Ht; cbn; lia|].
  rewrite bi_remaining_of_bytes, Hb. reflexivity.
Qed.

Example write_segments_nonvacuous :
  bw_out (write_segments [[true; false; true]; [true]; []; [true; true; true; true; true; true; true; true; false]] bw_new)
  = [160; 128; 255; 0].
Proof. reflexivity. Qed.
