(* C04 - Display of types inside type errors.

   1. `display_final`: model of `impl Display for Final` (types/final_data.rs): an unlimited
      NoSharing verbose pre-order walk of the complete type, with the abbreviations `2`,
      `2^k` for words and `A?` for `1 + A`.  Tokens, and exact byte / char lengths.
   2. `print_inc`: model of `impl Display for Incomplete` (types/incomplete.rs) on top of the
      verbose pre-order iterator of dag.rs (`VerbosePreOrderIter::next` with NoSharing and
      max_depth = MAX_DISPLAY_DEPTH), with the MAX_DISPLAY_LENGTH cut, on an arbitrary - even
      cyclic - graph of bounds.  A complete type embedded in the bound is ONE token
      (`TFinal t`); its text is display_final t.  (`impl Display for Type` in types/mod.rs is
      the same loop without the `A?` special case; the bounds below only use the shape of
      the loop.) *)
From RS Require Import Lib.Tac Lib.Outcome Ty.Ty Core.Prog Infer.Constraints Infer.Unify Infer.Infer.
Import ListNotations.

Inductive tok : Type :=
| TUnit                (* "1" *)
| TTwo                 (* "2" *)
| TPow (n : nat)       (* "2^k", k = 2^n *)
| TQ                   (* "?" *)
| TLp | TRp            (* "(" ")" *)
| TPlus                (* " + " *)
| TTimes               (* " × "  (4 bytes, 3 chars) *)
| TName                (* a free variable's name *)
| TSelf                (* "<self-reference>" *)
| TDots                (* "..." *)
| TTrunc               (* "... [truncated type after N nodes]" *)
| TFinal (t : ty).     (* an embedded complete type, printed by Final's Display *)

(* ------------------------------------------------------------------ 1. complete types *)

Definition wrap (p : bool) (l : list tok) : list tok := if p then TLp :: l ++ [TRp] else l.

(* (word exponent if the type is 2^(2^n) with n < 32, needs parentheses when nested, tokens) *)
Fixpoint dfin (t : ty) : option nat * bool * list tok :=
  match t with
  | One => (None, false, [TUnit])
  | Sum a b =>
      let '(_, pa, la) := dfin a in
      let '(_, pb, lb) := dfin b in
      match a, b with
      | One, One => (Some O, false, [TTwo])
      | One, _ => (None, false, wrap pb lb ++ [TQ])
      | _, _ => (None, true, wrap pa la ++ [TPlus] ++ wrap pb lb)
      end
  | Prod a b =>
      let '(wa, pa, la) := dfin a in
      let '(wb, pb, lb) := dfin b in
      match wa, wb with
      | Some n, Some m =>
          if (Nat.eqb n m && Nat.leb (S n) 31)%bool then (Some (S n), false, [TPow (S n)])
          else (None, true, wrap pa la ++ [TTimes] ++ wrap pb lb)
      | _, _ => (None, true, wrap pa la ++ [TTimes] ++ wrap pb lb)
      end
  end.

Definition display_final (t : ty) : list tok := snd (dfin t).

Local Open Scope N_scope.

Fixpoint ndigits_f (fuel : nat) (x : N) : N :=
  match fuel with
  | O => 1
  | S f => if x <? 10 then 1 else 1 + ndigits_f f (x / 10)
  end.
Definition ndigits (x : N) : N := ndigits_f (S (N.to_nat (N.log2 x))) x.

Definition tok_bytes (t : tok) : N :=
  match t with
  | TUnit | TTwo | TQ | TLp | TRp => 1
  | TPow n => 2 + ndigits (2 ^ N.of_nat n)
  | TPlus => 3
  | TTimes => 4
  | TDots => 3
  | TSelf => 16
  | _ => 0
  end.

Definition tok_chars (t : tok) : N :=
  match t with
  | TTimes => 3
  | other => tok_bytes other
  end.

Definition display_final_len (t : ty) : N * N :=
  let l := display_final t in
  (fold_left (fun acc x => acc + tok_bytes x) l 0, fold_left (fun acc x => acc + tok_chars x) l 0).

Local Close Scope N_scope.

(* the exponential family of F-C04: n nested `pair x x` over `pair unit (word u8)` *)
Fixpoint bomb_ty (n : nat) : ty :=
  match n with
  | O => Prod One (word_ty 3)
  | S k => Prod (bomb_ty k) (bomb_ty k)
  end.

Fixpoint dag_size_bomb (n : nat) : nat := match n with O => 7 | S k => S (dag_size_bomb k) end.

Lemma dfin_bomb_noword n : fst (fst (dfin (bomb_ty n))) = None.
Proof.
  induction n as [|n IH]; [reflexivity|].
  cbn [bomb_ty dfin]. destruct (dfin (bomb_ty n)) as [[w p] l]. cbn in IH. subst w. reflexivity.
Qed.

Lemma display_final_bomb_step n :
  (2 * length (display_final (bomb_ty n)) <= length (display_final (bomb_ty (S n))))%nat.
Proof.
  unfold display_final. cbn [bomb_ty dfin].
  pose proof (dfin_bomb_noword n) as W.
  destruct (dfin (bomb_ty n)) as [[w p] l]. cbn in W. subst w. cbn [snd].
  rewrite !app_length. cbn [length]. unfold wrap. destruct p; cbn [length]; rewrite ?app_length; cbn [length]; lia.
Qed.

(* F-C04: the text of the complete type bomb_ty n has at least 2^n tokens although the type
   is a DAG of n + 7 distinct nodes *)
Lemma display_final_bomb n : (2 ^ n <= length (display_final (bomb_ty n)))%nat.
Proof.
  induction n as [|n IH]; [cbn; lia|].
  pose proof (display_final_bomb_step n). cbn [Nat.pow]. lia.
Qed.

(* product-only types: every node of the tree expansion costs at least one token *)
Fixpoint prod_only (t : ty) : bool :=
  match t with
  | One => true
  | Sum _ _ => false
  | Prod a b => prod_only a && prod_only b
  end.

Lemma dfin_prod_only t : prod_only t = true ->
  fst (fst (dfin t)) = None /\ (ty_size t <= length (snd (dfin t)))%nat.
Proof.
  induction t as [|a IHa b IHb|a IHa b IHb]; intros H; cbn in H; try discriminate.
  - split; [reflexivity|cbn; lia].
  - apply andb_true_iff in H. destruct H as [Ha Hb].
    destruct (IHa Ha) as [Wa La]. destruct (IHb Hb) as [Wb Lb].
    cbn [dfin ty_size]. destruct (dfin a) as [[wa pa] la]. destruct (dfin b) as [[wb pb] lb].
    cbn in *. subst wa. cbn. split; [reflexivity|].
    rewrite !app_length. cbn [length]. unfold wrap.
    destruct pa, pb; cbn [length]; rewrite ?app_length; cbn [length]; lia.
Qed.

Lemma display_final_size t : prod_only t = true -> (ty_size t <= length (display_final t))%nat.
Proof. intros H. apply (dfin_prod_only t H). Qed.

(* ------------------------------------------------------------------ 2. incomplete bounds *)

Inductive inode : Type :=
| IFree
| ICycle
| IFinal (t : ty)
| ISum (l r : nat)
| IProd (l r : nat).

Definition igraph := list inode.
Definition iget (g : igraph) (v : nat) : inode := nth v g IFree.

Definition ikids (n : inode) : option (nat * nat) :=
  match n with ISum l r | IProd l r => Some (l, r) | _ => None end.

Definition is_unit_node (g : igraph) (v : nat) : bool :=
  match iget g v with IFinal One => true | _ => false end.

(* PreOrderIterItem: node, index of first yield, depth, n_children_yielded *)
Record item := mk_item { it_node : nat; it_index : nat; it_depth : nat; it_ncy : nat }.

Record pstate := mk_pstate {
  st_stack : list item;      (* head = top of the Vec *)
  st_next : nat;             (* VerbosePreOrderIter::index *)
  st_skip : bool;            (* skip_next of the Display loop *)
  st_out : list tok          (* reversed *)
}.

Definition emit (g : igraph) (it : item) : option tok :=
  let nd := iget g (it_node it) in
  match nd, it_ncy it with
  | IFree, _ => Some TName
  | ICycle, _ => Some TSelf
  | IFinal t, _ => Some (TFinal t)
  | ISum l _, O => if is_unit_node g l then None else if Nat.ltb 0 (it_index it) then Some TLp else None
  | ISum l _, 1 => if is_unit_node g l then None else Some TPlus
  | ISum l _, 2 => if is_unit_node g l then Some TQ else if Nat.ltb 0 (it_index it) then Some TRp else None
  | ISum _ _, _ => Some TPlus
  | IProd _ _, O => if Nat.ltb 0 (it_index it) then Some TLp else None
  | IProd _ _, 2 => if Nat.ltb 0 (it_index it) then Some TRp else None
  | IProd _ _, _ => Some TTimes
  end.

Definition sets_skip (g : igraph) (it : item) : bool :=
  match iget g (it_node it), it_ncy it with
  | ISum l _, O => is_unit_node g l
  | _, _ => false
  end.

Definition push_opt (o : option tok) (out : list tok) : list tok :=
  match o with Some t => t :: out | None => out end.

(* one turn of `for data in self.verbose_pre_order_iter(Some(D))`: inl = keep going, inr = finished *)
Definition pstep (g : igraph) (D L : nat) (st : pstate) : pstate + list tok :=
  match st_stack st with
  | [] => inr (rev (st_out st))
  | top0 :: rest =>
      (* VerbosePreOrderIter::next *)
      let fresh := Nat.eqb (it_ncy top0) 0 in
      let top := if fresh then mk_item (it_node top0) (st_next st) (it_depth top0) 0 else top0 in
      let next := if fresh then S (st_next st) else st_next st in
      let stack :=
        match it_ncy top, ikids (iget g (it_node top)) with
        | O, Some (l, _) =>
            (if Nat.ltb (it_depth top) D then [mk_item l 0 (S (it_depth top)) 0] else []) ++
            mk_item (it_node top) (it_index top) (it_depth top) 1 :: rest
        | 1, Some (_, r) =>
            (if Nat.ltb (it_depth top) D then [mk_item r 0 (S (it_depth top)) 0] else []) ++
            mk_item (it_node top) (it_index top) (it_depth top) 2 :: rest
        | _, _ => rest
        end in
      (* body of the Display loop *)
      if Nat.ltb L (it_index top) then inr (rev (TTrunc :: st_out st))
      else if Nat.eqb (it_depth top) D then
        inl (mk_pstate stack next (st_skip st)
               (if Nat.eqb (it_ncy top) 0 then TDots :: st_out st else st_out st))
      else if st_skip st then inl (mk_pstate stack next false (st_out st))
      else inl (mk_pstate stack next (sets_skip g top) (push_opt (emit g top) (st_out st)))
  end.

Fixpoint prun (fuel : nat) (g : igraph) (D L : nat) (st : pstate) : outcome unit (list tok) :=
  match fuel with
  | O => OutOfFuel
  | S f => match pstep g D L st with
           | inr out => Ok out
           | inl st' => prun f g D L st'
           end
  end.

Definition print_fuel (L : nat) : nat := 3 * (L + 1) + 2.

Definition print_inc (g : igraph) (root : nat) (D L : nat) : outcome unit (list tok) :=
  prun (print_fuel L) g D L (mk_pstate [mk_item root 0 0 0] 0 false []).

(* ---- the bound: at most 3 (L + 1) + 1 tokens, on any graph, cyclic or not *)

Definition phi (it : item) : nat := match it_ncy it with O => 0 | 1 => 2 | _ => 1 end.
Fixpoint phis (l : list item) : nat := match l with [] => 0 | x :: r => phi x + phis r end.

Definition pinv (L k : nat) (st : pstate) : Prop :=
  (k + phis (st_stack st) <= 3 * st_next st)%nat /\ (st_next st <= L + 1)%nat /\
  (length (st_out st) <= k)%nat.

Lemma phis_app a b : phis (a ++ b) = (phis a + phis b)%nat.
Proof. induction a; cbn; lia. Qed.

Lemma pstep_inv g D L k st : pinv L k st ->
  match pstep g D L st with
  | inl st' => pinv L (S k) st'
  | inr out => (length out <= S k)%nat
  end.
Proof.
  intros (Hk & Hn & Ho). unfold pstep.
  destruct (st_stack st) as [|top0 rest] eqn:Es; [rewrite rev_length; lia|].
  cbn [phis] in Hk.
  set (fresh := Nat.eqb (it_ncy top0) 0).
  set (top := if fresh then mk_item (it_node top0) (st_next st) (it_depth top0) 0 else top0).
  set (next := if fresh then S (st_next st) else st_next st).
  assert (Htop : it_ncy top = it_ncy top0).
  { unfold top, fresh. destruct (Nat.eqb (it_ncy top0) 0) eqn:E; [apply Nat.eqb_eq in E; cbn; lia|reflexivity]. }
  assert (Hidx : fresh = true -> it_index top = st_next st) by (unfold top; intros ->; reflexivity).
  assert (Hphi0 : fresh = true -> phi top0 = 0%nat).
  { unfold fresh, phi. intros E. apply Nat.eqb_eq in E. rewrite E. reflexivity. }
  assert (Hnext : (next = if fresh then S (st_next st) else st_next st)) by reflexivity.
  set (stack := match it_ncy top, ikids (iget g (it_node top)) with
                | O, Some (l, _) => _ | 1, Some (_, r) => _ | _, _ => rest end).
  (* potential of the new stack *)
  assert (Hstack : (S k + phis stack <= 3 * next)%nat).
  { unfold stack. rewrite Htop. unfold fresh in *. unfold phi in Hk.
    destruct (it_ncy top0) as [|[|m]] eqn:En; cbn [Nat.eqb] in *.
    - destruct (ikids (iget g (it_node top))) as [[l r]|].
      + rewrite phis_app. destruct (Nat.ltb (it_depth top) D); cbn [phis phi it_ncy]; lia.
      + lia.
    - destruct (ikids (iget g (it_node top))) as [[l r]|].
      + rewrite phis_app. destruct (Nat.ltb (it_depth top) D); cbn [phis phi it_ncy]; lia.
      + lia.
    - destruct (ikids (iget g (it_node top))) as [[l r]|]; lia. }
  clearbody stack.
  destruct (Nat.ltb L (it_index top)) eqn:EL.
  { rewrite rev_length. cbn [length]. lia. }
  apply Nat.ltb_ge in EL.
  assert (Hn' : (next <= L + 1)%nat).
  { rewrite Hnext. destruct fresh eqn:Ef; [rewrite (Hidx eq_refl) in EL; lia|lia]. }
  destruct (Nat.eqb (it_depth top) D).
  { split; [exact Hstack|]. split; [exact Hn'|]. cbn [st_out].
    destruct (Nat.eqb (it_ncy top) 0); cbn [length]; lia. }
  destruct (st_skip st).
  { split; [exact Hstack|]. split; [exact Hn'|]. cbn [st_out]. lia. }
  split; [exact Hstack|]. split; [exact Hn'|]. cbn [st_out].
  unfold push_opt. destruct (emit g top); cbn [length]; lia.
Qed.

Lemma prun_bound g D L : forall fuel k st, pinv L k st -> (3 * (L + 1) + 2 <= fuel + k)%nat ->
  exists out, prun fuel g D L st = Ok out /\ (length out <= 3 * (L + 1) + 1)%nat.
Proof.
  induction fuel as [|f IH]; intros k st I Hf.
  - destruct I as (Hk & Hn & _). lia.
  - cbn [prun]. pose proof (pstep_inv g D L k st I) as P.
    assert (Hk : (k <= 3 * (L + 1))%nat) by (destruct I as (Hk & Hn & _); lia).
    destruct (pstep g D L st) as [st'|out].
    + apply (IH (S k) st' P). lia.
    + exists out. split; [reflexivity|lia].
Qed.

(* display_bounded: never out of fuel, and at most 3 (L + 1) + 1 tokens *)
Theorem print_inc_bounded g root D L :
  exists out, print_inc g root D L = Ok out /\ (length out <= 3 * (L + 1) + 1)%nat.
Proof.
  unfold print_inc, print_fuel. apply (prun_bound g D L _ 0).
  - unfold pinv. cbn. lia.
  - lia.
Qed.

(* ---- space: the stack of the iterator never holds more than D + 1 items *)

Fixpoint depths_ok (l : list item) : Prop :=
  match l with
  | [] => True
  | x :: r => it_depth x = length r /\ depths_ok r
  end.

Definition sinv (D : nat) (st : pstate) : Prop :=
  depths_ok (st_stack st) /\ (length (st_stack st) <= D + 1)%nat.

Lemma pstep_sinv g D L st : sinv D st ->
  match pstep g D L st with inl st' => sinv D st' | inr _ => True end.
Proof.
  intros (Hd & Hl). unfold pstep.
  destruct (st_stack st) as [|top0 rest] eqn:Es; [exact I|].
  cbn [depths_ok length] in Hd, Hl. destruct Hd as [Hd0 Hdr].
  set (fresh := Nat.eqb (it_ncy top0) 0).
  set (top := if fresh then mk_item (it_node top0) (st_next st) (it_depth top0) 0 else top0).
  assert (Hdep : it_depth top = it_depth top0) by (unfold top; destruct fresh; reflexivity).
  set (stack := match it_ncy top, ikids (iget g (it_node top)) with
                | O, Some (l, _) => _ | 1, Some (_, r) => _ | _, _ => rest end).
  assert (Hs : depths_ok stack /\ (length stack <= D + 1)%nat).
  { unfold stack. destruct (it_ncy top) as [|[|m]]; destruct (ikids (iget g (it_node top))) as [[l r]|];
      try (split; [exact Hdr|lia]).
    - destruct (Nat.ltb (it_depth top) D) eqn:E; cbn [app depths_ok length it_depth].
      + apply Nat.ltb_lt in E. repeat split; auto; lia.
      + repeat split; auto; lia.
    - destruct (Nat.ltb (it_depth top) D) eqn:E; cbn [app depths_ok length it_depth].
      + apply Nat.ltb_lt in E. repeat split; auto; lia.
      + repeat split; auto; lia. }
  clearbody stack.
  destruct (Nat.ltb L (it_index top)); [exact I|].
  destruct (Nat.eqb (it_depth top) D); [exact Hs|].
  destruct (st_skip st); exact Hs.
Qed.

(* every state reached from the initial one satisfies the stack bound *)
Inductive reach (g : igraph) (D L : nat) : pstate -> pstate -> Prop :=
| reach_refl st : reach g D L st st
| reach_step st st1 st2 : pstep g D L st = inl st1 -> reach g D L st1 st2 -> reach g D L st st2.

Lemma reach_sinv g D L st0 st : reach g D L st0 st -> sinv D st0 -> sinv D st.
Proof.
  induction 1 as [st|st st1 st2 E R IH]; intros I0; [exact I0|].
  apply IH. pose proof (pstep_sinv g D L st I0) as P. rewrite E in P. exact P.
Qed.

Theorem print_inc_space g root D L st :
  reach g D L (mk_pstate [mk_item root 0 0 0] 0 false []) st -> (length (st_stack st) <= D + 1)%nat.
Proof.
  intros R. apply (reach_sinv g D L _ _ R). unfold sinv. cbn. split; [auto|lia].
Qed.

(* ---- the bound graph of a store variable (Incomplete::from_bound_ref): used by Run.v on
   stores without complete compound bounds *)
Definition graph_of_store (s : store) : igraph :=
  map (fun v => match sget s (find s v) with
                | BFree => IFree
                | BOne => IFinal One
                | BSum a b => ISum (find s a) (find s b)
                | BProd a b => IProd (find s a) (find s b)
                | BLink _ => ICycle
                end) (seq 0 (length s)).

Definition print_store_var (s : store) (v : nat) (D L : nat) : outcome unit (list tok) :=
  match res s v with
  | None => Ok [TSelf]
  | Some _ => print_inc (graph_of_store s) (find s v) D L
  end.
