(* C10 - Value encodings, accessors and pruning follow the type's bit layout.
   Only pinned statements (`Theorem name : statement. Proof. exact lemma. Qed.`) and
   `Print Assumptions`.  Model: Value/ValueModel.v (byte-faithful: buffer, bit offset, type);
   specification side: Ty/Ty.v.  Proofs: Value/ValueBits.v ValueRefine.v ValueCons.v
   ValueInv.v ValuePrune.v.

   WF v   := every byte < 256, off v + width (vty v) <= 8 * |buf v|, width (vty v) <= usize::MAX
   absv v := of_padded (vty v) (the width bits at the offset)          -- written [[v]] in comments
   small t := width t <= usize::MAX (below saturation of Final::bit_width; anything larger
              needs a buffer of 2^61 bytes). *)
From RS Require Import Lib.Tac Lib.Outcome Lib.Bits Ty.Ty
  Value.ValueModel Value.ValueBits Value.ValueRefine Value.ValueCons Value.ValueInv Value.ValuePrune
  Value.ValueWords Value.ValueEos Value.ValueWord Value.ValueBuffer.
Import ListNotations.
Local Open Scope N_scope.

(* ---- 1. the two iterators ---- *)

(* |iter_padded v| = width and it is a padded encoding (with whatever the buffer holds in
   the padding positions) of [[v]]; no index of RawByteIter is out of range *)
Theorem C10_iter_padded : forall v, WF v ->
  exists p, iter_padded v = Ok p /\ length p = N.to_nat (width (vty v)) /\ padded_of (vty v) (absv v) p.
Proof. exact iter_padded_width. Qed.
Print Assumptions C10_iter_padded.

(* iter_compact v = compact_enc [[v]] (the explicit stack never runs out of fuel) *)
Theorem C10_iter_compact : forall v, WF v -> iter_compact v = Ok (compact_enc (absv v)).
Proof. exact iter_compact_spec. Qed.
Print Assumptions C10_iter_compact.

(* ... which is the padded encoding with all padding positions deleted *)
Theorem C10_compact_is_strip : forall v, WF v ->
  exists p, iter_padded v = Ok p /\ iter_compact v = Ok (strip (vty v) p).
Proof. exact iter_compact_strip. Qed.
Print Assumptions C10_compact_is_strip.

Theorem C10_compact_len : forall v, WF v ->
  compact_len v = Ok (N.of_nat (length (compact_enc (absv v)))).
Proof. exact compact_len_spec. Qed.
Print Assumptions C10_compact_len.

(* ---- 2. decoders: any padding contents, exact consumption ---- *)

Theorem C10_from_padded_bits : forall t s p rest, small t -> padded_of t s p ->
  exists v, from_padded_bits (p ++ rest) t = Ok (v, rest) /\ WF v /\ vty v = t /\ absv v = s.
Proof. exact from_padded_bits_spec. Qed.
Print Assumptions C10_from_padded_bits.

Theorem C10_from_padded_bits_short : forall bits t, small t ->
  (length bits < N.to_nat (width t))%nat -> from_padded_bits bits t = Err EarlyEOS.
Proof. exact from_padded_bits_short. Qed.
Print Assumptions C10_from_padded_bits_short.

Theorem C10_from_compact_bits : forall t s rest, small t -> has_ty s t = true ->
  exists v, from_compact_bits (compact_enc s ++ rest) t = Ok (v, rest) /\ WF v /\ vty v = t /\ absv v = s.
Proof. exact from_compact_bits_spec. Qed.
Print Assumptions C10_from_compact_bits.

(* decoding what the iterators produce gives back the same element, consuming exactly those bits *)
Theorem C10_padded_roundtrip : forall v rest, WF v ->
  exists p x, iter_padded v = Ok p /\ from_padded_bits (p ++ rest) (vty v) = Ok (x, rest) /\
              WF x /\ vty x = vty v /\ absv x = absv v.
Proof. exact padded_roundtrip. Qed.
Print Assumptions C10_padded_roundtrip.

Theorem C10_compact_roundtrip : forall v rest, WF v ->
  exists c x, iter_compact v = Ok c /\ from_compact_bits (c ++ rest) (vty v) = Ok (x, rest) /\
              WF x /\ vty x = vty v /\ absv x = absv v.
Proof. exact compact_roundtrip. Qed.
Print Assumptions C10_compact_roundtrip.

(* ---- 3. constructors preserve WF and build the expected element ---- *)

Theorem C10_left : forall inner r, WF inner -> small (Sum (vty inner) r) ->
  exists v, v_left inner r = Ok v /\ WF v /\ vty v = Sum (vty inner) r /\
            vbits v = false :: repeat false (N.to_nat (pad_left (vty inner) r)) ++ vbits inner /\
            absv v = SL (absv inner).
Proof. exact v_left_spec. Qed.
Print Assumptions C10_left.

Theorem C10_right : forall l inner, WF inner -> small (Sum l (vty inner)) ->
  exists v, v_right l inner = Ok v /\ WF v /\ vty v = Sum l (vty inner) /\
            vbits v = true :: repeat false (N.to_nat (pad_right l (vty inner))) ++ vbits inner /\
            absv v = SR (absv inner).
Proof. exact v_right_spec. Qed.
Print Assumptions C10_right.

Theorem C10_product : forall l r, WF l -> WF r -> small (Prod (vty l) (vty r)) ->
  exists v, v_product l r = Ok v /\ WF v /\ vty v = Prod (vty l) (vty r) /\
            vbits v = vbits l ++ vbits r /\ absv v = SP (absv l) (absv r).
Proof. exact v_product_spec. Qed.
Print Assumptions C10_product.

Theorem C10_unit : WF v_unit /\ absv v_unit = SU.
Proof. exact WF_unit. Qed.
Print Assumptions C10_unit.

Theorem C10_none : forall r, small (Sum One r) ->
  exists v, v_none r = Ok v /\ WF v /\ vty v = Sum One r /\ absv v = SL SU.
Proof. exact v_none_spec. Qed.
Print Assumptions C10_none.

Theorem C10_some : forall inner, WF inner -> small (Sum One (vty inner)) ->
  exists v, v_some inner = Ok v /\ WF v /\ vty v = Sum One (vty inner) /\ absv v = SR (absv inner).
Proof. exact v_some_spec. Qed.
Print Assumptions C10_some.

Theorem C10_zero : forall t, small t ->
  WF (v_zero t) /\ vty (v_zero t) = t /\ absv (v_zero t) = szero t.
Proof. exact v_zero_spec. Qed.
Print Assumptions C10_zero.

Theorem C10_word_int_WF : forall k n v, (k <= 7)%nat -> n < 256 \/ (3 <= k)%nat ->
  v_word_int k n = Ok v -> WF v /\ vty v = word_ty k.
Proof. exact v_word_int_WF. Qed.
Print Assumptions C10_word_int_WF.

(* the helpers the constructors are made of: one-bit right shift (all three cases: shared
   buffer, copy-on-write set/clear, prepend at offset 0) and fn product (all cases) *)
Theorem C10_right_shift_1 : forall inner o nb, bytes_ok inner -> o <= blen inner ->
  exists inner' o', right_shift_1 inner o nb = Ok (inner', o') /\
    bytes_ok inner' /\ o' + 1 + blen inner = o + blen inner' /\
    getbit inner' o' = nb /\
    forall i, getbit inner' (o' + 1 + i) = getbit inner (o + i).
Proof. exact right_shift_1_spec. Qed.
Print Assumptions C10_right_shift_1.

Theorem C10_product_raw : forall left ll right rl, side_ok left ll -> side_ok right rl ->
  exists b o, product_raw left ll right rl = Ok (b, o) /\ bytes_ok b /\ o + ll + rl <= blen b /\
    bitrange b o (N.to_nat (ll + rl)) = side_bits left ll ++ side_bits right rl.
Proof. exact product_raw_spec. Qed.
Print Assumptions C10_product_raw.

(* ---- 4. constructors and accessors are inverse, however the parts were obtained ---- *)

Theorem C10_left_inverse : forall v r, WF v -> small (Sum (vty v) r) ->
  exists x l, v_left v r = Ok x /\ WF x /\ as_left x = Some l /\ WF l /\
              vty l = vty v /\ absv l = absv v /\ as_right x = None.
Proof. exact left_inverse. Qed.
Print Assumptions C10_left_inverse.

Theorem C10_right_inverse : forall l v, WF v -> small (Sum l (vty v)) ->
  exists x r, v_right l v = Ok x /\ WF x /\ as_right x = Some r /\ WF r /\
              vty r = vty v /\ absv r = absv v /\ as_left x = None.
Proof. exact right_inverse. Qed.
Print Assumptions C10_right_inverse.

Theorem C10_product_inverse : forall a b, WF a -> WF b -> small (Prod (vty a) (vty b)) ->
  exists x l r, v_product a b = Ok x /\ WF x /\ as_product x = Some (l, r) /\ WF l /\ WF r /\
                vty l = vty a /\ vty r = vty b /\ absv l = absv a /\ absv r = absv b /\
                as_left x = None /\ as_right x = None.
Proof. exact product_inverse. Qed.
Print Assumptions C10_product_inverse.

(* conversely: what an accessor returns is a WF part of the value (sharing its buffer) *)
Theorem C10_as_left_sound : forall v l, WF v -> as_left v = Some l ->
  WF l /\ (exists b, vty v = Sum (vty l) b) /\ absv v = SL (absv l) /\ as_right v = None.
Proof. exact as_left_sound. Qed.
Print Assumptions C10_as_left_sound.

Theorem C10_as_right_sound : forall v r, WF v -> as_right v = Some r ->
  WF r /\ (exists a, vty v = Sum a (vty r)) /\ absv v = SR (absv r) /\ as_left v = None.
Proof. exact as_right_sound. Qed.
Print Assumptions C10_as_right_sound.

Theorem C10_as_product_sound : forall v l r, WF v -> as_product v = Some (l, r) ->
  WF l /\ WF r /\ vty v = Prod (vty l) (vty r) /\ absv v = SP (absv l) (absv r).
Proof. exact as_product_sound. Qed.
Print Assumptions C10_as_product_sound.

Theorem C10_as_left_complete : forall v s, WF v -> absv v = SL s ->
  exists l, as_left v = Some l /\ WF l /\ absv l = s /\ as_right v = None.
Proof. exact as_left_complete. Qed.
Print Assumptions C10_as_left_complete.

Theorem C10_as_right_complete : forall v s, WF v -> absv v = SR s ->
  exists r, as_right v = Some r /\ WF r /\ absv r = s /\ as_left v = None.
Proof. exact as_right_complete. Qed.
Print Assumptions C10_as_right_complete.

(* ---- 5. pruning ---- *)

(* prune is the projection sprune of the denoted element, for every target type:
   Some exactly when sprune is, never a panic, never out of fuel *)
Theorem C10_prune_spec : forall v t, WF v -> small t ->
  match sprune (absv v) t with
  | Some s' => exists v', prune v t = Ok (Some v') /\ WF v' /\ vty v' = t /\ absv v' = s'
  | None => prune v t = Ok None
  end.
Proof. exact prune_spec. Qed.
Print Assumptions C10_prune_spec.

(* a smaller-or-equal target always succeeds, with exactly that type *)
Theorem C10_prune_le : forall v t, WF v -> ty_le t (vty v) = true ->
  exists v' s', prune v t = Ok (Some v') /\ WF v' /\ vty v' = t /\
                sprune (absv v) t = Some s' /\ absv v' = s'.
Proof. exact prune_le. Qed.
Print Assumptions C10_prune_le.

(* any target: no panic; a value that comes out is well formed, of the target type, and the projection *)
Theorem C10_prune_total : forall v t, WF v -> small t ->
  (exists r, prune v t = Ok r) /\
  (forall v', prune v t = Ok (Some v') -> WF v' /\ vty v' = t /\ sprune (absv v) t = Some (absv v')).
Proof. exact prune_total. Qed.
Print Assumptions C10_prune_total.

Theorem C10_prune_prune : forall v t1 t2 v1, WF v -> small t1 -> ty_le t2 t1 = true ->
  prune v t1 = Ok (Some v1) ->
  exists x y, prune v1 t2 = Ok (Some x) /\ prune v t2 = Ok (Some y) /\
              WF x /\ WF y /\ vty x = t2 /\ vty y = t2 /\ absv x = absv y.
Proof. exact prune_prune. Qed.
Print Assumptions C10_prune_prune.

(* ---- the hypotheses are satisfiable ---- *)
Example C10_wf_example : WF (mkV [171] 4 (word_ty 2)) /\ small (Sum (word_ty 2) (word_ty 3)) /\
  absv (mkV [171] 4 (word_ty 2)) = SP (SP (SR SU) (SL SU)) (SP (SR SU) (SR SU)).
Proof.
  split; [split; [repeat constructor|split; vm_compute; discriminate]|].
  split; [vm_compute; discriminate|vm_compute; reflexivity].
Qed.

Example C10_prune_example :
  prune (mkV [171] 4 (word_ty 2)) (Prod (Prod One Bit) One) = Ok (Some (mkV [171] 5 (Prod (Prod One Bit) One))).  (* shares the buffer *)
Proof. vm_compute. reflexivity. Qed.

(* ---- 6. word and byte-array constructors build the intended element (phase 2) ----
   word_sval k bits = the element of 2^(2^k) whose bits, most significant first, are `bits`
   (for 2^k bits: compact_enc (word_sval k bits) = bits). *)

Theorem C10_word_sval_bits : forall k bits, length bits = (2 ^ k)%nat ->
  has_ty (word_sval k bits) (word_ty k) = true /\ compact_enc (word_sval k bits) = bits /\
  of_padded (word_ty k) bits = word_sval k bits.
Proof. exact (fun k bits H => conj (word_sval_has_ty k bits) (conj (word_sval_compact k bits H) (of_padded_word k bits H))). Qed.
Print Assumptions C10_word_sval_bits.

(* Value::u1 .. u128 (k = 0 .. 7): WF, of the word type, the bits of the integer MSB first *)
Theorem C10_word_int_abs : forall k n v, (k <= 7)%nat -> v_word_int k n = Ok v ->
  WF v /\ vty v = word_ty k /\ vbits v = bits_be (2 ^ k) n /\
  absv v = word_sval k (bits_be (2 ^ k) n).
Proof. exact v_word_int_abs. Qed.
Print Assumptions C10_word_int_abs.

(* Value::u256 / u512 (and any 2^(k-3)-byte array taken as is) *)
Theorem C10_word_bytes_abs : forall k bytes, (3 <= k)%nat -> (k <= 63)%nat -> bytes_ok bytes ->
  length bytes = (2 ^ (k - 3))%nat ->
  let v := v_word_bytes k bytes in
  WF v /\ vty v = word_ty k /\ vbits v = bits_of_bytes bytes /\
  absv v = word_sval k (bits_of_bytes bytes).
Proof. exact v_word_bytes_abs. Qed.
Print Assumptions C10_word_bytes_abs.

(* Value::from_byte_array: 2^m bytes paired up level by level *)
Theorem C10_from_byte_array_abs : forall m bytes, (m + 3 <= 63)%nat -> bytes_ok bytes ->
  length bytes = (2 ^ m)%nat ->
  exists v, v_from_byte_array bytes = Ok v /\ WF v /\ vty v = word_ty (m + 3) /\
            vbits v = bits_of_bytes bytes /\ absv v = word_sval (m + 3) (bits_of_bytes bytes).
Proof. exact v_from_byte_array_abs. Qed.
Print Assumptions C10_from_byte_array_abs.

Theorem C10_from_byte_array_not_pow2 : v_from_byte_array [1; 2; 3] = Panic 7.
Proof. exact v_from_byte_array_three. Qed.
Print Assumptions C10_from_byte_array_not_pow2.

(* ---- 7. end of stream in from_compact_bits (phase 2) ---- *)

(* the decoder is the specification decoder of Ty.v: a value with the exact rest, or
   EarlyEndOfStream; never a value from a short stream, never a panic, never out of fuel *)
Theorem C10_from_compact_bits_total : forall t bits, small t ->
  match of_compact t bits with
  | Some (s, rest) => exists v, from_compact_bits bits t = Ok (v, rest) /\ WF v /\ vty v = t /\ absv v = s
  | None => from_compact_bits bits t = Err EarlyEOS
  end.
Proof. exact from_compact_bits_total. Qed.
Print Assumptions C10_from_compact_bits_total.

(* failure exactly when no value's encoding is a prefix of the stream ... *)
Theorem C10_of_compact_none_iff : forall t bits,
  of_compact t bits = None <-> (forall s rest, has_ty s t = true -> bits <> compact_enc s ++ rest).
Proof. exact of_compact_none_iff. Qed.
Print Assumptions C10_of_compact_none_iff.

(* ... and then the stream is a proper prefix of a valid encoding (too short, never malformed) *)
Theorem C10_of_compact_none_extends : forall t bits, of_compact t bits = None ->
  exists ext s, ext <> [] /\ has_ty s t = true /\ bits ++ ext = compact_enc s.
Proof. exact of_compact_none_extends. Qed.
Print Assumptions C10_of_compact_none_extends.

(* how many bits were needed: cneed follows the path the stream selects; a success consumed
   exactly cneed bits, a failure starved at bit number |bits| + 1 *)
Theorem C10_cneed_spec : forall t bits,
  match of_compact t bits with
  | Some (_, rest) => (cneed t bits + length rest = length bits)%nat
  | None => cneed t bits = S (length bits)
  end.
Proof. exact cneed_spec. Qed.
Print Assumptions C10_cneed_spec.

Theorem C10_from_compact_bits_eos_iff : forall t bits, small t ->
  (from_compact_bits bits t = Err EarlyEOS <-> (length bits < cneed t bits)%nat).
Proof. exact from_compact_bits_eos_iff. Qed.
Print Assumptions C10_from_compact_bits_eos_iff.

Theorem C10_from_compact_bits_consumed : forall t bits v rest, small t ->
  from_compact_bits bits t = Ok (v, rest) -> (cneed t bits + length rest = length bits)%nat.
Proof. exact from_compact_bits_consumed. Qed.
Print Assumptions C10_from_compact_bits_consumed.

(* ---- 8. small specifications (phase 2) ---- *)

Theorem C10_is_of_type : forall v t, (is_of_type v t = true <-> vty v = t) /\
  (is_of_type v t = true -> has_ty (absv v) t = true).
Proof. exact is_of_type_spec. Qed.
Print Assumptions C10_is_of_type.

Theorem C10_padded_len : forall v, WF v ->
  padded_len v = width (vty v) /\
  (exists p, iter_padded v = Ok p /\ N.of_nat (length p) = padded_len v) /\
  (exists c, compact_len v = Ok c /\ c <= padded_len v).
Proof. exact padded_len_spec. Qed.
Print Assumptions C10_padded_len.

Theorem C10_zero_serialises_to_zeros : forall t, small t ->
  exists n, iter_compact (v_zero t) = Ok (repeat false n) /\
            iter_padded (v_zero t) = Ok (repeat false (N.to_nat (width t))).
Proof. exact v_zero_serialises_to_zeros. Qed.
Print Assumptions C10_zero_serialises_to_zeros.

(* ---- 9. buffers and SHA-256 contexts (phase 2) ----
   buffer_sval n data: per component k = n .. 0 of buffer_ty n, Some(the next 2^k bytes) when bit k
   of the length is set, None otherwise. *)

Theorem C10_buffer8_abs : forall n data, small (buffer_ty n) -> bytes_ok data ->
  if (2 ^ S n <=? length data)%nat then v_buffer8 n data = Ok None
  else exists v, v_buffer8 n data = Ok (Some v) /\ WF v /\ vty v = buffer_ty n /\
                 vbits v = buffer_bits n data /\ absv v = buffer_sval n data.
Proof. exact v_buffer8_abs. Qed.
Print Assumptions C10_buffer8_abs.

(* Value::ctx8 = product(buffer8(5, buffer), product(u64 count, u256 midstate)) *)
Theorem C10_ctx8_abs : forall midstate bytes_hashed buffer, bytes_ok midstate -> length midstate = 32%nat ->
  bytes_ok buffer ->
  if (64 <=? length buffer)%nat then v_ctx8 midstate bytes_hashed buffer = Ok None
  else exists v, v_ctx8 midstate bytes_hashed buffer = Ok (Some v) /\ WF v /\ vty v = ctx8_ty /\
         absv v = SP (buffer_sval 5 buffer)
                     (SP (word_sval 6 (bits_be 64 bytes_hashed)) (word_sval 8 (bits_of_bytes midstate))).
Proof. exact v_ctx8_abs. Qed.
Print Assumptions C10_ctx8_abs.

Example C10_buffer_example :
  small (buffer_ty 5) /\
  buffer_sval 1 [1; 2; 3] =
    SP (SR (word_sval 4 (bits_of_bytes [1; 2]))) (SR (word_sval 3 (bits_of_bytes [3]))) /\
  buffer_sval 1 [9] = SP (SL SU) (SR (word_sval 3 (bits_of_bytes [9]))) /\
  v_buffer8 1 [1; 2; 3; 4] = Ok None.
Proof. split; [exact small_buffer5|]. split; [reflexivity|]. split; reflexivity. Qed.

(* the assert! of u1 / u2 / u4 fires exactly for arguments out of range *)
Theorem C10_word_int_range : forall k n, (k <= 7)%nat ->
  (exists v, v_word_int k n = Ok v) \/
  ((k <= 2)%nat /\ 2 ^ (2 ^ N.of_nat k) <= n /\ v_word_int k n = Panic 4).
Proof. exact v_word_int_range. Qed.
Print Assumptions C10_word_int_range.
