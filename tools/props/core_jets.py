"""Python reference of the Core jets on words (arithmetic, logic, comparison, shift, resize and
division families) and on typed values (SHA-256 family, parse_lock / parse_sequence, secp256k1 field and
scalar arithmetic), independent of coq/Jets/JetSpec.v: written from the meaning of the jets
(simplicity-sys/depend/simplicity/jets.c, tech report), on python integers and bit lists.

API
  SPECIFIED               set of jet names with a reference here
  JET_TYPES               name -> (source type, target type) (proggen type tuples)
  eval_jet(name, value)   value of the source type -> value of the target type;
                          raises proggen.EvalFail('jet') when the jet fails, EvalFail('nojet')
                          for a name without reference
  edge_inputs(name, rng)  extra family-specific inputs (bit lists of the source width)

All source and target types are products of bits and words, so a value is its bit string
(compact = padded encoding).  Words are big-endian: the first bit is the most significant.
"""
import proggen as pg

WIDTHS = (8, 16, 32, 64)
WIDTHS1 = (1, 8, 16, 32, 64)
BIT = pg.BIT
UNIT = pg.U


def wty(n):
    """type of the words of n bits, n a power of two (wty(1) is the bit type)"""
    k = n.bit_length() - 1
    assert n == 1 << k
    return pg.word(k)


def num(bits):
    x = 0
    for b in bits:
        x = 2 * x + b
    return x


def to_bits(n, x):
    """x as n bits, most significant first; x must fit"""
    assert 0 <= x < (1 << n), (n, x)
    return [(x >> i) & 1 for i in range(n - 1, -1, -1)]


def cut(bits, widths):
    """split a bit list into pieces of the given widths"""
    assert sum(widths) == len(bits)
    out = []
    pos = 0
    for w in widths:
        out.append(bits[pos:pos + w])
        pos += w
    return out


_J = {}      # name -> (src, tgt, bits -> bits, family, params)


def _reg(name, src, tgt, fn, fam, *params):
    assert name not in _J
    _J[name] = (src, tgt, fn, fam, params)


def _on_numbers(widths, g):
    """g takes the input fields as integers, returns [(width, integer)] output fields"""
    def fn(bits):
        out = []
        for w, v in g(*[num(p) for p in cut(bits, widths)]):
            out += to_bits(w, v)
        return out
    return fn


def _on_words(widths, g):
    """g takes the input fields as bit lists, returns the output bit list"""
    return lambda bits: g(*cut(bits, widths))


# ------------------------------------------------------------------ arithmetic
# Results are (carry or borrow bit, word): the exact result is word + carry * 2^w for the
# additions and word - borrow * 2^w for the subtractions.
def _with_carry(w, s):
    c = 1 if s >= (1 << w) else 0
    return [(1, c), (w, s - (c << w))]


def _with_borrow(w, d):
    b = 1 if d < 0 else 0
    return [(1, b), (w, d + (b << w))]


for _w in WIDTHS:
    _w2 = 2 * _w
    _cw = pg.P(BIT, wty(_w))
    _reg("add_%d" % _w, wty(_w2), _cw, _on_numbers([_w, _w], lambda x, y, w=_w: _with_carry(w, x + y)), "add", _w)
    _reg("full_add_%d" % _w, pg.P(BIT, wty(_w2)), _cw,
         _on_numbers([1, _w, _w], lambda c, x, y, w=_w: _with_carry(w, x + y + c)), "full_add", _w)
    _reg("subtract_%d" % _w, wty(_w2), _cw, _on_numbers([_w, _w], lambda x, y, w=_w: _with_borrow(w, x - y)), "subtract", _w)
    _reg("full_subtract_%d" % _w, pg.P(BIT, wty(_w2)), _cw,
         _on_numbers([1, _w, _w], lambda b, x, y, w=_w: _with_borrow(w, x - y - b)), "full_subtract", _w)
    _reg("negate_%d" % _w, wty(_w), _cw, _on_numbers([_w], lambda x, w=_w: _with_borrow(w, -x)), "negate", _w)
    _reg("increment_%d" % _w, wty(_w), _cw, _on_numbers([_w], lambda x, w=_w: _with_carry(w, x + 1)), "increment", _w)
    _reg("full_increment_%d" % _w, _cw, _cw, _on_numbers([1, _w], lambda c, x, w=_w: _with_carry(w, x + c)), "full_increment", _w)
    _reg("decrement_%d" % _w, wty(_w), _cw, _on_numbers([_w], lambda x, w=_w: _with_borrow(w, x - 1)), "decrement", _w)
    _reg("full_decrement_%d" % _w, _cw, _cw, _on_numbers([1, _w], lambda b, x, w=_w: _with_borrow(w, x - b)), "full_decrement", _w)
    _reg("multiply_%d" % _w, wty(_w2), wty(_w2), _on_numbers([_w, _w], lambda x, y, w=_w: [(2 * w, x * y)]), "multiply", _w)
    _reg("full_multiply_%d" % _w, wty(4 * _w), wty(_w2),
         _on_numbers([_w] * 4, lambda x, y, z, t, w=_w: [(2 * w, x * y + z + t)]), "full_multiply", _w)

# ------------------------------------------------------------------ tests of one word, constants
for _w in WIDTHS:
    _reg("is_zero_%d" % _w, wty(_w), BIT, _on_numbers([_w], lambda x: [(1, int(x == 0))]), "is_zero", _w)
    _reg("is_one_%d" % _w, wty(_w), BIT, _on_numbers([_w], lambda x: [(1, int(x == 1))]), "is_one", _w)
    _reg("all_%d" % _w, wty(_w), BIT, lambda bits: [int(all(bits))], "all", _w)
    _reg("one_%d" % _w, UNIT, wty(_w), lambda bits, w=_w: [0] * (w - 1) + [1], "one", _w)
for _w in WIDTHS1:
    _reg("some_%d" % _w, wty(_w), BIT, lambda bits: [int(any(bits))], "some", _w)
    _reg("low_%d" % _w, UNIT, wty(_w), lambda bits, w=_w: [0] * w, "low", _w)
    _reg("high_%d" % _w, UNIT, wty(_w), lambda bits, w=_w: [1] * w, "high", _w)

# ------------------------------------------------------------------ bitwise logic
for _w in WIDTHS1:
    _t3 = pg.P(wty(_w), wty(2 * _w))
    _reg("complement_%d" % _w, wty(_w), wty(_w), lambda bits: [1 - b for b in bits], "complement", _w)
    _reg("and_%d" % _w, wty(2 * _w), wty(_w), _on_words([_w, _w], lambda x, y: [a & b for a, b in zip(x, y)]), "and", _w)
    _reg("or_%d" % _w, wty(2 * _w), wty(_w), _on_words([_w, _w], lambda x, y: [a | b for a, b in zip(x, y)]), "or", _w)
    _reg("xor_%d" % _w, wty(2 * _w), wty(_w), _on_words([_w, _w], lambda x, y: [a ^ b for a, b in zip(x, y)]), "xor", _w)
    _reg("xor_xor_%d" % _w, _t3, wty(_w),
         _on_words([_w] * 3, lambda x, y, z: [(a + b + c) % 2 for a, b, c in zip(x, y, z)]), "xor_xor", _w)
    _reg("maj_%d" % _w, _t3, wty(_w),
         _on_words([_w] * 3, lambda x, y, z: [int(a + b + c >= 2) for a, b, c in zip(x, y, z)]), "maj", _w)
    # choice: each bit of the first word selects the bit of the second (1) or of the third (0) word
    _reg("ch_%d" % _w, _t3, wty(_w),
         _on_words([_w] * 3, lambda x, y, z: [b if a else c for a, b, c in zip(x, y, z)]), "ch", _w)

# ------------------------------------------------------------------ comparisons (unsigned)
for _w in (1, 8, 16, 32, 64, 256):
    _reg("eq_%d" % _w, wty(2 * _w), BIT, _on_words([_w, _w], lambda x, y: [int(x == y)]), "eq", _w)
for _w in WIDTHS:
    _t3 = pg.P(wty(_w), wty(2 * _w))
    _reg("le_%d" % _w, wty(2 * _w), BIT, _on_numbers([_w, _w], lambda x, y: [(1, int(x <= y))]), "le", _w)
    _reg("lt_%d" % _w, wty(2 * _w), BIT, _on_numbers([_w, _w], lambda x, y: [(1, int(x < y))]), "lt", _w)
    _reg("min_%d" % _w, wty(2 * _w), wty(_w), _on_numbers([_w, _w], lambda x, y, w=_w: [(w, min(x, y))]), "min", _w)
    _reg("max_%d" % _w, wty(2 * _w), wty(_w), _on_numbers([_w, _w], lambda x, y, w=_w: [(w, max(x, y))]), "max", _w)
    _reg("median_%d" % _w, _t3, wty(_w),
         _on_numbers([_w] * 3, lambda x, y, z, w=_w: [(w, sorted([x, y, z])[1])]), "median", _w)

# ------------------------------------------------------------------ shifts and rotations
# input: shift amount (4 bits for the 8 and 16 bit words, 8 bits for the 32 and 64 bit words),
# then the word; the _with variants have a leading bit that is shifted in (0 otherwise).
AMOUNT_BITS = {8: 4, 16: 4, 32: 8, 64: 8}


def _shl(fill, amt, word):
    return (word + [fill] * num(amt))[-len(word):]


def _shr(fill, amt, word):
    return ([fill] * num(amt) + word)[:len(word)]


def _rotl(amt, word):
    k = num(amt) % len(word)
    return word[k:] + word[:k]


def _rotr(amt, word):
    k = num(amt) % len(word)
    return word[len(word) - k:] + word[:len(word) - k]


for _w in WIDTHS:
    _l = AMOUNT_BITS[_w]
    _st = pg.P(wty(_l), wty(_w))
    _reg("left_shift_%d" % _w, _st, wty(_w), _on_words([_l, _w], lambda a, x: _shl(0, a, x)), "left_shift", _l, _w)
    _reg("right_shift_%d" % _w, _st, wty(_w), _on_words([_l, _w], lambda a, x: _shr(0, a, x)), "right_shift", _l, _w)
    _reg("left_shift_with_%d" % _w, pg.P(BIT, _st), wty(_w),
         _on_words([1, _l, _w], lambda b, a, x: _shl(b[0], a, x)), "left_shift_with", _l, _w)
    _reg("right_shift_with_%d" % _w, pg.P(BIT, _st), wty(_w),
         _on_words([1, _l, _w], lambda b, a, x: _shr(b[0], a, x)), "right_shift_with", _l, _w)
    _reg("left_rotate_%d" % _w, _st, wty(_w), _on_words([_l, _w], _rotl), "left_rotate", _l, _w)
    _reg("right_rotate_%d" % _w, _st, wty(_w), _on_words([_l, _w], _rotr), "right_rotate", _l, _w)

# shifts by a fixed number k of bits that keep everything:
#   full_left_shift_w_k  (word, k bits to shift in) -> (k bits shifted out, word)
#   full_right_shift_w_k (k bits to shift in, word) -> (word, k bits shifted out)
for _w in WIDTHS:
    _k = 1
    while _k < _w:
        _reg("full_left_shift_%d_%d" % (_w, _k), pg.P(wty(_w), wty(_k)), pg.P(wty(_k), wty(_w)),
             _on_words([_w, _k], lambda x, y, k=_k: x[:k] + (x[k:] + y)), "full_left_shift", _w, _k)
        _reg("full_right_shift_%d_%d" % (_w, _k), pg.P(wty(_k), wty(_w)), pg.P(wty(_w), wty(_k)),
             _on_words([_k, _w], lambda y, x, k=_k: (y + x[:len(x) - k]) + x[len(x) - k:]), "full_right_shift", _w, _k)
        _reg("leftmost_%d_%d" % (_w, _k), wty(_w), wty(_k), lambda x, k=_k: x[:k], "leftmost", _w, _k)
        _reg("rightmost_%d_%d" % (_w, _k), wty(_w), wty(_k), lambda x, k=_k: x[len(x) - k:], "rightmost", _w, _k)
        _k *= 2

# ------------------------------------------------------------------ padding and extension n -> m
for _n in (1, 8, 16, 32):
    for _m in WIDTHS:
        if _m <= _n:
            continue
        _d = _m - _n
        _nm = "%d_%d" % (_n, _m)
        _reg("left_pad_low_" + _nm, wty(_n), wty(_m), lambda x, d=_d: [0] * d + x, "left_pad_low", _n, _m)
        _reg("left_pad_high_" + _nm, wty(_n), wty(_m), lambda x, d=_d: [1] * d + x, "left_pad_high", _n, _m)
        _reg("right_pad_low_" + _nm, wty(_n), wty(_m), lambda x, d=_d: x + [0] * d, "right_pad_low", _n, _m)
        _reg("right_pad_high_" + _nm, wty(_n), wty(_m), lambda x, d=_d: x + [1] * d, "right_pad_high", _n, _m)
        # extension repeats the outermost bit (left_extend = sign extension)
        _reg("left_extend_" + _nm, wty(_n), wty(_m), lambda x, d=_d: [x[0]] * d + x, "left_extend", _n, _m)
        if _n > 1:    # right_extend_1_m does not exist
            _reg("right_extend_" + _nm, wty(_n), wty(_m), lambda x, d=_d: x + [x[-1]] * d, "right_extend", _n, _m)


# ------------------------------------------------------------------ division
# x / 0 = 0 and x mod 0 = x;  divides(x, y): "x divides y", where 0 divides only 0
def _quot(x, y):
    return x // y if y else 0


def _rem(x, y):
    return x % y if y else x


def _divides(x, y):
    if x == 0:
        return y == 0
    return y % x == 0


for _w in WIDTHS:
    _reg("divide_%d" % _w, wty(2 * _w), wty(_w), _on_numbers([_w, _w], lambda x, y, w=_w: [(w, _quot(x, y))]), "divide", _w)
    _reg("modulo_%d" % _w, wty(2 * _w), wty(_w), _on_numbers([_w, _w], lambda x, y, w=_w: [(w, _rem(x, y))]), "modulo", _w)
    _reg("div_mod_%d" % _w, wty(2 * _w), wty(2 * _w),
         _on_numbers([_w, _w], lambda x, y, w=_w: [(w, _quot(x, y)), (w, _rem(x, y))]), "div_mod", _w)
    _reg("divides_%d" % _w, wty(2 * _w), BIT, _on_numbers([_w, _w], lambda x, y: [(1, int(_divides(x, y)))]), "divides", _w)


def _div_mod_128_64(a, b):
    """(quotient, remainder) of a 128 bit number by a 64 bit number with the top bit set, when
    the quotient fits in 64 bits (high half of a < b); all bits set otherwise"""
    if b >= 1 << 63 and (a >> 64) < b:
        q, r = divmod(a, b)
        return [(64, q), (64, r)]
    return [(64, (1 << 64) - 1), (64, (1 << 64) - 1)]


_reg("div_mod_128_64", pg.P(wty(128), wty(64)), wty(128), _on_numbers([128, 64], _div_mod_128_64), "div_mod_128_64")


# ------------------------------------------------------------------ verify
def _verify(bits):
    if bits != [1]:
        raise pg.EvalFail("jet")
    return []


_reg("verify", BIT, UNIT, _verify, "verify")


# ------------------------------------------------------------------ jets on typed values
# The SHA-256 family, parse_lock / parse_sequence and the field / scalar arithmetic of secp256k1.
# The CTX8 type has optional components, so these references work on values, not on bit strings:
#   _JV[name] = (src, tgt, value -> value (raises EvalFail('jet') when the jet fails), family, params)
# Written from FIPS 180-4, BIP-340/SEC2 and the comments in jets.c / frame.c / sha256.h
# (independent of coq/Jets/JetSpecSha.v and of coq/Merkle/Sha256.v).
_JV = {}


def _regv(name, src, tgt, fn, fam, *params):
    assert name not in _J and name not in _JV
    _JV[name] = (src, tgt, fn, fam, params)


_K256 = [
    0x428a2f98, 0x71374491, 0xb5c0fbcf, 0xe9b5dba5, 0x3956c25b, 0x59f111f1, 0x923f82a4, 0xab1c5ed5, 0xd807aa98, 0x12835b01,
    0x243185be, 0x550c7dc3, 0x72be5d74, 0x80deb1fe, 0x9bdc06a7, 0xc19bf174, 0xe49b69c1, 0xefbe4786, 0x0fc19dc6, 0x240ca1cc,
    0x2de92c6f, 0x4a7484aa, 0x5cb0a9dc, 0x76f988da, 0x983e5152, 0xa831c66d, 0xb00327c8, 0xbf597fc7, 0xc6e00bf3, 0xd5a79147,
    0x06ca6351, 0x14292967, 0x27b70a85, 0x2e1b2138, 0x4d2c6dfc, 0x53380d13, 0x650a7354, 0x766a0abb, 0x81c2c92e, 0x92722c85,
    0xa2bfe8a1, 0xa81a664b, 0xc24b8b70, 0xc76c51a3, 0xd192e819, 0xd6990624, 0xf40e3585, 0x106aa070, 0x19a4c116, 0x1e376c08,
    0x2748774c, 0x34b0bcb5, 0x391c0cb3, 0x4ed8aa4a, 0x5b9cca4f, 0x682e6ff3, 0x748f82ee, 0x78a5636f, 0x84c87814, 0x8cc70208,
    0x90befffa, 0xa4506ceb, 0xbef9a3f7, 0xc67178f2]
SHA_IV = [0x6a09e667, 0xbb67ae85, 0x3c6ef372, 0xa54ff53a, 0x510e527f, 0x9b05688c, 0x1f83d9ab, 0x5be0cd19]
_M32 = 0xFFFFFFFF


def _rotr(x, n):
    return ((x >> n) | (x << (32 - n))) & _M32


def sha_compress(h, block):
    """h: 8 words, block: 64 bytes -> 8 words"""
    assert len(h) == 8 and len(block) == 64
    w = [int.from_bytes(bytes(block[4 * i:4 * i + 4]), "big") for i in range(16)]
    for i in range(16, 64):
        s0 = _rotr(w[i - 15], 7) ^ _rotr(w[i - 15], 18) ^ (w[i - 15] >> 3)
        s1 = _rotr(w[i - 2], 17) ^ _rotr(w[i - 2], 19) ^ (w[i - 2] >> 10)
        w.append((w[i - 16] + s0 + w[i - 7] + s1) & _M32)
    a, b, c, d, e, f, g, hh = h
    for i in range(64):
        s1 = _rotr(e, 6) ^ _rotr(e, 11) ^ _rotr(e, 25)
        ch = (e & f) ^ (~e & _M32 & g)
        t1 = (hh + s1 + ch + _K256[i] + w[i]) & _M32
        s0 = _rotr(a, 2) ^ _rotr(a, 13) ^ _rotr(a, 22)
        mj = (a & b) ^ (a & c) ^ (b & c)
        t2 = (s0 + mj) & _M32
        hh, g, f, e, d, c, b, a = g, f, e, (d + t1) & _M32, c, b, a, (t1 + t2) & _M32
    return [(x + y) & _M32 for x, y in zip(h, [a, b, c, d, e, f, g, hh])]


def _selftest_sha():
    import hashlib
    for msg in (b"", b"abc", bytes(range(200))):
        m = msg + b"\x80" + b"\x00" * ((55 - len(msg)) % 64) + (8 * len(msg)).to_bytes(8, "big")
        h = list(SHA_IV)
        for i in range(0, len(m), 64):
            h = sha_compress(h, list(m[i:i + 64]))
        assert b"".join(x.to_bytes(4, "big") for x in h) == hashlib.sha256(msg).digest()


_selftest_sha()


def wval(n, x):
    """the integer x as a value of the word type of n bits"""
    return pg.of_compact(wty(n), to_bits(n, x))[0]


def wnum(v):
    return num(pg.compact_bits(v))


def wbytes(v):
    bits = pg.compact_bits(v)
    assert len(bits) % 8 == 0
    return [num(bits[i:i + 8]) for i in range(0, len(bits), 8)]


def bytes_val(bs):
    bits = []
    for b in bs:
        bits += to_bits(8, b)
    return pg.of_compact(wty(len(bits)), bits)[0]


def buf_ty(n):
    """(2^8)^<2^(n+1): options of 2^n, ..., 2, 1 bytes"""
    t = pg.opt(wty(8))
    for k in range(1, n + 1):
        t = pg.P(pg.opt(wty(8 << k)), t)
    return t


CTX8 = pg.P(buf_ty(5), pg.P(wty(64), wty(256)))
MAX_BLOCKS = 1 << 55
MAX_COUNTER = 1 << 61


def buf_bytes(n, v):
    out = []
    for k in range(n, -1, -1):
        o, v = (v[1], v[2]) if k > 0 else (v, None)
        if o[0] == "R":
            out += wbytes(o[1])
    return out


def buf_val(n, bs):
    parts = []
    bs = list(bs)
    assert len(bs) < (2 << n)
    for k in range(n, -1, -1):
        nb = 1 << k
        if len(bs) >= nb:
            parts.append(("R", bytes_val(bs[:nb])))
            bs = bs[nb:]
        else:
            parts.append(("L", ("U",)))
    v = parts[-1]
    for p in reversed(parts[:-1]):
        v = ("P", p, v)
    return v


def ctx_val(buf, blocks, mid):
    """CTX8 value from a buffer (< 64 bytes), a block count (64 bits) and a midstate (8 words)"""
    mb = []
    for x in mid:
        mb += list(x.to_bytes(4, "big"))
    return ("P", buf_val(5, buf), ("P", wval(64, blocks), bytes_val(mb)))


def ctx_read(v):
    buf = buf_bytes(5, v[1])
    blocks = wnum(v[2][1])
    mb = wbytes(v[2][2])
    if blocks >= MAX_BLOCKS:
        raise pg.EvalFail("jet")
    return buf, blocks, [int.from_bytes(bytes(mb[4 * i:4 * i + 4]), "big") for i in range(8)]


def ctx_add(ctx, data):
    buf, blocks, mid = ctx
    counter = 64 * blocks + len(buf)
    if counter + len(data) >= MAX_COUNTER:
        raise pg.EvalFail("jet")
    pending = buf + list(data)
    while len(pending) >= 64:
        mid = sha_compress(mid, pending[:64])
        pending = pending[64:]
    return pending, (counter + len(data)) // 64, mid


def ctx_finalize(ctx):
    buf, blocks, mid = ctx
    total = 64 * blocks + len(buf)
    tail = [0x80] + [0] * ((55 - total) % 64) + list((8 * total).to_bytes(8, "big"))
    pending, _, mid = ctx_add((buf, 0, mid), tail)       # the counter no longer matters
    assert not pending
    return mid


def _mid_val(mid):
    mb = []
    for x in mid:
        mb += list(x.to_bytes(4, "big"))
    return bytes_val(mb)


def _words_of(v):
    mb = wbytes(v)
    return [int.from_bytes(bytes(mb[4 * i:4 * i + 4]), "big") for i in range(len(mb) // 4)]


_regv("sha_256_iv", UNIT, wty(256), lambda v: _mid_val(SHA_IV), "sha_const")
_regv("sha_256_block", pg.P(wty(256), wty(512)), wty(256),
      lambda v: _mid_val(sha_compress(_words_of(v[1]), wbytes(v[2]))), "sha_block")
_regv("sha_256_ctx_8_init", UNIT, CTX8, lambda v: ctx_val([], 0, SHA_IV), "sha_const")


def _tapdata():
    import hashlib
    d = hashlib.sha256(b"TapData").digest()
    return ctx_val([], 1, sha_compress(SHA_IV, list(d + d)))


_regv("tapdata_init", UNIT, CTX8, lambda v: _tapdata(), "sha_const")
for _n in (1, 2, 4, 8, 16, 32, 64, 128, 256, 512):
    _regv("sha_256_ctx_8_add_%d" % _n, pg.P(CTX8, wty(8 * _n)), CTX8,
          lambda v: ctx_val(*ctx_add(ctx_read(v[1]), wbytes(v[2]))), "ctx_add", _n)
_regv("sha_256_ctx_8_add_buffer_511", pg.P(CTX8, buf_ty(8)), CTX8,
      lambda v: ctx_val(*ctx_add(ctx_read(v[1]), buf_bytes(8, v[2]))), "ctx_add_buffer")
_regv("sha_256_ctx_8_finalize", CTX8, wty(256), lambda v: _mid_val(ctx_finalize(ctx_read(v))), "ctx_finalize")


def _parse_lock(v):
    n = wnum(v)
    return ("R", v) if n >= 500000000 else ("L", v)


def _parse_sequence(v):
    n = wnum(v)
    if n >> 31:
        return ("L", ("U",))
    low = wval(16, n & 0xFFFF)
    return ("R", ("R", low) if (n >> 22) & 1 else ("L", low))


_regv("parse_lock", wty(32), pg.S(wty(32), wty(32)), _parse_lock, "parse_lock")
_regv("parse_sequence", wty(32), pg.opt(pg.S(wty(16), wty(16))), _parse_sequence, "parse_sequence")

# secp256k1: the field of p elements and the scalars modulo the group order; every 256-bit pattern is
# accepted and reduced, results are canonical
FE_P = 2 ** 256 - 2 ** 32 - 977
SC_N = 0xFFFFFFFFFFFFFFFFFFFFFFFFFFFFFFFEBAAEDCE6AF48A03BBFD25E8CD0364141
FE_BETA = 0x7ae96a2b657c07106e64479eac3434e99cf0497512f58995c1396c28719501ee
SC_LAMBDA = 0x5363ad4cc05c30e0a5261c028812645a122e22ea20816678df02967c1b23bd72
assert pow(FE_BETA, 3, FE_P) == 1 and pow(SC_LAMBDA, 3, SC_N) == 1


def _bitv(b):
    return ("R", ("U",)) if b else ("L", ("U",))


def _fe_sqrt(v):
    a = wnum(v) % FE_P
    r = pow(a, (FE_P + 1) // 4, FE_P)
    return ("R", wval(256, r)) if r * r % FE_P == a else ("L", ("U",))


for _pre, _m, _c, _cn in (("fe", FE_P, FE_BETA, "beta"), ("scalar", SC_N, SC_LAMBDA, "lambda")):
    _regv(_pre + "_add", wty(512), wty(256), lambda v, m=_m: wval(256, (wnum(v[1]) + wnum(v[2])) % m), "mod2", _m)
    _regv(_pre + "_multiply", wty(512), wty(256), lambda v, m=_m: wval(256, (wnum(v[1]) * wnum(v[2])) % m), "mod2", _m)
    _regv(_pre + "_square", wty(256), wty(256), lambda v, m=_m: wval(256, wnum(v) ** 2 % m), "mod1", _m)
    _regv(_pre + "_negate", wty(256), wty(256), lambda v, m=_m: wval(256, -wnum(v) % m), "mod1", _m)
    _regv(_pre + "_normalize", wty(256), wty(256), lambda v, m=_m: wval(256, wnum(v) % m), "mod1", _m)
    _regv(_pre + "_invert", wty(256), wty(256), lambda v, m=_m: wval(256, pow(wnum(v) % m, m - 2, m)), "mod1", _m)
    _regv(_pre + "_is_zero", wty(256), BIT, lambda v, m=_m: _bitv(wnum(v) % m == 0), "mod1", _m)
    _regv("%s_multiply_%s" % (_pre, _cn), wty(256), wty(256), lambda v, m=_m, c=_c: wval(256, wnum(v) * c % m), "mod1", _m)
_regv("fe_is_odd", wty(256), BIT, lambda v: _bitv(wnum(v) % FE_P % 2 == 1), "mod1", FE_P)
_regv("fe_square_root", wty(256), pg.opt(wty(256)), _fe_sqrt, "mod1", FE_P)


def _ctx_edge_values(rng, n_extra):
    """contexts worth trying: every buffer length class, block counts at the limits"""
    out = []
    mids = [SHA_IV, [num(rng.bits(32)) for _ in range(8)]]
    lens = [0, 1, 31, 32, 33, 55, 56, 62, 63] + [rng.below(64) for _ in range(n_extra)]
    for ln in lens:
        out.append(ctx_val([num(rng.bits(8)) for _ in range(ln)], rng.below(5), rng.choice(mids)))
    for ln, blocks in ((0, MAX_BLOCKS - 1), (63, MAX_BLOCKS - 1), (62, MAX_BLOCKS - 1), (0, MAX_BLOCKS), (5, MAX_BLOCKS + 1),
                       (0, MAX_BLOCKS - 2), (40, MAX_BLOCKS - 3), (0, MAX_BLOCKS - 8), (1, MAX_BLOCKS - 9), (17, (1 << 64) - 1),
                       (3, 1 << 58), (63, MAX_BLOCKS - 5), (60, MAX_BLOCKS - 4)):
        out.append(ctx_val([num(rng.bits(8)) for _ in range(ln)], blocks, rng.choice(mids)))
    return out


def _edge_values(name, rng):
    src, tgt, fn, fam, params = _JV[name]
    vals = []
    if fam == "sha_block":
        vals.append(("P", _mid_val(SHA_IV), bytes_val([0x80] + [0] * 63)))                 # the empty message
        vals.append(("P", _mid_val(SHA_IV), bytes_val([97, 98, 99, 0x80] + [0] * 59 + [24])))   # "abc"
    elif fam == "ctx_add":
        n = params[0]
        for c in _ctx_edge_values(rng, 3):
            vals.append(("P", c, bytes_val([num(rng.bits(8)) for _ in range(n)])))
    elif fam == "ctx_add_buffer":
        ctxs = _ctx_edge_values(rng, 2)
        for k, ln in enumerate([0, 1, 63, 64, 65, 127, 128, 255, 256, 257, 510, 511, rng.below(512), rng.below(512)]):
            data = [num(rng.bits(8)) for _ in range(ln)]
            vals.append(("P", ctxs[k % len(ctxs)], buf_val(8, data)))
            vals.append(("P", ctxs[(3 * k + 5) % len(ctxs)], buf_val(8, data)))
    elif fam == "ctx_finalize":
        vals += _ctx_edge_values(rng, 6)
    elif fam == "parse_lock":
        for x in (0, 1, 499999999, 500000000, 500000001, 2 ** 31, 2 ** 32 - 1, num(rng.bits(32)), num(rng.bits(29))):
            vals.append(wval(32, x))
    elif fam == "parse_sequence":
        for x in (0, 1, 0xFFFF, 0x10000, 1 << 22, (1 << 22) | 0xFFFF, (1 << 22) - 1, (1 << 31) - 1, 1 << 31, (1 << 31) | (1 << 22) | 5,
                  2 ** 32 - 1, (1 << 23) | 77, num(rng.bits(31)), num(rng.bits(31)) | (1 << 22), num(rng.bits(32))):
            vals.append(wval(32, x))
    elif fam in ("mod1", "mod2"):
        m = params[0]
        r = num(rng.bits(256)) % m
        xs = [0, 1, 2, m - 1, m - 2, m, m + 1, 2 ** 256 - 1, r, (r * r) % m, (m - r * r % m) % m, (m + 1) // 2, 2 ** 255, 3, 5, 7]
        if fam == "mod1":
            vals += [wval(256, x) for x in xs]
        else:
            ys = [0, 1, m - 1, 2 ** 256 - 1, r, m - r, m]
            for x in xs[:10]:
                for y in (rng.choice(ys), rng.choice(ys)):
                    vals.append(("P", wval(256, x), wval(256, y)))
            vals.append(("P", wval(256, r), wval(256, m - r)))
            vals.append(("P", wval(256, 2 ** 256 - 1), wval(256, 2 ** 256 - 1)))
    return vals


SPECIFIED = set(_J) | set(_JV)
JET_TYPES = {n: (e[0], e[1]) for n, e in list(_J.items()) + list(_JV.items())}


def eval_jet(name, value):
    ev = _JV.get(name)
    if ev is not None:
        out = ev[2](value)
        assert pg.has_ty(out, ev[1]), (name, out)
        return out
    e = _J.get(name)
    if e is None:
        raise pg.EvalFail("nojet")
    src, tgt, fn = e[0], e[1], e[2]
    bits = pg.compact_bits(value)
    assert len(bits) == pg.width(src), (name, len(bits))
    out = fn(list(bits))
    assert len(out) == pg.width(tgt), (name, len(out))
    v, pos = pg.of_compact(tgt, out)
    assert pos == len(out)
    return v


# ------------------------------------------------------------------ edge inputs
def _dirty_padded(rng, t, v):
    if t[0] == "u":
        return []
    if t[0] == "s":
        w = max(pg.width(t[1]), pg.width(t[2]))
        if v[0] == "L":
            return [0] + rng.bits(w - pg.width(t[1])) + _dirty_padded(rng, t[1], v[1])
        return [1] + rng.bits(w - pg.width(t[2])) + _dirty_padded(rng, t[2], v[1])
    return _dirty_padded(rng, t[1], v[1]) + _dirty_padded(rng, t[2], v[2])


def _rnd(rng, w):
    return num(rng.bits(w))


def _pairs(rng, w):
    """interesting operand pairs of w bits"""
    top = (1 << w) - 1
    half = 1 << (w - 1)
    a = _rnd(rng, w)
    b = _rnd(rng, w)
    lo, hi = min(a, b), max(a, b)
    mid = _rnd(rng, w) | 1
    ps = [(a, a), (lo, hi), (hi, lo), (top, top), (top, 1), (1, top), (top, 0), (0, top), (0, 0), (0, 1), (1, 0), (1, 1),
          (a, top - a), (a, (top - a + 1) & top), (half, half), (half - 1, half), (half, half - 1), (top - 1, top), (top, top - 1),
          (a, 0), (0, a), (a, 1), (1, a)]
    if a < top:
        ps += [(a, a + 1), (a + 1, a)]
    return ps


def _div_pairs(rng, w):
    top = (1 << w) - 1
    ps = []
    for _ in range(3):
        d = _rnd(rng, rng.range(1, w)) or 1          # divisors of all sizes
        q = _rnd(rng, w) // d
        ps += [(q * d, d), (d, q * d), (min(top, q * d + d - 1), d), (d, d), (d, min(top, d + 1))]
        if q * d:
            ps += [(q * d - 1, d), (d, q * d - 1)]
    ps += [(top, 2), (2, top), (top, 3), (3, top), (top, top - 1), (top - 1, top), (top, 1 << (w - 1)), (1 << (w - 1), top)]
    return ps


def _triples(rng, w):
    top = (1 << w) - 1
    vals = sorted([_rnd(rng, w), _rnd(rng, w), _rnd(rng, w)])
    a, b, c = vals
    ts = [(a, b, c), (a, c, b), (b, a, c), (b, c, a), (c, a, b), (c, b, a),
          (a, a, c), (a, c, a), (c, a, a), (c, c, a), (c, a, c), (a, c, c), (b, b, b),
          (0, b, c), (top, b, c), (b, 0, top), (b, top, 0), (0, 0, top), (top, 0, 0), (0, top, 0),
          (top, top, 0), (0, top, top), (top, 0, top), (b, c, c), (b, c, top - c)]
    return ts


def _amounts(l, w):
    am = {0, 1, 2, w // 2, w - 1, (1 << l) - 1}
    for x in (w, w + 1, 2 * w - 1, 2 * w, 2 * w + 1, 3 * w, (1 << l) - w, (1 << l) - w - 1):
        if 0 <= x < (1 << l):
            am.add(x)
    return sorted(am)


def _words(rng, w):
    top = (1 << w) - 1
    return [_rnd(rng, w), top, 1, 1 << (w - 1), (1 << (w - 1)) | 1 | _rnd(rng, w), _rnd(rng, w) & (top >> 1) & ~1]


def edge_inputs(name, rng):
    if name in _JV:
        src = _JV[name][0]
        out = []
        for k, v in enumerate(_edge_values(name, rng)):
            assert pg.has_ty(v, src), (name, v)
            # the padding cells of absent buffer parts are arbitrary: alternate clean and dirty
            out.append(pg.padded_bits(src, v, 0) if k % 2 == 0 else _dirty_padded(rng, src, v))
        return out
    e = _J.get(name)
    if e is None:
        return []
    fam, params = e[3], e[4]
    out = []

    def put(*fields):
        bits = []
        for w, v in fields:
            bits += to_bits(w, v)
        assert len(bits) == pg.width(e[0]), (name, len(bits))
        out.append(bits)

    if fam in ("add", "subtract", "multiply", "and", "or", "xor", "le", "lt", "min", "max", "eq"):
        w = params[0]
        if w == 1:
            return []                       # all inputs are in the generic list already
        if w == 256:
            a = _rnd(rng, w)
            put((w, a), (w, a))
            put((w, 0), (w, 0))
            for k in (0, 31, 32, 127, 128, 223, 224, 255):     # one differing bit in several 32-bit limbs
                put((w, a), (w, a ^ (1 << k)))
                put((w, a ^ (1 << k)), (w, a))
            return out
        for x, y in _pairs(rng, w):
            put((w, x), (w, y))
    elif fam in ("full_add", "full_subtract"):
        w = params[0]
        for x, y in _pairs(rng, w):
            for c in (0, 1):
                put((1, c), (w, x), (w, y))
    elif fam in ("negate", "increment", "decrement", "is_zero", "is_one", "some", "all", "complement"):
        w = params[0]
        if w == 1:
            return []
        top = (1 << w) - 1
        for x in (2, top - 1, top ^ 1, 1 << (w - 1), (1 << (w - 1)) - 1, top ^ (1 << (w - 1)), 1 << rng.below(w), top ^ (1 << rng.below(w))):
            put((w, x))
    elif fam in ("full_increment", "full_decrement"):
        w = params[0]
        top = (1 << w) - 1
        for c in (0, 1):
            for x in (0, 1, top, top - 1, 1 << (w - 1), _rnd(rng, w)):
                put((1, c), (w, x))
    elif fam == "full_multiply":
        w = params[0]
        top = (1 << w) - 1
        a, b = _rnd(rng, w), _rnd(rng, w)
        for q in ((top, top, top, top), (top, top, 0, 0), (top, top, top, 0), (top, top, 0, top), (0, a, top, top), (a, 0, top, top),
                  (1, a, b, 0), (a, 1, 0, b), (a, b, 0, 0), (a, b, top, top), (1, 1, 1, 1), (0, 0, 0, 0), (top, 1, top, top),
                  (1 << (w - 1), 2, 0, 0), (1 << (w - 1), 2, top, top)):
            put(*[(w, v) for v in q])
    elif fam in ("xor_xor", "maj", "ch", "median"):
        w = params[0]
        if w == 1:
            return []                       # 8 inputs, the generic list has them (with high probability)
        for t in _triples(rng, w):
            put(*[(w, v) for v in t])
    elif fam in ("left_shift", "right_shift", "left_rotate", "right_rotate"):
        l, w = params
        words = _words(rng, w)
        for a in _amounts(l, w):
            for x in (words[0], words[1], words[4]):
                put((l, a), (w, x))
        for a in (1, w - 1):
            for x in words[2:4]:
                put((l, a), (w, x))
    elif fam in ("left_shift_with", "right_shift_with"):
        l, w = params
        words = _words(rng, w)
        for a in _amounts(l, w):
            for b in (0, 1):
                put((1, b), (l, a), (w, words[0]))
                put((1, b), (l, a), (w, words[1] if b == 0 else 0))
    elif fam in ("full_left_shift", "full_right_shift"):
        w, k = params
        topw, topk = (1 << w) - 1, (1 << k) - 1
        cases = [(topw, 0), (0, topk), (1, 0), (1 << (w - 1), 0), (0, 1), (0, 1 << (k - 1)), (_rnd(rng, w), _rnd(rng, k)),
                 (topw ^ 1, topk), (topw >> 1, topk)]
        for x, y in cases:
            if fam == "full_left_shift":
                put((w, x), (k, y))
            else:
                put((k, y), (w, x))
    elif fam in ("leftmost", "rightmost"):
        w, k = params
        top = (1 << w) - 1
        for x in ((1 << k) - 1, top ^ ((1 << k) - 1), top >> k, top ^ (top >> k), 1 << k if k < w else 1, 1 << (w - k), 1 << (w - k - 1) if w > k else 1,
                  _rnd(rng, w)):
            put((w, x))
    elif fam in ("left_pad_low", "left_pad_high", "right_pad_low", "right_pad_high", "left_extend", "right_extend"):
        n, m = params
        if n == 1:
            return []
        top = (1 << n) - 1
        r = _rnd(rng, n)
        for x in (r | (1 << (n - 1)), r & (top >> 1), r | 1, r & ~1, top >> 1, top ^ 1, 1 << (n - 1), 1, (1 << (n - 1)) | 1):
            put((n, x))
    elif fam in ("divide", "modulo", "div_mod", "divides"):
        w = params[0]
        for x, y in _pairs(rng, w) + _div_pairs(rng, w):
            put((w, x), (w, y))
    elif fam == "div_mod_128_64":
        m64 = (1 << 64) - 1
        m32 = (1 << 32) - 1
        hb = 1 << 63
        divisors = [hb, hb + 1, m64, m64 - 1, hb | m32, hb | (m32 << 31) & m64, m64 ^ m32, hb | _rnd(rng, 63), hb | _rnd(rng, 63),
                    hb | _rnd(rng, 32), hb | (_rnd(rng, 31) << 32)]
        for b in divisors:
            his = [0, 1, b - 1, b - 2, b >> 1, _rnd(rng, 64) % b, (b - 1) & ~m32, ((b >> 32) << 32) - 1]
            for ah in his:
                if 0 <= ah < b:
                    for al in (0, m64, _rnd(rng, 64), (b & m32) << 32):
                        put((128, (ah << 64) | al), (64, b))
            # multiples of b and their neighbours (remainders 0 and b - 1)
            q = _rnd(rng, 64)
            put((128, q * b), (64, b))
            put((128, q * b + b - 1), (64, b))
            put((128, m64 * b + b - 1), (64, b))        # the largest dividend with a 64 bit quotient
            # out of the domain: high half >= b
            put((128, (b << 64)), (64, b))
            put((128, (b << 64) | m64), (64, b))
            if b < m64:
                put((128, ((b + 1) << 64) | _rnd(rng, 64)), (64, b))
            put((128, (m64 << 64) | m64), (64, b))
        # out of the domain: top bit of the divisor clear
        for b in (0, 1, 2, hb - 1, _rnd(rng, 63), _rnd(rng, 32)):
            for a in (0, 1, _rnd(rng, 64), _rnd(rng, 128), b << 63, (1 << 128) - 1):
                put((128, a), (64, b))
    return out
