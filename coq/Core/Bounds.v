(* Static resource bounds of a node, as the code computes them.
     src/analysis.rs      NodeBounds::{iden,unit,injl,injr,take,drop,comp,case,assertl,assertr,pair,
                                       disconnect,witness,jet,const_word,fail}, Cost (u32, saturating +),
                          Cost::of_type (`bit_width as u32`: truncation)
     src/node/redeem.rs   RedeemData::new (which type widths are fed to the formulas)
     src/types/final_data.rs  bit widths saturate at usize::MAX (Ty.width_sat)
   [bounds] follows the tree; [bounds_tab] is the bottom-up computation over a node table with
   per-node type widths (the form RedeemData::new has: every shared node is computed once).
   [nb_comp_old] is the formula before the fix "saturate the extra-cell bound of comp and
   disconnect" (unchecked `+`: panics in debug builds, wraps in release builds). *)
From RS Require Import Lib.Tac Lib.Outcome Lib.Bits Ty.Ty Core.Prog Core.Term Core.Typing
  Generated.Consts.
Import ListNotations.
Local Open Scope N_scope.

Record nbounds := mkNB { extra_cells : N; extra_frames : N; cost : N }.

Definition u32_max : N := 4294967295.
Definition cost_add (a b : N) : N := N.min (a + b) u32_max.      (* impl Add for Cost *)
Definition cost_of_type (w : N) : N := w mod 2 ^ 32.              (* Cost(bit_width as u32) *)
Definition OVERHEAD : N := c_overhead.
Definition IO_EXTRA_FRAMES : N := 2.

Definition nb_nop : nbounds := mkNB 0 0 OVERHEAD.
Definition nb_fail : nbounds := mkNB 0 0 c_never_executed.
Definition nb_iden (w : N) : nbounds := mkNB 0 0 (cost_add OVERHEAD (cost_of_type w)).
Definition nb_unit : nbounds := nb_nop.
Definition nb_child (c : nbounds) : nbounds :=
  mkNB (extra_cells c) (extra_frames c) (cost_add OVERHEAD (cost c)).
Definition nb_comp (l r : nbounds) (mid : N) : nbounds :=
  mkNB (sat_add mid (N.max (extra_cells l) (extra_cells r)))
       (1 + N.max (extra_frames l) (extra_frames r))
       (cost_add (cost_add (cost_add OVERHEAD (cost_of_type mid)) (cost l)) (cost r)).
Definition nb_case (l r : nbounds) : nbounds :=
  mkNB (N.max (extra_cells l) (extra_cells r)) (N.max (extra_frames l) (extra_frames r))
       (cost_add OVERHEAD (N.max (cost l) (cost r))).
Definition nb_pair (l r : nbounds) : nbounds :=
  mkNB (N.max (extra_cells l) (extra_cells r)) (N.max (extra_frames l) (extra_frames r))
       (cost_add (cost_add OVERHEAD (cost l)) (cost r)).
Definition nb_disconnect (l r : nbounds) (b_w src_w tgt_w : N) : nbounds :=
  mkNB (sat_add (sat_add src_w tgt_w) (N.max (extra_cells l) (extra_cells r)))
       (2 + N.max (extra_frames l) (extra_frames r))
       (cost_add (cost_add (cost_add (cost_add (cost_add (cost_add OVERHEAD (cost_of_type src_w))
          (cost_of_type src_w)) (cost_of_type tgt_w)) (cost_of_type b_w)) (cost l)) (cost r)).
Definition nb_witness (w : N) : nbounds := mkNB w 0 (cost_add OVERHEAD (cost_of_type w)).
Definition nb_jet (c : N) : nbounds := mkNB 0 0 (cost_add OVERHEAD c).
Definition nb_word (len : N) : nbounds := mkNB 0 0 (cost_add OVERHEAD (cost_of_type len)).

(* the cell bound of comp before the fix: `mid + max(l, r)` on usize *)
Inductive profile := Debug | Release.
Definition usize_add (p : profile) (a b : N) : outcome unit N :=
  if a + b <=? usize_max then Ok (a + b)
  else match p with Debug => Panic 20 | Release => Ok ((a + b) mod 2 ^ 64) end.
Definition comp_cells_old (p : profile) (l r mid : N) : outcome unit N :=
  usize_add p mid (N.max l r).

Section Bounds.
  Variable jet_cost : N -> N.

  Fixpoint bounds (t : term) : nbounds :=
    match t with
    | Iden ar => nb_iden (width_sat (fst ar))
    | Unit _ => nb_unit
    | InjL _ t | InjR _ t | Take _ t | Drop _ t | AssertL _ t _ | AssertR _ _ t => nb_child (bounds t)
    | Comp _ s t => nb_comp (bounds s) (bounds t) (width_sat (tgt s))
    | Case _ s t => nb_case (bounds s) (bounds t)
    | Pair _ s t => nb_pair (bounds s) (bounds t)
    | Disconnect _ s t _ =>
        nb_disconnect (bounds s) (bounds t) (width_sat (tgt s) - width_sat (src t))
                      (width_sat (src s)) (width_sat (tgt s))
    | Witness ar _ => nb_witness (width_sat (snd ar))
    | Fail _ _ => nb_fail
    | Jet _ j => nb_jet (jet_cost j)
    | Word _ n _ => nb_word (2 ^ N.of_nat n)
    end.

  (* ---------------------------------------------------------------- node tables with widths *)
  (* one entry per node: the node, the bit widths of its source and target type (as the
     implementation's `bit_width()` returns them: saturated) *)
  Definition wnode := (node * (N * N))%type.
  Definition wentry := (nbounds * (N * N))%type.

  Definition bounds_node (done : list wentry) (n : wnode) : nbounds :=
    let '(nd, (sw, tw)) := n in
    let get i := nth i done (nb_fail, (0, 0)) in
    let b i := fst (get i) in
    let is_hidden i := match nth_error done i with Some _ => false | None => true end in
    match nd with
    | NIden => nb_iden sw
    | NUnit => nb_unit
    | NInjL c | NInjR c | NTake c | NDrop c => nb_child (b c)
    | NComp l r => nb_comp (b l) (b r) (snd (snd (get l)))
    | NCase l r => nb_case (b l) (b r)
    | NPair l r => nb_pair (b l) (b r)
    | NDisconnect l (Some r) =>
        nb_disconnect (b l) (b r) (snd (snd (get l)) - fst (snd (get r))) (fst (snd (get l))) (snd (snd (get l)))
    | NDisconnect l None => nb_fail
    | NHidden _ => nb_fail
    | NFail _ => nb_fail
    | NJet _ j => nb_jet (jet_cost j)
    | NWord n _ => nb_word (2 ^ N.of_nat n)
    | NWitness _ => nb_witness tw
    end.

  (* hidden children turn a case into assertl / assertr *)
  Definition bounds_node' (p : list wnode) (done : list wentry) (n : wnode) : nbounds :=
    match fst n with
    | NCase l r =>
        match nth_error p l, nth_error p r with
        | Some (NHidden _, _), _ => nb_child (fst (nth r done (nb_fail, (0, 0))))
        | _, Some (NHidden _, _) => nb_child (fst (nth l done (nb_fail, (0, 0))))
        | _, _ => bounds_node done n
        end
    | _ => bounds_node done n
    end.

  Fixpoint bounds_tab_aux (p : list wnode) (done : list wentry) (todo : list wnode) : list wentry :=
    match todo with
    | [] => done
    | n :: rest => bounds_tab_aux p (done ++ [(bounds_node' p done n, snd n)]) rest
    end.

  Definition bounds_tab (p : list wnode) : list wentry := bounds_tab_aux p [] p.
  Definition root_bounds_tab (p : list wnode) : nbounds := fst (last (bounds_tab p) (nb_fail, (0, 0))).
End Bounds.

(* ------------------------------------------------------------------ type tables *)
(* types with sharing (nested pairs of one type are exponential as trees): entry i refers to
   smaller indices; widths are computed with the saturating adds of Final::sum / Final::product *)
Inductive tynode := TyU | TyS (i j : nat) | TyP (i j : nat).

Fixpoint tab_widths_aux (done : list N) (todo : list tynode) : list N :=
  match todo with
  | [] => done
  | n :: rest =>
      let w := match n with
               | TyU => 0
               | TyS i j => sat_add (N.max (nth i done 0) (nth j done 0)) 1
               | TyP i j => sat_add (nth i done 0) (nth j done 0)
               end in
      tab_widths_aux (done ++ [w]) rest
  end.
Definition tab_widths (tab : list tynode) : list N := tab_widths_aux [] tab.

(* ------------------------------------------------------------------ mathematical resource use *)
(* the same recursion over unbounded numbers and unbounded widths: what the machine needs *)
Fixpoint cells (t : term) : N :=
  match t with
  | InjL _ t | InjR _ t | Take _ t | Drop _ t | AssertL _ t _ | AssertR _ _ t => cells t
  | Comp _ s t => width (tgt s) + N.max (cells s) (cells t)
  | Case _ s t | Pair _ s t => N.max (cells s) (cells t)
  | Disconnect _ s t _ => width (src s) + width (tgt s) + N.max (cells s) (cells t)
  | Witness ar _ => width (snd ar)
  | _ => 0
  end.

Fixpoint frames (t : term) : N :=
  match t with
  | InjL _ t | InjR _ t | Take _ t | Drop _ t | AssertL _ t _ | AssertR _ _ t => frames t
  | Comp _ s t => 1 + N.max (frames s) (frames t)
  | Case _ s t | Pair _ s t => N.max (frames s) (frames t)
  | Disconnect _ s t _ => 2 + N.max (frames s) (frames t)
  | _ => 0
  end.

(* every type width the machine uses at a node of [t] is the true width (not saturated) *)
Fixpoint small (t : term) : Prop :=
  width (src t) <= usize_max /\ width (tgt t) <= usize_max /\
  match t with
  | InjL _ t | InjR _ t | Take _ t | Drop _ t | AssertL _ t _ | AssertR _ _ t => small t
  | Comp _ s t | Case _ s t | Pair _ s t | Disconnect _ s t _ => small s /\ small t
  | _ => True
  end.

Lemma small_arrow t : small t -> width (src t) <= usize_max /\ width (tgt t) <= usize_max.
Proof. destruct t; cbn [small]; tauto. Qed.

Lemma sat_add_lt a b : sat_add a b < usize_max -> sat_add a b = a + b.
Proof. unfold sat_add, usize_max. lia. Qed.

Lemma width_sat_lt t : width_sat t < usize_max -> width_sat t = width t.
Proof.
  induction t as [|a IHa b IHb|a IHa b IHb]; cbn [width width_sat]; intros H; [reflexivity| |].
  - pose proof (sat_add_lt _ _ H) as E. rewrite E in *. rewrite IHa, IHb by lia. lia.
  - pose proof (sat_add_lt _ _ H) as E. rewrite E in *. rewrite IHa, IHb by lia. lia.
Qed.

Lemma width_sat_le_width t : width_sat t <= width t.
Proof.
  induction t as [|a IHa b IHb|a IHa b IHb]; cbn [width width_sat]; unfold sat_add; lia.
Qed.

Section Exact.
  Variable jet_ty : N -> option arrow.
  Variable jet_cost : N -> N.

  (* frames never saturate: plain additions *)
  Lemma frames_exact t : extra_frames (bounds jet_cost t) = frames t.
  Proof.
    induction t; cbn [bounds frames extra_frames nb_child nb_comp nb_case nb_pair nb_disconnect
                      nb_iden nb_unit nb_nop nb_witness nb_fail nb_jet nb_word]; try congruence; reflexivity.
  Qed.

  Lemma cells_le_sat t : extra_cells (bounds jet_cost t) <= cells t.
  Proof.
    induction t; cbn [bounds cells extra_cells nb_child nb_comp nb_case nb_pair nb_disconnect
                      nb_iden nb_unit nb_nop nb_witness nb_fail nb_jet nb_word]; try lia.
    - pose proof (width_sat_le_width (tgt t1)). unfold sat_add. lia.
    - pose proof (width_sat_le_width (tgt t1)). pose proof (width_sat_le_width (src t1)).
      unfold sat_add. lia.
    - apply width_sat_le_width.
  Qed.

  (* If the cell bound of a well-typed term and the widths of its root arrow are below
     usize::MAX then no saturating addition saturated: the bound is the mathematical sum and
     every type width inside the term is exact. *)
  Theorem bounds_exact t A B : typed jet_ty t A B ->
    extra_cells (bounds jet_cost t) < usize_max -> width_sat A < usize_max -> width_sat B < usize_max ->
    extra_cells (bounds jet_cost t) = cells t /\ small t.
  Proof.
    induction 1; intros Hc HA HB;
      cbn [bounds cells small extra_cells nb_child nb_comp nb_case nb_pair nb_disconnect
           nb_iden nb_unit nb_nop nb_witness nb_fail nb_jet nb_word] in *;
      unfold src, tgt; cbn [arrow_of fst snd].
    - rewrite <- (width_sat_lt _ HA). unfold usize_max in *. lia.
    - rewrite <- (width_sat_lt _ HA). cbn. unfold usize_max in *. lia.
    - assert (HB1 : width_sat B < usize_max) by (cbn [width_sat] in HB; unfold sat_add in *; lia).
      destruct (IHtyped Hc HA HB1) as [E S]. rewrite <- (width_sat_lt _ HA), <- (width_sat_lt _ HB).
      unfold usize_max in *. repeat split; try lia; assumption.
    - assert (HB1 : width_sat C < usize_max) by (cbn [width_sat] in HB; unfold sat_add in *; lia).
      destruct (IHtyped Hc HA HB1) as [E S]. rewrite <- (width_sat_lt _ HA), <- (width_sat_lt _ HB).
      unfold usize_max in *. repeat split; try lia; assumption.
    - assert (HA1 : width_sat A < usize_max) by (cbn [width_sat] in HA; unfold sat_add in *; lia).
      destruct (IHtyped Hc HA1 HB) as [E S]. rewrite <- (width_sat_lt _ HA), <- (width_sat_lt _ HB).
      unfold usize_max in *. repeat split; try lia; assumption.
    - assert (HA1 : width_sat B < usize_max) by (cbn [width_sat] in HA; unfold sat_add in *; lia).
      destruct (IHtyped Hc HA1 HB) as [E S]. rewrite <- (width_sat_lt _ HA), <- (width_sat_lt _ HB).
      unfold usize_max in *. repeat split; try lia; assumption.
    - pose proof (typed_arrow _ _ _ _ H) as Es. pose proof (typed_arrow _ _ _ _ H0) as Et.
      unfold tgt in *. rewrite Es in *. cbn [snd] in *.
      pose proof (sat_add_lt _ _ Hc) as E. rewrite E in Hc |- *.
      assert (HB1 : width_sat B < usize_max) by lia.
      destruct (IHtyped1 ltac:(lia) HA HB1) as [E1 S1]. destruct (IHtyped2 ltac:(lia) HB1 HB) as [E2 S2].
      rewrite <- (width_sat_lt _ HA), <- (width_sat_lt _ HB), <- (width_sat_lt _ HB1).
      unfold usize_max in *. repeat split; try lia; assumption.
    - assert (HAC : width_sat (Prod A C) < usize_max /\ width_sat (Prod B C) < usize_max)
        by (cbn [width_sat] in *; unfold sat_add in *; lia).
      destruct HAC as [HAC HBC].
      destruct (IHtyped1 ltac:(lia) HAC HB) as [E1 S1]. destruct (IHtyped2 ltac:(lia) HBC HB) as [E2 S2].
      rewrite <- (width_sat_lt _ HA), <- (width_sat_lt _ HB).
      unfold usize_max in *. repeat split; try lia; assumption.
    - assert (HAC : width_sat (Prod A C) < usize_max) by (cbn [width_sat] in *; unfold sat_add in *; lia).
      destruct (IHtyped ltac:(lia) HAC HB) as [E1 S1].
      rewrite <- (width_sat_lt _ HA), <- (width_sat_lt _ HB).
      unfold usize_max in *. repeat split; try lia; assumption.
    - assert (HBC : width_sat (Prod B C) < usize_max) by (cbn [width_sat] in *; unfold sat_add in *; lia).
      destruct (IHtyped ltac:(lia) HBC HB) as [E1 S1].
      rewrite <- (width_sat_lt _ HA), <- (width_sat_lt _ HB).
      unfold usize_max in *. repeat split; try lia; assumption.
    - assert (HBC : width_sat B < usize_max /\ width_sat C < usize_max)
        by (cbn [width_sat] in *; unfold sat_add in *; lia).
      destruct HBC as [HB1 HC1].
      destruct (IHtyped1 ltac:(lia) HA HB1) as [E1 S1]. destruct (IHtyped2 ltac:(lia) HA HC1) as [E2 S2].
      rewrite <- (width_sat_lt _ HA), <- (width_sat_lt _ HB).
      unfold usize_max in *. repeat split; try lia; assumption.
    - pose proof (typed_arrow _ _ _ _ H) as Es. pose proof (typed_arrow _ _ _ _ H0) as Et.
      unfold src, tgt in *. rewrite Es in *. cbn [fst snd] in *.
      pose proof (sat_add_lt _ _ Hc) as E. rewrite E in Hc.
      assert (Hst : sat_add (width_sat (Prod W256 A)) (width_sat (Prod B C)) < usize_max) by lia.
      pose proof (sat_add_lt _ _ Hst) as E'. rewrite E' in *.
      assert (HS : width_sat (Prod W256 A) < usize_max) by lia.
      assert (HT : width_sat (Prod B C) < usize_max) by lia.
      assert (HC1 : width_sat C < usize_max) by (cbn [width_sat] in HT; unfold sat_add in *; lia).
      assert (HD1 : width_sat D < usize_max) by (cbn [width_sat] in HB; unfold sat_add in *; lia).
      destruct (IHtyped1 ltac:(lia) HS HT) as [E1 S1]. destruct (IHtyped2 ltac:(lia) HC1 HD1) as [E2 S2].
      rewrite <- (width_sat_lt _ HA), <- (width_sat_lt _ HB), <- (width_sat_lt _ HS), <- (width_sat_lt _ HT).
      unfold usize_max in *. repeat split; try lia; assumption.
    - rewrite <- (width_sat_lt _ HA), <- (width_sat_lt _ HB). unfold usize_max in *. lia.
    - rewrite <- (width_sat_lt _ HA), <- (width_sat_lt _ HB). unfold usize_max in *. lia.
    - rewrite <- (width_sat_lt _ HA), <- (width_sat_lt _ HB). unfold usize_max in *. lia.
    - rewrite <- (width_sat_lt _ HB). cbn. unfold usize_max in *. lia.
  Qed.
End Exact.

(* ------------------------------------------------------------------ the fix, documented *)
(* With the unchecked `+` the release build computed a bound smaller than one frame that
   [comp] allocates (its middle type alone); the debug build panicked while computing it. *)
Lemma bounds_old_refuted :
  exists l r mid : N, l <= usize_max /\ r <= usize_max /\ mid <= usize_max /\
    comp_cells_old Debug l r mid = Panic 20 /\
    exists c, comp_cells_old Release l r mid = Ok c /\ c < mid /\
    (* the corrected formula *) extra_cells (nb_comp (mkNB l 0 0) (mkNB r 0 0) mid) = usize_max.
Proof.
  exists 1, 0, usize_max. repeat split; try (unfold usize_max; lia).
  exists 0. split; [reflexivity|]. split; [unfold usize_max; lia|reflexivity].
Qed.
