(* C16 - running the programs the satisfier returns.

   A small big-step evaluator for the program terms of Policy/Compile.v.  Words are atomic
   values (the policy programs only move words between constants, witnesses and jets), the
   selector bit is the sum value inl () / inr ().  Jets: eq_256, eq_32, add_32, verify are
   given by their specification; sig_all_hash, bip_0340_verify, check_lock_height,
   check_lock_distance and the three sha_256_ctx_8 jets are an oracle `envo` (the environment
   and the cryptography), constrained only through `truthful`.

   Also here: the effect of RedeemNode::prune on such programs.  The Bit Machine records, per
   executed case node, which side ran (SetTracker, keyed by the node's IHR); the converter then
   replaces a case by assertl/assertr when only one side was recorded.  The IHR is idealised as
   the identity of the (unpruned) subterm including its witness data. *)
From Coq Require Import Permutation Sorted.
From RS Require Import Lib.Tac Lib.Outcome Policy.PolicyAst Policy.Sort Policy.Compile Policy.Satisfy.
Import ListNotations.
Local Open Scope N_scope.
Local Open Scope outcome_scope.
Set Implicit Arguments.

Inductive val :=
| VUnit
| VL (v : val) | VR (v : val)
| VP (a b : val)
| VW (bits v : N)            (* a word of `bits` bits *)
| VSig (k : N)               (* 512-bit word: the signature held for key k *)
| VPre (h : N)               (* 256-bit word: the preimage held for image h *)
| VMsg                       (* 256-bit word: sig_all_hash of the environment *)
| VCtx (absorbed : list val).  (* sha_256_ctx_8 state: the 32-byte blocks absorbed so far *)

Definition vbit (b : bool) : val := if b then VR VUnit else VL VUnit.

Definition wval_val (w : wval) : val :=
  match w with WBit b => vbit b | WSig k => VSig k | WPre h => VPre h end.

(* the environment and the cryptography, as far as policy programs can observe them *)
Record envo := {
  e_verify : N -> val -> val -> bool;     (* bip_0340_verify key msg sig *)
  e_lock_height : N;                      (* tx lock height as seen by check_lock_height *)
  e_lock_distance : N;                    (* tx lock distance as seen by check_lock_distance *)
  e_sha : list val -> N }.                (* sha_256_ctx_8_finalize of the absorbed blocks *)

Definition jet_sem (e : envo) (j : jet) (v : val) : option val :=
  match j, v with
  | SigAllHash, VUnit => Some VMsg
  | Bip0340Verify, VP (VP (VW 256 k) m) sg => if e_verify e k m sg then Some VUnit else None
  | CheckLockHeight, VW 32 n => if n <=? e_lock_height e then Some VUnit else None
  | CheckLockDistance, VW 16 n => if n <=? e_lock_distance e then Some VUnit else None
  | Sha256Ctx8Init, VUnit => Some (VCtx [])
  | Sha256Ctx8Add32, VP (VCtx l) x => Some (VCtx (l ++ [x]))
  | Sha256Ctx8Finalize, VCtx l => Some (VW 256 (e_sha e l))
  | Verify, VR VUnit => Some VUnit
  | Verify, VL VUnit => None
  | Eq256, VP (VW 256 a) (VW 256 b) => Some (vbit (a =? b))
  | Eq32, VP (VW 32 a) (VW 32 b) => Some (vbit (a =? b))
  | Add32, VP (VW 32 a) (VW 32 b) => Some (VP (vbit (2 ^ 32 <=? a + b)) (VW 32 ((a + b) mod 2 ^ 32)))
  | _, _ => None       (* ill-typed input: cannot happen in a well-typed program *)
  end.

(* the satisfier's answers are true of the environment *)
Record truthful (e : envo) (s : satisfier) : Prop := {
  t_sig : forall k, s_sig s k = true -> e_verify e k VMsg (VSig k) = true;
  t_pre : forall h, s_pre s h = true -> e_sha e [VPre h] = h;
  t_after : forall n, s_after s n = true -> n <= e_lock_height e;
  t_older : forall n, s_older s n = true -> n <= e_lock_distance e }.

Ltac nalg := cbn [a_iden a_unit a_injl a_injr a_take a_drop a_comp a_case a_assertl a_assertr a_pair
                   a_fail a_word a_jet a_witness node_alg].

Section Sem.
  Variable H : Type.
  Variable hf : hashfns H.
  Variable H_eqb : H -> H -> bool.             (* equality test on roots (used only to compare tracker keys) *)
  Hypothesis H_eqb_refl : forall a, H_eqb a a = true.
  Variable e : envo.

  Notation node := (node H).

  Fixpoint eval (n : node) (v : val) : option val :=
    match n with
    | NIden => Some v
    | NUnit => Some VUnit
    | NInjl c => match eval c v with Some u => Some (VL u) | None => None end
    | NInjr c => match eval c v with Some u => Some (VR u) | None => None end
    | NTake c => match v with VP a _ => eval c a | _ => None end
    | NDrop c => match v with VP _ b => eval c b | _ => None end
    | NComp a b => match eval a v with Some u => eval b u | None => None end
    | NCase a b =>
        match v with
        | VP (VL x) c => eval a (VP x c)
        | VP (VR y) c => eval b (VP y c)
        | _ => None
        end
    | NAssertL a _ => match v with VP (VL x) c => eval a (VP x c) | _ => None end    (* ReachedPrunedBranch otherwise *)
    | NAssertR _ b => match v with VP (VR y) c => eval b (VP y c) | _ => None end
    | NPair a b =>
        match eval a v, eval b v with
        | Some x, Some y => Some (VP x y)
        | _, _ => None
        end
    | NFail _ => None
    | NWord w x => Some (VW w x)
    | NJet j => jet_sem e j v
    | NWitness (Some w) => Some (wval_val w)
    | NWitness None => None
    end.

  (* SetTracker: (case node, side) for every executed Case / AssertL / AssertR *)
  Fixpoint trace (n : node) (v : val) : list (node * bool) :=
    match n with
    | NInjl c | NInjr c => trace c v
    | NTake c => match v with VP a _ => trace c a | _ => [] end
    | NDrop c => match v with VP _ b => trace c b | _ => [] end
    | NComp a b => trace a v ++ match eval a v with Some u => trace b u | None => [] end
    | NCase a b =>
        match v with
        | VP (VL x) c => (n, false) :: trace a (VP x c)
        | VP (VR y) c => (n, true) :: trace b (VP y c)
        | _ => []
        end
    | NAssertL a _ => match v with VP (VL x) c => (n, false) :: trace a (VP x c) | _ => [] end
    | NAssertR _ b => match v with VP (VR y) c => (n, true) :: trace b (VP y c) | _ => [] end
    | NPair a b => trace a v ++ trace b v
    | _ => []
    end.

  Definition wval_eqb (a b : wval) : bool :=
    match a, b with
    | WBit x, WBit y => Bool.eqb x y
    | WSig x, WSig y | WPre x, WPre y => x =? y
    | _, _ => false
    end.

  Fixpoint node_eqb (a b : node) : bool :=
    match a, b with
    | NIden, NIden | NUnit, NUnit => true
    | NInjl x, NInjl y | NInjr x, NInjr y | NTake x, NTake y | NDrop x, NDrop y => node_eqb x y
    | NComp x1 x2, NComp y1 y2 | NCase x1 x2, NCase y1 y2 | NPair x1 x2, NPair y1 y2 =>
        node_eqb x1 y1 && node_eqb x2 y2
    | NAssertL x h, NAssertL y g => node_eqb x y && H_eqb h g
    | NAssertR h x, NAssertR g y => H_eqb h g && node_eqb x y
    | NFail x, NFail y => x =? y
    | NWord w x, NWord u y => (w =? u) && (x =? y)
    | NJet i, NJet j => jet_code i =? jet_code j
    | NWitness None, NWitness None => true
    | NWitness (Some x), NWitness (Some y) => wval_eqb x y
    | _, _ => false
    end.

  Lemma node_eqb_refl n : node_eqb n n = true.
  Proof.
    induction n; cbn [node_eqb]; rewrite ?IHn, ?IHn1, ?IHn2, ?H_eqb_refl, ?N.eqb_refl; try reflexivity.
    destruct w as [[b|k|h]|]; cbn [wval_eqb]; rewrite ?N.eqb_refl; try reflexivity. destruct b; reflexivity.
  Qed.

  (* is (n, side) in the tracker?  (the model of HashSet<Ihr>::contains) *)
  Definition tracked (tr : list (node * bool)) (n : node) (side : bool) : bool :=
    existsb (fun k => Bool.eqb (snd k) side && node_eqb (fst k) n) tr.

  Lemma tracked_in tr n side : In (n, side) tr -> tracked tr n side = true.
  Proof.
    intros Hi. unfold tracked. apply existsb_exists. exists (n, side). split; auto.
    cbn [fst snd]. rewrite node_eqb_refl, Bool.eqb_reflx. reflexivity.
  Qed.

  (* the Pruner converter of RedeemNode::prune_with_tracker (bottom-up; the decision for a case
     node looks up the unpruned node) *)
  Fixpoint prune_with (tr : list (node * bool)) (n : node) : node :=
    match n with
    | NInjl c => NInjl (prune_with tr c) | NInjr c => NInjr (prune_with tr c)
    | NTake c => NTake (prune_with tr c) | NDrop c => NDrop (prune_with tr c)
    | NComp a b => NComp (prune_with tr a) (prune_with tr b)
    | NPair a b => NPair (prune_with tr a) (prune_with tr b)
    | NAssertL a h => NAssertL (prune_with tr a) h
    | NAssertR h b => NAssertR h (prune_with tr b)
    | NCase a b =>
        let a' := prune_with tr a in
        let b' := prune_with tr b in
        match tracked tr n false, tracked tr n true with
        | true, true => NCase a' b'                       (* Hide::Neither *)
        | false, true => NAssertR (cmr hf a') b'           (* Hide::Left *)
        | true, false => NAssertL a' (cmr hf b')           (* Hide::Right *)
        | false, false => NCase a' b'                      (* never executed: pruned by an ancestor *)
        end
    | _ => n
    end.

  (* pruning with any tracker content preserves the commitment root *)
  Theorem prune_with_cmr tr n : cmr hf (prune_with tr n) = cmr hf n.
  Proof.
    induction n; cbn [prune_with cmr]; try congruence.
    destruct (tracked tr (NCase n1 n2) false), (tracked tr (NCase n1 n2) true); cbn [cmr]; congruence.
  Qed.

  (* pruning with a tracker that contains at least what the run records preserves the run *)
  Theorem prune_with_eval tr n : forall v out,
    incl (trace n v) tr -> eval n v = Some out -> eval (prune_with tr n) v = Some out.
  Proof.
    induction n; intros v out Hin Hev; cbn [prune_with]; try exact Hev.
    - cbn [eval trace] in *. destruct (eval n v) eqn:E; [|discriminate]. rewrite (IHn _ _ Hin E). exact Hev.
    - cbn [eval trace] in *. destruct (eval n v) eqn:E; [|discriminate]. rewrite (IHn _ _ Hin E). exact Hev.
    - cbn [eval trace] in *. destruct v; try discriminate. apply IHn; auto.
    - cbn [eval trace] in *. destruct v; try discriminate. apply IHn; auto.
    - cbn [eval trace] in *. destruct (eval n1 v) eqn:E; [|discriminate].
      rewrite (IHn1 v v0); auto.
      + apply IHn2; auto. intros x Hx. apply Hin. apply in_or_app. right. exact Hx.
      + intros x Hx. apply Hin. apply in_or_app. left. exact Hx.
    - assert (forall side, In (NCase n1 n2, side) tr -> tracked tr (NCase n1 n2) side = true) as Htr.
      { intros side Hi. apply tracked_in. exact Hi. }
      cbn [eval trace] in Hin, Hev.
      destruct v as [| | |[|x|y| | | | | |] c| | | | |]; try discriminate.
      + rewrite (Htr false) by (apply Hin; left; reflexivity).
        assert (eval (prune_with tr n1) (VP x c) = Some out) as E1
          by (apply IHn1; auto; intros z Hz; apply Hin; right; exact Hz).
        destruct (tracked tr (NCase n1 n2) true); cbn [eval]; exact E1.
      + rewrite (Htr true) by (apply Hin; left; reflexivity).
        assert (eval (prune_with tr n2) (VP y c) = Some out) as E2
          by (apply IHn2; auto; intros z Hz; apply Hin; right; exact Hz).
        destruct (tracked tr (NCase n1 n2) false); cbn [eval]; exact E2.
    - cbn [eval trace] in *. destruct v as [| | |[|x|y| | | | | |] c| | | | |]; try discriminate.
      apply IHn; auto. intros z Hz. apply Hin. right. exact Hz.
    - cbn [eval trace] in *. destruct v as [| | |[|x|y| | | | | |] c| | | | |]; try discriminate.
      apply IHn; auto. intros z Hz. apply Hin. right. exact Hz.
    - cbn [eval trace] in *.
      destruct (eval n1 v) eqn:E1; [|discriminate]. destruct (eval n2 v) eqn:E2; [|discriminate].
      rewrite (IHn1 v v0), (IHn2 v v1); auto.
      + intros x Hx. apply Hin. apply in_or_app. right. exact Hx.
      + intros x Hx. apply Hin. apply in_or_app. left. exact Hx.
  Qed.

  (* one pass of RedeemNode::prune_with_tracker(env, SetTracker::default()) on a program run from
     the unit input (policies are 1 -> 1) *)
  Definition prune_once (n : node) : option node :=
    match eval n VUnit with
    | Some _ => Some (prune_with (trace n VUnit) n)
    | None => None                 (* ExecutionError: the program does not run *)
    end.

  Lemma prune_once_cmr n n' : prune_once n = Some n' -> cmr hf n' = cmr hf n.
  Proof. unfold prune_once. destruct (eval n VUnit); [|discriminate]. intros [= <-]. apply prune_with_cmr. Qed.

  Lemma prune_once_runs n n' out : eval n VUnit = Some out -> prune_once n = Some n' -> eval n' VUnit = Some out.
  Proof.
    unfold prune_once. intros E. rewrite E. intros [= <-]. apply prune_with_eval; auto. apply incl_refl.
  Qed.

  (* RedeemNode::prune (since /repo 5d14513, edace38): prune, then prune the result again until it
     no longer changes (`again.to_vec_with_witness() == pruned.to_vec_with_witness()`, modelled as
     equality of the terms); the result of the last pass is returned.  Fuel: every pass that changes the program turns at least one case
     into an assertion, so 1 + the number of case nodes passes suffice (prune_total). *)
  Fixpoint count_case (n : node) : nat :=
    match n with
    | NInjl c | NInjr c | NTake c | NDrop c | NAssertL c _ | NAssertR _ c => count_case c
    | NComp a b | NPair a b => count_case a + count_case b
    | NCase a b => S (count_case a + count_case b)
    | _ => 0
    end.

  Fixpoint prune_loop (fuel : nat) (pruned : node) : option node :=
    match fuel with
    | O => None
    | S f =>
        match prune_once pruned with
        | None => None
        | Some again => if node_eqb again pruned then Some again else prune_loop f again
        end
    end.

  Definition prune (n : node) : option node :=
    match prune_once n with
    | None => None
    | Some pruned => prune_loop (S (count_case pruned)) pruned
    end.

  Lemma prune_with_count tr n :
    (count_case (prune_with tr n) <= count_case n)%nat /\
    (count_case (prune_with tr n) = count_case n -> prune_with tr n = n).
  Proof.
    induction n; cbn [prune_with count_case]; try (split; [lia|reflexivity]);
      try (destruct IHn as [L E]; split; [exact L|intros Hc; f_equal; auto]).
    - destruct IHn1 as [L1 E1], IHn2 as [L2 E2]. split; [lia|]. intros Hc. f_equal; [apply E1|apply E2]; lia.
    - destruct IHn1 as [L1 E1], IHn2 as [L2 E2].
      destruct (tracked tr (NCase n1 n2) false), (tracked tr (NCase n1 n2) true); cbn [count_case];
        (split; [lia|]); intros Hc; try lia; f_equal; [apply E1|apply E2|apply E1|apply E2]; lia.
    - destruct IHn1 as [L1 E1], IHn2 as [L2 E2]. split; [lia|]. intros Hc. f_equal; [apply E1|apply E2]; lia.
  Qed.

  Lemma prune_loop_sound fuel : forall p p',
    prune_loop fuel p = Some p' ->
    cmr hf p' = cmr hf p /\ (forall out, eval p VUnit = Some out -> eval p' VUnit = Some out).
  Proof.
    induction fuel as [|f IH]; intros p p' Hl; [discriminate|].
    cbn [prune_loop] in Hl. destruct (prune_once p) as [again|] eqn:E; [|discriminate].
    destruct (node_eqb again p).
    - injection Hl as <-. split; [eapply prune_once_cmr; eauto|].
      intros out Ho. eapply prune_once_runs; eauto.
    - destruct (IH _ _ Hl) as [C R]. split.
      + rewrite C. eapply prune_once_cmr; eauto.
      + intros out Ho. apply R. eapply prune_once_runs; eauto.
  Qed.

  Lemma prune_loop_total fuel : forall p out,
    eval p VUnit = Some out -> (count_case p < fuel)%nat -> exists p', prune_loop fuel p = Some p'.
  Proof.
    induction fuel as [|f IH]; intros p out Ho Hf; [lia|].
    cbn [prune_loop]. unfold prune_once at 1. rewrite Ho.
    destruct (node_eqb (prune_with (trace p VUnit) p) p) eqn:En; [eauto|].
    destruct (prune_with_count (trace p VUnit) p) as [L E].
    assert (count_case (prune_with (trace p VUnit) p) <> count_case p) as Hne.
    { intros Hc. rewrite (E Hc), node_eqb_refl in En. discriminate. }
    eapply IH.
    - apply prune_with_eval; [apply incl_refl|exact Ho].
    - lia.
  Qed.

  Corollary prune_cmr n n' : prune n = Some n' -> cmr hf n' = cmr hf n.
  Proof.
    unfold prune. destruct (prune_once n) as [p|] eqn:E; [|discriminate]. intros Hl.
    destruct (prune_loop_sound _ _ Hl) as [C _]. rewrite C. eapply prune_once_cmr; eauto.
  Qed.

  Corollary prune_runs n n' out : eval n VUnit = Some out -> prune n = Some n' -> eval n' VUnit = Some out.
  Proof.
    unfold prune. intros Ho. destruct (prune_once n) as [p|] eqn:E; [|discriminate]. intros Hl.
    destruct (prune_loop_sound _ _ Hl) as [_ R]. apply R. eapply prune_once_runs; eauto.
  Qed.

  (* a program that runs is pruned successfully: the fuel is sufficient *)
  Corollary prune_total n out : eval n VUnit = Some out -> exists n', prune n = Some n'.
  Proof.
    intros Ho. unfold prune. unfold prune_once at 1. rewrite Ho.
    eapply prune_loop_total; [|lia].
    apply prune_with_eval; [apply incl_refl|exact Ho].
  Qed.

  Corollary prune_total_runs n out :
    eval n VUnit = Some out -> exists n', prune n = Some n' /\ eval n' VUnit = Some out.
  Proof.
    intros Ho. destruct (prune_total _ Ho) as (n' & E). exists n'. split; [exact E|]. eapply prune_runs; eauto.
  Qed.

  Lemma prune_fails n : eval n VUnit = None -> prune n = None.
  Proof. intros Ho. unfold prune, prune_once. rewrite Ho. reflexivity. Qed.

  (* ---------------------------------------------------------------- Policy::satisfy *)
  Variable fin_cost : node -> option N.
  Variable cmax : N.

  Notation satisfy_internal := (satisfy_internal hf fin_cost cmax).
  Notation hal := (hal hf).
  Notation SatResult := (SatResult H).

  Definition satisfy (s : satisfier) (p : policy) : outcome sat_error node :=
    match satisfy_unpruned hf fin_cost cmax s p with
    | Ok program =>
        match prune program with
        | Some pruned => Ok pruned
        | None => Err AssemblyFailed
        end
    | Err x => Err x
    | Panic c => Panic c
    | OutOfFuel => OutOfFuel
    end.

  (* ---------------------------------------------------------------- returned programs run *)
  Variable s : satisfier.
  Hypothesis Htruth : truthful e s.

  Definition runs (r : SatResult) : Prop := forall a, r = inl a -> eval a VUnit = Some VUnit.

  Definition bit_of (w : option wval) : bool := match w with Some (WBit true) => true | _ => false end.

  Definition child_ok (cw : SatResult * option wval) : Prop :=
    (exists b, snd cw = Some (WBit b)) /\
    (bit_of (snd cw) = true -> exists a, fst cw = inl a /\ eval a VUnit = Some VUnit).

  Definition cnt (rest : list (SatResult * option wval)) : N :=
    N.of_nat (length (filter (fun cw => bit_of (snd cw)) rest)).

  Lemma summand_eval c w :
    child_ok (c, w) ->
    exists m, f_thresh_summand hal c w = inl m /\
              eval m VUnit = Some (VW 32 (if bit_of w then 1 else 0)).
  Proof.
    intros [[b Hb] Hrun]. cbn [fst snd] in *. subst w. destruct b.
    - destruct (Hrun eq_refl) as (a & -> & Ha). eexists; split; [reflexivity|].
      nalg. cbn [eval wval_val vbit]. rewrite Ha. reflexivity.
    - destruct c as [a|h]; eexists; (split; [reflexivity|]); reflexivity.
  Qed.

  Lemma add_eval acc sm x y :
    eval acc VUnit = Some (VW 32 x) -> eval sm VUnit = Some (VW 32 y) -> x + y < 2 ^ 32 ->
    exists m, f_thresh_add hal (inl acc) (inl sm) = inl m /\ eval m VUnit = Some (VW 32 (x + y)).
  Proof.
    intros Ha Hs Hlt. eexists; split; [reflexivity|].
    nalg. cbn [eval]. rewrite Ha, Hs. cbn [jet_sem eval]. rewrite N.mod_small by exact Hlt. reflexivity.
  Qed.

  Lemma sum_eval rest : forall acc x,
    Forall child_ok rest -> eval acc VUnit = Some (VW 32 x) -> x + cnt rest < 2 ^ 32 ->
    exists m, f_thresh_sum hal (inl acc) rest = inl m /\ eval m VUnit = Some (VW 32 (x + cnt rest)).
  Proof.
    induction rest as [|[c w] t IH]; intros acc x HF Ha Hlt.
    - exists acc. split; [reflexivity|]. unfold cnt. cbn. rewrite N.add_0_r. exact Ha.
    - inversion HF as [|? ? Hc Ht]; subst.
      destruct (summand_eval Hc) as (sm & Es & Hs).
      assert (cnt ((c, w) :: t) = (if bit_of w then 1 else 0) + cnt t) as Hcnt.
      { unfold cnt. cbn [filter snd]. destruct (bit_of w); cbn [length]; lia. }
      rewrite Hcnt in *.
      destruct (@add_eval acc sm x (if bit_of w then 1 else 0) Ha Hs) as (m1 & E1 & H1); [destruct (bit_of w); lia|].
      cbn [f_thresh_sum]. rewrite Es, E1.
      destruct (IH m1 (x + (if bit_of w then 1 else 0)) Ht H1) as (m & Em & Hm); [lia|].
      exists m. split; [exact Em|]. rewrite Hm. f_equal. f_equal. lia.
  Qed.

  (* -- facts about the selected indices -- *)
  Lemma take_n_length {X} (l : list X) : forall k, k <= N.of_nat (length l) -> N.of_nat (length (take_n k l)) = k.
  Proof.
    induction l as [|x t IH]; intros k Hk; cbn [take_n].
    - cbn in Hk. cbn. lia.
    - destruct (k =? 0) eqn:E; [apply N.eqb_eq in E; subst; reflexivity|].
      apply N.eqb_neq in E. cbn [length] in *. rewrite Nat2N.inj_succ, IH; lia.
  Qed.

  Lemma take_n_incl {X} (l : list X) : forall k x, In x (take_n k l) -> In x l.
  Proof.
    induction l as [|y t IH]; intros k x Hx; [exact Hx|].
    cbn [take_n] in Hx. destruct (k =? 0); [destruct Hx|].
    destruct Hx as [->|Hx]; [left; auto|right; eapply IH; eauto].
  Qed.

  Lemma take_n_nodup {X} (l : list X) : forall k, NoDup l -> NoDup (take_n k l).
  Proof.
    induction l as [|y t IH]; intros k Hn; cbn [take_n]; [constructor|].
    destruct (k =? 0); [constructor|]. inversion Hn; subst. constructor; auto.
    intros Hi. apply take_n_incl in Hi. contradiction.
  Qed.

  Lemma mem_count (sel : list nat) n :
    NoDup sel -> (forall i, In i sel -> (i < n)%nat) ->
    length (filter (fun i => existsb (Nat.eqb i) sel) (seq 0 n)) = length sel.
  Proof.
    intros Hnd Hr. apply Permutation_length. apply NoDup_Permutation; auto.
    - apply NoDup_filter, seq_NoDup.
    - intros i. rewrite filter_In, in_seq, existsb_exists. split.
      + intros (_ & j & Hj & Ej). apply Nat.eqb_eq in Ej. subst. exact Hj.
      + intros Hi. split; [specialize (Hr i Hi); lia|]. exists i. split; auto. apply Nat.eqb_refl.
  Qed.

  Lemma combine_filter_snd {X Y} (g : Y -> bool) (l1 : list X) : forall (l2 : list Y),
    length l1 = length l2 ->
    length (filter (fun xy => g (snd xy)) (combine l1 l2)) = length (filter g l2).
  Proof.
    induction l1 as [|x t IH]; intros [|y t2] Hl; try discriminate; auto.
    cbn [combine filter snd]. destruct (g y); cbn [length]; rewrite IH; auto.
  Qed.

  Lemma Forall_combine_seq {X Y} (P : X * Y -> Prop) (g : nat -> Y) d (l : list X) : forall a,
    (forall j, (j < length l)%nat -> P (nth j l d, g (a + j)%nat)) ->
    Forall P (combine l (map g (seq a (length l)))).
  Proof.
    induction l as [|x t IH]; intros a Hj; [constructor|].
    cbn [length seq map combine]. constructor.
    - specialize (Hj 0%nat). cbn [nth length] in Hj. rewrite Nat.add_0_r in Hj. apply Hj. lia.
    - apply IH. intros j Hlt. specialize (Hj (S j)). cbn [nth length] in Hj.
      replace (S a + j)%nat with (a + S j)%nat by lia. apply Hj. lia.
  Qed.

  Lemma f_threshold_runs k (res : list SatResult) wits n :
    f_threshold hal k res wits = Ok (inl n) ->
    Forall child_ok (combine res wits) -> cnt (combine res wits) = k -> k < 2 ^ 32 ->
    eval n VUnit = Some VUnit.
  Proof.
    intros ET Hall Hcnt Hk. unfold f_threshold in ET.
    destruct (2 ^ 32 <=? N.of_nat (length res)); [discriminate|].
    destruct (N.of_nat (length res) <? k); [discriminate|].
    destruct res as [|r0 rt]; [discriminate|]. destruct wits as [|w0 wt]; [discriminate|].
    cbn [combine] in Hall, Hcnt.
    inversion Hall as [|? ? Hc0 Hrest]; subst.
    destruct (summand_eval Hc0) as (sm & Es & Hsm).
    rewrite Es in ET.
    assert (cnt ((r0, w0) :: combine rt wt) = (if bit_of w0 then 1 else 0) + cnt (combine rt wt)) as Hc2
      by (unfold cnt; cbn [filter snd]; destruct (bit_of w0); cbn [length]; lia).
    destruct (@sum_eval (combine rt wt) sm (if bit_of w0 then 1 else 0) Hrest Hsm) as (m & Em & Hm); [lia|].
    rewrite Em in ET. apply ok_inj in ET. unfold f_thresh_verify, f_verify_bexp in ET.
    cbn [hal Satisfy.hal hiding_alg a_word a_pair a_jet a_comp hid2] in ET. injection ET as <-.
    nalg. cbn [eval]. rewrite Hm. cbn [jet_sem].
    rewrite <- Hc2, N.eqb_refl. reflexivity.
  Qed.

  Lemma threshold_runs k (res : list SatResult) n :
    Forall runs res -> sat_threshold hf fin_cost cmax k res = Ok (inl n) -> eval n VUnit = Some VUnit.
  Proof.
    intros Hruns Hs. unfold sat_threshold in Hs.
    destruct (2 ^ 32 <=? k) eqn:Ek; [discriminate|]. apply N.leb_gt in Ek.
    set (sel := select_indices k (map (cost_of fin_cost cmax) res)) in *.
    set (wits := map (fun i => opt_bit (existsb (Nat.eqb i) sel)) (seq 0 (length res))) in *.
    destruct (f_threshold hal k res wits) as [t| | |] eqn:ET; cbn [obind] in Hs; try discriminate.
    apply ok_inj in Hs.
    set (all_ok := forallb (fun i => is_node (nth i res (inr (h_unit hf)))) sel) in *.
    destruct all_ok eqn:Eok; [|destruct t; discriminate]. cbn [ok_if] in Hs. subst t.
    assert (k <= N.of_nat (length res)) as E2.
    { unfold f_threshold in ET. destruct (2 ^ 32 <=? N.of_nat (length res)); [discriminate|].
      destruct (N.of_nat (length res) <? k) eqn:E2; [discriminate|]. apply N.ltb_ge in E2. exact E2. }
    (* the selection *)
    assert (Permutation (seq 0 (length res)) (isort (key_leb (map (cost_of fin_cost cmax) res)) (seq 0 (length res)))) as HP
      by apply isort_perm.
    assert (forall i, In i sel -> (i < length res)%nat) as Hrange.
    { intros i Hi. unfold sel, select_indices in Hi. apply take_n_incl in Hi. rewrite map_length in Hi.
      apply (Permutation_in _ (Permutation_sym HP)) in Hi. apply in_seq in Hi. lia. }
    assert (NoDup sel) as Hnd.
    { unfold sel, select_indices. apply take_n_nodup. rewrite map_length.
      eapply Permutation_NoDup; [exact HP|apply seq_NoDup]. }
    assert (N.of_nat (length sel) = k) as Hlen.
    { unfold sel, select_indices. apply take_n_length. rewrite map_length, isort_length, seq_length. exact E2. }
    (* every (child, bit) pair is fine *)
    assert (Forall child_ok (combine res wits)) as Hall.
    { unfold wits. apply (Forall_combine_seq child_ok _ (inr (h_unit hf))). intros j Hj. cbn [Nat.add].
      split; cbn [fst snd].
      - eexists; reflexivity.
      - unfold opt_bit, bit_of. destruct (existsb (Nat.eqb j) sel) eqn:Em; [|discriminate]. intros _.
        apply existsb_exists in Em as (i & Hi & Ei). apply Nat.eqb_eq in Ei. subst i.
        unfold all_ok in Eok. rewrite forallb_forall in Eok. specialize (Eok j Hi).
        destruct (nth j res (inr (h_unit hf))) as [a|h] eqn:En; [|discriminate].
        exists a. split; auto. rewrite Forall_forall in Hruns. apply (Hruns (inl a)); auto.
        rewrite <- En. apply nth_In. exact Hj. }
    assert (cnt (combine res wits) = k) as Hcnt.
    { unfold cnt. rewrite combine_filter_snd by (unfold wits; rewrite map_length, seq_length; reflexivity).
      unfold wits.
      rewrite <- (filter_map_length bit_of (fun i => opt_bit (existsb (Nat.eqb i) sel))).
      rewrite <- Hlen. f_equal. rewrite <- (mem_count Hnd Hrange). f_equal. apply filter_ext.
      intros i. unfold opt_bit, bit_of. destruct (existsb (Nat.eqb i) sel); reflexivity. }
    apply (f_threshold_runs _ _ ET Hall Hcnt Ek).
  Qed.

  Theorem satisfy_internal_runs p : forall r,
    satisfy_internal s p = Ok r -> runs r.
  Proof.
    induction p using policy_ind'; intros r Hr a ->.
    - cbn in Hr. discriminate.
    - cbn in Hr. injection Hr as <-. reflexivity.
    - cbn [Satisfy.satisfy_internal] in Hr. apply ok_inj in Hr.
      destruct (s_sig s k) eqn:E; [|discriminate]. cbn in Hr. injection Hr as <-.
      cbn [eval jet_sem wval_val]. rewrite (t_sig Htruth _ E). reflexivity.
    - cbn [Satisfy.satisfy_internal] in Hr. destruct (HEIGHT_LIMIT <=? n); [discriminate|]. apply ok_inj in Hr.
      destruct (s_after s n) eqn:E; [|discriminate]. cbn in Hr. injection Hr as <-.
      cbn [eval jet_sem]. pose proof (t_after Htruth _ E) as Hle. apply N.leb_le in Hle. rewrite Hle. reflexivity.
    - cbn [Satisfy.satisfy_internal] in Hr. apply ok_inj in Hr.
      destruct (s_older s n) eqn:E; [|discriminate]. cbn in Hr. injection Hr as <-.
      cbn [eval jet_sem]. pose proof (t_older Htruth _ E) as Hle. apply N.leb_le in Hle. rewrite Hle. reflexivity.
    - cbn [Satisfy.satisfy_internal] in Hr. apply ok_inj in Hr.
      destruct (s_pre s h) eqn:E; [|discriminate]. cbn in Hr. injection Hr as <-.
      cbn [eval jet_sem wval_val app]. rewrite (t_pre Htruth _ E), N.eqb_refl. reflexivity.
    - cbn [Satisfy.satisfy_internal] in Hr.
      destruct (satisfy_internal s p1) as [l'| | |] eqn:E1; cbn [obind] in Hr; try discriminate.
      destruct (satisfy_internal s p2) as [r'| | |] eqn:E2; cbn [obind] in Hr; try discriminate.
      apply ok_inj in Hr. destruct l' as [x|], r' as [y|]; try discriminate. cbn in Hr. injection Hr as <-.
      cbn [eval]. rewrite (IHp1 _ eq_refl x eq_refl). apply (IHp2 _ eq_refl y eq_refl).
    - cbn [Satisfy.satisfy_internal] in Hr.
      destruct (satisfy_internal s p1) as [l'| | |] eqn:E1; cbn [obind] in Hr; try discriminate.
      destruct (satisfy_internal s p2) as [r'| | |] eqn:E2; cbn [obind] in Hr; try discriminate.
      unfold sat_or in Hr.
      destruct l' as [x|hx], r' as [y|hy].
      + destruct (fin_cost x); [|discriminate]. destruct (fin_cost y); [|discriminate].
        cbn [obind] in Hr. apply ok_inj in Hr. cbn in Hr. injection Hr as <-.
        destruct (n0 <? n); cbn [eval wval_val vbit].
        * apply (IHp2 _ eq_refl y eq_refl).
        * apply (IHp1 _ eq_refl x eq_refl).
      + cbn [obind] in Hr. apply ok_inj in Hr. cbn in Hr. injection Hr as <-.
        cbn [eval wval_val vbit]. apply (IHp1 _ eq_refl x eq_refl).
      + cbn [obind] in Hr. apply ok_inj in Hr. cbn in Hr. injection Hr as <-.
        cbn [eval wval_val vbit]. apply (IHp2 _ eq_refl y eq_refl).
      + cbn [obind] in Hr. apply ok_inj in Hr. cbn in Hr. discriminate.
    - rewrite satisfy_internal_thresh in Hr.
      destruct (omapM (satisfy_internal s) subs) as [res| | |] eqn:E; cbn [obind] in Hr; try discriminate.
      eapply threshold_runs; [|exact Hr].
      clear Hr. revert res E.
      match goal with HF : Forall _ subs |- _ => induction HF as [|x t Hx _ IH] end; intros res E.
      + cbn in E. injection E as <-. constructor.
      + cbn [omapM] in E.
        destruct (satisfy_internal s x) as [x'| | |] eqn:Ex; cbn [obind] in E; try discriminate.
        destruct (omapM (satisfy_internal s) t) as [t'| | |]; cbn [obind] in E; try discriminate.
        injection E as <-. constructor; auto.
  Qed.

  (* the whole of Policy::satisfy for a truthful satisfier: it never reports AssemblyFailed, and
     what it returns has the root of the policy and runs *)
  Theorem satisfy_sound p prog :
    satisfy s p = Ok prog ->
    policy_cmr hf p = Ok (cmr hf prog) /\ eval prog VUnit = Some VUnit.
  Proof.
    unfold satisfy. destruct (satisfy_unpruned hf fin_cost cmax s p) as [u| | |] eqn:E; try discriminate.
    destruct (prune u) as [pr|] eqn:EP; [|discriminate]. intros [= <-].
    pose proof (satisfy_unpruned_cmr _ _ _ _ _ E) as Hc.
    assert (eval u VUnit = Some VUnit) as Hrun.
    { unfold satisfy_unpruned in E. destruct (satisfy_internal s p) as [[n|h]| | |] eqn:Ei; try discriminate.
      destruct (fin_cost n); [|discriminate]. injection E as <-.
      apply (@satisfy_internal_runs _ _ Ei _ eq_refl). }
    split.
    - rewrite (@prune_cmr _ _ EP). exact Hc.
    - eapply prune_runs; eauto.
  Qed.

  Theorem satisfy_never_assembly_failed p : satisfy s p <> Err AssemblyFailed.
  Proof.
    unfold satisfy. destruct (satisfy_unpruned hf fin_cost cmax s p) as [u|x| |] eqn:E; try discriminate.
    - assert (eval u VUnit = Some VUnit) as Hrun.
      { unfold satisfy_unpruned in E. destruct (satisfy_internal s p) as [[n|h]| | |] eqn:Ei; try discriminate.
        destruct (fin_cost n); [|discriminate]. injection E as <-.
        apply (@satisfy_internal_runs _ _ Ei _ eq_refl). }
      destruct (prune_total _ Hrun) as (pr & Epr); rewrite Epr. discriminate.
    - unfold satisfy_unpruned in E. destruct (satisfy_internal s p) as [[n|h]| | |]; try discriminate.
      + destruct (fin_cost n); discriminate.
      + injection E as <-. discriminate.
  Qed.

  (* satisfaction succeeds exactly when the answers make the policy true *)
  Theorem satisfy_complete p :
    wf p -> cost_ok hf fin_cost cmax s p ->
    (forall n, satisfy_internal s p = Ok (inl n) -> fin_cost n <> None) ->
    if holds s p then exists prog, satisfy s p = Ok prog
    else satisfy s p = Err Unsatisfiable.
  Proof.
    intros W C F. pose proof (@satisfy_unpruned_iff _ hf fin_cost cmax s p W C F) as HU. unfold satisfy.
    revert HU. destruct (holds s p); intros HU.
    - destruct HU as (u & Eu). rewrite Eu.
      assert (eval u VUnit = Some VUnit) as Hrun.
      { unfold satisfy_unpruned in Eu. destruct (satisfy_internal s p) as [[n|h]| | |] eqn:Ei; try discriminate.
        destruct (fin_cost n); [|discriminate]. injection Eu as <-.
        apply (@satisfy_internal_runs _ _ Ei _ eq_refl). }
      destruct (prune_total _ Hrun) as (pr & Epr); rewrite Epr. eexists; reflexivity.
    - rewrite HU. reflexivity.
  Qed.
End Sem.
