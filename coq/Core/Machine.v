(* The Bit Machine of rust-simplicity, as written.
     src/bit_machine/mod.rs    BitMachine::{for_program,new_write_frame,move_write_frame_to_read,
                               drop_read_frame,write_bit,skip,copy,fwd,back,read_bit,write_bytes,
                               write_value,input,exec_with_tracker,exec_jet}
     src/bit_machine/frame.rs  Frame::{new,reset_cursor,peek_bit,read_bit,write_bit,write_u8,
                               move_cursor_forward,move_cursor_backward,copy_from,
                               as_bit_iter_from_cursor}
   State: the data buffer as a list of cells (bits; cell i is bit 7-(i mod 8) of byte i/8, every
   access to a cell >= 8*|data| is an index panic), next_frame_start, the read and write frame
   stacks (cursor,start,len), the two high-water marks of the `verif-hooks` feature.
   The interpreter loop is a small-step function over (state, call stack); executing the item
   [CGoto t] is one iteration of `'main_loop` for node t (action, then the frame windows the
   tracker is handed, then the pushes), the other items are the arms of the inner `loop`.
   Panic codes: 1 index out of range, 2 unwrap/expect/len()-1 on an empty stack, 3 assert!,
   4 debug_assert! (debug profile only), 5 usize underflow (debug profile only), 6 unwrap of
   as_sum/as_product on a type of the wrong shape, 7 assert in BitIter::byte_slice_window,
   8 expect("Decode value of output frame").
   Not modelled: overflow of cursor additions (cursors stay below 2^64 wherever no other panic
   occurs first under the premises of the theorems), JetTypeMismatch (jets of a foreign
   environment), simplicity_sys::c_jets::sanity_checks() = false. *)
From RS Require Import Lib.Tac Lib.Outcome Lib.Bits Ty.Ty Core.Prog Core.Term Core.Typing Core.Sem
  Core.Bounds Core.Limits.
Import ListNotations.
Local Open Scope N_scope.

Record frame := mkF { fcur : N; fstart : N; flen : N }.

Record mstate := mkSt {
  mem : list bool;        (* 8 * data.len() cells *)
  nfs : N;                (* next_frame_start *)
  rd : list frame;        (* read frame stack, active frame first *)
  wr : list frame;        (* write frame stack, active frame first *)
  hwc : N;                (* verif_high_water.0: max next_frame_start *)
  hwf : N                 (* verif_high_water.1: max read.len() + write.len() *)
}.

Inductive exec_error :=
| InputWrongType
| ReachedFailNode (entropy : list N)
| ReachedPrunedBranch (cmr : list N)
| LimitExceeded (e : limit_error)
| EJetFailed.

(* an error carries the machine state at the moment `exec` returns (the high-water marks
   stay observable through the hook) *)
Definition merr : Type := (exec_error * mstate)%type.
Definition M (A : Type) : Type := outcome merr A.

Inductive citem :=
| CGoto (t : term)
| CMove              (* MoveWriteFrameToRead *)
| CDropRead          (* DropReadFrame *)
| CCopyFwd (n : N)
| CBack (n : N).

Definition msize (m : list bool) : N := N.of_nat (length m).
Definition mbit (m : list bool) (i : N) : bool := nth (N.to_nat i) m false.

Fixpoint upd (m : list bool) (i : nat) (b : bool) : list bool :=
  match m, i with
  | [], _ => []
  | _ :: r, O => b :: r
  | x :: r, S k => x :: upd r k b
  end.

Definition depth (st : mstate) : N := N.of_nat (length (rd st)) + N.of_nat (length (wr st)).
Definition bw (t : ty) : N := width_sat t.                   (* Final::bit_width *)
Definition pad_l (a b : ty) : N := N.max (bw a) (bw b) - bw a.   (* Final::pad_left *)
Definition pad_r (a b : ty) : N := N.max (bw a) (bw b) - bw b.   (* Final::pad_right *)

Definition set_mem_wr (st : mstate) (m : list bool) (w : list frame) : mstate :=
  mkSt m (nfs st) (rd st) w (hwc st) (hwf st).
Definition set_rd (st : mstate) (r : list frame) : mstate :=
  mkSt (mem st) (nfs st) r (wr st) (hwc st) (hwf st).
Definition set_wr (st : mstate) (w : list frame) : mstate :=
  mkSt (mem st) (nfs st) (rd st) w (hwc st) (hwf st).
Definition fadv (f : frame) (n : N) : frame := mkF (fcur f + n) (fstart f) (flen f).

Local Open Scope outcome_scope.

Section Machine.
  Variable prof : profile.
  Variable cap : N.                                  (* read.capacity() *)
  Variable jet_sem : N -> sval -> option sval.

  Definition is_debug : bool := match prof with Debug => true | Release => false end.

  (* usize subtraction: panics in the debug profile, wraps in the release profile *)
  Definition usub {E} (a b : N) : outcome E N :=
    if b <=? a then Ok (a - b)
    else if is_debug then Panic 5 else Ok (a + 2 ^ 64 - b).

  Definition new_write_frame (st : mstate) (len : N) : M mstate :=
    if is_debug && negb (nfs st + len <=? msize (mem st)) then Panic 4
    else if is_debug && negb (depth st <? cap) then Panic 4
    else Ok (mkSt (mem st) (nfs st + len) (rd st) (mkF (nfs st) (nfs st) len :: wr st)
                  (N.max (hwc st) (nfs st + len)) (N.max (hwf st) (depth st + 1))).

  Definition move_write_frame_to_read (st : mstate) : M mstate :=
    match wr st with
    | [] => Panic 2
    | f :: ws => Ok (mkSt (mem st) (nfs st) (mkF (fstart f) (fstart f) (flen f) :: rd st) ws (hwc st) (hwf st))
    end.

  Definition drop_read_frame (st : mstate) : M mstate :=
    match rd st with
    | [] => Panic 2
    | f :: rs =>
        n <- usub (nfs st) (flen f) ;;
        if n =? fstart f then Ok (mkSt (mem st) n rs (wr st) (hwc st) (hwf st)) else Panic 3
    end.

  Definition write_bit (st : mstate) (b : bool) : M mstate :=
    match wr st with
    | [] => Panic 2
    | f :: ws =>
        if fcur f <? msize (mem st)
        then Ok (set_mem_wr st (upd (mem st) (N.to_nat (fcur f)) b) (fadv f 1 :: ws))
        else Panic 1
    end.

  Fixpoint write_bits (st : mstate) (bits : list bool) : M mstate :=
    match bits with
    | [] => Ok st
    | b :: r => st' <- write_bit st b ;; write_bits st' r
    end.

  Definition skip (st : mstate) (n : N) : M mstate :=
    if n =? 0 then Ok st
    else match wr st with
         | [] => Panic 2
         | f :: ws => Ok (set_wr st (fadv f n :: ws))
         end.

  (* Frame::copy_from: bit i is read from the (current) data, then written *)
  Fixpoint copy_loop (k : nat) (from : N) (st : mstate) : M mstate :=
    match k with
    | O => Ok st
    | S k' =>
        if from <? msize (mem st)
        then st' <- write_bit st (mbit (mem st) from) ;; copy_loop k' (from + 1) st'
        else Panic 1
    end.

  Definition copy (st : mstate) (n : N) : M mstate :=
    if n =? 0 then Ok st
    else match wr st, rd st with
         | _ :: _, rf :: _ => copy_loop (N.to_nat n) (fcur rf) st
         | _, _ => Panic 2
         end.

  Definition fwd (st : mstate) (n : N) : M mstate :=
    if n =? 0 then Ok st
    else match rd st with
         | [] => Panic 2
         | f :: rs => Ok (set_rd st (fadv f n :: rs))
         end.

  Definition back (st : mstate) (n : N) : M mstate :=
    if n =? 0 then Ok st
    else match rd st with
         | [] => Panic 2
         | f :: rs => c <- usub (fcur f) n ;; Ok (set_rd st (mkF c (fstart f) (flen f) :: rs))
         end.

  Definition read_bit (st : mstate) : M (bool * mstate) :=
    match rd st with
    | [] => Panic 2
    | f :: rs =>
        if fcur f <? msize (mem st)
        then Ok (mbit (mem st) (fcur f), set_rd st (fadv f 1 :: rs))
        else Panic 1
    end.

  Fixpoint read_bits (k : nat) (st : mstate) : M (list bool * mstate) :=
    match k with
    | O => Ok ([], st)
    | S k' => '(b, st1) <- read_bit st ;; '(r, st2) <- read_bits k' st1 ;; Ok (b :: r, st2)
    end.

  (* BitIter::byte_slice_window(data, cursor, start + len), evaluated for the tracker *)
  Definition window_check (st : mstate) (f : option frame) : M unit :=
    match f with
    | None => Ok tt
    | Some f =>
        if (fcur f <=? fstart f + flen f) && (fstart f + flen f <=? msize (mem st))
        then Ok tt else Panic 7
    end.

  Inductive node_output := NonTerminal | Success | NJetFailed.

  Definition active_read_bit_width (st : mstate) : N :=
    match rd st with f :: _ => flen f | [] => 0 end.
  Definition active_write_bit_width (st : mstate) : N :=
    match wr st with f :: _ => flen f | [] => 0 end.

  Definition exec_jet (st : mstate) (ar : arrow) (j : N) : M (mstate * node_output) :=
    let iw := bw (fst ar) in
    let ow := bw (snd ar) in
    if negb (iw <=? active_read_bit_width st) then Panic 3 else
    '(bits, st1) <- read_bits (N.to_nat iw) st ;;
    st2 <- back st1 iw ;;
    match jet_sem j (of_padded (fst ar) bits) with
    | None => Ok (st2, NJetFailed)
    | Some b =>
        if negb (ow <=? active_write_bit_width st2) then Panic 3 else
        st3 <- write_bits st2 (padded_enc (snd ar) b) ;; Ok (st3, Success)
    end.

  (* the match on ip.inner(): new state, call stack pushes (first executed first), and the
     kind of output handed to the tracker *)
  Definition action (st : mstate) (t : term) : M (mstate * list citem * node_output) :=
    match t with
    | Unit _ => Ok (st, [], Success)
    | Iden ar => st1 <- copy st (bw (fst ar)) ;; Ok (st1, [], Success)
    | InjL ar t =>
        match snd ar with
        | Sum b c => st1 <- write_bit st false ;; st2 <- skip st1 (pad_l b c) ;;
                     Ok (st2, [CGoto t], NonTerminal)
        | _ => Panic 6
        end
    | InjR ar t =>
        match snd ar with
        | Sum b c => st1 <- write_bit st true ;; st2 <- skip st1 (pad_r b c) ;;
                     Ok (st2, [CGoto t], NonTerminal)
        | _ => Panic 6
        end
    | Pair _ s t => Ok (st, [CGoto s; CGoto t], NonTerminal)
    | Comp _ s t =>
        st1 <- new_write_frame st (bw (tgt s)) ;;
        Ok (st1, [CGoto s; CMove; CGoto t; CDropRead], NonTerminal)
    | Disconnect _ s t c =>
        let size_prod_256_a := bw (src s) in
        size_a <- usub size_prod_256_a 256 ;;
        let size_prod_b_c := bw (tgt s) in
        size_b <- usub size_prod_b_c (bw (src t)) ;;
        st1 <- new_write_frame st size_prod_256_a ;;
        st2 <- write_bits st1 (bits_of_bytes c) ;;
        st3 <- copy st2 size_a ;;
        st4 <- move_write_frame_to_read st3 ;;
        st5 <- new_write_frame st4 size_prod_b_c ;;
        Ok (st5, [CGoto s; CMove; CCopyFwd size_b; CGoto t; CDropRead; CDropRead], NonTerminal)
    | Take _ t => Ok (st, [CGoto t], NonTerminal)
    | Drop ar t =>
        match fst ar with
        | Prod a _ => st1 <- fwd st (bw a) ;; Ok (st1, [CGoto t; CBack (bw a)], NonTerminal)
        | _ => Panic 6
        end
    | Case ar _ _ | AssertL ar _ _ | AssertR ar _ _ =>
        match rd st with
        | [] => Panic 2
        | f :: _ =>
            if negb (fcur f <? msize (mem st)) then Panic 1 else
            let choice := mbit (mem st) (fcur f) in
            match fst ar with
            | Prod (Sum a b) _ =>
                match t, choice with
                | Case _ _ r, true | AssertR _ _ r, true =>
                    st1 <- fwd st (1 + pad_r a b) ;;
                    Ok (st1, [CGoto r; CBack (1 + pad_r a b)], NonTerminal)
                | Case _ l _, false | AssertL _ l _, false =>
                    st1 <- fwd st (1 + pad_l a b) ;;
                    Ok (st1, [CGoto l; CBack (1 + pad_l a b)], NonTerminal)
                | AssertL _ _ h, true => Err (ReachedPrunedBranch h, st)
                | AssertR _ h _, false => Err (ReachedPrunedBranch h, st)
                | _, _ => Panic 9
                end
            | _ => Panic 6
            end
        end
    | Witness _ bits => st1 <- write_bits st bits ;; Ok (st1, [], Success)
    | Jet ar j => '(st1, o) <- exec_jet st ar j ;; Ok (st1, [], o)
    | Word _ _ bits => st1 <- write_bits st bits ;; Ok (st1, [], NonTerminal)
    | Fail _ e => Err (ReachedFailNode e, st)
    end.

  (* one iteration of 'main_loop for node t *)
  Definition exec_node (st : mstate) (t : term) : M (mstate * list citem) :=
    let input_frame := hd_error (rd st) in
    let output_frame := hd_error (wr st) in
    '(st1, push, o) <- action st t ;;
    _ <- window_check st1 input_frame ;;
    _ <- match o with Success => window_check st1 output_frame | _ => Ok tt end ;;
    match o with
    | NJetFailed => Err (EJetFailed, st1)
    | _ => Ok (st1, push)
    end.

  Definition step (st : mstate) (k : list citem) : M (mstate * list citem) :=
    match k with
    | [] => Ok (st, [])
    | CGoto t :: k' => '(st1, push) <- exec_node st t ;; Ok (st1, push ++ k')
    | CMove :: k' => st1 <- move_write_frame_to_read st ;; Ok (st1, k')
    | CDropRead :: k' => st1 <- drop_read_frame st ;; Ok (st1, k')
    | CCopyFwd n :: k' => st1 <- copy st n ;; st2 <- fwd st1 n ;; Ok (st2, k')
    | CBack n :: k' => st1 <- back st n ;; Ok (st1, k')
    end.

  Fixpoint run (fuel : nat) (st : mstate) (k : list citem) : M mstate :=
    match k with
    | [] => Ok st
    | _ =>
        match fuel with
        | O => OutOfFuel
        | S f => '(st1, k1) <- step st k ;; run f st1 k1
        end
    end.

  (* upper bound on the number of call stack items processed for a node *)
  Fixpoint steps (t : term) : nat :=
    match t with
    | InjL _ t | InjR _ t | Take _ t => S (steps t)
    | Drop _ t | AssertL _ t _ | AssertR _ _ t => S (S (steps t))
    | Pair _ s t => S (steps s + steps t)
    | Comp _ s t => S (S (S (steps s + steps t)))
    | Case _ s t => S (S (Nat.max (steps s) (steps t)))
    | Disconnect _ s t _ => S (S (S (S (S (steps s + steps t)))))
    | _ => 1%nat
    end.

  (* the cells [from, from + k) *)
  Fixpoint mslice (m : list bool) (from : N) (k : nat) : list bool :=
    match k with
    | O => []
    | S k' => mbit m from :: mslice m (from + 1) k'
    end.

  (* BitMachine::input for a value given by its type and its padded bits *)
  Definition input (st : mstate) (source_ty vty : ty) (pbits : list bool) : M mstate :=
    if negb (ty_eqb vty source_ty) then Err (InputWrongType, st)
    else if bw vty =? 0 then Ok st
    else st1 <- new_write_frame st (bw vty) ;;
         st2 <- write_bits st1 pbits ;;
         move_write_frame_to_read st2.

  (* BitMachine::exec: returns the final state and the padded bits of the output value
     (Value::from_padded_bits keeps them as they are in the frame) *)
  Definition exec (st : mstate) (t : term) (fuel : nat) : M (mstate * list bool) :=
    let rd_empty := match rd st with [] => true | _ => false end in
    if negb (Bool.eqb rd_empty (bw (src t) =? 0)) then Err (InputWrongType, st) else
    let ow := bw (tgt t) in
    st1 <- (if 0 <? ow then new_write_frame st ow else Ok st) ;;
    st2 <- run fuel st1 [CGoto t] ;;
    if 0 <? ow then
      match wr st2 with
      | [] => Panic 2
      | f :: ws =>
          let f' := mkF (fstart f) (fstart f) (flen f) in
          let st3 := set_wr st2 (f' :: ws) in
          _ <- window_check st3 (Some f') ;;
          (* the window yields the cells up to the next byte boundary after start + len *)
          if fstart f + ow <=? 8 * ((fstart f + flen f + 7) / 8)
          then Ok (st3, mslice (mem st3) (fstart f) (N.to_nat ow))
          else Panic 8
      end
    else Ok (st2, []).
End Machine.

(* ------------------------------------------------------------------ whole pipeline *)
Definition div_ceil8 (x : N) : N := (x + 7) / 8.

Section Pipeline.
  Variable prof : profile.
  Variable jet_cost : N -> N.
  Variable jet_sem : N -> sval -> option sval.

  Definition machine_cap (t : term) : N := extra_frames (bounds jet_cost t) + IO_EXTRA_FRAMES.
  Definition machine_cells (t : term) : N :=
    8 * div_ceil8 (bw (src t) + bw (tgt t) + extra_cells (bounds jet_cost t)).

  (* BitMachine::for_program with the given initial contents of the data buffer
     (the code allocates zeros: [for_program]) *)
  Definition for_program_with (t : term) (m0 : list bool) : outcome limit_error mstate :=
    match check_program prof (bw (src t)) (bw (tgt t)) (bounds jet_cost t) with
    | Ok _ => Ok (mkSt m0 0 [] [] 0 0)
    | Err e => Err e
    | Panic c => Panic c
    | OutOfFuel => OutOfFuel
    end.

  Definition for_program (t : term) : outcome limit_error mstate :=
    for_program_with t (repeat false (N.to_nat (machine_cells t))).

  Definition default_fuel (t : term) : nat := S (steps t).

  (* for_program; optional input; exec *)
  Definition machine_exec (t : term) (m0 : list bool) (inp : option (ty * list bool))
    : M (mstate * list bool) :=
    match for_program_with t m0 with
    | Err e => Err (LimitExceeded e, mkSt [] 0 [] [] 0 0)
    | Panic c => Panic c
    | OutOfFuel => OutOfFuel
    | Ok st0 =>
        let cap := machine_cap t in
        st1 <- match inp with
               | None => Ok st0
               | Some (vty, pbits) => input prof cap st0 (src t) vty pbits
               end ;;
        exec prof cap jet_sem st1 t (default_fuel t)
    end.
End Pipeline.
