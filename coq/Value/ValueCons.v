(* Constructors and decoders of the byte-level Value: right_shift_1, copy_bits, product,
   left / right / product / unit / none / some / zero / words, from_padded_bits,
   from_compact_bits.  Each preserves WF and has the expected abstraction. *)
From RS Require Import Lib.Tac Lib.Outcome Lib.Bits Lib.Sweep Lib.ListExtra Ty.Ty
  Value.ValueModel Value.ValueBits Value.ValueRefine.
Import ListNotations.
Local Open Scope N_scope.

(* split conjunctions without unfolding definitions such as WF *)
Ltac ssplit := repeat match goal with |- _ /\ _ => split end.

(* ------------------------------------------------------------------ right_shift_1 *)

Theorem right_shift_1_spec inner o nb : bytes_ok inner -> o <= blen inner ->
  exists inner' o', right_shift_1 inner o nb = Ok (inner', o') /\
    bytes_ok inner' /\ o' + 1 + blen inner = o + blen inner' /\
    getbit inner' o' = nb /\
    forall i, getbit inner' (o' + 1 + i) = getbit inner (o + i).
Proof.
  intros Hb Ho. unfold right_shift_1.
  destruct (0 <? o) eqn:Epos.
  - apply N.ltb_lt in Epos. unfold blen in Ho.
    set (no := o - 1). set (m := no mod 8).
    assert (Hm : m < 8) by (subst m; lia).
    assert (Hidx : (N.to_nat (no / 8) < length inner)%nat) by (subst no; lia).
    rewrite get_byte_some by exact Hidx.
    set (b := nth (N.to_nat (no / 8)) inner 0).
    assert (Hb256 : b < 256) by apply bytes_ok_nth, Hb.
    destruct (rs1_sweep b m 0 Hb256 Hm ltac:(lia)) as (Hcur & _ & _ & Hlor & Hland).
    cbv zeta in Hcur, Hlor, Hland. rewrite Hcur.
    assert (Hgb : getbit inner no = N.testbit b (7 - m)) by reflexivity.
    assert (Hshift : forall i, no + 1 + i = o + i) by (intros; subst no; lia).
    destruct (Bool.eqb (N.testbit b (7 - m)) nb) eqn:Eeq.
    + apply eqb_prop in Eeq. exists inner, no. split; [reflexivity|].
      split; [exact Hb|]. split; [subst no; lia|]. split; [congruence|].
      intros i. rewrite Hshift. reflexivity.
    + assert (Hne : N.testbit b (7 - m) <> nb) by (intros X; rewrite X, eqb_reflx in Eeq; discriminate).
      assert (Hother : forall x i, getbit (set_byte inner (no / 8) x) (no + 1 + i) =
                 if (no + 1 + i) / 8 =? no / 8 then N.testbit x (7 - (no + 1 + i) mod 8)
                 else getbit inner (o + i)).
      { intros x i. rewrite getbit_set_byte by exact Hidx. rewrite Hshift. reflexivity. }
      destruct nb.
      * exists (set_byte inner (no / 8) (N.lor b (N.shiftl 1 (7 - m)))), no.
        split; [reflexivity|].
        split; [apply bytes_ok_set_nth; auto|].
        split; [unfold blen, set_byte; rewrite set_nth_length; subst no; lia|].
        split.
        -- rewrite getbit_set_byte by exact Hidx. rewrite N.eqb_refl. fold m.
           destruct (rs1_sweep b m m Hb256 Hm Hm) as (_ & -> & _). rewrite N.eqb_refl. apply orb_true_r.
        -- intros i. rewrite Hother.
           destruct ((no + 1 + i) / 8 =? no / 8) eqn:Esame; [|reflexivity].
           apply N.eqb_eq in Esame.
           set (k := (no + 1 + i) mod 8).
           assert (Hk : k < 8) by (subst k; lia).
           destruct (rs1_sweep b m k Hb256 Hm Hk) as (_ & -> & _).
           replace (k =? m) with false by (symmetry; apply N.eqb_neq; subst k m; lia).
           rewrite orb_false_r. unfold getbit. rewrite <- Hshift, Esame. reflexivity.
      * exists (set_byte inner (no / 8) (N.land b (not8 (N.shiftl 1 (7 - m))))), no.
        split; [reflexivity|].
        split; [apply bytes_ok_set_nth; auto|].
        split; [unfold blen, set_byte; rewrite set_nth_length; subst no; lia|].
        split.
        -- rewrite getbit_set_byte by exact Hidx. rewrite N.eqb_refl. fold m.
           destruct (rs1_sweep b m m Hb256 Hm Hm) as (_ & _ & -> & _). rewrite N.eqb_refl. apply andb_false_r.
        -- intros i. rewrite Hother.
           destruct ((no + 1 + i) / 8 =? no / 8) eqn:Esame; [|reflexivity].
           apply N.eqb_eq in Esame.
           set (k := (no + 1 + i) mod 8).
           assert (Hk : k < 8) by (subst k; lia).
           destruct (rs1_sweep b m k Hb256 Hm Hk) as (_ & _ & -> & _).
           replace (k =? m) with false by (symmetry; apply N.eqb_neq; subst k m; lia).
           cbn [negb]. rewrite andb_true_r. unfold getbit. rewrite <- Hshift, Esame. reflexivity.
  - apply N.ltb_ge in Epos. assert (o = 0) by lia. subst o.
    exists (b2n nb :: inner), 7. split; [reflexivity|].
    split; [constructor; [destruct nb; cbn; lia|exact Hb]|].
    split; [unfold blen; cbn [length]; lia|].
    split; [rewrite getbit_head by lia; destruct nb; reflexivity|].
    intros i. replace (7 + 1 + i) with (i + 8) by lia. rewrite getbit_cons. f_equal.
Qed.

(* ------------------------------------------------------------------ copy_bits *)

Lemma copy_bit_spec src so dst dof i : bytes_ok src -> bytes_ok dst ->
  so + i < blen src -> dof + i < blen dst ->
  exists dst', copy_bit src so dst dof i = Ok dst' /\ length dst' = length dst /\ bytes_ok dst' /\
    forall p, getbit dst' p = if p =? dof + i then getbit dst p || getbit src (so + i) else getbit dst p.
Proof.
  intros Hs Hd Hsi Hdi. unfold copy_bit, blen in *.
  assert (Hi1 : (N.to_nat ((so + i) / 8) < length src)%nat) by lia.
  assert (Hi2 : (N.to_nat ((dof + i) / 8) < length dst)%nat) by lia.
  rewrite (get_byte_some src) by exact Hi1. rewrite (get_byte_some dst) by exact Hi2.
  set (s := nth (N.to_nat ((so + i) / 8)) src 0).
  set (d := nth (N.to_nat ((dof + i) / 8)) dst 0).
  assert (Hs256 : s < 256) by apply bytes_ok_nth, Hs.
  assert (Hd256 : d < 256) by apply bytes_ok_nth, Hd.
  set (ms := (so + i) mod 8). set (md := (dof + i) mod 8).
  assert (Hms : ms < 8) by (subst ms; lia). assert (Hmd : md < 8) by (subst md; lia).
  eexists; split; [reflexivity|].
  split; [unfold set_byte; apply set_nth_length|].
  split.
  - apply bytes_ok_set_nth; [exact Hd|]. apply (copy_bit_sweep s d ms md 0); auto; lia.
  - intros p. rewrite getbit_set_byte by exact Hi2.
    destruct (p / 8 =? (dof + i) / 8) eqn:Esame.
    + apply N.eqb_eq in Esame.
      set (k := p mod 8). assert (Hk : k < 8) by (subst k; lia).
      destruct (copy_bit_sweep s d ms md k Hs256 Hd256 Hms Hmd Hk) as [Hbit _].
      cbv zeta in Hbit. rewrite Hbit.
      assert (Hgd : getbit dst p = N.testbit d (7 - k)) by (unfold getbit; rewrite Esame; reflexivity).
      assert (Hgs : getbit src (so + i) = N.testbit s (7 - ms)) by reflexivity.
      rewrite Hgd, Hgs.
      destruct (p =? dof + i) eqn:Ep.
      * apply N.eqb_eq in Ep. replace (k =? md) with true by (symmetry; apply N.eqb_eq; subst k md; congruence).
        reflexivity.
      * apply N.eqb_neq in Ep. replace (k =? md) with false by (symmetry; apply N.eqb_neq; subst k md; lia).
        cbn [andb]. apply orb_false_r.
    + apply N.eqb_neq in Esame.
      replace (p =? dof + i) with false by (symmetry; apply N.eqb_neq; intros ->; congruence).
      reflexivity.
Qed.

Lemma copy_bits_from_spec src so dof : bytes_ok src -> forall n dst i, bytes_ok dst ->
  so + i + N.of_nat n <= blen src -> dof + i + N.of_nat n <= blen dst ->
  exists dst', copy_bits_from src so dst dof i n = Ok dst' /\ length dst' = length dst /\ bytes_ok dst' /\
    forall p, getbit dst' p =
      if (dof + i <=? p) && (p <? dof + i + N.of_nat n)
      then getbit dst p || getbit src (so + (p - dof)) else getbit dst p.
Proof.
  intros Hs. induction n as [|n IH]; intros dst i Hd Hsn Hdn.
  - exists dst. split; [reflexivity|]. split; [reflexivity|]. split; [exact Hd|].
    intros p. replace ((dof + i <=? p) && (p <? dof + i + N.of_nat 0)) with false; [reflexivity|].
    symmetry. apply andb_false_iff. destruct (N.leb_spec (dof + i) p); [right; apply N.ltb_ge; lia|left; reflexivity].
  - destruct (copy_bit_spec src so dst dof i Hs Hd ltac:(lia) ltac:(lia)) as (d1 & E1 & L1 & Ok1 & G1).
    destruct (IH d1 (i + 1) Ok1) as (d2 & E2 & L2 & Ok2 & G2).
    { lia. } { unfold blen in *. rewrite L1. lia. }
    exists d2. cbn [copy_bits_from]. rewrite E1. cbn [obind]. rewrite E2.
    split; [reflexivity|]. split; [congruence|]. split; [exact Ok2|].
    intros p. rewrite G2, G1.
    destruct (N.eq_dec p (dof + i)) as [->|Hne].
    + rewrite N.eqb_refl.
      replace ((dof + (i + 1) <=? dof + i) && (dof + i <? dof + (i + 1) + N.of_nat n)) with false
        by (symmetry; apply andb_false_iff; left; apply N.leb_gt; lia).
      replace ((dof + i <=? dof + i) && (dof + i <? dof + i + N.of_nat (S n))) with true
        by (symmetry; apply andb_true_iff; split; [apply N.leb_le|apply N.ltb_lt]; lia).
      do 2 f_equal. lia.
    + replace (p =? dof + i) with false by (symmetry; apply N.eqb_neq; exact Hne).
      replace ((dof + (i + 1) <=? p) && (p <? dof + (i + 1) + N.of_nat n))
        with ((dof + i <=? p) && (p <? dof + i + N.of_nat (S n))); [reflexivity|].
      destruct (N.leb_spec (dof + i) p), (N.leb_spec (dof + (i + 1)) p),
               (N.ltb_spec p (dof + i + N.of_nat (S n))), (N.ltb_spec p (dof + (i + 1) + N.of_nat n));
        try reflexivity; lia.
Qed.

Theorem copy_bits_spec src so dst dof n : bytes_ok src -> bytes_ok dst ->
  so + n <= blen src -> dof + n <= blen dst ->
  exists dst', copy_bits src so dst dof n = Ok dst' /\ length dst' = length dst /\ bytes_ok dst' /\
    forall p, getbit dst' p =
      if (dof <=? p) && (p <? dof + n) then getbit dst p || getbit src (so + (p - dof)) else getbit dst p.
Proof.
  intros Hs Hd Hsn Hdn. unfold copy_bits.
  destruct (copy_bits_from_spec src so dof Hs (N.to_nat n) dst 0 Hd ltac:(lia) ltac:(lia))
    as (d & E & L & O & G).
  exists d. split; [exact E|]. split; [exact L|]. split; [exact O|].
  intros p. rewrite G, N.add_0_r, N2Nat.id. reflexivity.
Qed.

(* ------------------------------------------------------------------ fn product *)

Definition side_ok (x : option (list N * N)) (len : N) : Prop :=
  match x with Some (l, o) => bytes_ok l /\ o + len <= blen l | None => True end.

Definition side_bits (x : option (list N * N)) (len : N) : list bool :=
  match x with
  | Some (l, o) => bitrange l o (N.to_nat len)
  | None => repeat false (N.to_nat len)
  end.

Lemma blen_zeros n : blen (zeros n) = 8 * n.
Proof. unfold blen, zeros. rewrite repeat_length. lia. Qed.

Definition copy_opt (x : option (list N * N)) (dst : list N) (dof n : N) : res (list N) :=
  match x with
  | Some (l, o) => copy_bits l o dst dof n
  | None => Ok dst
  end.

Lemma side_bits_length x n : length (side_bits x n) = N.to_nat n.
Proof. destruct x as [[? ?]|]; cbn [side_bits]; [apply bitrange_length|apply repeat_length]. Qed.

Lemma copy_opt_spec x dst dof n : side_ok x n -> bytes_ok dst -> dof + n <= blen dst ->
  exists d, copy_opt x dst dof n = Ok d /\ length d = length dst /\ bytes_ok d /\
    forall p, getbit d p =
      if (dof <=? p) && (p <? dof + n)
      then getbit dst p || nth (N.to_nat (p - dof)) (side_bits x n) false else getbit dst p.
Proof.
  intros Hx Hd Hn. destruct x as [[l lo]|]; cbn [copy_opt side_bits].
  - destruct Hx as [Hb Hl].
    destruct (copy_bits_spec l lo dst dof n Hb Hd Hl Hn) as (d & E & L & O & G).
    exists d. split; [exact E|]. split; [exact L|]. split; [exact O|].
    intros p. rewrite G.
    destruct ((dof <=? p) && (p <? dof + n)) eqn:Ein; [|reflexivity].
    apply andb_true_iff in Ein. destruct Ein as [H1 H2]. apply N.leb_le in H1. apply N.ltb_lt in H2.
    rewrite nth_bitrange by lia. do 2 f_equal. lia.
  - exists dst. split; [reflexivity|]. split; [reflexivity|]. split; [exact Hd|].
    intros p. destruct ((dof <=? p) && (p <? dof + n)) eqn:Ein; [|reflexivity].
    apply andb_true_iff in Ein. destruct Ein as [H1 H2]. apply N.leb_le in H1. apply N.ltb_lt in H2.
    rewrite nth_repeat. rewrite orb_false_r. reflexivity.
Qed.

Theorem product_raw_spec left ll right rl : side_ok left ll -> side_ok right rl ->
  exists b o, product_raw left ll right rl = Ok (b, o) /\ bytes_ok b /\ o + ll + rl <= blen b /\
    bitrange b o (N.to_nat (ll + rl)) = side_bits left ll ++ side_bits right rl.
Proof.
  intros HL HR. unfold product_raw.
  destruct (ll =? 0) eqn:El.
  - apply N.eqb_eq in El. subst ll.
    assert (Hnil : side_bits left 0 = []) by (destruct left as [[? ?]|]; reflexivity).
    rewrite Hnil. cbn [app]. rewrite N.add_0_l.
    destruct right as [[r ro]|].
    + destruct HR as [Hb Hr]. exists r, ro. repeat split; auto. lia.
    + destruct (rl =? 0) eqn:Er.
      * apply N.eqb_eq in Er. subst rl. exists [], 0. repeat split; [constructor|cbn; lia].
      * exists (zeros (div_ceil8 rl)), 0. split; [reflexivity|]. split; [apply bytes_ok_zeros|].
        split; [rewrite blen_zeros; unfold div_ceil8; lia|]. apply bitrange_zeros.
  - apply N.eqb_neq in El.
    destruct (rl =? 0) eqn:Er.
    + apply N.eqb_eq in Er. subst rl.
      assert (Hnil : side_bits right 0 = []) by (destruct right as [[? ?]|]; reflexivity).
      rewrite Hnil, app_nil_r, N.add_0_r.
      destruct left as [[l lo]|].
      * destruct HL as [Hb Hl]. exists l, lo. repeat split; auto. lia.
      * exists (zeros (div_ceil8 ll)), 0. split; [reflexivity|]. split; [apply bytes_ok_zeros|].
        split; [rewrite blen_zeros; unfold div_ceil8; lia|]. apply bitrange_zeros.
    + apply N.eqb_neq in Er.
      set (bx := zeros (div_ceil8 (ll + rl))).
      assert (Hbx : bytes_ok bx) by apply bytes_ok_zeros.
      assert (Lbx : blen bx = 8 * div_ceil8 (ll + rl)) by apply blen_zeros.
      assert (Hroom : ll + rl <= blen bx) by (rewrite Lbx; unfold div_ceil8; lia).
      destruct (copy_opt_spec left bx 0 ll HL Hbx ltac:(lia)) as (bx1 & E1 & L1 & O1 & G1).
      assert (Lb1 : blen bx1 = blen bx) by (unfold blen; rewrite L1; reflexivity).
      destruct (copy_opt_spec right bx1 ll rl HR O1 ltac:(lia)) as (bx2 & E2 & L2 & O2 & G2).
      exists bx2, 0. split.
      { change (obind (copy_opt left bx 0 ll)
                  (fun b1 => obind (copy_opt right b1 ll rl) (fun b2 => Ok (b2, 0))) = Ok (bx2, 0)).
        rewrite E1. cbn [obind]. rewrite E2. reflexivity. }
      split; [exact O2|].
      split; [unfold blen in *; rewrite L2; lia|].
      pose proof (side_bits_length left ll) as Hsl. pose proof (side_bits_length right rl) as Hsr.
      apply (nth_ext _ _ false false).
      { rewrite bitrange_length, app_length, Hsl, Hsr. lia. }
      intros i Hi. rewrite bitrange_length in Hi.
      assert (Hz : forall p, getbit bx p = false) by (intros; apply getbit_zeros).
      rewrite nth_bitrange by exact Hi. rewrite N.add_0_l, G2, G1, !Hz. cbn [orb].
      destruct (N.ltb_spec (N.of_nat i) ll).
      * replace (ll <=? N.of_nat i) with false by (symmetry; apply N.leb_gt; lia). cbn [andb].
        replace ((0 <=? N.of_nat i) && (N.of_nat i <? 0 + ll)) with true
          by (symmetry; apply andb_true_iff; split; [apply N.leb_le|apply N.ltb_lt]; lia).
        rewrite app_nth1 by lia. f_equal. lia.
      * replace (ll <=? N.of_nat i) with true by (symmetry; apply N.leb_le; lia).
        replace (N.of_nat i <? ll + rl) with true by (symmetry; apply N.ltb_lt; lia). cbn [andb].
        replace ((0 <=? N.of_nat i) && (N.of_nat i <? 0 + ll)) with false
          by (symmetry; apply andb_false_iff; right; apply N.ltb_ge; lia).
        cbn [orb]. rewrite app_nth2 by lia. f_equal. lia.
Qed.

(* ------------------------------------------------------------------ Value::left / right / product *)

Lemma WF_side v : WF v -> side_ok (Some (buf v, off v)) (width (vty v)).
Proof. intros (Hb & Hw & _). split; assumption. Qed.

Theorem v_left_spec inner r : WF inner -> small (Sum (vty inner) r) ->
  exists v, v_left inner r = Ok v /\ WF v /\ vty v = Sum (vty inner) r /\
            vbits v = false :: repeat false (N.to_nat (pad_left (vty inner) r)) ++ vbits inner /\
            absv v = SL (absv inner).
Proof.
  intros HWF Hs. destruct (small_sum _ _ Hs) as [Hsa Hsr].
  unfold v_left. rewrite !bw_small by assumption.
  set (a := vty inner) in *.
  replace (N.max (width a) (width r) - width a) with (pad_left a r) by reflexivity.
  destruct (product_raw_spec None (pad_left a r) (Some (buf inner, off inner)) (width a) I (WF_side _ HWF))
    as (c & co & Ec & Okc & Hroom & Hbits).
  rewrite Ec. cbn [obind].
  destruct (right_shift_1_spec c co false Okc ltac:(lia)) as (ni & no & Er & Okn & Hlen & Htag & Hrest).
  rewrite Er. cbn [obind].
  eexists; split; [reflexivity|].
  assert (Hvb : vbits (mkV ni no (Sum a r)) =
                false :: repeat false (N.to_nat (pad_left a r)) ++ vbits inner).
  { unfold vbits at 1. cbn [buf off vty width].
    replace (N.to_nat (1 + N.max (width a) (width r)))
      with (S (N.to_nat (pad_left a r + width a))) by (unfold pad_left; lia).
    cbn [bitrange]. rewrite Htag. f_equal.
    etransitivity; [|exact Hbits]. apply bitrange_ext. intros i _. apply Hrest. }
  split; [|split; [reflexivity|split; [exact Hvb|]]].
  - unfold WF. cbn [buf off vty width]. split; [exact Okn|]. split; [unfold pad_left in *; lia|exact Hs].
  - apply absv_unique. cbn [vty]. rewrite Hvb. constructor; [apply repeat_length|apply vbits_padded_of].
Qed.

Theorem v_right_spec l inner : WF inner -> small (Sum l (vty inner)) ->
  exists v, v_right l inner = Ok v /\ WF v /\ vty v = Sum l (vty inner) /\
            vbits v = true :: repeat false (N.to_nat (pad_right l (vty inner))) ++ vbits inner /\
            absv v = SR (absv inner).
Proof.
  intros HWF Hs. destruct (small_sum _ _ Hs) as [Hsl Hsb].
  unfold v_right. rewrite !bw_small by assumption.
  set (b := vty inner) in *.
  replace (N.max (width l) (width b) - width b) with (pad_right l b) by reflexivity.
  destruct (product_raw_spec None (pad_right l b) (Some (buf inner, off inner)) (width b) I (WF_side _ HWF))
    as (c & co & Ec & Okc & Hroom & Hbits).
  rewrite Ec. cbn [obind].
  destruct (right_shift_1_spec c co true Okc ltac:(lia)) as (ni & no & Er & Okn & Hlen & Htag & Hrest).
  rewrite Er. cbn [obind].
  eexists; split; [reflexivity|].
  assert (Hvb : vbits (mkV ni no (Sum l b)) =
                true :: repeat false (N.to_nat (pad_right l b)) ++ vbits inner).
  { unfold vbits at 1. cbn [buf off vty width].
    replace (N.to_nat (1 + N.max (width l) (width b)))
      with (S (N.to_nat (pad_right l b + width b))) by (unfold pad_right; lia).
    cbn [bitrange]. rewrite Htag. f_equal.
    etransitivity; [|exact Hbits]. apply bitrange_ext. intros i _. apply Hrest. }
  split; [|split; [reflexivity|split; [exact Hvb|]]].
  - unfold WF. cbn [buf off vty width]. split; [exact Okn|]. split; [unfold pad_right in *; lia|exact Hs].
  - apply absv_unique. cbn [vty]. rewrite Hvb. constructor; [apply repeat_length|apply vbits_padded_of].
Qed.

Theorem v_product_spec l r : WF l -> WF r -> small (Prod (vty l) (vty r)) ->
  exists v, v_product l r = Ok v /\ WF v /\ vty v = Prod (vty l) (vty r) /\
            vbits v = vbits l ++ vbits r /\ absv v = SP (absv l) (absv r).
Proof.
  intros Hl Hr Hs. destruct (small_prod _ _ Hs) as [Hsl Hsr].
  unfold v_product. rewrite !bw_small by assumption.
  destruct (product_raw_spec _ _ _ _ (WF_side _ Hl) (WF_side _ Hr)) as (b & o & E & Okb & Hroom & Hbits).
  rewrite E. cbn [obind].
  eexists; split; [reflexivity|].
  assert (Hvb : vbits (mkV b o (Prod (vty l) (vty r))) = vbits l ++ vbits r).
  { unfold vbits at 1. cbn [buf off vty width]. exact Hbits. }
  split; [|split; [reflexivity|split; [exact Hvb|]]].
  - unfold WF. cbn [buf off vty width]. split; [exact Okb|]. split; [lia|exact Hs].
  - apply absv_unique. cbn [vty]. rewrite Hvb. constructor; apply vbits_padded_of.
Qed.

Lemma small_one : small One.
Proof. unfold small, usize_max. cbn. lia. Qed.

Lemma WF_unit : WF v_unit /\ absv v_unit = SU.
Proof.
  split; [|reflexivity]. unfold WF, v_unit, blen. cbn. repeat split; [constructor|lia|apply small_one].
Qed.

Theorem v_none_spec r : small (Sum One r) ->
  exists v, v_none r = Ok v /\ WF v /\ vty v = Sum One r /\ absv v = SL SU.
Proof.
  intros Hs. destruct (v_left_spec v_unit r (proj1 WF_unit) Hs) as (v & E & HW & Ht & _ & Ha).
  exists v. auto.
Qed.

Theorem v_some_spec inner : WF inner -> small (Sum One (vty inner)) ->
  exists v, v_some inner = Ok v /\ WF v /\ vty v = Sum One (vty inner) /\ absv v = SR (absv inner).
Proof.
  intros HW Hs. destruct (v_right_spec One inner HW Hs) as (v & E & HW' & Ht & _ & Ha).
  exists v. auto.
Qed.

(* Value::zero *)
Lemma skipn_repeat {A} (x : A) : forall n m, skipn n (repeat x m) = repeat x (m - n).
Proof.
  induction n as [|n IH]; intros m; [rewrite Nat.sub_0_r; reflexivity|].
  destruct m; [reflexivity|]. cbn [repeat skipn Nat.sub]. apply IH.
Qed.

Lemma firstn_repeat {A} (x : A) : forall n m, firstn n (repeat x m) = repeat x (Nat.min n m).
Proof.
  induction n as [|n IH]; intros m; [reflexivity|].
  destruct m; [reflexivity|]. cbn [repeat firstn Nat.min]. f_equal. apply IH.
Qed.

Lemma of_padded_zeros t : forall n, of_padded t (repeat false n) = szero t.
Proof.
  induction t as [|a IHa b IHb|a IHa b IHb]; intros n; cbn [of_padded szero].
  - reflexivity.
  - destruct n; cbn [repeat].
    + rewrite <- (IHa 0%nat). reflexivity.
    + f_equal. rewrite skipn_repeat. apply IHa.
  - f_equal.
    + rewrite firstn_repeat. apply IHa.
    + rewrite skipn_repeat. apply IHb.
Qed.

Theorem v_zero_spec t : small t -> WF (v_zero t) /\ vty (v_zero t) = t /\ absv (v_zero t) = szero t.
Proof.
  intros Hs. unfold v_zero. rewrite (bw_small _ Hs). split; [|split; [reflexivity|]].
  - unfold WF. cbn [buf off vty]. split; [apply bytes_ok_zeros|]. split; [|exact Hs].
    rewrite blen_zeros. unfold div_ceil8. lia.
  - unfold absv, vbits. cbn [buf off vty]. rewrite bitrange_zeros. apply of_padded_zeros.
Qed.

(* ------------------------------------------------------------------ from_padded_bits *)

Lemma read_u8s_spec : forall n p rest acc, length p = (8 * n)%nat ->
  exists bs, read_u8s n (p ++ rest) acc = Some (rev acc ++ bs, rest) /\ length bs = n /\
             bytes_ok bs /\ bitrange bs 0 (8 * n) = p.
Proof.
  induction n as [|n IH]; intros p rest acc Hp.
  - destruct p; [|discriminate]. exists []. cbn. rewrite app_nil_r. repeat split; constructor.
  - do 8 (destruct p as [|? p]; [cbn [length] in Hp; lia|]).
    destruct (IH p rest (val_be [b; b0; b1; b2; b3; b4; b5; b6] :: acc)) as (bs & E & L & O & B).
    { cbn [length] in Hp. lia. }
    destruct (val_be8_bits [b; b0; b1; b2; b3; b4; b5; b6] eq_refl) as [Hlt Hbits].
    exists (val_be [b; b0; b1; b2; b3; b4; b5; b6] :: bs).
    cbn [read_u8s app]. rewrite E. cbn [rev]. rewrite <- app_assoc. cbn [app].
    split; [reflexivity|]. split; [cbn; lia|]. split; [constructor; auto|].
    replace (8 * S n)%nat with (8 + 8 * n)%nat by lia. rewrite bitrange_app.
    change (N.of_nat 8) with 8. rewrite (bitrange_cons _ bs _ 0), B.
    assert (H8 : bitrange (val_be [b; b0; b1; b2; b3; b4; b5; b6] :: bs) 0 8 = [b; b0; b1; b2; b3; b4; b5; b6]).
    { rewrite <- Hbits at 2. apply bitrange_ext. intros i Hi. rewrite !getbit_head by lia. reflexivity. }
    rewrite H8. reflexivity.
Qed.

(* any string of [width t] bits followed by [rest] is decoded to a WF value occupying exactly
   those bits; [rest] is left unread *)
Theorem from_padded_bits_bits p rest t : small t -> length p = N.to_nat (width t) ->
  exists v, from_padded_bits (p ++ rest) t = Ok (v, rest) /\ WF v /\ vty v = t /\ vbits v = p.
Proof.
  intros Hs Hp. unfold from_padded_bits. rewrite (bw_small _ Hs).
  set (w := width t) in *.
  set (n := N.to_nat (w / 8)). set (m := N.to_nat (w mod 8)).
  assert (Hnm : N.to_nat w = (8 * n + m)%nat) by (subst n m; lia).
  assert (Hm : (m < 8)%nat) by (subst m; lia).
  rewrite <- (firstn_skipn (8 * n) p), <- app_assoc.
  set (p1 := firstn (8 * n) p). set (p2 := skipn (8 * n) p).
  assert (Hp1 : length p1 = (8 * n)%nat) by (subst p1; rewrite firstn_length; lia).
  assert (Hp2 : length p2 = m) by (subst p2; rewrite skipn_length; lia).
  destruct (read_u8s_spec n p1 (p2 ++ rest) [] Hp1) as (blob & E & L & O & B).
  rewrite E. cbn [rev app].
  destruct (read_last_spec p2 rest ltac:(lia)) as (last & EL & Hlast & BL).
  rewrite Hp2 in EL, BL. rewrite EL.
  eexists; split; [reflexivity|].
  assert (Hblen : blen blob = 8 * N.of_nat n) by (unfold blen; rewrite L; reflexivity).
  split; [|split; [reflexivity|]].
  - unfold WF. cbn [buf off vty]. split; [apply bytes_ok_app; [exact O|constructor; [exact Hlast|constructor]]|].
    split; [|exact Hs]. unfold blen. rewrite app_length, L. cbn [length]. fold w. lia.
  - unfold vbits. cbn [buf off vty]. fold w. rewrite Hnm, bitrange_app. f_equal.
    + rewrite bitrange_app_l by (rewrite Hblen; lia). exact B.
    + replace (0 + N.of_nat (8 * n)) with (blen blob + 0) by (rewrite Hblen; lia).
      rewrite bitrange_app_r. exact BL.
Qed.

(* every padded encoding (any padding contents) of s decodes to a value denoting s *)
Theorem from_padded_bits_spec t s p rest : small t -> padded_of t s p ->
  exists v, from_padded_bits (p ++ rest) t = Ok (v, rest) /\ WF v /\ vty v = t /\ absv v = s.
Proof.
  intros Hs Hp.
  destruct (from_padded_bits_bits p rest t Hs (padded_of_length _ _ _ Hp)) as (v & E & HW & Ht & Hb).
  exists v. ssplit; auto. apply absv_unique. rewrite Ht, Hb. exact Hp.
Qed.

(* too few bits: EarlyEndOfStream, never a value *)
Lemma read_u8s_short : forall n bits acc, (length bits < 8 * n)%nat -> read_u8s n bits acc = None.
Proof.
  induction n as [|n IH]; intros bits acc H; [lia|].
  cbn [read_u8s]. do 8 (destruct bits as [|? bits]; [reflexivity|]).
  apply IH. cbn [length] in H. lia.
Qed.

Lemma read_u8s_rest : forall n bits acc bs rest, read_u8s n bits acc = Some (bs, rest) ->
  length bits = (8 * n + length rest)%nat.
Proof.
  induction n as [|n IH]; intros bits acc bs rest H.
  - cbn in H. injection H as _ <-. lia.
  - cbn [read_u8s] in H. do 8 (destruct bits as [|? bits]; [discriminate|]).
    apply IH in H. cbn [length]. lia.
Qed.

Lemma read_last_short : forall n i bits a, (length bits < n)%nat -> read_last n i bits a = None.
Proof.
  induction n as [|n IH]; intros i bits a H; [lia|].
  destruct bits as [|b r]; [reflexivity|]. cbn [read_last]. apply IH. cbn in H. lia.
Qed.

Theorem from_padded_bits_short bits t : small t -> (length bits < N.to_nat (width t))%nat ->
  from_padded_bits bits t = Err EarlyEOS.
Proof.
  intros Hs Hlen. unfold from_padded_bits. rewrite (bw_small _ Hs).
  destruct (read_u8s (N.to_nat (width t / 8)) bits []) as [[blob bits1]|] eqn:E; [|reflexivity].
  apply read_u8s_rest in E.
  rewrite read_last_short by lia. reflexivity.
Qed.

(* ------------------------------------------------------------------ from_compact_bits *)

(* a type without padding: the compact encoding is the padded one *)
Lemma nopad_compact t : small t -> has_padding t = false ->
  forall s, has_ty s t = true -> padded_of t s (compact_enc s).
Proof.
  induction t as [|a IHa b IHb|a IHa b IHb]; intros Hs Hp s Ht; destruct s; cbn in Ht; try discriminate.
  - constructor.
  - cbn [has_padding] in Hp. apply orb_false_iff in Hp. destruct Hp as [Hp Hw].
    apply orb_false_iff in Hp. destruct Hp as [Hpa Hpb].
    destruct (small_sum _ _ Hs) as [Hsa Hsb].
    apply negb_false_iff, N.eqb_eq in Hw. rewrite !width_sat_eq in Hw by assumption.
    cbn [compact_enc]. apply (PO_left a b s [] (compact_enc s)).
    + unfold pad_left. cbn. lia.
    + apply IHa; auto.
  - cbn [has_padding] in Hp. apply orb_false_iff in Hp. destruct Hp as [Hp Hw].
    apply orb_false_iff in Hp. destruct Hp as [Hpa Hpb].
    destruct (small_sum _ _ Hs) as [Hsa Hsb].
    apply negb_false_iff, N.eqb_eq in Hw. rewrite !width_sat_eq in Hw by assumption.
    cbn [compact_enc]. apply (PO_right a b s [] (compact_enc s)).
    + unfold pad_right. cbn. lia.
    + apply IHb; auto.
  - cbn [has_padding] in Hp. apply orb_false_iff in Hp. destruct Hp as [Hpa Hpb].
    destruct (small_prod _ _ Hs) as [Hsa Hsb].
    apply andb_true_iff in Ht. destruct Ht as [Ht1 Ht2].
    cbn [compact_enc]. constructor; [apply IHa|apply IHb]; auto.
Qed.

(* loop iterations from_compact_bits spends on a type / value *)
Fixpoint fcused (t : ty) (s : sval) : nat :=
  if has_padding t then
    match t, s with
    | Sum a _, SL x => S (S (fcused a x))
    | Sum _ b, SR x => S (S (fcused b x))
    | Prod a b, SP x y => S (S (fcused a x + fcused b y))
    | _, _ => 1%nat
    end
  else 1%nat.

Lemma fcused_le t : forall s, (fcused t s <= 2 * tnodes t)%nat.
Proof.
  induction t as [|a IHa b IHb|a IHa b IHb]; intros s; cbn [fcused tnodes].
  - destruct (has_padding One); lia.
  - destruct (has_padding (Sum a b)); [|lia].
    destruct s; try lia; [specialize (IHa s)|specialize (IHb s)]; lia.
  - destruct (has_padding (Prod a b)); [|lia].
    destruct s; try lia. specialize (IHa s1). specialize (IHb s2). lia.
Qed.

Lemma fc_run_value : forall t s, small t -> has_ty s t = true -> forall rest,
  exists v, WF v /\ vty v = t /\ absv v = s /\
    forall f st rs, fc_run (fcused t s + f) (FProcess t :: st) rs (compact_enc s ++ rest)
                    = fc_run f st (v :: rs) rest.
Proof.
  induction t as [|a IHa b IHb|a IHa b IHb]; intros s Hs Ht rest.
  - destruct s; try discriminate.
    destruct (from_padded_bits_spec One SU [] rest Hs PO_unit) as (v & E & HW & Hvt & Hva).
    exists v. ssplit; auto.
    intros f st rs. cbn [fcused has_padding Nat.add fc_run compact_enc app] in *. rewrite E. reflexivity.
  - destruct (small_sum _ _ Hs) as [Hsa Hsb].
    destruct (has_padding (Sum a b)) eqn:Hpad.
    + destruct s; cbn in Ht; try discriminate.
      * destruct (IHa s Hsa Ht rest) as (v & HW & Hvt & Hva & Hrun).
        destruct (v_left_spec v b HW ltac:(rewrite Hvt; exact Hs)) as (x & Ex & HWx & Htx & _ & Hax).
        exists x. rewrite Hvt in Htx. rewrite Hva in Hax. ssplit; auto.
        intros f st rs. cbn [fcused]. rewrite Hpad.
        replace (S (S (fcused a s)) + f)%nat with (S (fcused a s + S f)) by lia.
        cbn [fc_run compact_enc app]. rewrite Hpad.
        rewrite Hrun. cbn [fc_run]. rewrite Ex. reflexivity.
      * destruct (IHb s Hsb Ht rest) as (v & HW & Hvt & Hva & Hrun).
        destruct (v_right_spec a v HW ltac:(rewrite Hvt; exact Hs)) as (x & Ex & HWx & Htx & _ & Hax).
        exists x. rewrite Hvt in Htx. rewrite Hva in Hax. ssplit; auto.
        intros f st rs. cbn [fcused]. rewrite Hpad.
        replace (S (S (fcused b s)) + f)%nat with (S (fcused b s + S f)) by lia.
        cbn [fc_run compact_enc app]. rewrite Hpad.
        rewrite Hrun. cbn [fc_run]. rewrite Ex. reflexivity.
    + destruct (from_padded_bits_spec (Sum a b) s (compact_enc s) rest Hs (nopad_compact _ Hs Hpad s Ht))
        as (v & E & HW & Hvt & Hva).
      exists v. ssplit; auto.
      intros f st rs. cbn [fcused]. rewrite Hpad. change (1 + f)%nat with (S f).
      cbn [fc_run]. rewrite Hpad, E. reflexivity.
  - destruct (small_prod _ _ Hs) as [Hsa Hsb].
    destruct (has_padding (Prod a b)) eqn:Hpad.
    + destruct s; cbn in Ht; try discriminate.
      apply andb_true_iff in Ht. destruct Ht as [Ht1 Ht2].
      destruct (IHb s2 Hsb Ht2 rest) as (vr & HWr & Hvtr & Hvar & Hrunr).
      destruct (IHa s1 Hsa Ht1 (compact_enc s2 ++ rest)) as (vl & HWl & Hvtl & Hval & Hrunl).
      destruct (v_product_spec vl vr HWl HWr ltac:(rewrite Hvtl, Hvtr; exact Hs)) as (x & Ex & HWx & Htx & _ & Hax).
      exists x. rewrite Hvtl, Hvtr in Htx. rewrite Hval, Hvar in Hax. ssplit; auto.
      intros f st rs. cbn [fcused]. rewrite Hpad.
      replace (S (S (fcused a s1 + fcused b s2)) + f)%nat with (S (fcused a s1 + (fcused b s2 + S f))) by lia.
      cbn [fc_run compact_enc]. rewrite Hpad.
      rewrite <- app_assoc.
      rewrite Hrunl, Hrunr. cbn [fc_run]. rewrite Ex. reflexivity.
    + destruct (from_padded_bits_spec (Prod a b) s (compact_enc s) rest Hs (nopad_compact _ Hs Hpad s Ht))
        as (v & E & HW & Hvt & Hva).
      exists v. ssplit; auto.
      intros f st rs. cbn [fcused]. rewrite Hpad. change (1 + f)%nat with (S f).
      cbn [fc_run]. rewrite Hpad, E. reflexivity.
Qed.

(* the compact encoding of s followed by [rest] decodes to a WF value denoting s; [rest] is unread *)
Theorem from_compact_bits_spec t s rest : small t -> has_ty s t = true ->
  exists v, from_compact_bits (compact_enc s ++ rest) t = Ok (v, rest) /\ WF v /\ vty v = t /\ absv v = s.
Proof.
  intros Hs Ht. destruct (fc_run_value t s Hs Ht rest) as (v & HW & Hvt & Hva & Hrun).
  exists v. ssplit; auto.
  unfold from_compact_bits.
  pose proof (fcused_le t s) as Hle.
  replace (S (2 * tnodes t)) with (fcused t s + S (2 * tnodes t - fcused t s))%nat by lia.
  rewrite Hrun. reflexivity.
Qed.
