(* C14: datatypes of the translated jet tables (Generated/Jets_*.v, CJets_elements.v, Ffi.v), the model
   of the functions that consume them, and the boolean checkers whose `= true` is proved by vm_compute
   over the complete tables (Jets/Check*.v) and lifted by the lemmas of Jets/JetLemmas.v.
     src/jet/init/{core,elements,bitcoin}.rs   Jet::{encode, decode, cmr, source_ty, target_ty, cost}, Display, FromStr
     src/macros.rs                              decode_bits!
     simplicity-sys/depend/simplicity/elements/primitive.c   decodePrimitive, jetNode, mallocBoundVars  *)
From RS Require Import Lib.Tac Lib.Outcome Lib.Bits Lib.Sweep Ty.Ty Bits.Natural Jets.TypeName.
From Coq Require Import String Ascii.
Import ListNotations.
Local Open Scope N_scope.

(* ------------------------------------------------------------------ Rust side *)

(* the tree written with decode_bits!: {} | {Jet} | { 0 => f, 1 => t } *)
Inductive dtree := DInvalid | DJet (i : N) | DNode (f t : dtree).

Record jet_row := mk_jet {
  j_idx : N;            (* position of the variant in the enum (= its position in ALL) *)
  j_name : string;      (* Display *)
  j_n : N; j_len : N;   (* encode: w.write_bits_be(n, len) *)
  j_cmr : list N;       (* 32 bytes; [] when cmr() is unimplemented!() *)
  j_src : string; j_tgt : string;   (* TypeName byte strings *)
  j_cost : N;           (* milliweight; 0 when cost() is unimplemented!() *)
  j_cptr : string       (* c_jet_ptr: name of the wrapper in simplicity_sys::c_jets::jets_wrapper *)
}.

Record family := mk_family {
  f_rows : list jet_row;
  f_all : list N;                   (* the ALL array, as variant indices *)
  f_all_len : N;                    (* its declared length *)
  f_fromstr : list (string * N);    (* FromStr arms in source order *)
  f_tree : dtree;
  f_has_c : bool                    (* cmr, cost and c_jet_ptr are implemented *)
}.

Inductive dec_err := DEndOfStream | DInvalidJet.
Inductive parse_err := InvalidJetName.

(* BitWriter::write_bits_be(n, len): `n & (1 << (len - i - 1))` on u64; the shift panics for len > 64 *)
Definition jet_code (j : jet_row) : list bool := bits_be (N.to_nat (j_len j)) (j_n j).
Definition jet_encode (j : jet_row) : outcome unit (list bool) :=
  if 64 <? j_len j then Panic 3 else Ok (jet_code j).

(* decode_bits! *)
Fixpoint decode (t : dtree) (bits : list bool) : outcome dec_err (N * list bool) :=
  match t with
  | DInvalid => Err DInvalidJet
  | DJet i => Ok (i, bits)
  | DNode f t' =>
      match bits with
      | [] => Err DEndOfStream
      | false :: r => decode f r
      | true :: r => decode t' r
      end
  end.

(* FromStr: a `match s { "name" => Ok(..), ..., x => Err(InvalidJetName) }`: first matching arm *)
Fixpoint assoc_str {A} (s : string) (l : list (string * A)) : option A :=
  match l with
  | [] => None
  | (k, v) :: r => if String.eqb k s then Some v else assoc_str s r
  end.
Definition parse (fam : family) (s : string) : outcome parse_err N :=
  match assoc_str s (f_fromstr fam) with Some i => Ok i | None => Err InvalidJetName end.

Definition row_at (fam : family) (i : N) : option jet_row := nth_error (f_rows fam) (N.to_nat i).

(* paths of the decode tree *)
Fixpoint tree_leaves (t : dtree) : list (list bool * N) :=
  match t with
  | DInvalid => []
  | DJet i => [([], i)]
  | DNode f t' => map (fun '(p, i) => (false :: p, i)) (tree_leaves f) ++
                  map (fun '(p, i) => (true :: p, i)) (tree_leaves t')
  end.

(* ---------------------------------------------- checkers, Rust side *)

Definition bits_eqb := list_beq Bool.eqb.
Fixpoint is_prefix (a b : list bool) : bool :=
  match a, b with
  | [], _ => true
  | x :: a', y :: b' => Bool.eqb x y && is_prefix a' b'
  | _ :: _, [] => false
  end.

Definition idx_ok (fam : family) : bool :=
  list_beq N.eqb (map j_idx (f_rows fam)) (upto (List.length (f_rows fam))) &&
  list_beq N.eqb (f_all fam) (upto (List.length (f_rows fam))) &&
  (f_all_len fam =? N.of_nat (List.length (f_rows fam))).

Definition roundtrip_ok (fam : family) (j : jet_row) : bool :=
  (j_len j <=? 64) &&
  match decode (f_tree fam) (jet_code j) with
  | Ok (i, []) => i =? j_idx j
  | _ => false
  end.

Definition leaf_ok (fam : family) (pi : list bool * N) : bool :=
  match row_at fam (snd pi) with
  | Some j => (j_idx j =? snd pi) && bits_eqb (jet_code j) (fst pi)
  | None => false
  end.

Definition prefix_free_ok (fam : family) (j : jet_row) : bool :=
  forallb (fun k => (j_idx j =? j_idx k) || negb (is_prefix (jet_code j) (jet_code k))) (f_rows fam).

Definition name_ok (fam : family) (j : jet_row) : bool :=
  match parse fam (j_name j) with Ok i => i =? j_idx j | _ => false end &&
  forallb (fun k => (j_idx j =? j_idx k) || negb (String.eqb (j_name j) (j_name k))) (f_rows fam).

Definition fromstr_ok (fam : family) (si : string * N) : bool :=
  match row_at fam (snd si) with
  | Some j => (j_idx j =? snd si) && String.eqb (j_name j) (fst si)
  | None => false
  end.

Definition tn_ok (s : string) : bool :=
  match tn_to_final s, tn_to_bit_width s with
  | Ok t, Ok w => w =? width t
  | _, _ => false
  end.
Definition types_ok (j : jet_row) : bool := tn_ok (j_src j) && tn_ok (j_tgt j).

(* ------------------------------------------------------------------ C side *)

Inductive cty_node := CTOne | CTSum (a b : N) | CTProd (a b : N).

Record cjet_row := mk_cjet {
  cj_idx : N;           (* value of the enumerator *)
  cj_enum : string;     (* enumerator of primitiveEnumJet.inc, e.g. ADD_16 *)
  cj_fn : string;       (* .jet *)
  cj_cmr : list N;      (* .cmr: 8 words *)
  cj_src : N; cj_tgt : N;   (* .sourceIx / .targetIx: indices into the type table *)
  cj_cost : N
}.

(* decodeCoreJets.inc / decodeElementsJets.inc: nested `switch (decodeUptoMaxInt(stream))` *)
Inductive ctree := CLeaf (i : N) | CSwitch (cases : list (N * ctree)).

Record ctables := mk_ctables {
  ct_types : list cty_node;
  ct_rows : list cjet_row;
  ct_dec_core : ctree;
  ct_dec_elements : ctree
}.

(* the type bound to index i by primitiveInitTy.inc, as a tree *)
Fixpoint cty_expand (tbl : list cty_node) (fuel : nat) (i : N) : option ty :=
  match fuel with
  | O => None
  | S f =>
      match nth_error tbl (N.to_nat i) with
      | None => None
      | Some CTOne => Some One
      | Some (CTSum a b) =>
          match cty_expand tbl f a, cty_expand tbl f b with
          | Some x, Some y => Some (Sum x y) | _, _ => None end
      | Some (CTProd a b) =>
          match cty_expand tbl f a, cty_expand tbl f b with
          | Some x, Some y => Some (Prod x y) | _, _ => None end
      end
  end.
Definition c_type (ct : ctables) (i : N) : option ty := cty_expand (ct_types ct) 64 i.

Inductive cdec_err := CEof | COutOfRange.

(* decodeUptoMaxInt is the natural-number code limited to 2^31 - 1 (Bits/Natural.v read_nat) *)
Definition c_read_nat (bits : list bool) : outcome cdec_err (N * list bool) :=
  match read_nat (2 ^ 31 - 1) None bits with
  | Ok x => Ok x
  | Err EndOfStream => Err CEof
  | Err _ => Err COutOfRange
  | Panic c => Panic c
  | OutOfFuel => OutOfFuel
  end.

Fixpoint c_decode (t : ctree) (bits : list bool) : outcome cdec_err (N * list bool) :=
  match t with
  | CLeaf i => Ok (i, bits)
  | CSwitch cases =>
      match c_read_nat bits with
      | Ok (n, rest) =>
          (fix find (cs : list (N * ctree)) : outcome cdec_err (N * list bool) :=
             match cs with
             | [] => Err COutOfRange
             | (k, sub) :: cs' => if k =? n then c_decode sub rest else find cs'
             end) cases
      | Err e => Err e
      | Panic c => Panic c
      | OutOfFuel => OutOfFuel
      end
  end.

(* decodePrimitive: family bit, then one of the two decoders *)
Definition c_decode_prim (ct : ctables) (bits : list bool) : outcome cdec_err (N * list bool) :=
  match bits with
  | [] => Err CEof
  | false :: r => c_decode (ct_dec_core ct) r
  | true :: r => c_decode (ct_dec_elements ct) r
  end.

Definition lower_ascii (c : ascii) : ascii :=
  let n := N_of_ascii c in if (65 <=? n) && (n <=? 90) then ascii_of_N (n + 32) else c.
Fixpoint lower (s : string) : string :=
  match s with EmptyString => EmptyString | String c r => String (lower_ascii c) (lower r) end.

Definition c_row_of (ct : ctables) (name : string) : option cjet_row :=
  find (fun c => String.eqb (lower (cj_enum c)) name) (ct_rows ct).

(* sha256_midstate words -> bytes (big endian), as CSha256Midstate -> Midstate does *)
Definition word_bytes (w : N) : list N :=
  [w / 16777216 mod 256; w / 65536 mod 256; w / 256 mod 256; w mod 256].

Definition ty_opt_eqb (a : outcome unit ty) (b : option ty) : bool :=
  match a, b with Ok x, Some y => ty_eqb x y | _, _ => false end.

Definition c_idx_ok (ct : ctables) : bool :=
  list_beq N.eqb (map cj_idx (ct_rows ct)) (upto (List.length (ct_rows ct))).

(* Rust Elements row against the C row of the same name *)
Definition rust_c_ok (ct : ctables) (j : jet_row) : bool :=
  match c_row_of ct (j_name j) with
  | None => false
  | Some c =>
      list_beq N.eqb (j_cmr j) (flat_map word_bytes (cj_cmr c)) && (N.of_nat (List.length (j_cmr j)) =? 32) &&
      ty_opt_eqb (tn_to_final (j_src j)) (c_type ct (cj_src c)) &&
      ty_opt_eqb (tn_to_final (j_tgt j)) (c_type ct (cj_tgt c)) &&
      (j_cost j =? cj_cost c) &&
      match c_decode_prim ct (jet_code j) with
      | Ok (i, []) => i =? cj_idx c
      | _ => false
      end
  end.

(* Core row against its Elements namesake: same types, code behind the family prefix bit 0 *)
Definition row_of (fam : family) (name : string) : option jet_row :=
  find (fun k => String.eqb (j_name k) name) (f_rows fam).

Definition core_elements_ok (elems : family) (j : jet_row) : bool :=
  match row_of elems (j_name j) with
  | None => false
  | Some e => String.eqb (j_src e) (j_src j) && String.eqb (j_tgt e) (j_tgt j) &&
              bits_eqb (jet_code e) (false :: jet_code j)
  end.

(* ------------------------------------------------------------------ foreign-function interface *)

(* portable scalar classes of C / Rust FFI types *)
Inductive sclass := KVoid | KBool | KI32 | KErr | KU32 | KU8 | KSize | KUFast16 | KUFast32 | KIFast32 | KU64.

Inductive ftype :=
| FS (k : sclass)
| FN (name : string)          (* struct, by name *)
| FP (is_const : bool) (t : ftype)
| FA (t : ftype)              (* array object *)
| FCb (name : string).        (* function pointer type, by name *)

Inductive ffi_kind := FkFn | FkStatic | FkCallback | FkExport.

Record ffi_item := mk_ffi {
  fi_kind : ffi_kind;
  fi_rust : string;             (* name on the Rust side *)
  fi_link : string;             (* link name = name on the C side *)
  fi_rparams : list ftype; fi_rret : ftype;     (* Rust declaration (for a static: fi_rret is its type) *)
  fi_cparams : list ftype; fi_cret : ftype      (* C prototype / object declaration *)
}.

Record ffitables := mk_ffitables {
  ft_structs : list (string * string);       (* Rust struct name -> C struct name *)
  ft_callbacks : list (string * string);
  ft_items : list ffi_item;
  ft_wraps : list string;                    (* WRAP_(x) in jets_wrapper.c *)
  ft_inner : list string;                    (* x declared in jets.h or elementsJets.h with the jet prototype *)
  ft_wrappers : list (string * string * bool)  (* jets_wrapper.rs *)
}.

(* ABI class on the reference platform (x86-64 / LP64, glibc): 0 void, 1 bool, 2 signed, 3 unsigned; bits *)
Definition abi (k : sclass) : N * N :=
  match k with
  | KVoid => (0, 0) | KBool => (1, 8)
  | KI32 => (2, 32) | KErr => (2, 32) | KIFast32 => (2, 64)
  | KU8 => (3, 8) | KU32 => (3, 32)
  | KSize => (3, 64) | KUFast16 => (3, 64) | KUFast32 => (3, 64) | KU64 => (3, 64)
  end.
Definition abi_eqb (a b : sclass) : bool :=
  (fst (abi a) =? fst (abi b)) && (snd (abi a) =? snd (abi b)).

Definition maps (m : list (string * string)) (a b : string) : bool :=
  match assoc_str a m with Some b' => String.eqb b' b | None => false end.

Definition is_void (t : ftype) : bool := match t with FS KVoid => true | _ => false end.

Fixpoint ft_compat (ft : ffitables) (r c : ftype) : bool :=
  match r, c with
  | FS a, FS b => abi_eqb a b
  | FN a, FN b => maps (ft_structs ft) a b
  | FP _ a, FP _ b => is_void a || is_void b || ft_compat ft a b
  | FA a, FA b => ft_compat ft a b
  | FCb a, FCb b => maps (ft_callbacks ft) a b
  | _, _ => false
  end.

Fixpoint forallb2 {A B} (f : A -> B -> bool) (l1 : list A) (l2 : list B) : bool :=
  match l1, l2 with
  | [], [] => true
  | a :: r1, b :: r2 => f a b && forallb2 f r1 r2
  | _, _ => false
  end.

Definition is_static (it : ffi_item) : bool := match fi_kind it with FkStatic => true | _ => false end.

(* arity and parameter types *)
Definition params_ok (ft : ffitables) (it : ffi_item) : bool :=
  (N.of_nat (List.length (fi_rparams it)) =? N.of_nat (List.length (fi_cparams it))) &&
  forallb2 (ft_compat ft) (fi_rparams it) (fi_cparams it).

Definition mem_str (s : string) (l : list string) : bool := existsb (String.eqb s) l.

(* return type (for a static: the type of the object), with a list of tolerated link names *)
Definition ret_ok (ft : ffitables) (tolerated : list string) (it : ffi_item) : bool :=
  ft_compat ft (fi_rret it) (fi_cret it) || mem_str (fi_link it) tolerated.

(* the chain Rust jet -> jets_wrapper fn -> extern fn -> WRAP_ -> C jet, all by the jet's own name *)
Definition prefix_c : string := "rustsimplicity_0_7_c_".
Definition prefix_j : string := "rustsimplicity_0_7_".

Definition chain_ok (ft : ffitables) (j : jet_row) : bool :=
  match find (fun w => String.eqb (fst (fst w)) (j_cptr j)) (ft_wrappers ft) with
  | None => false
  | Some (_, ext, _) =>
      match find (fun it => match fi_kind it with FkFn => String.eqb (fi_rust it) ext | _ => false end) (ft_items ft) with
      | None => false
      | Some it =>
          String.eqb (fi_link it) (prefix_c ++ j_name j) &&
          mem_str (j_name j) (ft_wraps ft) && mem_str (j_name j) (ft_inner ft)
      end
  end.

Definition c_fn_ok (ct : ctables) (j : jet_row) : bool :=
  match c_row_of ct (j_name j) with
  | Some c => String.eqb (cj_fn c) (prefix_j ++ j_name j)
  | None => false
  end.
