(* C10 - end-of-stream behaviour of Value::from_compact_bits: the decoder answers exactly like
   the specification decoder [of_compact]: a value with exact consumption when the stream
   begins with the encoding of a value of the type, EarlyEndOfStream otherwise - never a value
   from a short stream, never a panic.  A failing stream is always a proper prefix of a valid
   one (the compact code is complete), and the decoder starves exactly at bit |stream| + 1. *)
From RS Require Import Lib.Tac Lib.Outcome Lib.Bits Lib.Sweep Lib.ListExtra Ty.Ty
  Value.ValueModel Value.ValueBits Value.ValueRefine Value.ValueCons Value.ValueInv.
Import ListNotations.
Local Open Scope N_scope.

(* ------------------------------------------------------------------ specification level *)
Lemma compact_enc_le_width : forall t s, has_ty s t = true ->
  (length (compact_enc s) <= N.to_nat (width t))%nat.
Proof.
  induction t as [|a IHa b IHb|a IHa b IHb]; intros s H; destruct s; cbn in H; try discriminate.
  - cbn. lia.
  - specialize (IHa s H). cbn [compact_enc length width]. lia.
  - specialize (IHb s H). cbn [compact_enc length width]. lia.
  - apply andb_true_iff in H. destruct H as [H1 H2]. specialize (IHa s1 H1). specialize (IHb s2 H2).
    cbn [compact_enc width]. rewrite app_length. lia.
Qed.

(* a stream at least as long as the type's width always holds a value *)
Lemma of_compact_long : forall t bits, (N.to_nat (width t) <= length bits)%nat -> of_compact t bits <> None.
Proof.
  induction t as [|a IHa b IHb|a IHa b IHb]; intros bits Hl; cbn [of_compact].
  - discriminate.
  - cbn [width] in Hl. destruct bits as [|[|] r]; [cbn [length] in Hl; lia| |].
    + specialize (IHb r ltac:(cbn [length] in Hl; lia)). destruct (of_compact b r) as [[v r']|]; [discriminate|contradiction].
    + specialize (IHa r ltac:(cbn [length] in Hl; lia)). destruct (of_compact a r) as [[v r']|]; [discriminate|contradiction].
  - cbn [width] in Hl. specialize (IHa bits ltac:(lia)).
    destruct (of_compact a bits) as [[v r]|] eqn:E; [|contradiction].
    destruct (of_compact_inv _ _ _ _ E) as [Hv ->].
    pose proof (compact_enc_le_width a v Hv) as Hle. rewrite app_length in Hl.
    specialize (IHb r ltac:(lia)). destruct (of_compact b r) as [[w r']|]; [discriminate|contradiction].
Qed.

(* the decoder fails exactly when no value's encoding is a prefix of the stream *)
Theorem of_compact_none_iff t bits :
  of_compact t bits = None <-> (forall s rest, has_ty s t = true -> bits <> compact_enc s ++ rest).
Proof.
  split.
  - intros H s rest Hs ->. rewrite of_compact_enc in H by exact Hs. discriminate.
  - intros H. destruct (of_compact t bits) as [[s rest]|] eqn:E; [|reflexivity].
    destruct (of_compact_inv _ _ _ _ E) as [Hs Hb]. exfalso. apply (H s rest Hs Hb).
Qed.

(* the only way to fail is to be too short: a failing stream extends to a valid encoding *)
Theorem of_compact_none_extends : forall t bits, of_compact t bits = None ->
  exists ext s, ext <> [] /\ has_ty s t = true /\ bits ++ ext = compact_enc s.
Proof.
  induction t as [|a IHa b IHb|a IHa b IHb]; intros bits H; cbn [of_compact] in H.
  - discriminate.
  - destruct bits as [|[|] r].
    + exists (false :: compact_enc (szero a)), (SL (szero a)).
      split; [discriminate|]. split; [apply szero_has_ty|reflexivity].
    + destruct (of_compact b r) as [[v r']|] eqn:E; [discriminate|].
      destruct (IHb r E) as (ext & s & Hne & Hs & Hb). exists ext, (SR s).
      split; [exact Hne|]. split; [exact Hs|]. cbn [compact_enc app]. rewrite Hb. reflexivity.
    + destruct (of_compact a r) as [[v r']|] eqn:E; [discriminate|].
      destruct (IHa r E) as (ext & s & Hne & Hs & Hb). exists ext, (SL s).
      split; [exact Hne|]. split; [exact Hs|]. cbn [compact_enc app]. rewrite Hb. reflexivity.
  - destruct (of_compact a bits) as [[v r]|] eqn:E1.
    + destruct (of_compact b r) as [[w r']|] eqn:E2; [discriminate|].
      destruct (of_compact_inv _ _ _ _ E1) as [Hv ->].
      destruct (IHb r E2) as (ext & s & Hne & Hs & Hb). exists ext, (SP v s).
      split; [exact Hne|]. split; [cbn; rewrite Hv, Hs; reflexivity|].
      cbn [compact_enc]. rewrite <- app_assoc, Hb. reflexivity.
    + destruct (IHa bits E1) as (ext & s & Hne & Hs & Hb).
      exists (ext ++ compact_enc (szero b)), (SP s (szero b)).
      split; [destruct ext; [contradiction|discriminate]|].
      split; [cbn; rewrite Hs, szero_has_ty; reflexivity|].
      cbn [compact_enc]. rewrite app_assoc, Hb. reflexivity.
Qed.

(* how many bits the decoder asks for along the path the stream selects *)
Fixpoint cneed (t : ty) (bits : list bool) : nat :=
  match t with
  | One => O
  | Sum a b =>
      match bits with
      | [] => 1%nat
      | false :: r => S (cneed a r)
      | true :: r => S (cneed b r)
      end
  | Prod a b =>
      match of_compact a bits with
      | Some (_, r) => (length bits - length r + cneed b r)%nat
      | None => cneed a bits
      end
  end.

(* success: exactly cneed bits are consumed; failure: the decoder starves at bit |bits| + 1 *)
Theorem cneed_spec : forall t bits,
  match of_compact t bits with
  | Some (_, rest) => (cneed t bits + length rest = length bits)%nat
  | None => cneed t bits = S (length bits)
  end.
Proof.
  induction t as [|a IHa b IHb|a IHa b IHb]; intros bits; cbn [of_compact cneed].
  - reflexivity.
  - destruct bits as [|[|] r]; [reflexivity| |].
    + specialize (IHb r). destruct (of_compact b r) as [[v r']|]; cbn [length]; lia.
    + specialize (IHa r). destruct (of_compact a r) as [[v r']|]; cbn [length]; lia.
  - pose proof (IHa bits) as Ha. destruct (of_compact a bits) as [[v r]|] eqn:E1; [|exact Ha].
    destruct (of_compact_inv _ _ _ _ E1) as [_ Hb]. pose proof (f_equal (@length bool) Hb) as Hl.
    rewrite app_length in Hl.
    specialize (IHb r). destruct (of_compact b r) as [[w r']|]; lia.
Qed.

Corollary of_compact_none_cneed t bits : of_compact t bits = None <-> (length bits < cneed t bits)%nat.
Proof.
  pose proof (cneed_spec t bits) as H. destruct (of_compact t bits) as [[v r]|]; split; intros; try discriminate; try reflexivity; try (exfalso; lia); lia.
Qed.

(* ------------------------------------------------------------------ the implementation model *)
Lemma nopad_short t bits : small t -> has_padding t = false -> of_compact t bits = None ->
  from_padded_bits bits t = Err EarlyEOS.
Proof.
  intros Hs Hp H. apply from_padded_bits_short; [exact Hs|].
  destruct (Nat.lt_ge_cases (length bits) (N.to_nat (width t))) as [Hlt|Hge]; [exact Hlt|].
  exfalso. apply (of_compact_long t bits Hge H).
Qed.

Lemma fc_run_eos : forall t bits, small t -> of_compact t bits = None ->
  forall f st rs, (2 * tnodes t <= f)%nat -> fc_run f (FProcess t :: st) rs bits = Err EarlyEOS.
Proof.
  induction t as [|a IHa b IHb|a IHa b IHb]; intros bits Hs H f st rs Hf.
  - discriminate.
  - destruct (small_sum _ _ Hs) as [Hsa Hsb]. cbn [tnodes] in Hf.
    destruct f as [|f]; [lia|]. cbn [fc_run].
    destruct (has_padding (Sum a b)) eqn:Hpad.
    + cbn [of_compact] in H. destruct bits as [|[|] r]; [reflexivity| |].
      * destruct (of_compact b r) as [[v r']|] eqn:E; [discriminate|]. apply IHb; auto. lia.
      * destruct (of_compact a r) as [[v r']|] eqn:E; [discriminate|]. apply IHa; auto. lia.
    + rewrite (nopad_short _ _ Hs Hpad H). reflexivity.
  - destruct (small_prod _ _ Hs) as [Hsa Hsb]. cbn [tnodes] in Hf.
    destruct f as [|f]; [lia|]. cbn [fc_run].
    destruct (has_padding (Prod a b)) eqn:Hpad.
    + cbn [of_compact] in H. destruct (of_compact a bits) as [[v r]|] eqn:E1.
      * destruct (of_compact b r) as [[w r']|] eqn:E2; [discriminate|].
        destruct (of_compact_inv _ _ _ _ E1) as [Hv ->].
        destruct (fc_run_value a v Hsa Hv r) as (x & _ & _ & _ & Hrun).
        pose proof (fcused_le a v) as Hle.
        replace f with (fcused a v + (f - fcused a v))%nat by lia.
        rewrite Hrun. apply IHb; auto. lia.
      * apply IHa; auto. lia.
    + rewrite (nopad_short _ _ Hs Hpad H). reflexivity.
Qed.

(* THEOREM: from_compact_bits is the specification decoder: value and exact rest, or
   EarlyEndOfStream; never a value from a short stream, never a panic or a hang *)
Theorem from_compact_bits_total t bits : small t ->
  match of_compact t bits with
  | Some (s, rest) => exists v, from_compact_bits bits t = Ok (v, rest) /\ WF v /\ vty v = t /\ absv v = s
  | None => from_compact_bits bits t = Err EarlyEOS
  end.
Proof.
  intros Hs. destruct (of_compact t bits) as [[s rest]|] eqn:E.
  - destruct (of_compact_inv _ _ _ _ E) as [Ht ->]. apply from_compact_bits_spec; assumption.
  - unfold from_compact_bits. rewrite (fc_run_eos t bits Hs E) by lia. reflexivity.
Qed.

(* an EarlyEndOfStream answer means exactly: the stream is shorter than what the decoder needs *)
Corollary from_compact_bits_eos_iff t bits : small t ->
  (from_compact_bits bits t = Err EarlyEOS <-> (length bits < cneed t bits)%nat).
Proof.
  intros Hs. rewrite <- of_compact_none_cneed.
  pose proof (from_compact_bits_total t bits Hs) as H.
  destruct (of_compact t bits) as [[s rest]|]; split; intros H1; try discriminate; auto.
  destruct H as (v & E & _). rewrite E in H1. discriminate.
Qed.

(* a successful decode consumed exactly cneed bits *)
Corollary from_compact_bits_consumed t bits v rest : small t ->
  from_compact_bits bits t = Ok (v, rest) -> (cneed t bits + length rest = length bits)%nat.
Proof.
  intros Hs E. pose proof (from_compact_bits_total t bits Hs) as H. pose proof (cneed_spec t bits) as Hc.
  destruct (of_compact t bits) as [[s r]|].
  - destruct H as (x & E' & _). rewrite E in E'. injection E' as _ <-. exact Hc.
  - rewrite E in H. discriminate.
Qed.
