(* C01 / C02 - bridge between the two readings of src/dag.rs PostOrderIter:
     Codec/Linearise.v   visit / traverse  (positions in N, children as lists, used by the codec model)
     Dag/PostOrderSpec.v visit / po_spec   (positions in nat, children as dagnode; C18 proves that the
                                            explicit-stack iterator computes exactly this, and everything
                                            about indices / once / children first / root last / no orphans)
   traverse_bridge: the codec's traversal IS the C18 specification on the corresponding DAG, item by item,
   so every C18 theorem applies to the list of nodes that encode_program writes. *)
From RS Require Import Lib.Tac Lib.Outcome Dag.DagModel Dag.PostOrderSpec Dag.VisitFacts
  Codec.NodeCodec Codec.Linearise.
Import ListNotations.
Local Open Scope N_scope.

Lemma tm_get_eq (m : list (N * N)) k : Linearise.tm_get m k = DagModel.tm_get m k.
Proof. induction m as [|[k' i] r IH]; cbn; [reflexivity|]. rewrite IH. reflexivity. Qed.

Section Bridge.
Variable ch : N -> list N.
Variable key : N -> option N.
Hypothesis ch_wf : forall n c, In c (ch n) -> c < n.
Hypothesis ch_arity : forall n, (length (ch n) <= 2)%nat.

Definition dag_of (n : nat) : dagnode :=
  match ch (N.of_nat n) with
  | [] => Nul
  | [a] => Un (N.to_nat a)
  | a :: b :: _ => Bin (N.to_nat a) (N.to_nat b)
  end.

Definition key_of (n : nat) : option N := key (N.of_nat n).

Lemma dag_of_wfc : wfc dag_of.
Proof.
  intros n. unfold dag_of. pose proof (ch_wf (N.of_nat n)) as W.
  destruct (ch (N.of_nat n)) as [|a [|b r]]; cbn [node_ok]; [exact I| |].
  - specialize (W a (or_introl eq_refl)). lia.
  - pose proof (W a (or_introl eq_refl)). pose proof (W b (or_intror (or_introl eq_refl))). lia.
Qed.

(* a yielded item of the C18 specification as the codec writes it: position and child indices *)
Definition conv (it : po_item) : N * list N :=
  (N.of_nat (it_node it),
   match it_left it, it_right it with
   | Some a, Some b => [a; b]
   | Some a, None => [a]
   | None, _ => []
   end).

Lemma seen_eq m n : Linearise.seen key m n = seen_before key_of m (N.to_nat n).
Proof.
  unfold Linearise.seen, seen_before, key_of. rewrite N2Nat.id.
  destruct (key n); [apply tm_get_eq|reflexivity].
Qed.

Notation dvisit := (PostOrderSpec.visit dag_of key_of).

Lemma visit_bridge : forall f n s, (N.to_nat n < f)%nat ->
  Linearise.visit ch key f n s =
  (r_ci (dvisit f (N.to_nat n) (ts_next s) (ts_map s)),
   mk_ts (r_trk (dvisit f (N.to_nat n) (ts_next s) (ts_map s)))
         (rev (map conv (r_out (dvisit f (N.to_nat n) (ts_next s) (ts_map s)))) ++ ts_out s)
         (r_index (dvisit f (N.to_nat n) (ts_next s) (ts_map s)))).
Proof.
  induction f as [|f IH]; intros n s Hn; [lia|].
  rewrite (visit_unfold dag_of key_of dag_of_wfc) by exact Hn.
  cbn [Linearise.visit]. rewrite seen_eq.
  destruct (seen_before key_of (ts_map s) (N.to_nat n)) as [i|] eqn:Hs.
  { cbn [r_ci r_trk r_out r_index map rev app]. destruct s; reflexivity. }
  cbv zeta.
  assert (Hc : forall c, In c (ch n) -> (N.to_nat c < f)%nat).
  { intros c Hin. pose proof (ch_wf n c Hin). lia. }
  pose proof (ch_arity n) as Har.
  assert (Ed : dag_of (N.to_nat n) = match ch n with
                                      | [] => Nul
                                      | [a] => Un (N.to_nat a)
                                      | a :: b :: _ => Bin (N.to_nat a) (N.to_nat b)
                                      end) by (unfold dag_of; rewrite N2Nat.id; reflexivity).
  rewrite Ed. clear Ed.
  assert (Hfin : forall li ri cis s1,
            cis = match li, ri with Some a, Some b => [a; b] | Some a, None => [a] | None, _ => [] end ->
            (match seen key (ts_map s1) n with
             | Some i => (i, s1)
             | None => (ts_next s1,
                        mk_ts (match key n with Some k => (k, ts_next s1) :: ts_map s1 | None => ts_map s1 end)
                              ((n, cis) :: ts_out s1) (ts_next s1 + 1))
             end) =
            (r_ci (finish key_of (N.to_nat n) li ri (ts_next s1) (ts_map s1)),
             mk_ts (r_trk (finish key_of (N.to_nat n) li ri (ts_next s1) (ts_map s1)))
                   (rev (map conv (r_out (finish key_of (N.to_nat n) li ri (ts_next s1) (ts_map s1)))) ++ ts_out s1)
                   (r_index (finish key_of (N.to_nat n) li ri (ts_next s1) (ts_map s1))))).
  { intros li ri cis s1 ->. unfold finish, record, Linearise.seen, key_of. rewrite N2Nat.id.
    destruct (key n) as [k|].
    - rewrite tm_get_eq. destruct (DagModel.tm_get (ts_map s1) k) as [i|];
        cbn [r_ci r_trk r_out r_index map rev app]; [destruct s1; reflexivity|].
      unfold conv. cbn [it_node it_left it_right]. rewrite N2Nat.id. destruct li, ri; reflexivity.
    - cbn [r_ci r_trk r_out r_index map rev app]. unfold conv. cbn [it_node it_left it_right].
      rewrite N2Nat.id. destruct li, ri; reflexivity. }
  destruct (ch n) as [|a [|b [|c r]]] eqn:Ech; cbn [length] in Har; [| | |lia].
  - (* no children *)
    cbn [go_list left_child_of right_child_of ochild c_i c_index c_trk c_out app].
    rewrite (Hfin None None [] s eq_refl). reflexivity.
  - (* one child *)
    cbn [go_list left_child_of right_child_of ochild c_i c_index c_trk c_out].
    rewrite (IH a s (Hc a (or_introl eq_refl))).
    set (Ra := dvisit f (N.to_nat a) (ts_next s) (ts_map s)).
    pose proof (Hfin (Some (r_ci Ra)) None [r_ci Ra] (mk_ts (r_trk Ra) (rev (map conv (r_out Ra)) ++ ts_out s) (r_index Ra)) eq_refl) as E.
    cbn [ts_next ts_map ts_out] in E |- *. rewrite E. clear E.
    cbn [ts_next ts_map ts_out r_ci r_index r_trk r_out app]. f_equal. f_equal.
    rewrite map_app, rev_app_distr, app_assoc. reflexivity.
  - (* two children *)
    cbn [go_list left_child_of right_child_of ochild c_i c_index c_trk c_out].
    rewrite (IH a s (Hc a (or_introl eq_refl))).
    set (Ra := dvisit f (N.to_nat a) (ts_next s) (ts_map s)).
    rewrite (IH b _ (Hc b (or_intror (or_introl eq_refl)))). cbn [ts_next ts_map ts_out].
    set (Rb := dvisit f (N.to_nat b) (r_index Ra) (r_trk Ra)).
    pose proof (Hfin (Some (r_ci Ra)) (Some (r_ci Rb)) [r_ci Ra; r_ci Rb]
               (mk_ts (r_trk Rb) (rev (map conv (r_out Rb)) ++ rev (map conv (r_out Ra)) ++ ts_out s) (r_index Rb)) eq_refl) as E.
    cbn [ts_next ts_map ts_out] in E |- *. rewrite E. clear E.
    cbn [ts_next ts_map ts_out r_ci r_index r_trk r_out app]. f_equal. f_equal.
    rewrite !map_app, !rev_app_distr, <- !app_assoc. reflexivity.
Qed.

(* the codec's traversal = the C18 specification, item by item *)
Theorem traverse_bridge root :
  Linearise.traverse ch key root = map conv (po_spec dag_of key_of (N.to_nat root)).
Proof.
  unfold Linearise.traverse, po_spec.
  rewrite (visit_bridge (S (N.to_nat root)) root ts_init ltac:(lia)).
  cbn [snd ts_out ts_init ts_next ts_map]. rewrite app_nil_r, rev_involutive. reflexivity.
Qed.

End Bridge.

(* the specification depends on children and keys only pointwise *)
Lemma dvisit_ext ch1 ch2 k1 k2 : (forall n, ch1 n = ch2 n) -> (forall n, k1 n = k2 n) ->
  forall h n idx m, PostOrderSpec.visit ch1 k1 h n idx m = PostOrderSpec.visit ch2 k2 h n idx m.
Proof.
  intros Hc Hk. induction h as [|h IH]; intros n idx m; [reflexivity|].
  cbn [PostOrderSpec.visit].
  assert (Hs : forall m c, seen_before k1 m c = seen_before k2 m c).
  { intros m0 c. unfold seen_before. rewrite Hk. reflexivity. }
  assert (Hcl : forall m oc, classify k1 m oc = classify k2 m oc).
  { intros m0 [c|]; cbn [classify]; [rewrite Hs|]; reflexivity. }
  assert (Hv : forall c i m0, vchild (PostOrderSpec.visit ch1 k1 h) c i m0 = vchild (PostOrderSpec.visit ch2 k2 h) c i m0).
  { intros [|j|c] i m0; cbn [vchild]; [reflexivity|reflexivity|rewrite IH; reflexivity]. }
  assert (Hf : forall n li ri i m0, finish k1 n li ri i m0 = finish k2 n li ri i m0).
  { intros. unfold finish, record. rewrite Hk. reflexivity. }
  rewrite Hs, Hc, !Hcl, !Hv, Hf. reflexivity.
Qed.

Lemma po_spec_ext ch1 ch2 k1 k2 : (forall n, ch1 n = ch2 n) -> (forall n, k1 n = k2 n) ->
  forall root, po_spec ch1 k1 root = po_spec ch2 k2 root.
Proof. intros Hc Hk root. unfold po_spec. rewrite (dvisit_ext ch1 ch2 k1 k2 Hc Hk). reflexivity. Qed.
