(* C18 - is_shared_as when every reachable node has a sharing id: the check accepts exactly
   when no two distinct reachable nodes carry the same id (the DAG is already maximally
   shared with respect to the requested sharing). *)
From RS Require Import Lib.Tac Lib.Outcome Dag.DagModel Dag.PostOrderSpec Dag.PostOrderProps
  Dag.VisitFacts Dag.Acyclic Dag.Coverage Dag.Shared.
Import ListNotations.
Local Open Scope N_scope.

Section Sim.
Variable children : nat -> dagnode.
Variable key1 key2 : nat -> option N.
Hypothesis Hwf : wfc children.
Variable root : nat.

Notation reach := (reach children).
Let InS (x : nat) : Prop := reach root x.

(* the two key functions induce the same classes on the nodes reachable from the root *)
Hypothesis E1 : forall x, InS x -> (key1 x = None <-> key2 x = None).
Hypothesis E2 : forall x y k1 k2, InS x -> InS y -> key1 x = Some k1 -> key2 x = Some k2 ->
  (key1 y = Some k1 <-> key2 y = Some k2).

Definition Rm (m1 m2 : tmap) : Prop :=
  forall x, InS x -> seen_before key1 m1 x = seen_before key2 m2 x.

Lemma finish_sim n li ri idx m1 m2 : InS n -> Rm m1 m2 ->
  r_ci (finish key1 n li ri idx m1) = r_ci (finish key2 n li ri idx m2) /\
  r_index (finish key1 n li ri idx m1) = r_index (finish key2 n li ri idx m2) /\
  r_out (finish key1 n li ri idx m1) = r_out (finish key2 n li ri idx m2) /\
  Rm (r_trk (finish key1 n li ri idx m1)) (r_trk (finish key2 n li ri idx m2)).
Proof.
  intros Sn HR. pose proof (HR n Sn) as Hn. unfold seen_before in Hn. unfold finish, record.
  destruct (key1 n) as [k1|] eqn:K1; destruct (key2 n) as [k2|] eqn:K2.
  - rewrite Hn. destruct (tm_get m2 k2) as [i|] eqn:G2; cbn [r_ci r_index r_out r_trk];
      [repeat split; exact HR|]. repeat split.
    intros x Sx. specialize (HR x Sx). unfold seen_before in *.
    destruct (key1 x) as [kx1|] eqn:X1; destruct (key2 x) as [kx2|] eqn:X2.
    + cbn [tm_get]. destruct (k1 =? kx1) eqn:Ea; destruct (k2 =? kx2) eqn:Eb; try reflexivity; try exact HR.
      * apply N.eqb_eq in Ea. subst kx1. apply N.eqb_neq in Eb. exfalso. apply Eb.
        assert (H : key2 x = Some k2) by (apply (E2 n x k1 k2 Sn Sx K1 K2); exact X1). congruence.
      * apply N.eqb_eq in Eb. subst kx2. apply N.eqb_neq in Ea. exfalso. apply Ea.
        assert (H : key1 x = Some k1) by (apply (E2 n x k1 k2 Sn Sx K1 K2); exact X2). congruence.
    + exfalso. destruct (E1 x Sx) as [_ H]. specialize (H X2). congruence.
    + exfalso. destruct (E1 x Sx) as [H _]. specialize (H X1). congruence.
    + reflexivity.
  - exfalso. destruct (E1 n Sn) as [_ H]. specialize (H K2). congruence.
  - exfalso. destruct (E1 n Sn) as [H _]. specialize (H K1). congruence.
  - cbn [r_ci r_index r_out r_trk]. repeat split. exact HR.
Qed.

Lemma visit_sim : forall h n, (n < h)%nat -> InS n -> forall idx m1 m2, Rm m1 m2 ->
  r_ci (visit children key1 h n idx m1) = r_ci (visit children key2 h n idx m2) /\
  r_index (visit children key1 h n idx m1) = r_index (visit children key2 h n idx m2) /\
  r_out (visit children key1 h n idx m1) = r_out (visit children key2 h n idx m2) /\
  Rm (r_trk (visit children key1 h n idx m1)) (r_trk (visit children key2 h n idx m2)).
Proof.
  induction h as [|h IH]; intros n Hn Sn idx m1 m2 HR; [lia|].
  rewrite !(visit_unfold children _ Hwf) by exact Hn.
  rewrite <- (HR n Sn). destruct (seen_before key1 m1 n) as [i|]; cbn [r_ci r_index r_out r_trk];
    [repeat split; exact HR|].
  assert (Hoc : forall oc i a1 a2, (match oc with Some c => is_child children n c | None => True end) ->
            Rm a1 a2 ->
            c_i (ochild children key1 h oc i a1) = c_i (ochild children key2 h oc i a2) /\
            c_index (ochild children key1 h oc i a1) = c_index (ochild children key2 h oc i a2) /\
            c_out (ochild children key1 h oc i a1) = c_out (ochild children key2 h oc i a2) /\
            Rm (c_trk (ochild children key1 h oc i a1)) (c_trk (ochild children key2 h oc i a2))).
  { intros [c|] i a1 a2 Hc Ha; cbn [VisitFacts.ochild c_i c_index c_out c_trk]; [|repeat split; exact Ha].
    pose proof (is_child_lt children Hwf _ _ Hc) as Hlt.
    assert (Sc : InS c) by (eapply reach_trans; [exact Sn|eapply reach_step; [exact Hc|apply reach_refl]]).
    destruct (IH c ltac:(lia) Sc i a1 a2 Ha) as (H1 & H2 & H3 & H4). rewrite H1, H2, H3. repeat split. exact H4. }
  assert (Hcl : match left_child_of (children n) with Some c => is_child children n c | None => True end)
    by (destruct (left_child_of (children n)) eqn:E; [left; exact E|exact I]).
  assert (Hcr : match right_child_of (children n) with Some c => is_child children n c | None => True end)
    by (destruct (right_child_of (children n)) eqn:E; [right; exact E|exact I]).
  cbv zeta.
  destruct (Hoc _ idx m1 m2 Hcl HR) as (L1 & L2 & L3 & L4). rewrite L1, L2, L3.
  destruct (Hoc _ (c_index (ochild children key2 h (left_child_of (children n)) idx m2)) _ _ Hcr L4)
    as (R1 & R2 & R3 & R4). rewrite R1, R2, R3.
  destruct (finish_sim n (c_i (ochild children key2 h (left_child_of (children n)) idx m2))
              (c_i (ochild children key2 h (right_child_of (children n))
                      (c_index (ochild children key2 h (left_child_of (children n)) idx m2))
                      (c_trk (ochild children key2 h (left_child_of (children n)) idx m2))))
              (c_index (ochild children key2 h (right_child_of (children n))
                      (c_index (ochild children key2 h (left_child_of (children n)) idx m2))
                      (c_trk (ochild children key2 h (left_child_of (children n)) idx m2))))
              _ _ Sn R4) as (F1 & F2 & F3 & F4).
  rewrite F1, F2, F3. repeat split. exact F4.
Qed.

Lemma po_spec_sim : po_spec children key1 root = po_spec children key2 root.
Proof.
  unfold po_spec.
  apply (visit_sim (Datatypes.S root) root ltac:(lia) (reach_refl children root) 0 [] []).
  intros x _. unfold seen_before. destruct (key1 x), (key2 x); reflexivity.
Qed.

End Sim.

Section Inj.
Variable children : nat -> dagnode.
Variable key : nat -> option N.
Hypothesis Hwf : wfc children.
Hypothesis Hac : key_acyclic children key.
Variable root : nat.
Hypothesis Hall : forall x, reach children root x -> key x <> None.

(* THEOREM: with an id on every reachable node, the check accepts exactly when the ids are
   pairwise different on the reachable nodes *)
Theorem is_shared_as_injective :
  is_shared_as children key (po_fuel children root) root = Ok true <->
  (forall x y, reach children root x -> reach children root y -> key x = key y -> x = y).
Proof.
  rewrite (is_shared_as_iff children key Hwf Hac root). split.
  - intros Heq x y Rx Ry Hk.
    assert (Hin : forall z, reach children root z -> In z (map it_node (po_spec children key root))).
    { intros z Rz. rewrite Heq.
      destruct (po_covers_reachable children key_ptr Hwf (key_ptr_congruent children) root z Rz)
        as (it & Hi & Hc).
      unfold same_class, key_ptr in Hc. injection Hc as Hc. apply Nnat.Nat2N.inj in Hc. subst z.
      apply in_map. exact Hi. }
    pose proof (Hin x Rx) as Hx. pose proof (Hin y Ry) as Hy.
    apply in_map_iff in Hx, Hy. destruct Hx as (ix & <- & Hix). destruct Hy as (iy & <- & Hiy).
    apply In_nth_error in Hix, Hiy. destruct Hix as (i & Hi). destruct Hiy as (j & Hj).
    destruct (key (it_node ix)) as [k|] eqn:Kx; [|exfalso; apply (Hall _ Rx); exact Kx].
    assert (i = j) by (apply (po_once children key Hwf root i j ix iy k Hi Hj Kx); congruence).
    subst j. congruence.
  - intros Hinj. f_equal. apply po_spec_sim; [exact Hwf| |].
    + intros x Sx. split; [intros H; exfalso; apply (Hall x Sx); exact H|intros H; discriminate].
    + intros x y k1 k2 Sx Sy K1 K2. unfold key_ptr in *. injection K2 as <-. split.
      * intros Ky. f_equal. f_equal. symmetry. apply (Hinj x y Sx Sy). congruence.
      * intros [= Hy]. apply Nnat.Nat2N.inj in Hy. subst y. exact K1.
Qed.

End Inj.
