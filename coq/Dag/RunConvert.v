(* Executable entry point for the correspondence check of Node::convert (C18, harness kind
   `conv`): a node table with all sixteen combinators, a tracker, a converter that takes its
   prune decisions from a list and can fail at its k-th fallible hook call, wrapped in the
   logging converter of ConvertOrder.v. *)
From RS Require Import Lib.Tac Lib.Outcome Dag.DagModel Dag.Convert Dag.ConvertOrder Dag.ConvertStruct Dag.Run.
Import ListNotations.
Local Open Scope N_scope.

Definition SNode := @snode (option nat) N N.
Definition TNode := @tnode (option nat) N N.

(* per node five numbers: kind a b pay cmr.  a, b: child positions (for disconnect b = right+1 | 0);
   pay: hidden cmr / entropy / jet / word / witness value *)
Definition parse_inner (k a b pay : N) : inner nat (option nat) N :=
  let a' := N.to_nat a in let b' := N.to_nat b in
  match k with
  | 0 => IIden | 1 => IUnit | 2 => IInjL a' | 3 => IInjR a' | 4 => ITake a' | 5 => IDrop a'
  | 6 => IComp a' b' | 7 => ICase a' b' | 8 => IAssertL a' pay | 9 => IAssertR pay a'
  | 10 => IPair a' b'
  | 11 => IDisconnect a' (if b =? 0 then None else Some (N.to_nat (b - 1)))
  | 12 => IWitness pay | 13 => IFail pay | 14 => IJet pay | _ => IWord pay
  end.

Fixpoint parse_nodes (pos : N) (l : list N) : list SNode :=
  match l with
  | k :: a :: b :: pay :: cmr :: r => mk_snode (parse_inner k a b pay) cmr pos :: parse_nodes (pos + 1) r
  | _ => []
  end.

Definition swfb (t : list SNode) : bool :=
  wfb (map (fun s => as_dag dis_id (sn_inner s)) t).

Definition hide_of (x : N) : hide :=
  match x with 1 => HideLeft | 2 => HideRight | _ => HideNeither end.

(* state = number of fallible hook calls so far; the call number `failat` (1-based) fails *)
Definition run_cv (hides : list N) (failat : N) : @converter (option nat) N (option nat) N N N N :=
  {| cv_visit := fun s _ => s;
     cv_witness := fun s _ w => (s + 1, if s + 1 =? failat then RErr 1 else ROk (w + 7));
     cv_disconnect := fun s _ _ mc _ => (s + 1, if s + 1 =? failat then RErr 2 else ROk mc);
     cv_prune := fun s it _ _ _ =>
       (s + 1, if s + 1 =? failat then RErr 3 else ROk (hide_of (nth (it_node it) hides 0)));
     cv_data := fun s it _ _ => (s + 1, if s + 1 =? failat then RErr 4 else ROk (it_index it)) |}.

Definition hook_code (h : hook) : N :=
  match h with HVisit => 0 | HWitness => 1 | HDisconnect => 2 | HPrune => 3 | HData => 4 end.

Definition show_event (e : event) : list N :=
  [hook_code (ev_hook e); it_index (ev_item e); N.of_nat (it_node (ev_item e));
   show_opt (it_left (ev_item e)); show_opt (it_right (ev_item e)); ev_a e; ev_b e].

Definition show_tnode (n : TNode) : list N :=
  let i := tn_inner n in
  [kind_of i; kid1 i; kid2 i;
   match i with
   | IAssertL _ h | IAssertR h _ => h + 1
   | IFail e => e + 1 | IJet j => j + 1 | IWord w => w + 1
   | _ => 0
   end;
   tn_cmr n;
   match i with IDisconnect _ x => optn1 x + 1 | _ => 0 end;
   match i with IWitness w => w + 1 | _ => 0 end;
   tn_data n].

Definition run_conv (nodes : list N) (root : N) (keys : list N) (hides : list N) (failat : N) (fuel : N)
  : list N :=
  let t := parse_nodes 0 nodes in
  let r := N.to_nat root in
  if negb (swfb t && Nat.ltb r (length t)) then [7]
  else
    let key := key_list (parse_keys keys) in
    match convert dis_id (logging (run_cv hides failat)) key t (N.to_nat fuel) r (0, []) with
    | Ok ((s, lg), tbl) =>
        0 :: N.of_nat (length lg) :: flat_map show_event lg
          ++ N.of_nat (length tbl) :: flat_map show_tnode tbl ++ [s]
    | Err ((s, lg), e) => 1 :: e :: N.of_nat (length lg) :: flat_map show_event lg ++ [s]
    | Panic _ => [9]
    | OutOfFuel => [8]
    end.

(* kinds arc: the DAG view (as_dag_node / disconnect_dag_ref / disconnect_dag_arc: children in the
   order left, right) of a combinator table, iterated by the five iterators; the harness prints the
   observations twice (by &Node and by Arc<Node> by value) *)
Definition dag_flat (d : dag) : list N :=
  flat_map (fun dn => match dn with
                      | Nul => [0]
                      | Un c => [1; N.of_nat c]
                      | Bin l r => [2; N.of_nat l; N.of_nat r]
                      end) d.

Definition run_arc (nodes : list N) (root : N) (keys : list N) (max_depth : N) (fuel : N) : list N :=
  let t := parse_nodes 0 nodes in
  let r := run_dag (dag_flat (map (fun s => as_dag dis_id (sn_inner s)) t)) root keys max_depth fuel in
  r ++ r.

(* diamond: 0 unit, 1 witness, 2 case(0,1)... a smoke test *)
Example run_conv_smoke :
  run_conv [1;0;0;0;0;  2;0;0;0;1;  3;0;0;0;2;  7;1;2;0;3] 3 [1;2;3;4] [0;0;0;1] 0 100 =
  [0; 9;
   0;0;0;0;0;0;0;  4;0;0;0;0;0;0;
   0;1;1;1;0;0;0;  4;1;1;1;0;1;0;
   0;2;2;1;0;0;0;  4;2;2;1;0;1;0;
   0;3;3;2;3;0;0;  3;3;3;2;3;2;3;  4;3;3;2;3;3;0;
   4;
   1;0;0;0;0;0;0;0;
   2;1;0;0;1;0;0;1;
   3;1;0;0;2;0;0;2;
   9;3;0;2;3;0;0;3;
   5].
Proof. vm_compute. reflexivity. Qed.
