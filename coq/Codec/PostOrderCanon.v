(* C01 - the list of items that the post-order iteration yields (under sharing ids that no node shares with a
   proper descendant) is in the decoder's canonical order: reading the yielded items as a DAG of their own
   (item i = node i, children = the yielded child indices) and iterating over it from its last item with
   pointer identity yields the items 0, 1, 2, ... in this order, each with the same child indices.

   Stated on the C18 specification (Dag/PostOrderSpec.v `visit`); Codec/General.v transports it to the
   codec model through Codec/DagBridge.v.  Uses from C18: visit_unfold, visit_inv (indices, child indices
   point at earlier items), fresh_after_children / finish_fresh (acyclic keys: a node is still unrecorded
   after its children), visit_shape (the visited node is the last item of its visit). *)
From RS Require Import Lib.Tac Lib.Outcome Dag.DagModel Dag.PostOrderSpec Dag.PostOrderProps Dag.VisitFacts Dag.Acyclic.
Import ListNotations.
Local Open Scope N_scope.

(* the yielded items as a DAG: item i is node i, its children are the yielded child indices *)
Definition item_node (it : po_item) : dagnode :=
  match it_left it, it_right it with
  | Some a, Some b => Bin (N.to_nat a) (N.to_nat b)
  | Some a, None => Un (N.to_nat a)
  | None, _ => Nul
  end.

Definition lin_dag (all : list po_item) (i : nat) : dagnode :=
  match nth_error all i with Some it => item_node it | None => Nul end.

(* the item that pointer iteration over lin_dag yields for item `it` *)
Definition id_item (it : po_item) : po_item :=
  mk_item (N.to_nat (it_index it)) (it_index it) (it_left it) (it_right it).

(* tracker of pointer iteration after the items 0 .. k-1 were yielded in this order *)
Fixpoint idmap (k : nat) : tmap :=
  match k with O => [] | S k' => (N.of_nat k', N.of_nat k') :: idmap k' end.

Lemma idmap_get k j : tm_get (idmap k) j = if j <? N.of_nat k then Some j else None.
Proof.
  induction k as [|k IH]; cbn [idmap tm_get].
  - destruct (N.ltb_spec j (N.of_nat 0)); [lia|reflexivity].
  - destruct (N.eqb_spec (N.of_nat k) j) as [<-|Hne].
    + destruct (N.ltb_spec (N.of_nat k) (N.of_nat (S k))); [reflexivity|lia].
    + rewrite IH. destruct (N.ltb_spec j (N.of_nat k)); destruct (N.ltb_spec j (N.of_nat (S k))); try reflexivity; lia.
Qed.

Lemma seen_ptr_idmap k j : seen_before key_ptr (idmap k) j = if (j <? k)%nat then Some (N.of_nat j) else None.
Proof.
  unfold seen_before, key_ptr. rewrite idmap_get.
  destruct (N.ltb_spec (N.of_nat j) (N.of_nat k)); destruct (Nat.ltb_spec j k); try reflexivity; lia.
Qed.

Section Canon.
Variable children : nat -> dagnode.
Variable key : nat -> option N.
Hypothesis Hwf : wfc children.
Hypothesis Hac : key_acyclic children key.

Variable all : list po_item.
Hypothesis all_wfc : wfc (lin_dag all).

Notation visit := (PostOrderSpec.visit children key).
Notation lvisit := (PostOrderSpec.visit (lin_dag all) key_ptr).
Notation ochild := (VisitFacts.ochild children key).
Notation lochild := (VisitFacts.ochild (lin_dag all) key_ptr).

Lemma len_nat {A} (l : list A) : N.to_nat (len l) = length l.
Proof. unfold len. lia. Qed.

(* the item yielded on the pointer side when position p is fresh *)
Lemma lfinish_fresh p li ri :
  finish key_ptr p li ri (N.of_nat p) (idmap p) =
  mk_vres (N.of_nat p) (N.of_nat p + 1) (idmap (S p)) [mk_item p (N.of_nat p) li ri].
Proof.
  unfold finish, record, key_ptr. rewrite idmap_get.
  destruct (N.ltb_spec (N.of_nat p) (N.of_nat p)); [lia|]. reflexivity.
Qed.

Definition sim_at (h : nat) : Prop :=
  forall n, (n < h)%nat -> forall pre m, inv children key m pre ->
  forall ext, all = pre ++ r_out (visit h n (len pre) m) ++ ext ->
  forall h', (N.to_nat (r_ci (visit h n (len pre) m)) < h')%nat ->
  lvisit h' (N.to_nat (r_ci (visit h n (len pre) m))) (len pre) (idmap (length pre)) =
  mk_vres (r_ci (visit h n (len pre) m)) (r_index (visit h n (len pre) m))
          (idmap (N.to_nat (r_index (visit h n (len pre) m)))) (map id_item (r_out (visit h n (len pre) m))).

(* one child slot: what C18 knows about it *)
Lemma slot_facts h oc pre m : inv children key m pre ->
  (match oc with Some c => (c < h)%nat | None => True end) ->
  inv children key (c_trk (ochild h oc (len pre) m)) (pre ++ c_out (ochild h oc (len pre) m)) /\
  c_index (ochild h oc (len pre) m) = len (pre ++ c_out (ochild h oc (len pre) m)) /\
  (match c_i (ochild h oc (len pre) m) with
   | Some j => j < c_index (ochild h oc (len pre) m) | None => True end).
Proof.
  intros I Hc. destruct oc as [c|]; cbn [VisitFacts.ochild c_i c_index c_trk c_out].
  - pose proof (visit_inv children key Hwf h c Hc pre m I) as V. cbv zeta in V. destruct V as (I1 & Hidx & Hck).
    cbn in Hck. rewrite Hidx. tauto.
  - rewrite app_nil_r. auto.
Qed.

Lemma sim_slot h : sim_at h -> forall oc pre m, inv children key m pre ->
  (match oc with Some c => (c < h)%nat | None => True end) ->
  forall ext, all = pre ++ c_out (ochild h oc (len pre) m) ++ ext ->
  forall h', (match c_i (ochild h oc (len pre) m) with Some j => (N.to_nat j < h')%nat | None => True end) ->
  lochild h' (option_map N.to_nat (c_i (ochild h oc (len pre) m))) (len pre) (idmap (length pre)) =
  mk_cres (c_i (ochild h oc (len pre) m)) (c_index (ochild h oc (len pre) m))
          (idmap (N.to_nat (c_index (ochild h oc (len pre) m)))) (map id_item (c_out (ochild h oc (len pre) m))).
Proof.
  intros IH [c|] pre m I Hc ext Hall h' Hh'; cbn [VisitFacts.ochild c_i c_index c_trk c_out option_map] in *.
  - rewrite (IH c Hc pre m I ext Hall h' Hh'). reflexivity.
  - rewrite len_nat. reflexivity.
Qed.

Lemma nth_error_mid {A} (a : list A) x b : nth_error (a ++ x :: b) (length a) = Some x.
Proof. rewrite nth_error_app2 by lia. rewrite Nat.sub_diag. reflexivity. Qed.

Lemma sim_all : forall h, sim_at h.
Proof.
  induction h as [|h IH]; intros n Hn pre m I ext Hall h' Hh'; [lia|].
  revert Hall Hh'. rewrite (visit_unfold children key Hwf) by exact Hn.
  destruct (seen_before key m n) as [si|] eqn:Hs.
  { (* recorded: an earlier item; the pointer side has it too *)
    cbn [r_ci r_index r_trk r_out map]. intros _ Hh'.
    pose proof (seen_before_sound children key m pre n si I Hs) as Hok. cbn in Hok. destruct Hok as [Hlt _].
    destruct h' as [|h'']; [lia|]. cbn [PostOrderSpec.visit].
    rewrite seen_ptr_idmap. unfold len in Hlt.
    destruct (Nat.ltb_spec (N.to_nat si) (length pre)); [|lia].
    rewrite N2Nat.id, len_nat. reflexivity. }
  cbv zeta.
  pose proof (fresh_after_children children key Hwf Hac h n (len pre) m Hn Hs) as Hfresh. cbv zeta in Hfresh.
  destruct (child_bounds children Hwf h n Hn) as [Hlb Hrb].
  assert (Hshape : c_i (ochild h (left_child_of (children n)) (len pre) m) = None ->
                   right_child_of (children n) = None).
  { destruct (children n); cbn; intros E; try reflexivity; discriminate. }
  set (lc := left_child_of (children n)) in *. set (rc := right_child_of (children n)) in *.
  destruct (slot_facts h lc pre m I Hlb) as (IL & EL & BL).
  set (l := ochild h lc (len pre) m) in *.
  pose proof (slot_facts h rc (pre ++ c_out l) (c_trk l) IL Hrb) as FR. rewrite <- EL in FR.
  destruct FR as (IR & ER & BR).
  set (r := ochild h rc (c_index l) (c_trk l)) in *.
  rewrite (finish_fresh key n (c_i l) (c_i r) (c_index r) (c_trk r) Hfresh).
  cbn [r_ci r_index r_trk r_out]. intros Hall Hh'.
  set (p := N.to_nat (c_index r)) in *.
  assert (Hp : N.of_nat p = c_index r) by (subst p; lia).
  assert (Hlr : c_index l <= c_index r) by (rewrite ER, EL, !len_app; lia).
  assert (Hpre : (length pre <= p)%nat) by (subst p; rewrite ER, !len_app; unfold len; lia).
  assert (Hplen : p = length ((pre ++ c_out l) ++ c_out r)) by (subst p; rewrite ER; apply len_nat).
  (* the pointer side at position p *)
  destruct h' as [|h'']; [lia|].
  rewrite (visit_unfold (lin_dag all) key_ptr all_wfc) by exact Hh'.
  rewrite seen_ptr_idmap. destruct (Nat.ltb_spec p (length pre)); [lia|]. cbv zeta.
  assert (Hnode : lin_dag all p = item_node (mk_item n (c_index r) (c_i l) (c_i r))).
  { unfold lin_dag. rewrite Hall. rewrite Hplen.
    replace (pre ++ (c_out l ++ c_out r ++ [mk_item n (c_index r) (c_i l) (c_i r)]) ++ ext)
      with (((pre ++ c_out l) ++ c_out r) ++ mk_item n (c_index r) (c_i l) (c_i r) :: ext)
      by (rewrite <- !app_assoc; reflexivity).
    rewrite nth_error_mid. reflexivity. }
  assert (Hcr : c_i l = None -> c_i r = None).
  { intros E. subst r. fold l in Hshape. rewrite (Hshape E). reflexivity. }
  assert (Hleft : left_child_of (lin_dag all p) = option_map N.to_nat (c_i l)).
  { rewrite Hnode. unfold item_node. cbn [it_left it_right].
    destruct (c_i l) as [a|]; [destruct (c_i r); reflexivity|reflexivity]. }
  assert (Hright : right_child_of (lin_dag all p) = option_map N.to_nat (c_i r)).
  { rewrite Hnode. unfold item_node. cbn [it_left it_right].
    destruct (c_i l) as [a|]; [destruct (c_i r); reflexivity|rewrite (Hcr eq_refl); reflexivity]. }
  rewrite Hleft, Hright.
  (* left slot *)
  assert (HallL : all = pre ++ c_out l ++ (c_out r ++ [mk_item n (c_index r) (c_i l) (c_i r)] ++ ext)).
  { rewrite Hall. rewrite <- !app_assoc. reflexivity. }
  assert (FuL : match c_i l with Some j => (N.to_nat j < h'')%nat | None => True end).
  { destruct (c_i l) as [j|]; [|exact Logic.I]. lia. }
  pose proof (sim_slot h IH lc pre m I Hlb _ HallL h'' FuL) as SL. fold l in SL. rewrite SL.
  cbn [c_i c_index c_trk c_out].
  (* right slot: the state after the left one is the pointer state after |pre ++ c_out l| items *)
  assert (HallR : all = (pre ++ c_out l) ++ c_out r ++ ([mk_item n (c_index r) (c_i l) (c_i r)] ++ ext)).
  { rewrite Hall. rewrite <- !app_assoc. reflexivity. }
  assert (FuR : match c_i r with Some j => (N.to_nat j < h'')%nat | None => True end).
  { destruct (c_i r) as [j|]; [|exact Logic.I]. lia. }
  pose proof (sim_slot h IH rc (pre ++ c_out l) (c_trk l) IL Hrb) as SR.
  rewrite <- EL in SR. fold r in SR. specialize (SR _ HallR h'' FuR).
  replace (N.to_nat (c_index l)) with (length (pre ++ c_out l)) by (rewrite EL; symmetry; apply len_nat).
  rewrite SR. cbn [c_i c_index c_trk c_out].
  (* the node itself *)
  rewrite <- Hp. rewrite Nat2N.id. rewrite lfinish_fresh. cbn [r_ci r_index r_trk r_out].
  f_equal.
  - f_equal. lia.
  - rewrite !map_app. cbn [map]. unfold id_item at 5. cbn [it_index it_left it_right]. rewrite Nat2N.id. reflexivity.
Qed.

(* ------------------------------------------------------------------ the whole iteration *)
Variable root : nat.
Hypothesis all_def : all = po_spec children key root.

Theorem canon_order :
  all <> [] /\
  po_spec (lin_dag all) key_ptr (length all - 1) = map id_item all.
Proof.
  destruct (visit_shape children key Hwf Hac (S root) root ltac:(lia) 0 []) as [[H _]|(_ & o & li & ri & Ho & _ & _)].
  { exfalso. apply H. unfold seen_before. destruct (key root); reflexivity. }
  cbv zeta in Ho. fold (po_spec children key root) in Ho. rewrite <- all_def in Ho.
  split; [rewrite Ho; destruct o; discriminate|].
  pose proof (sim_all (S root) root ltac:(lia) [] [] (inv_nil children key) []) as Sim.
  change (len []) with 0 in Sim. cbn [app length idmap] in Sim.
  fold (po_spec children key root) in Sim. rewrite <- all_def, app_nil_r in Sim. specialize (Sim eq_refl).
  (* the index of the root = length all - 1 *)
  pose proof (visit_inv children key Hwf (S root) root ltac:(lia) [] [] (inv_nil children key)) as V. cbv zeta in V.
  change (len []) with 0 in V. cbn [app] in V. fold (po_spec children key root) in V. rewrite <- all_def in V.
  destruct V as (Iall & _ & _).
  assert (Hci : N.to_nat (r_ci (visit (S root) root 0 [])) = (length all - 1)%nat).
  { pose proof (inv_index _ _ _ _ Iall (length o) (mk_item root (r_ci (visit (S root) root 0 [])) li ri)) as X.
    rewrite Ho in X. rewrite nth_error_mid in X. specialize (X eq_refl). cbn [it_index] in X.
    rewrite Ho, app_length. cbn [length]. lia. }
  unfold po_spec at 1. rewrite <- Hci.
  rewrite (Sim (S (N.to_nat (r_ci (visit (S root) root 0 [])))) ltac:(lia)). reflexivity.
Qed.

End Canon.

(* the item DAG is well formed (children at smaller positions): C18's po_children and po_indices *)
Lemma lin_dag_wfc children key root : wfc children -> wfc (lin_dag (po_spec children key root)).
Proof.
  intros Hwf n. unfold lin_dag.
  destruct (nth_error (po_spec children key root) n) as [it|] eqn:E; [|exact I].
  pose proof (po_children children key Hwf root it (nth_error_In _ _ E)) as [Hl Hr].
  pose proof (po_indices children key Hwf root n it E) as Hi. rewrite Hi in Hl, Hr.
  unfold item_node. unfold child_ok in Hl, Hr.
  destruct (it_left it) as [a|], (it_right it) as [b|]; cbn [node_ok]; try exact I.
  - destruct (left_child_of (children (it_node it))); [|contradiction].
    destruct (right_child_of (children (it_node it))); [|contradiction]. lia.
  - destruct (left_child_of (children (it_node it))); [|contradiction]. lia.
Qed.
