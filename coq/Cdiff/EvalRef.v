(* C06 - the Coq big-step semantics as a third party, and what it means for the Rust machine.

   For programs of type 1 -> 1 that use only jets specified in Jets/JetSpec.v (plus words,
   witnesses, assertions, disconnect), the verdict of Core/Sem.v `eval` - success, assertion
   failure with the hidden CMR, fail node, jet failure - is computed with vm_compute
   (run_sem = Core.Run.run_eval on the unit input) and compared with BitMachine::exec and with
   libsimplicity's evalTCOExpression by tools/props/c06.py.

   The corollaries below specialise C05's exec_master_noinput (pinned in Props/C05.v as
   C05_exec_correct_noinput) to programs 1 -> 1: the model of the Rust machine succeeds exactly
   when `eval` does, and fails with exactly the error `eval` fails with.  They are about the
   Rust machine MODEL (Core/Machine.v); the C evaluator is not modelled. *)
From RS Require Import Lib.Tac Lib.Outcome Lib.Bits Ty.Ty Core.Prog Core.Term Core.Typing Core.Sem
  Core.Bounds Core.Limits Core.Machine Core.MachineCorrect Core.ExecCorrect Core.Run Jets.JetSpec.
Import ListNotations.
Local Open Scope N_scope.

(* 0 | 1 1 <32 bytes hidden cmr> | 1 2 <64 bytes entropy> | 1 3 | 6 (stuck) | 7 (not a term) *)
Definition run_sem (tp : typed_prog) (cm : cmr_table) : list N := run_eval tp cm SU.

Section OneOne.
  Variable prof : profile.
  Variable jet_ty : N -> option arrow.
  Variable jet_cost : N -> N.
  Variable jet_sem : N -> sval -> option sval.
  Variable t : term.
  Hypothesis Hjets : jets_typed jet_ty jet_sem.
  Hypothesis Ht : typed jet_ty t One One.
  Hypothesis Hcheck : check_program prof (bw One) (bw One) (bounds jet_cost t) = Ok tt.
  Variable m0 : list bool.
  Hypothesis Hm0 : length m0 = N.to_nat (machine_cells jet_cost t).

  Lemma master :
    match eval jet_sem t SU with
    | ROk b => exists st bits, machine_exec prof jet_cost jet_sem t m0 None = Ok (st, bits) /\ of_padded One bits = b
    | RErr e => exists st, machine_exec prof jet_cost jet_sem t m0 None = Err (err_of e, st)
    | RStuck => False
    end.
  Proof.
    pose proof (exec_master_noinput prof jet_ty jet_cost jet_sem t One One Hjets Ht Hcheck SU m0
                  eq_refl eq_refl Hm0) as M.
    destruct (eval jet_sem t SU) as [b|e|].
    - destruct M as (st & bits & E & Eb & _). exists st, bits. auto.
    - destruct M as (st & E & _). exists st. exact E.
    - exact M.
  Qed.

  Lemma one_one_value b : eval jet_sem t SU = ROk b -> b = SU.
  Proof.
    intros E. pose proof (eval_typed jet_ty jet_sem Hjets t One One Ht SU eq_refl) as T.
    rewrite E in T. destruct b; cbn in T; try discriminate. reflexivity.
  Qed.

  (* success on the machine <-> success of the semantics *)
  Theorem machine_succeeds_iff_eval :
    (exists st bits, machine_exec prof jet_cost jet_sem t m0 None = Ok (st, bits)) <->
    eval jet_sem t SU = ROk SU.
  Proof.
    pose proof master as M. split.
    - intros (st & bits & E). destruct (eval jet_sem t SU) as [b|e|] eqn:Ev.
      + rewrite (one_one_value b Ev). reflexivity.
      + destruct M as (st' & E'). rewrite E in E'. discriminate.
      + contradiction.
    - intros Ev. rewrite Ev in M. destruct M as (st & bits & E & _). exists st, bits. exact E.
  Qed.

  (* the machine returns error x <-> the semantics fail with the matching reason *)
  Theorem machine_fails_iff_eval x :
    (exists st, machine_exec prof jet_cost jet_sem t m0 None = Err (x, st)) <->
    (exists e, eval jet_sem t SU = RErr e /\ x = err_of e).
  Proof.
    pose proof master as M. split.
    - intros (st & E). destruct (eval jet_sem t SU) as [b|e|] eqn:Ev.
      + destruct M as (st' & bits & E' & _). rewrite E in E'. discriminate.
      + destruct M as (st' & E'). rewrite E in E'. injection E' as -> _. exists e. auto.
      + contradiction.
    - intros (e & Ev & ->). rewrite Ev in M. destruct M as (st & E). exists st. exact E.
  Qed.

  (* never a panic, never out of fuel, never a resource-limit error once for_program accepted *)
  Theorem machine_total :
    match machine_exec prof jet_cost jet_sem t m0 None with
    | Ok _ => True
    | Err (ReachedPrunedBranch _, _) | Err (ReachedFailNode _, _) | Err (EJetFailed, _) => True
    | _ => False
    end.
  Proof.
    pose proof master as M. destruct (eval jet_sem t SU) as [b|e|] eqn:Ev; [| |contradiction].
    - destruct M as (st & bits & E & _). rewrite E. exact I.
    - destruct M as (st & E). rewrite E. destruct e; exact I.
  Qed.
End OneOne.

(* the distinction the comparison makes (success / assertion / fail node / jet failure) is faithful:
   different semantic failures give different machine errors *)
Lemma err_of_inj e1 e2 : err_of e1 = err_of e2 -> e1 = e2.
Proof. destruct e1, e2; cbn; intros H; try discriminate H; try reflexivity; injection H as ->; reflexivity. Qed.

(* instance for the specified Core jets *)
Theorem specified_jets_success_iff prof jet_cost t :
  typed jet_spec_ty t One One ->
  check_program prof (bw One) (bw One) (bounds jet_cost t) = Ok tt ->
  forall m0, length m0 = N.to_nat (machine_cells jet_cost t) ->
    ((exists st bits, machine_exec prof jet_cost jet_spec t m0 None = Ok (st, bits)) <->
     eval jet_spec t SU = ROk SU).
Proof. exact (machine_succeeds_iff_eval prof jet_spec_ty jet_cost jet_spec t jet_spec_typed). Qed.
