(* Non-vacuity of the hypotheses of the C05/C07 theorems: concrete well-typed programs that
   pass the limit check, executed by the machine model on a dirty buffer. *)
From RS Require Import Lib.Tac Lib.Outcome Lib.Bits Ty.Ty Core.Prog Core.Term Core.Typing Core.Sem
  Core.Bounds Core.Limits Core.Machine Core.MachineLemmas Core.MachineCorrect Core.MachineCorrect2
  Core.ExecCorrect.
Import ListNotations.
Local Open Scope N_scope.

Definition no_jet_ty : N -> option arrow := fun _ => None.
Definition no_jet_sem : N -> sval -> option sval := fun _ _ => None.
Definition no_jet_cost : N -> N := fun _ => 0.

Lemma no_jets_typed : jets_typed no_jet_ty no_jet_sem.
Proof. intros j A B a b H. discriminate. Qed.

Definition W1 : ty := word_ty 1.

(* 1. a case through a padded sum: (1 + 2^2) * 1 -> 2; left values carry two padding cells *)
Definition ex_case : term :=
  Case (Prod (Sum One W1) One, Bit)
       (InjL (Prod One One, Bit) (Unit (Prod One One, One)))
       (Take (Prod W1 One, Bit) (Take (W1, Bit) (Iden (Bit, Bit)))).

(* 2. a comp through a product: 2 -> 2 *)
Definition ex_comp : term :=
  Comp (Bit, Bit) (Pair (Bit, Prod Bit Bit) (Iden (Bit, Bit)) (Iden (Bit, Bit)))
                  (Take (Prod Bit Bit, Bit) (Iden (Bit, Bit))).

(* 3. a disconnect: 1 -> 2^256 * 1, returns the CMR of its right branch *)
Definition ex_cmr : list N := repeat 171 32.
Definition ex_disc : term :=
  Disconnect (One, Prod W256 One) (Iden (Prod W256 One, Prod W256 One)) (Unit (One, One)) ex_cmr.

Definition dirty (t : term) : list bool := repeat true (N.to_nat (machine_cells no_jet_cost t)).

Example ex_case_typed : typed no_jet_ty ex_case (Prod (Sum One W1) One) Bit.
Proof. apply (wt_typed no_jet_ty ex_case). vm_compute. reflexivity. Qed.

Example ex_case_accepted :
  check_program Debug (bw (Prod (Sum One W1) One)) (bw Bit) (bounds no_jet_cost ex_case) = Ok tt.
Proof. vm_compute. reflexivity. Qed.

(* right value 2^2 = (1,0): the result is its first bit; the padded input is 1 1 0 *)
Example ex_case_right :
  eval no_jet_sem ex_case (SP (SR (SP (SR SU) (SL SU))) SU) = ROk (SR SU) /\
  exists st, machine_exec Debug no_jet_cost no_jet_sem ex_case (dirty ex_case)
               (Some (Prod (Sum One W1) One, [true; true; false])) = Ok (st, [true]).
Proof. split; [reflexivity|]. eexists. vm_compute. reflexivity. Qed.

(* left value: two padding cells with arbitrary contents (here 1 1) *)
Example ex_case_left :
  eval no_jet_sem ex_case (SP (SL SU) SU) = ROk (SL SU) /\
  exists st, machine_exec Release no_jet_cost no_jet_sem ex_case (dirty ex_case)
               (Some (Prod (Sum One W1) One, [false; true; true])) = Ok (st, [false]).
Proof. split; [reflexivity|]. eexists. vm_compute. reflexivity. Qed.

Example ex_comp_typed : typed no_jet_ty ex_comp Bit Bit.
Proof. apply (wt_typed no_jet_ty ex_comp). vm_compute. reflexivity. Qed.

Example ex_comp_accepted : check_program Debug (bw Bit) (bw Bit) (bounds no_jet_cost ex_comp) = Ok tt.
Proof. vm_compute. reflexivity. Qed.

Example ex_comp_run :
  eval no_jet_sem ex_comp (SR SU) = ROk (SR SU) /\
  exists st, machine_exec Debug no_jet_cost no_jet_sem ex_comp (dirty ex_comp) (Some (Bit, [true])) = Ok (st, [true]) /\
             hwc st = 4 /\ hwf st = 3 /\ bounds no_jet_cost ex_comp = mkNB 2 1 605.
Proof. split; [reflexivity|]. eexists. vm_compute. repeat split. Qed.

Example ex_disc_typed : typed no_jet_ty ex_disc One (Prod W256 One).
Proof. apply (wt_typed no_jet_ty ex_disc). vm_compute. reflexivity. Qed.

Example ex_disc_accepted :
  check_program Debug (bw One) (bw (Prod W256 One)) (bounds no_jet_cost ex_disc) = Ok tt.
Proof. vm_compute. reflexivity. Qed.

Example ex_disc_run :
  eval no_jet_sem ex_disc SU = ROk (SP (cmr_value ex_cmr) SU) /\
  exists st, machine_exec Debug no_jet_cost no_jet_sem ex_disc (dirty ex_disc) None
             = Ok (st, bits_of_bytes ex_cmr) /\ hwf st = 3 /\ hwc st = 768.
Proof. split; [reflexivity|]. eexists. vm_compute. repeat split. Qed.

(* a failing path: assertion reaching its hidden side *)
Definition ex_assert : term :=
  AssertL (Prod Bit One, One) (Unit (Prod One One, One)) (repeat 7 32).
Example ex_assert_run :
  typed no_jet_ty ex_assert (Prod Bit One) One /\
  eval no_jet_sem ex_assert (SP (SR SU) SU) = RErr (Pruned (repeat 7 32)) /\
  exists st, machine_exec Debug no_jet_cost no_jet_sem ex_assert (dirty ex_assert) (Some (Prod Bit One, [true]))
             = Err (ReachedPrunedBranch (repeat 7 32), st).
Proof.
  split; [apply (wt_typed no_jet_ty ex_assert); vm_compute; reflexivity|].
  split; [reflexivity|]. eexists. vm_compute. reflexivity.
Qed.
