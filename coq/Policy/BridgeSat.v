(* C16 - the programs built by the satisfier translate (Policy/Bridge.v [xl]) at type 1 -> 1:
   every fragment of serialize.rs has the fixed type the translation expects, hidden branches
   become assertions of the same type, pruning keeps the type.  Hence for a truthful satisfier
   the program returned by Policy::satisfy is a well-typed Core term that evaluates to () in the
   big-step semantics of Core/Sem.v. *)
From Coq Require Import Permutation Sorted.
From RS Require Import Lib.Tac Lib.Outcome Lib.Bits Ty.Ty.
From RS Require Core.Prog Core.Term Core.Typing Core.Sem.
From RS Require Import Policy.PolicyAst Policy.Sort Policy.Compile Policy.Satisfy Policy.Sem Policy.Bridge.
Import ListNotations.
Local Open Scope N_scope.
Local Open Scope outcome_scope.
Set Implicit Arguments.

(* the ranges of the Rust field types that the translation relies on: x-only keys and SHA-256
   images are 32 bytes, relative timelocks are u16 *)
Fixpoint in_range (p : policy) : Prop :=
  match p with
  | Key k => k < 2 ^ 256
  | Sha256 h => h < 2 ^ 256
  | Older n => n < 2 ^ 16
  | And l r | Or l r => in_range l /\ in_range r
  | Thresh _ subs =>
      (fix all (l : list policy) : Prop := match l with [] => True | x :: t => in_range x /\ all t end) subs
  | _ => True
  end.

Lemma in_range_thresh_Forall k subs : in_range (Thresh k subs) -> Forall in_range subs.
Proof. cbn [in_range]. induction subs as [|x t IH]; intros Hc; constructor; destruct Hc; auto. Qed.

Section BridgeSat.
  Variable H : Type.
  Variable hf : hashfns H.
  Variable H_eqb : H -> H -> bool.
  Hypothesis H_eqb_refl : forall a, H_eqb a a = true.
  Variable fin_cost : node H -> option N.
  Variable cmax : N.

  Notation node := (node H).
  Notation SatResult := (SatResult H).
  Notation hal := (hal hf).
  Notation satisfy_internal := (satisfy_internal hf fin_cost cmax).

  (* a satisfied result translates at 1 -> 1 *)
  Definition tr1 (r : SatResult) : Prop := forall a, r = inl a -> xlty a One = Some One.

  Lemma ltb_true a b : a < b -> (a <? b) = true.
  Proof. apply N.ltb_lt. Qed.

  (* ---- leaves *)
  Lemma key_xl k : k < 2 ^ 256 -> tr1 (f_key hal k (Some (WSig k))).
  Proof.
    intros Hk a [= <-]. cbn [xlty]. rewrite Typing.ty_eqb_refl. cbn [andb].
    change (is_pow2 256) with true. cbn [andb]. rewrite (ltb_true Hk). reflexivity.
  Qed.

  Lemma after_xl n : n < 2 ^ 32 -> tr1 (f_after hal n).
  Proof.
    intros Hn a [= <-]. cbn [xlty]. rewrite Typing.ty_eqb_refl. change (is_pow2 32) with true. cbn [andb].
    rewrite (ltb_true Hn). reflexivity.
  Qed.

  Lemma older_xl n : n < 2 ^ 16 -> tr1 (f_older hal n).
  Proof.
    intros Hn a [= <-]. cbn [xlty]. rewrite Typing.ty_eqb_refl. change (is_pow2 16) with true. cbn [andb].
    rewrite (ltb_true Hn). reflexivity.
  Qed.

  Lemma sha_xl h : h < 2 ^ 256 -> tr1 (f_sha256 hal h (Some (WPre h))).
  Proof.
    intros Hh a [= <-]. cbn [xlty]. rewrite Typing.ty_eqb_refl. change (is_pow2 256) with true. cbn [andb].
    rewrite (ltb_true Hh). reflexivity.
  Qed.

  (* ---- and / or *)
  Lemma and_xl (l r : SatResult) : tr1 l -> tr1 r -> tr1 (f_and hal l r).
  Proof.
    intros Hl Hr a Ha. destruct l as [x|], r as [y|]; try discriminate. injection Ha as <-.
    cbn [xlty]. rewrite (Hl x eq_refl). apply (Hr y eq_refl).
  Qed.

  Lemma or_xl (l r : SatResult) b : tr1 l -> tr1 r -> tr1 (f_or hal l r (Some (WBit b))).
  Proof.
    intros Hl Hr a Ha. destruct l as [x|hx], r as [y|hy]; try discriminate; injection Ha as <-; cbn [xlty wit_ty].
    - rewrite (Hl x eq_refl), (Hr y eq_refl). reflexivity.
    - rewrite (Hl x eq_refl). reflexivity.
    - rewrite (Hr y eq_refl). reflexivity.
  Qed.

  (* ---- thresholds *)
  Definition child_okx (cw : SatResult * option wval) : Prop :=
    (exists b, snd cw = Some (WBit b)) /\ tr1 (fst cw).

  Lemma summand_xl c w : child_okx (c, w) ->
    exists m, f_thresh_summand hal c w = inl m /\ xlty m One = Some W32.
  Proof.
    intros [[b Hb] Hc]. cbn [fst snd] in *. subst w. destruct c as [a|h]; eexists; (split; [reflexivity|]).
    - nalg. cbn [xlty wit_ty]. rewrite (Hc a eq_refl). reflexivity.
    - nalg. reflexivity.
  Qed.

  Lemma add_xl acc sm : xlty acc One = Some W32 -> xlty sm One = Some W32 ->
    exists m, f_thresh_add hal (inl acc) (inl sm) = inl m /\ xlty m One = Some W32.
  Proof.
    intros Ha Hs. eexists; split; [reflexivity|]. nalg. cbn [xlty]. rewrite Ha, Hs. reflexivity.
  Qed.

  Lemma sum_xl rest : forall acc,
    Forall child_okx rest -> xlty acc One = Some W32 ->
    exists m, f_thresh_sum hal (inl acc) rest = inl m /\ xlty m One = Some W32.
  Proof.
    induction rest as [|[c w] t IH]; intros acc HF Ha.
    - exists acc. split; [reflexivity|exact Ha].
    - inversion HF as [|? ? Hc Ht]; subst.
      destruct (summand_xl Hc) as (sm & Es & Hs).
      destruct (@add_xl acc sm Ha Hs) as (m1 & E1 & H1).
      cbn [f_thresh_sum]. rewrite Es, E1. apply IH; auto.
  Qed.

  Lemma f_threshold_xl k (res : list SatResult) wits n :
    f_threshold hal k res wits = Ok (inl n) -> Forall child_okx (combine res wits) -> k < 2 ^ 32 ->
    xlty n One = Some One.
  Proof.
    intros ET Hall Hk. unfold f_threshold in ET.
    destruct (2 ^ 32 <=? N.of_nat (length res)); [discriminate|].
    destruct (N.of_nat (length res) <? k); [discriminate|].
    destruct res as [|r0 rt]; [discriminate|]. destruct wits as [|w0 wt]; [discriminate|].
    cbn [combine] in Hall. inversion Hall as [|? ? Hc0 Hrest]; subst.
    destruct (summand_xl Hc0) as (sm & Es & Hsm). rewrite Es in ET.
    destruct (@sum_xl (combine rt wt) sm Hrest Hsm) as (m & Em & Hm). rewrite Em in ET.
    apply ok_inj in ET. injection ET as <-.
    cbn [xlty]. rewrite Typing.ty_eqb_refl. change (is_pow2 32) with true. cbn [andb].
    rewrite (ltb_true Hk), Hm. reflexivity.
  Qed.

  Lemma Forall_combine_seq' {X Y} (P : X * Y -> Prop) (g : nat -> Y) (l : list X) : forall a,
    (forall x j, In x l -> P (x, g j)) ->
    Forall P (combine l (map g (seq a (length l)))).
  Proof.
    induction l as [|x t IH]; intros a Hj; [constructor|].
    cbn [length seq map combine]. constructor.
    - apply Hj. left. reflexivity.
    - apply IH. intros y j Hy. apply Hj. right. exact Hy.
  Qed.

  Lemma threshold_xl k (res : list SatResult) r :
    Forall tr1 res -> sat_threshold hf fin_cost cmax k res = Ok r -> tr1 r.
  Proof.
    intros Hres Hs a ->. unfold sat_threshold in Hs.
    destruct (2 ^ 32 <=? k) eqn:Ek; [discriminate|]. apply N.leb_gt in Ek.
    set (sel := select_indices k (map (cost_of fin_cost cmax) res)) in *.
    set (wits := map (fun i => opt_bit (existsb (Nat.eqb i) sel)) (seq 0 (length res))) in *.
    destruct (f_threshold hal k res wits) as [t| | |] eqn:ET; cbn [obind] in Hs; try discriminate.
    apply ok_inj in Hs.
    destruct (forallb (fun i => is_node (nth i res (inr (h_unit hf)))) sel); cbn [ok_if] in Hs;
      [subst t|destruct t; discriminate].
    eapply f_threshold_xl; eauto.
    unfold wits. apply Forall_combine_seq'. intros x j Hx. split; cbn [fst snd].
    - eexists; reflexivity.
    - rewrite Forall_forall in Hres. apply Hres. exact Hx.
  Qed.

  (* ---- satisfy_internal *)
  Theorem satisfy_internal_xl s p : in_range p -> forall r, satisfy_internal s p = Ok r -> tr1 r.
  Proof.
    induction p using policy_ind'; intros HR r Hr.
    - cbn in Hr. injection Hr as <-. intros a Ha. discriminate.
    - cbn in Hr. injection Hr as <-. intros a [= <-]. reflexivity.
    - cbn [Satisfy.satisfy_internal] in Hr. apply ok_inj in Hr. subst r.
      destruct (s_sig s k); cbn [ok_if]; [apply key_xl; exact HR|intros a Ha; discriminate].
    - cbn [Satisfy.satisfy_internal] in Hr. destruct (HEIGHT_LIMIT <=? n) eqn:E; [discriminate|].
      apply N.leb_gt in E. apply ok_inj in Hr. subst r.
      destruct (s_after s n); cbn [ok_if]; [apply after_xl; unfold HEIGHT_LIMIT in E; lia|intros a Ha; discriminate].
    - cbn [Satisfy.satisfy_internal] in Hr. apply ok_inj in Hr. subst r.
      destruct (s_older s n); cbn [ok_if]; [apply older_xl; exact HR|intros a Ha; discriminate].
    - cbn [Satisfy.satisfy_internal] in Hr. apply ok_inj in Hr. subst r.
      destruct (s_pre s h); cbn [ok_if]; [apply sha_xl; exact HR|intros a Ha; discriminate].
    - destruct HR as [R1 R2]. cbn [Satisfy.satisfy_internal] in Hr.
      destruct (satisfy_internal s p1) as [l'| | |] eqn:E1; cbn [obind] in Hr; try discriminate.
      destruct (satisfy_internal s p2) as [r'| | |] eqn:E2; cbn [obind] in Hr; try discriminate.
      apply ok_inj in Hr. subst r. apply and_xl; auto.
    - destruct HR as [R1 R2]. cbn [Satisfy.satisfy_internal] in Hr.
      destruct (satisfy_internal s p1) as [l'| | |] eqn:E1; cbn [obind] in Hr; try discriminate.
      destruct (satisfy_internal s p2) as [r'| | |] eqn:E2; cbn [obind] in Hr; try discriminate.
      unfold sat_or in Hr.
      match type of Hr with (obind ?X _) = _ => destruct X as [tr| | |]; cbn [obind] in Hr; try discriminate end.
      apply ok_inj in Hr. subst r.
      destruct (is_node l' || is_node r'); cbn [ok_if].
      + unfold opt_bit. apply or_xl; auto.
      + intros a Ha. destruct (f_or hal l' r' (opt_bit tr)); discriminate.
    - rewrite satisfy_internal_thresh in Hr.
      destruct (omapM (satisfy_internal s) subs) as [res| | |] eqn:E; cbn [obind] in Hr; try discriminate.
      eapply threshold_xl; [|exact Hr].
      pose proof (in_range_thresh_Forall _ _ HR) as HRF.
      clear Hr HR. revert res E HRF.
      match goal with HF : Forall _ subs |- _ => induction HF as [|x t Hx _ IH] end; intros res E HRF.
      + cbn in E. injection E as <-. constructor.
      + inversion HRF as [|? ? Rx Rt]; subst. cbn [omapM] in E.
        destruct (satisfy_internal s x) as [x'| | |] eqn:Ex; cbn [obind] in E; try discriminate.
        destruct (omapM (satisfy_internal s) t) as [t'| | |]; cbn [obind] in E; try discriminate.
        injection E as <-. constructor; auto.
  Qed.

  (* ---- pruning keeps the type *)
  Variable e : envo.

  Lemma prune_with_xlty tr n : forall A B, xlty n A = Some B -> xlty (prune_with hf H_eqb tr n) A = Some B.
  Proof.
    induction n; intros A B Hx; cbn [prune_with]; try exact Hx; cbn [xlty] in *.
    - destruct A as [| |X Y]; try discriminate. auto.
    - destruct A as [| |X Y]; try discriminate. auto.
    - destruct (xlty n1 A) as [M|] eqn:E1; [|discriminate]. rewrite (IHn1 _ _ E1). auto.
    - destruct A as [| |[|X Y|] Z]; try discriminate.
      destruct (xlty n1 (Prod X Z)) as [D|] eqn:E1; [|discriminate].
      destruct (xlty n2 (Prod Y Z)) as [D'|] eqn:E2; [|discriminate].
      destruct (ty_eqb D D') eqn:Ed; [|discriminate]. injection Hx as <-.
      pose proof Ed as Ed'. apply ty_eqb_eq in Ed'. subst D'.
      destruct (tracked H_eqb tr (NCase n1 n2) false), (tracked H_eqb tr (NCase n1 n2) true); cbn [xlty];
        rewrite ?(IHn1 _ _ E1), ?(IHn2 _ _ E2), ?Ed; reflexivity.
    - destruct A as [| |[|X Y|] Z]; try discriminate. auto.
    - destruct A as [| |[|X Y|] Z]; try discriminate. auto.
    - destruct (xlty n1 A) as [M|] eqn:E1; [|discriminate].
      destruct (xlty n2 A) as [C|] eqn:E2; [|discriminate].
      rewrite (IHn1 _ _ E1), (IHn2 _ _ E2). exact Hx.
  Qed.

  Lemma prune_once_xlty n n' A B : prune_once hf H_eqb e n = Some n' -> xlty n A = Some B -> xlty n' A = Some B.
  Proof.
    unfold prune_once. destruct (eval e n VUnit); [|discriminate]. intros [= <-]. apply prune_with_xlty.
  Qed.

  Lemma prune_loop_xlty fuel : forall p p' A B,
    prune_loop hf H_eqb e fuel p = Some p' -> xlty p A = Some B -> xlty p' A = Some B.
  Proof.
    induction fuel as [|f IH]; intros p p' A B Hl Hx; [discriminate|].
    cbn [prune_loop] in Hl. destruct (prune_once hf H_eqb e p) as [again|] eqn:E; [|discriminate].
    pose proof (prune_once_xlty _ _ E Hx) as Hx'.
    destruct (node_eqb H_eqb again p).
    - injection Hl as <-. exact Hx'.
    - eapply IH; eauto.
  Qed.

  Lemma prune_xlty n n' A B : prune hf H_eqb e n = Some n' -> xlty n A = Some B -> xlty n' A = Some B.
  Proof.
    unfold prune. destruct (prune_once hf H_eqb e n) as [p|] eqn:E; [|discriminate]. intros Hl Hx.
    eapply prune_loop_xlty; [exact Hl|]. eapply prune_once_xlty; eauto.
  Qed.

  (* ---- Policy::satisfy *)
  Theorem satisfy_xlty s p prog : in_range p ->
    satisfy hf H_eqb e fin_cost cmax s p = Ok prog -> xlty prog One = Some One.
  Proof.
    intros HR. unfold satisfy. destruct (satisfy_unpruned hf fin_cost cmax s p) as [u| | |] eqn:E; try discriminate.
    destruct (prune hf H_eqb e u) as [pr|] eqn:EP; [|discriminate]. intros [= <-].
    eapply prune_xlty; [exact EP|].
    unfold satisfy_unpruned in E. destruct (satisfy_internal s p) as [[n|h]| | |] eqn:Ei; try discriminate.
    destruct (fin_cost n); [|discriminate]. injection E as <-.
    exact (satisfy_internal_xl s p HR Ei eq_refl).
  Qed.

  (* ---- the returned program, as a Core term *)
  Variable h_bytes : H -> list N.
  Variable entropy : N -> list N.
  Variable sig_bits : N -> list bool.
  Variable pre_bits : N -> list bool.
  Variable msg_bits : list bool.
  Variable ctx_sval : list val -> sval.
  Variable jid : jet -> N.
  Hypothesis sig_len : forall k, length (sig_bits k) = 512%nat.
  Hypothesis pre_len : forall h, length (pre_bits h) = 256%nat.
  Variable cj_ty : N -> option Bridge.arrow.
  Hypothesis jets_ty : forall j, cj_ty (jid j) = Some (jsrc j, jtgt j).
  Variable cj : N -> sval -> option sval.
  Hypothesis Hagree : jets_agree sig_bits pre_bits msg_bits ctx_sval jid e cj.

  Notation xl := (xl h_bytes entropy sig_bits pre_bits jid).

  (* for a truthful satisfier the program returned by Policy::satisfy is (translates to) a
     well-typed Core term 1 -> 1 whose big-step evaluation on () succeeds *)
  Theorem satisfy_runs_core s p prog : truthful e s -> in_range p ->
    satisfy hf H_eqb e fin_cost cmax s p = Ok prog ->
    exists t, xl prog One = Some (t, One) /\ typed cj_ty t One One /\ ceval cj t SU = ROk SU.
  Proof.
    intros Ht HR Hs.
    destruct (xlty_xl h_bytes entropy sig_bits pre_bits jid _ _ (satisfy_xlty s p HR Hs)) as (t & Et).
    exists t. split; [exact Et|]. split.
    - eapply xl_typed; eauto.
    - destruct (@satisfy_sound H hf H_eqb H_eqb_refl e fin_cost cmax s Ht p prog Hs) as [_ Hrun].
      destruct (xl_eval h_bytes entropy Hagree prog One VUnit Et eq_refl Hrun) as [R _]. exact R.
  Qed.
End BridgeSat.
