//! C14 harness: observations of the jet tables through the real library, the C tables through the
//! test-utils FFI of simplicity-sys, and one guarded execution of every jet.
//!
//! Case kinds (`t[0]`), families: `core` | `elements`
//!   jet  <fam> <idx>      Rust side, in the format of coq/Jets/Run.v `run_jet`
//!   tmr  <fam> <idx>      TypeName::tmr vs to_final().tmr(), Final::bit_width, raw TMR bytes
//!   cjet <idx>            Elements jet <idx> decoded, type-inferred and priced by libsimplicity
//!   exec <fam> <idx>      jet executed once on an all-zero input of its declared width
//!   dec  <fam> <bits>     Jet::decode on an arbitrary bit string (multiple of 8 bits)
//!   parse <fam> <name>    FromStr on an arbitrary name
//!   sanity                simplicity_sys::c_jets::sanity_checks()
use crate::util::*;
use simplicity::jet::elements::{ElementsEnv, ElementsUtxo};
use simplicity::jet::{Core, CoreEnv, Elements, Jet};
use simplicity::node::{CoreConstructible, SimpleFinalizer};
use simplicity::types::{self, Final};
use simplicity::{BitIter, BitMachine, BitWriter, ConstructNode, Value};
use std::sync::Arc;

fn word_log(t: &Final) -> Option<u64> {
    if let Some((l, r)) = t.as_sum() {
        if l.is_unit() && r.is_unit() {
            return Some(0);
        }
        return None;
    }
    if let Some((a, b)) = t.as_product() {
        return match (word_log(a), word_log(b)) {
            (Some(x), Some(y)) if x == y => Some(x + 1),
            _ => None,
        };
    }
    None
}

/// compact, injective printing of a type (mirror of Jets/Run.v ty_compact)
fn ty_compact(t: &Final, out: &mut Vec<u64>) {
    if let Some(k) = word_log(t) {
        out.push(3);
        out.push(k);
    } else if t.is_unit() {
        out.push(0);
    } else if let Some((a, b)) = t.as_sum() {
        out.push(1);
        ty_compact(a, out);
        ty_compact(b, out);
    } else if let Some((a, b)) = t.as_product() {
        out.push(2);
        ty_compact(a, out);
        ty_compact(b, out);
    } else {
        out.push(99);
    }
}

fn with_len(v: Vec<u64>, out: &mut Vec<u64>) {
    out.push(v.len() as u64);
    out.extend(v);
}

fn bits_of_bytes(bytes: &[u8], n: usize) -> Vec<bool> {
    (0..n).map(|i| bytes[i / 8] & (0x80 >> (i % 8)) != 0).collect()
}

fn pack(bits: &[bool]) -> Vec<u8> {
    let mut v = vec![0u8; bits.len().div_ceil(8)];
    for (i, b) in bits.iter().enumerate() {
        if *b {
            v[i / 8] |= 0x80 >> (i % 8);
        }
    }
    v
}

fn encode_bits<J: Jet>(jet: &J) -> Vec<bool> {
    let mut bytes = Vec::new();
    let n = {
        let mut w = BitWriter::new(&mut bytes as &mut dyn std::io::Write);
        let n = jet.encode(&mut w).expect("vec write");
        w.flush_all().expect("flush");
        n
    };
    bits_of_bytes(&bytes, n)
}

fn show_decode<J: Jet + PartialEq>(all: &[J], bits: &[bool]) -> Vec<u64> {
    let bytes = pack(bits);
    let mut it = BitIter::from(&bytes[..]);
    match guarded(|| {
        let r = J::decode(&mut it);
        (r, it.n_total_read())
    }) {
        None => vec![9, 0],
        Some((Ok(j), n)) => match all.iter().position(|x| *x == j) {
            Some(p) => vec![0, p as u64, n as u64],
            None => vec![7],
        },
        Some((Err(simplicity::decode::Error::EndOfStream), _)) => vec![1],
        Some((Err(simplicity::decode::Error::InvalidJet), _)) => vec![2],
        Some((Err(_), _)) => vec![3],
    }
}

fn show_type(tn: &simplicity::jet::type_name::TypeName, out: &mut Vec<u64>) {
    match guarded(|| (tn.to_bit_width(), tn.to_final())) {
        None => out.push(9),
        Some((w, f)) => {
            out.push(0);
            out.push(w as u64);
            let mut c = Vec::new();
            ty_compact(&f, &mut c);
            with_len(c, out);
        }
    }
}

fn jet_case<J: Jet + PartialEq + Copy + std::str::FromStr>(all: &[J], idx: usize) -> Vec<u64> {
    if idx >= all.len() {
        return vec![7];
    }
    let jet = all[idx];
    let mut out = Vec::new();
    // encode, then decode of exactly those bits padded with zeros to a byte
    match guarded(|| encode_bits(&jet)) {
        None => out.push(9),
        Some(bits) => {
            let mut v: u64 = 0;
            for b in &bits {
                v = 2 * v + (*b as u64);
            }
            out.extend([0, bits.len() as u64, v]);
            let mut d = show_decode(all, &bits);
            // the model reports consumed bits as well
            out.append(&mut d);
        }
    }
    let name = format!("{}", jet);
    with_len(name.bytes().map(|b| b as u64).collect(), &mut out);
    match J::from_str(&name) {
        Ok(j) => match all.iter().position(|x| *x == j) {
            Some(p) => out.extend([0, p as u64]),
            None => out.push(7),
        },
        Err(_) => out.push(1),
    }
    match guarded(|| jet.cmr()) {
        Some(c) => with_len(c.to_byte_array().iter().map(|b| *b as u64).collect(), &mut out),
        None => out.push(9),
    }
    show_type(&jet.source_ty(), &mut out);
    show_type(&jet.target_ty(), &mut out);
    match guarded(|| format!("{}", jet.cost())) {
        Some(s) => out.push(s.parse::<u64>().unwrap_or(u64::MAX)),
        None => out.push(9),
    }
    out
}

fn tmr_case<J: Jet>(all: &[J], idx: usize) -> Vec<u64> {
    if idx >= all.len() {
        return vec![7];
    }
    let jet = &all[idx];
    let mut out = Vec::new();
    for tn in [jet.source_ty(), jet.target_ty()] {
        match guarded(|| (tn.tmr(), tn.to_final())) {
            None => out.push(9),
            Some((t, f)) => {
                out.push((t == f.tmr()) as u64);
                out.push((f.bit_width() == tn.to_bit_width()) as u64);
                out.push(f.bit_width() as u64);
                out.extend(t.to_byte_array().iter().map(|b| *b as u64));
            }
        }
    }
    out
}

pub fn dummy_elements_env() -> ElementsEnv<Arc<simplicity::elements::Transaction>> {
    use simplicity::elements::{self, confidential, taproot::ControlBlock, AssetIssuance};
    let ctrl_blk: [u8; 33] = [
        0xc0, 0xeb, 0x04, 0xb6, 0x8e, 0x9a, 0x26, 0xd1, 0x16, 0x04, 0x6c, 0x76, 0xe8, 0xff, 0x47, 0x33, 0x2f, 0xb7, 0x1d,
        0xda, 0x90, 0xff, 0x4b, 0xef, 0x53, 0x70, 0xf2, 0x52, 0x26, 0xd3, 0xbc, 0x09, 0xfc,
    ];
    ElementsEnv::new(
        Arc::new(elements::Transaction {
            version: 2,
            lock_time: elements::LockTime::ZERO,
            input: vec![elements::TxIn {
                previous_output: elements::OutPoint::default(),
                is_pegin: false,
                script_sig: elements::Script::new(),
                sequence: elements::Sequence::MAX,
                asset_issuance: AssetIssuance::default(),
                witness: elements::TxInWitness::default(),
            }],
            output: Vec::default(),
        }),
        vec![ElementsUtxo {
            script_pubkey: elements::Script::new(),
            asset: confidential::Asset::Null,
            value: confidential::Value::Null,
        }],
        0,
        simplicity::Cmr::from_byte_array([0; 32]),
        ControlBlock::from_slice(&ctrl_blk).unwrap(),
        None,
        elements::BlockHash::GENESIS_PREVIOUS_BLOCK_HASH,
    )
}

/// 0 ok (1 = output of the declared target type) | 1 JetFailed | 2.. other errors | 9 panic
fn exec_case<JE: simplicity::jet::JetEnvironment>(jet: &JE::Jet, env: &JE) -> Vec<u64> {
    let r = guarded(|| {
        types::Context::with_context(|ctx| {
            let node = Arc::<ConstructNode>::jet(&ctx, jet);
            let commit = match node.finalize_types_non_program() {
                Ok(c) => c,
                Err(_) => return vec![5],
            };
            let redeem = match commit.finalize(&mut SimpleFinalizer::new(None.into_iter())) {
                Ok(r) => r,
                Err(_) => return vec![6],
            };
            let src = jet.source_ty().to_final();
            let tgt = jet.target_ty().to_final();
            let mut mac = match BitMachine::for_program(&redeem) {
                Ok(m) => m,
                Err(_) => return vec![4],
            };
            if mac.input(&Value::zero(&src)).is_err() {
                return vec![3];
            }
            use simplicity::bit_machine::ExecutionError as E;
            match mac.exec(&redeem, env) {
                Ok(v) => vec![0, v.is_of_type(&tgt) as u64, src.bit_width() as u64, tgt.bit_width() as u64],
                Err(E::JetFailed(_)) => vec![1, 0, src.bit_width() as u64, tgt.bit_width() as u64],
                Err(E::JetTypeMismatch) => vec![2],
                Err(_) => vec![8],
            }
        })
    });
    r.unwrap_or_else(|| vec![9])
}

struct FreeOnDrop(*mut u8);
impl Drop for FreeOnDrop {
    fn drop(&mut self) {
        unsafe {
            simplicity::ffi::alloc::rust_0_7_free(self.0);
        }
    }
}

fn words_to_bytes(s: &[u32; 8], out: &mut Vec<u64>) {
    for w in s {
        for b in w.to_be_bytes() {
            out.push(b as u64);
        }
    }
}

/// The Elements jet through libsimplicity: the one-node expression consisting of the jet is decoded
/// (decodeMallocDag with elements_decodeJet), typed (mallocTypeInference with elements_mallocBoundVars).
/// Output: 0, tag is JET, cmr (32 bytes), cost, source bit size, source TMR (32), target bit size, target TMR (32)
fn cjet_case(idx: usize) -> Vec<u64> {
    use simplicity::ffi::tests::ffi::{
        bitstream::CBitstream,
        dag::{CCombinatorCounters, CTag},
        deserialize::simplicity_decodeMallocDag,
        elements::{simplicity_elements_decodeJet, simplicity_elements_mallocBoundVars},
        type_inference::simplicity_mallocTypeInference,
        SimplicityErr,
    };
    if idx >= Elements::ALL.len() {
        return vec![7];
    }
    let jet = Elements::ALL[idx];
    let prog: Vec<u8> = types::Context::with_context(|ctx| {
        let node = Arc::<ConstructNode>::jet(&ctx, &jet);
        node.finalize_types_non_program().expect("types").to_vec_without_witness()
    });
    let mut out = Vec::new();
    unsafe {
        let mut stream = CBitstream::from(&prog[..]);
        let mut census = CCombinatorCounters::default();
        let mut dag = std::ptr::null_mut();
        let len = simplicity_decodeMallocDag(&mut dag, simplicity_elements_decodeJet, &mut census, &mut stream);
        if len != 1 || dag.is_null() {
            return vec![1, (len as i64 + 1000) as u64];
        }
        let _d1 = FreeOnDrop(dag as *mut u8);
        let node = *dag;
        out.push(0);
        out.push((node.tag == CTag::JET) as u64);
        words_to_bytes(&node.cmr.s, &mut out);
        out.push(node.cost as u64);
        let mut type_dag = std::ptr::null_mut();
        let e = simplicity_mallocTypeInference(&mut type_dag, simplicity_elements_mallocBoundVars, dag, 1, &census);
        if e != SimplicityErr::NoError || type_dag.is_null() {
            out.push(2);
            return out;
        }
        let _d2 = FreeOnDrop(type_dag as *mut u8);
        let tys = (*dag).aux_types.types;
        for k in 0..2 {
            let t = *type_dag.add(tys[k]);
            out.push(t.bit_size as u64);
            words_to_bytes(&t.type_merkle_root.s, &mut out);
        }
    }
    out
}

fn parse_case<J: Jet + PartialEq + std::str::FromStr>(all: &[J], s: &str) -> Vec<u64> {
    let s = if s == "-" { "" } else { s };
    match J::from_str(s) {
        Ok(j) => match all.iter().position(|x| *x == j) {
            Some(p) => vec![0, p as u64],
            None => vec![7],
        },
        Err(_) => vec![1],
    }
}

pub fn run(t: &[&str]) -> String {
    let r: Vec<u64> = match t[0] {
        "jet" => {
            let idx: usize = t[2].parse().expect("idx");
            match t[1] {
                "core" => jet_case(&Core::ALL[..], idx),
                _ => jet_case(&Elements::ALL[..], idx),
            }
        }
        "tmr" => {
            let idx: usize = t[2].parse().expect("idx");
            match t[1] {
                "core" => tmr_case(&Core::ALL[..], idx),
                _ => tmr_case(&Elements::ALL[..], idx),
            }
        }
        "cjet" => guarded(|| cjet_case(t[1].parse().expect("idx"))).unwrap_or_else(|| vec![9]),
        "exec" => {
            let idx: usize = t[2].parse().expect("idx");
            match t[1] {
                "core" => {
                    if idx >= Core::ALL.len() {
                        vec![7]
                    } else {
                        exec_case(&Core::ALL[idx], &CoreEnv::new())
                    }
                }
                _ => {
                    if idx >= Elements::ALL.len() {
                        vec![7]
                    } else {
                        match guarded(dummy_elements_env) {
                            Some(env) => exec_case(&Elements::ALL[idx], &env),
                            None => vec![9, 1],
                        }
                    }
                }
            }
        }
        "dec" => {
            let bits = bits_of_str(t[2]);
            match t[1] {
                "core" => show_decode(&Core::ALL[..], &bits),
                _ => show_decode(&Elements::ALL[..], &bits),
            }
        }
        "parse" => match t[1] {
            "core" => parse_case(&Core::ALL[..], t[2]),
            _ => parse_case(&Elements::ALL[..], t[2]),
        },
        "sanity" => vec![simplicity::ffi::c_jets::sanity_checks() as u64],
        _ => vec![99],
    };
    join(&r)
}
