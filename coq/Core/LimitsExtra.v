(* The hard limits of the Bit Machine, pinned to the documented values.
     src/bit_machine/limits.rs   MAX_CELLS = 2 * 1024 * 1024 * 1024 - 1 ("2 GiB - 1" cells),
                                 MAX_FRAMES = 1024 * 1024
   [MAX_CELLS] / [MAX_FRAMES] are regenerated from the source on every run (Generated/Consts.v),
   so these statements fail to compile when a constant changes; the boundary cases say what the
   constants mean for check_program: a total of exactly MAX_CELLS cells is accepted, one more is
   refused with the error the code reports. *)
From RS Require Import Lib.Tac Lib.Outcome Lib.Bits Ty.Ty Core.Prog Core.Term Core.Bounds Core.Limits
  Generated.Consts.
Import ListNotations.
Local Open Scope N_scope.

Lemma hard_limits : MAX_CELLS = 2 ^ 31 - 1 /\ MAX_FRAMES = 2 ^ 20.
Proof. split; reflexivity. Qed.

Lemma limits_boundary p b : extra_cells b = 0 -> extra_frames b <= 2 ^ 20 - 2 ->
  check_program p 0 (2 ^ 31 - 1) b = Ok tt /\
  check_program p (2 ^ 30) (2 ^ 30 - 1) b = Ok tt /\
  check_program p 0 (2 ^ 31) b = Err (MaxCellsExceeded (2 ^ 31) (2 ^ 31 - 1) 1) /\
  check_program p (2 ^ 30) (2 ^ 30) b = Err (MaxCellsExceeded (2 ^ 31) (2 ^ 31 - 1) 3).
Proof.
  intros Hc Hf. unfold check_program, check_max_cells, check_max_frames, lift_add, usize_add.
  rewrite Hc. change MAX_CELLS with 2147483647. change MAX_FRAMES with 1048576.
  change IO_EXTRA_FRAMES with 2. change usize_max with 18446744073709551615.
  assert (E1 : (1048576 <? extra_frames b) = false) by (apply N.ltb_ge; lia).
  assert (E2 : (1048576 <? extra_frames b + 2) = false) by (apply N.ltb_ge; lia).
  assert (E3 : (extra_frames b + 2 <=? 18446744073709551615) = true) by (apply N.leb_le; lia).
  repeat split; cbn; rewrite ?E1, ?E3; cbn; rewrite ?E2; reflexivity.
Qed.
