(* Executable entry points of the C03 / C06 checks: each maps a case to a flat list of numbers
   in the canonical form produced by tools/props/c03.py / c06.py from the harness output. *)
From RS Require Import Lib.Tac Lib.Outcome Ty.Ty Core.Prog Cdiff.CostRef Cdiff.VerdictRef.
Import ListNotations.
Local Open Scope N_scope.

Fixpoint assoc (l : list (N * N)) (k : N) : N :=
  match l with
  | [] => 0
  | (a, b) :: r => if a =? k then b else assoc r k
  end.

(* kind cost: typed node table of a decoded program (arrows and jet costs as reported by the
   implementation) -> 0 <rust cost> <C cost> <ideal cost clipped>  |  1 (table not annotatable)
   | 9 <code> (the Rust formula panics) *)
Definition run_cost (jets : list (N * N)) (tp : typed_prog) : list N :=
  match annotate (fun _ id => assoc jets id) tp with
  | None => [1]
  | Some ns =>
      match rust_cost ns with
      | Ok r => [0; r; c_cost ns; N.min (ideal_cost ns) u32_max]
      | Panic c => [9; c]
      | _ => [8]
      end
  end.

(* the same program with every witness value erased: must give the same result *)
Definition run_cost_erased (jets : list (N * N)) (tp : typed_prog) : list N :=
  run_cost jets (erase_wit tp).

(* kind classes: the classification tables, for codes 0, -1, .., -(n-1) *)
Definition run_classes (n : nat) : list N :=
  map (fun k => kind_code (c_exec_kind (- Z.of_nat k))) (seq 0 n) ++ [77] ++
  map (fun k => c_decode_class (- Z.of_nat k)) (seq 0 n) ++ [78] ++
  map (fun r => kind_code (rust_exec_kind r)) all_rust_exec.
