(* C18 - the result of the identity conversion denotes the same tree as the source: unfolding
   (un-sharing) the converted vector at the position of an item gives exactly the unfolding of
   the source table at that item's node, for every tracker whose sharing ids are sound (nodes
   with the same id unfold to the same tree - true of pointer identity, of no sharing, and of
   every hash of the structure below a node). *)
From RS Require Import Lib.Tac Lib.Outcome Dag.DagModel Dag.PostOrderSpec Dag.PostOrderProps
  Dag.VisitFacts Dag.Acyclic Dag.Convert Dag.ConvertProps Dag.ConvertStruct.
Import ListNotations.
Local Open Scope N_scope.

Inductive tree (L : Type) : Type := TN (lab : option L) (kids : list (tree L)).
Arguments TN {L} lab kids.

Fixpoint unfold_tree {L} (view : nat -> option (L * list nat)) (h n : nat) : tree L :=
  match h with
  | O => TN None []
  | S h' =>
      match view n with
      | None => TN None []
      | Some (l, ks) => TN (Some l) (map (unfold_tree view h') ks)
      end
  end.

(* fuel above the node does not matter when children sit at smaller positions *)
Lemma unfold_tree_fuel {L} (view : nat -> option (L * list nat)) :
  (forall n l ks, view n = Some (l, ks) -> Forall (fun k => (k < n)%nat) ks) ->
  forall h h' n, (n < h)%nat -> (n < h')%nat -> unfold_tree view h n = unfold_tree view h' n.
Proof.
  intros Hv. induction h as [|h IH]; intros h' n Hh Hh'; [lia|].
  destruct h' as [|h']; [lia|]. cbn [unfold_tree].
  destruct (view n) as [[l ks]|] eqn:E; [|reflexivity]. f_equal.
  apply map_ext_in. intros k Hk. pose proof (Hv n l ks E) as Hf. rewrite Forall_forall in Hf.
  specialize (Hf k Hk). apply IH; lia.
Qed.

Section Tree.
Context {W D : Type}.
Notation SN := (@snode (option nat) W D).
Notation TNd := (@tnode (option nat) W (option D)).

(* what a node is, apart from its children: the combinator with its payloads, the CMR, the cached data *)
Definition label : Type := (inner unit unit W * N * option D)%type.
Definition erase {C X} (i : inner C X W) : inner unit unit W := imap (fun _ => tt) (fun _ => tt) (fun w => w) i.

Definition sview (t : list SN) (n : nat) : option (label * list nat) :=
  match nth_error t n with
  | Some s => Some ((erase (sn_inner s), sn_cmr s, Some (sn_data s)), dag_kids (as_dag dis_id (sn_inner s)))
  | None => None
  end.
Definition rview (tbl : list TNd) (n : nat) : option (label * list nat) :=
  match nth_error tbl n with
  | Some s => Some ((erase (tn_inner s), tn_cmr s, tn_data s), dag_kids (as_dag dis_id (tn_inner s)))
  | None => None
  end.

Definition stree (t : list SN) (n : nat) : tree label := unfold_tree (sview t) (S n) n.

Variable key : nat -> option N.
Variable t : list SN.
Hypothesis Hwf : swf dis_id t.
Variable root : nat.
Hypothesis Hroot : (root < length t)%nat.
(* sound sharing ids *)
Hypothesis Hkey : forall x y k, key x = Some k -> key y = Some k -> stree t x = stree t y.
Notation ch := (src_children dis_id t).
Notation items := (po_spec ch key root).

Lemma sview_wf : forall n l ks, sview t n = Some (l, ks) -> Forall (fun k => (k < n)%nat) ks.
Proof.
  intros n l ks H. unfold sview in H. destruct (nth_error t n) as [s|] eqn:E; [|discriminate].
  injection H as _ <-. pose proof (Hwf n s E) as Hok.
  destruct (as_dag dis_id (sn_inner s)); cbn [dag_kids node_ok] in *; repeat constructor; lia.
Qed.

Lemma quot_tbl_nth : forall (its : list po_item),
  (forall it, In it its -> exists sn, nth_error t (it_node it) = Some sn) ->
  forall i it sn, nth_error its i = Some it -> nth_error t (it_node it) = Some sn ->
  nth_error (quot_tbl t its) i = Some (quot_node it sn).
Proof.
  induction its as [|x r IH]; intros Hall i it sn Hi Hn; [destruct i; discriminate|].
  unfold quot_tbl. cbn [flat_map]. destruct (Hall x (or_introl eq_refl)) as (sx & Ex). rewrite Ex.
  destruct i as [|i]; cbn [nth_error app] in *.
  - injection Hi as ->. rewrite Ex in Hn. injection Hn as ->. reflexivity.
  - apply (IH (fun y Hy => Hall y (or_intror Hy)) i it sn Hi Hn).
Qed.

Lemma rview_some (tbl : list TNd) n s : nth_error tbl n = Some s ->
  rview tbl n = Some ((erase (tn_inner s), tn_cmr s, tn_data s), dag_kids (as_dag dis_id (tn_inner s))).
Proof. intros H. unfold rview. rewrite H. reflexivity. Qed.
Lemma sview_some n s : nth_error t n = Some s ->
  sview t n = Some ((erase (sn_inner s), sn_cmr s, Some (sn_data s)), dag_kids (as_dag dis_id (sn_inner s))).
Proof. intros H. unfold sview. rewrite H. reflexivity. Qed.

Lemma erase_reidx (i : inner nat (option nat) W) li ri : erase (reidx i li ri) = erase i.
Proof. destruct i; reflexivity. Qed.

Lemma same_class_stree c x : same_class key c x -> stree t x = stree t c.
Proof.
  unfold same_class. destruct (key c) as [k|] eqn:E; [intros H; apply (Hkey x c k H E)|intros ->; reflexivity].
Qed.

(* THEOREM: un-sharing the identity conversion at item i gives the un-shared source at that node *)
Theorem quot_tree : forall i h it, (i < h)%nat -> nth_error items i = Some it ->
  unfold_tree (rview (quot_tbl t items)) h i = stree t (it_node it).
Proof.
  pose proof (swf_wfc dis_id t Hwf) as Hwfc.
  assert (Hall : forall it, In it items -> exists sn, nth_error t (it_node it) = Some sn)
    by (intros it Hin; apply (item_node_in dis_id key t Hwf root Hroot it Hin)).
  induction i as [i IH] using lt_wf_ind. intros h it Hh Hi.
  destruct (Hall it (nth_error_In _ _ Hi)) as (sn & Hn).
  destruct h as [|h]; [lia|]. unfold stree. cbn [unfold_tree].
  rewrite (rview_some _ _ _ (quot_tbl_nth items Hall i it sn Hi Hn)), (sview_some _ _ Hn).
  cbn [quot_node tn_inner tn_cmr tn_data]. rewrite erase_reidx. f_equal.
  (* the children *)
  pose proof (po_children ch key Hwfc root it (nth_error_In _ _ Hi)) as [Cl Cr].
  pose proof (po_indices ch key Hwfc root i it Hi) as Hx.
  assert (Hsc : ch (it_node it) = as_dag dis_id (sn_inner sn)) by (unfold src_children; rewrite Hn; reflexivity).
  rewrite Hsc in Cl, Cr.
  assert (Hkid : forall c j, child_ok key items (it_index it) (Some c) (Some j) ->
            unfold_tree (rview (quot_tbl t items)) h (N.to_nat j) = stree t c).
  { intros c j (Hb & it' & Hi' & Hc).
    rewrite (IH (N.to_nat j) ltac:(lia) h it' ltac:(lia) Hi').
    apply (same_class_stree c (it_node it') Hc). }
  assert (Hfuel : forall c, is_child ch (it_node it) c ->
            unfold_tree (sview t) (S c) c = unfold_tree (sview t) (it_node it) c).
  { intros c Hc. pose proof (is_child_lt ch Hwfc _ _ Hc). apply unfold_tree_fuel; [exact sview_wf|lia|lia]. }
  assert (Hch : forall c, left_child_of (as_dag dis_id (sn_inner sn)) = Some c \/
                          right_child_of (as_dag dis_id (sn_inner sn)) = Some c -> is_child ch (it_node it) c).
  { intros c H. unfold is_child, src_children. rewrite Hn. exact H. }
  destruct (sn_inner sn) as [| |c|c|c|c|l r|l r|c hh|hh c|l r|c x|w|e|j|w] eqn:Ei;
    cbn [reidx as_dag dag_kids map left_child_of right_child_of] in *; try reflexivity;
    try (destruct x as [rr|];
         [change (dis_id (Some rr)) with (Some rr) in *|change (dis_id (@None nat)) with (@None nat) in *];
         cbn [option_map as_dag dag_kids map left_child_of right_child_of] in * );
    destruct (it_left it) as [li|]; try (exfalso; exact Cl);
    destruct (it_right it) as [ri|]; try (exfalso; exact Cr);
    cbn [idx_of option_map];
    repeat match goal with |- context [dis_id ?a] => change (dis_id a) with a end;
    cbn [idx_of option_map dag_kids map];
    repeat match goal with
    | H : child_ok key items _ (Some ?c) (Some ?j) |- _ =>
        let E := fresh "E" in pose proof (Hkid c j H) as E; rewrite E; clear H
    end;
    unfold stree;
    repeat match goal with
    | |- context [unfold_tree (sview t) (it_node it) ?c] => rewrite <- (Hfuel c) by (apply Hch; auto)
    end; reflexivity.
Qed.


Lemma quot_tbl_length : forall its : list po_item,
  (forall it, In it its -> exists sn, nth_error t (it_node it) = Some sn) ->
  length (quot_tbl t its) = length its.
Proof.
  induction its as [|x r IH]; intros Hall; [reflexivity|].
  unfold quot_tbl. cbn [flat_map]. destruct (Hall x (or_introl eq_refl)) as (sx & ->).
  cbn [app length]. f_equal. apply IH. intros y Hy. apply Hall. right. exact Hy.
Qed.

(* THEOREM convert_structure (tree level): the identity conversion succeeds and its result, un-shared
   at any item, is the un-shared source at that item's node; for keys that never give a node the id
   of its own descendant the returned root (the last entry) is the un-shared source root *)
Theorem convert_identity_tree (Er : Type) fuel : (po_fuel ch root <= fuel)%nat ->
  exists tbl, convert dis_id (@prune_cv W D Er t (fun _ => HideNeither)) key t fuel root tt = Ok (tt, tbl) /\
    length tbl = length items /\
    (forall i it, nth_error items i = Some it -> unfold_tree (rview tbl) (S i) i = stree t (it_node it)) /\
    (key_acyclic ch key -> unfold_tree (rview tbl) (length tbl) (length tbl - 1) = stree t root).
Proof.
  intros Hf. exists (quot_tbl t items).
  assert (Hall : forall it, In it items -> exists sn, nth_error t (it_node it) = Some sn)
    by (intros it Hin; apply (item_node_in dis_id key t Hwf root Hroot it Hin)).
  split; [apply (convert_structure_identity key t Hwf root Hroot fuel Hf)|].
  split; [apply quot_tbl_length, Hall|]. split.
  - intros i it Hi. apply quot_tree; [lia|exact Hi].
  - intros Hac.
    destruct (po_root_last_no_orphans ch key (swf_wfc dis_id t Hwf) Hac root) as (o & it & Eo & Hr & _).
    rewrite (quot_tbl_length items Hall).
    assert (Hi : nth_error items (length items - 1) = Some it).
    { rewrite Eo, app_length. cbn [length]. rewrite nth_error_app2 by lia.
      replace (length o + 1 - 1 - length o)%nat with O by lia. reflexivity. }
    transitivity (stree t (it_node it)); [|rewrite Hr; reflexivity].
    apply quot_tree; [|exact Hi]. rewrite Eo, app_length. cbn [length]. lia.
Qed.

End Tree.

(* the soundness hypothesis on sharing ids holds for the library's pointer and no-sharing trackers *)
Lemma key_ptr_sound {W D} (t : list (@snode (option nat) W D)) :
  forall x y k, key_ptr x = Some k -> key_ptr y = Some k -> stree t x = stree t y.
Proof. unfold key_ptr. intros x y k Hx Hy. assert (x = y) by (injection Hx; injection Hy; lia). subst. reflexivity. Qed.
Lemma key_none_sound {W D} (t : list (@snode (option nat) W D)) :
  forall x y k, key_none x = Some k -> key_none y = Some k -> stree t x = stree t y.
Proof. discriminate. Qed.
