(* Model of the type-name grammar of jets:
     src/jet/type_name.rs   TypeName::{to_final, to_bit_width}   (tmr is the same loop over Tmr values)
   The three Rust functions are one loop over the bytes of the name *in reverse*, with a stack:
   a base character pushes a value; `+` / `*` pop `left` then `right` and push their sum / product;
   any other byte, a pop from an empty stack, or a final stack of length <> 1 panics
   ("Illegal type name syntax!" = Panic 1).  to_bit_width computes in usize: in the debug profile an
   overflowing `+` panics (Panic 2).  The model is generic in the pushed values. *)
From RS Require Import Lib.Tac Lib.Outcome Ty.Ty.
From Coq Require Import String Ascii.
Import ListNotations.
Local Open Scope N_scope.

Section Machine.
  Context {A : Type}.
  Variable unit_v : A.
  Variable word_v : nat -> A.                      (* two_two_n_fixed::<n>() *)
  Variable sum_v prod_v : A -> A -> outcome unit A.

  Definition tn_binop (op : A -> A -> outcome unit A) (st : list A) : outcome unit (list A) :=
    match st with
    | lft :: rgt :: r =>
        match op lft rgt with
        | Ok x => Ok (x :: r)
        | Err e => Err e
        | Panic c => Panic c
        | OutOfFuel => OutOfFuel
        end
    | _ => Panic 1
    end.

  Definition tn_step (st : list A) (ch : ascii) : outcome unit (list A) :=
    match ch with
    | "1"%char => Ok (unit_v :: st)
    | "2"%char => Ok (word_v 0 :: st)
    | "c"%char => Ok (word_v 3 :: st)
    | "s"%char => Ok (word_v 4 :: st)
    | "i"%char => Ok (word_v 5 :: st)
    | "l"%char => Ok (word_v 6 :: st)
    | "h"%char => Ok (word_v 8 :: st)
    | "+"%char => tn_binop sum_v st
    | "*"%char => tn_binop prod_v st
    | _ => Panic 1
    end.

  Fixpoint tn_loop (st : list A) (cs : list ascii) : outcome unit (list A) :=
    match cs with
    | [] => Ok st
    | ch :: r => match tn_step st ch with
                 | Ok st' => tn_loop st' r
                 | e => e
                 end
    end.

  Definition tn_finish (r : outcome unit (list A)) : outcome unit A :=
    match r with
    | Ok [x] => Ok x
    | Ok _ => Panic 1
    | Err e => Err e
    | Panic c => Panic c
    | OutOfFuel => OutOfFuel
    end.

  Definition tn_run (s : string) : outcome unit A :=
    tn_finish (tn_loop [] (rev (list_ascii_of_string s))).
End Machine.

(* to_final *)
Definition tn_to_final : string -> outcome unit ty :=
  tn_run One word_ty (fun a b => Ok (Sum a b)) (fun a b => Ok (Prod a b)).

(* to_bit_width, usize arithmetic with overflow checks (debug profile) *)
Definition checked_add (a b : N) : outcome unit N :=
  if a + b <=? usize_max then Ok (a + b) else Panic 2.

Definition tn_to_bit_width : string -> outcome unit N :=
  tn_run 0 (fun n => 2 ^ N.of_nat n) (fun l r => checked_add 1 (N.max l r)) (fun l r => checked_add l r).

(* ------------------------------------------------------------------ width lemma, for all strings *)

Definition stacks_rel (st : list ty) (sw : list N) : Prop := Forall2 (fun t w => width t = w) st sw.

(* the width run either tracks the type run exactly, or has panicked on overflow *)
Definition runs_rel (rf : outcome unit (list ty)) (rw : outcome unit (list N)) : Prop :=
  match rw with
  | Ok sw => match rf with Ok st => stacks_rel st sw | _ => False end
  | Panic c => if c =? 2 then True else rf = Panic c
  | Err _ => False
  | OutOfFuel => False
  end.

Lemma checked_add_cases a b :
  checked_add a b = Ok (a + b) \/ checked_add a b = Panic 2.
Proof. unfold checked_add. destruct (a + b <=? usize_max); auto. Qed.

Lemma step_rel st sw ch : stacks_rel st sw ->
  runs_rel (tn_step One word_ty (fun a b => Ok (Sum a b)) (fun a b => Ok (Prod a b)) st ch)
           (tn_step 0 (fun n => 2 ^ N.of_nat n) (fun l r => checked_add 1 (N.max l r)) (fun l r => checked_add l r) sw ch).
Proof.
  intros H.
  assert (Hpush : forall n, stacks_rel (word_ty n :: st) (2 ^ N.of_nat n :: sw)).
  { intros n. constructor; [apply width_word|exact H]. }
  assert (Hunit : stacks_rel (One :: st) (0 :: sw)) by (constructor; [reflexivity|exact H]).
  assert (Hsum : runs_rel (tn_binop (fun a b => Ok (Sum a b)) st)
                          (tn_binop (fun l r => checked_add 1 (N.max l r)) sw)).
  { unfold tn_binop. destruct H as [|t1 w1 st1 sw1 H1 H]; [reflexivity|].
    destruct H as [|t2 w2 st2 sw2 H2 H]; [reflexivity|].
    destruct (checked_add_cases 1 (N.max w1 w2)) as [E|E]; rewrite E; cbn; [|exact I].
    constructor; [cbn [width]; rewrite H1, H2; reflexivity|exact H]. }
  assert (Hprod : runs_rel (tn_binop (fun a b => Ok (Prod a b)) st)
                           (tn_binop (fun l r => checked_add l r) sw)).
  { unfold tn_binop. destruct H as [|t1 w1 st1 sw1 H1 H]; [reflexivity|].
    destruct H as [|t2 w2 st2 sw2 H2 H]; [reflexivity|].
    destruct (checked_add_cases w1 w2) as [E|E]; rewrite E; cbn; [|exact I].
    constructor; [cbn [width]; rewrite H1, H2; reflexivity|exact H]. }
  unfold tn_step.
  destruct ch as [b0 b1 b2 b3 b4 b5 b6 b7].
  destruct b0, b1, b2, b3, b4, b5, b6, b7;
    first [ exact Hsum | exact Hprod | exact Hunit | apply Hpush | reflexivity ].
Qed.

Lemma loop_rel cs : forall st sw, stacks_rel st sw ->
  runs_rel (tn_loop One word_ty (fun a b => Ok (Sum a b)) (fun a b => Ok (Prod a b)) st cs)
           (tn_loop 0 (fun n => 2 ^ N.of_nat n) (fun l r => checked_add 1 (N.max l r)) (fun l r => checked_add l r) sw cs).
Proof.
  induction cs as [|ch r IH]; intros st sw H; cbn [tn_loop]; [exact H|].
  pose proof (step_rel st sw ch H) as Hs.
  destruct (tn_step 0 _ _ _ sw ch) as [sw'| e | c |] eqn:Ew; cbn in Hs.
  - destruct (tn_step One _ _ _ st ch) as [st'| | |] eqn:Ef; try contradiction. apply IH, Hs.
  - contradiction.
  - destruct (c =? 2) eqn:Ec; [cbn; rewrite Ec; exact I|]. rewrite Hs. cbn. rewrite Ec. reflexivity.
  - contradiction.
Qed.

(* whenever to_bit_width returns, to_final returns a type of exactly that width *)
Theorem tn_width_sound s w :
  tn_to_bit_width s = Ok w -> exists t, tn_to_final s = Ok t /\ width t = w.
Proof.
  unfold tn_to_bit_width, tn_to_final, tn_run. intros H.
  pose proof (loop_rel (rev (list_ascii_of_string s)) [] [] (Forall2_nil _)) as R.
  destruct (tn_loop 0 _ _ _ [] _) as [sw| | |]; cbn in H; try discriminate.
  destruct sw as [|x [|y r]]; try discriminate. injection H as ->.
  cbn in R. destruct (tn_loop One _ _ _ [] _) as [st| | |]; try contradiction.
  inversion R as [|t w' st' sw' Htw Hrest]; subst. inversion Hrest; subst.
  exists t. split; reflexivity.
Qed.

(* conversely: when to_final returns, to_bit_width returns its width or has overflowed *)
Theorem tn_final_width s t :
  tn_to_final s = Ok t -> tn_to_bit_width s = Ok (width t) \/ tn_to_bit_width s = Panic 2.
Proof.
  unfold tn_to_bit_width, tn_to_final, tn_run. intros H.
  pose proof (loop_rel (rev (list_ascii_of_string s)) [] [] (Forall2_nil _)) as R.
  destruct (tn_loop One _ _ _ [] _) as [st| | |]; cbn in H; try discriminate.
  destruct st as [|x [|y r]]; try discriminate. injection H as ->.
  destruct (tn_loop 0 _ _ _ [] _) as [sw| e | c |]; cbn in R; try contradiction.
  - inversion R as [|t' w' st' sw' Htw Hrest]; subst. inversion Hrest; subst. left; reflexivity.
  - destruct (c =? 2) eqn:Ec; [apply N.eqb_eq in Ec; subst c; right; reflexivity|discriminate R].
Qed.

(* hypotheses satisfiable / sanity *)
Example tn_ex1 : tn_to_final "*2+1h" = Ok (Prod Bit (Sum One (word_ty 8))).
Proof. reflexivity. Qed.
Example tn_ex2 : tn_to_bit_width "*2+1h" = Ok 258.
Proof. vm_compute. reflexivity. Qed.
Example tn_ex3 : tn_to_final "*2" = Panic 1 /\ tn_to_final "22" = Panic 1 /\ tn_to_final "x" = Panic 1 /\ tn_to_final "" = Panic 1.
Proof. repeat split; reflexivity. Qed.
