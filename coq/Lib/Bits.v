(* Bit-level helpers shared by the models: big-endian bit lists of bytes and numbers,
   packing bits into bytes as `BitCollector::collect_bits` does. *)
From Coq Require Import List NArith ZArith Lia Bool.
Import ListNotations.
Local Open Scope N_scope.
Ltac Zify.zify_post_hook ::= Z.div_mod_to_equations.

Definition b2n (b : bool) : N := if b then 1 else 0.

(* the [len] least significant bits of [n], most significant first
   (what `write_bits_be(n, len)` emits) *)
Fixpoint bits_be (len : nat) (n : N) : list bool :=
  match len with
  | O => []
  | S l => N.testbit n (N.of_nat l) :: bits_be l n
  end.

(* value of a big-endian bit list, continuing from accumulator [acc] *)
Fixpoint val_be_acc (acc : N) (l : list bool) : N :=
  match l with
  | [] => acc
  | b :: r => val_be_acc (2 * acc + b2n b) r
  end.
Definition val_be (l : list bool) : N := val_be_acc 0 l.

Definition bits_of_byte (b : N) : list bool := bits_be 8 b.
Definition bits_of_bytes (bs : list N) : list bool := flat_map bits_of_byte bs.

(* `collect_bits`: state = (finished bytes in reverse, unfinished bits in order) *)
Definition collect_step (st : list N * list bool) (b : bool) : list N * list bool :=
  let '(bytes, cur) := st in
  let cur' := cur ++ [b] in
  if Nat.eqb (length cur') 8 then (val_be cur' :: bytes, []) else (bytes, cur').

Definition collect_bits (l : list bool) : list N * N :=
  let '(bytes, cur) := fold_left collect_step l ([], []) in
  let bit_length := 8 * N.of_nat (length bytes) + N.of_nat (length cur) in
  match cur with
  | [] => (rev bytes, bit_length)
  | _ => (rev (val_be (cur ++ repeat false (8 - length cur)) :: bytes), bit_length)
  end.

Definition pack (l : list bool) : list N := fst (collect_bits l).

(* ---------------------------------------------------------------- lemmas *)

Lemma bits_be_length len n : length (bits_be len n) = len.
Proof. induction len as [|l IH]; cbn [bits_be length]; congruence. Qed.

Lemma val_be_acc_app acc l1 l2 :
  val_be_acc acc (l1 ++ l2) = val_be_acc (val_be_acc acc l1) l2.
Proof. revert acc; induction l1 as [|b r IH]; intros acc; cbn [val_be_acc app]; auto. Qed.

Lemma b2n_testbit0 n : b2n (N.testbit n 0) = n mod 2.
Proof.
  rewrite N.bit0_mod. reflexivity.
Qed.

(* reading back the [len] low bits of [n] after accumulator [acc] *)
Lemma val_be_acc_bits_be len : forall acc n,
  val_be_acc acc (bits_be len n) = acc * 2 ^ N.of_nat len + n mod 2 ^ N.of_nat len.
Proof.
  induction len as [|l IH]; intros acc n.
  - cbn [bits_be val_be_acc]. change (N.of_nat 0) with 0. rewrite N.pow_0_r, N.mod_1_r. lia.
  - cbn [bits_be val_be_acc].
    (* peel the top bit: n mod 2^(S l) = bit_l * 2^l + n mod 2^l *)
    rewrite IH.
    rewrite Nat2N.inj_succ, N.pow_succ_r'.
    assert (Hbit : n mod (2 * 2 ^ N.of_nat l)
                   = b2n (N.testbit n (N.of_nat l)) * 2 ^ N.of_nat l + n mod 2 ^ N.of_nat l).
    { rewrite N.testbit_spec' .
      set (p := 2 ^ N.of_nat l).
      assert (Hp : p <> 0) by (apply N.pow_nonzero; lia).
      clearbody p.
      rewrite (N.mul_comm 2 p).
      rewrite N.mod_mul_r by lia.
      ring. }
    rewrite Hbit. lia.
Qed.

Lemma val_be_bits_be len n :
  val_be (bits_be len n) = n mod 2 ^ N.of_nat len.
Proof. unfold val_be. rewrite val_be_acc_bits_be. lia. Qed.

Lemma val_be_acc_bound l : forall acc,
  val_be_acc acc l < (acc + 1) * 2 ^ N.of_nat (length l).
Proof.
  induction l as [|b r IH]; intros acc.
  - cbn. lia.
  - cbn [val_be_acc length]. specialize (IH (2 * acc + b2n b)).
    rewrite Nat2N.inj_succ, N.pow_succ_r'.
    assert (b2n b <= 1) by (destruct b; cbn; lia).
    nia.
Qed.

Lemma val_be_acc_lower l : forall acc,
  acc * 2 ^ N.of_nat (length l) <= val_be_acc acc l.
Proof.
  induction l as [|b r IH]; intros acc.
  - cbn. lia.
  - cbn [val_be_acc length]. specialize (IH (2 * acc + b2n b)).
    rewrite Nat2N.inj_succ, N.pow_succ_r'. nia.
Qed.

(* a bit list is determined by its length and value *)
Lemma bits_be_val_be l : forall acc,
  bits_be (length l) (val_be_acc acc l) = l.
Proof.
  induction l as [|b r IH]; intros acc; [reflexivity|].
  cbn [length bits_be val_be_acc]. f_equal.
  - (* top bit *)
    pose proof (val_be_acc_bound r (2 * acc + b2n b)) as Hu.
    pose proof (val_be_acc_lower r (2 * acc + b2n b)) as Hl.
    set (v := val_be_acc (2 * acc + b2n b) r) in *.
    set (p := 2 ^ N.of_nat (length r)) in *.
    assert (Hp : p <> 0) by (apply N.pow_nonzero; lia).
    apply N.b2n_inj. rewrite N.testbit_spec'. fold p.
    assert (Hq : v / p = 2 * acc + b2n b).
    { symmetry. apply N.div_unique with (r := v - (2 * acc + b2n b) * p); clearbody v p; nia. }
    rewrite Hq.
    replace (2 * acc + b2n b) with (b2n b + acc * 2) by lia.
    rewrite N.mod_add by lia.
    destruct b; reflexivity.
  - apply IH.
Qed.
