"""C20 - Results are independent of threads and scheduling.

Level "other":
  * Coq (Conc/Interleave.v, Props/C20.v): a model of what the library shares between threads during
    type inference (one atomic name counter, per-context states each owned by one thread, immutable
    shared data) and the theorem that any interleaving gives every thread the results of its
    sequential run up to an injective renaming of fresh variable names.
  * correspondence (kind `names`): the concrete instance of the model run under a given schedule vs the
    real library driven through the same schedule by real threads (turn variable): the names of the
    fresh type variables each `unit` node receives and what each context holds.
  * stress comparison (kind `work`): mixed workloads (decode, infer, roots, execute with C jets,
    prune, satisfy a policy; operations on shared Arc<RedeemNode>/Arc<CommitNode>/Arc<Final>/Value) run
    one at a time and on 2..16 threads; per item the canonical result must be identical, no panic, no hang.
    This is a test over the schedules the OS happened to produce, not a proof.
"""
import os

import proggen as pg
import vplib
from vplib import Case

PROP = "C20"
LEVEL = "other"
IMPORTS = ["Conc.Interleave", "Conc.Run"]
CRATE = None  # merged into the main harness crate


def bits_of_hex(h):
    return [int(b) for i in range(0, len(h), 2) for b in format(int(h[i:i + 2], 16), "08b")]


BIP_PK_MSG = "f9308a019258c31049344f85f89d5229b531c845836f99b08601f113bce036f9" + "00" * 32
BIP_SIG = ("e907831f80848d1069a5371b402410364bdf1c5f8307b0084c55f1ce2dca8215"
           "25f66a4a85ea8b71e482a74f382d2ce5ebeee8fdb2172f477df4900d310536c0")


def fixed_programs(rng):
    """hand-written programs that exercise the C jets and pruning"""
    out = []
    sig = bits_of_hex(BIP_SIG)
    pkm = bits_of_hex(BIP_PK_MSG)
    # bip_0340_verify on the BIP-340 test vector 0 (succeeds) and on a damaged signature (the jet fails)
    for damage in (False, True):
        s = list(sig)
        if damage:
            s[rng.below(512)] ^= 1
        out.append([("word", 9, pkm), ("wit", ("t", pg.word(9), s)), ("pair", 0, 1), ("jet", "e", "bip_0340_verify"),
                    ("comp", 2, 3)])
    # sha-256 compression of a random block, and two blocks chained
    blk = rng.bits(512)
    out.append([("jet", "e", "sha_256_iv"), ("word", 9, blk), ("pair", 0, 1), ("jet", "e", "sha_256_block"), ("comp", 2, 3)])
    blk2 = rng.bits(512)
    out.append([("jet", "e", "sha_256_iv"), ("word", 9, blk), ("pair", 0, 1), ("jet", "e", "sha_256_block"), ("comp", 2, 3),
                ("word", 9, blk2), ("pair", 4, 5), ("comp", 6, 3)])
    # a case whose untaken branch is pruned; the witness bit chooses the branch
    for b in (0, 1):
        out.append([("wit", ("t", pg.BIT, [b])), ("unit",), ("pair", 0, 1), ("jet", "e", "version"), ("drop", 3),
                    ("jet", "e", "lock_time"), ("drop", 5), ("case", 4, 6), ("comp", 2, 7)])
    # assertion with a hidden branch: runs when the bit is 0, reaches the pruned branch when it is 1
    for b in (0, 1):
        out.append([("wit", ("t", pg.BIT, [b])), ("unit",), ("pair", 0, 1), ("unit",), ("hid", "ab" * 32), ("case", 3, 4),
                    ("comp", 2, 5)])
    # environment jets and lock-time checks (environment: lock time 100, sequence 10)
    for h in (50, 100, 101):
        out.append([("word", 5, [int(x) for x in format(h, "032b")]), ("jet", "e", "check_lock_height"), ("comp", 0, 1)])
    out.append([("jet", "e", "tx_is_final"), ("jet", "e", "current_index"), ("pair", 0, 1)])
    out.append([("jet", "e", "sig_all_hash")])
    # arithmetic through core jets
    a, b = rng.bits(32), rng.bits(32)
    out.append([("word", 5, a), ("word", 5, b), ("pair", 0, 1), ("jet", "e", "add_32"), ("comp", 2, 3)])
    out.append([("word", 5, a), ("word", 5, b), ("pair", 0, 1), ("jet", "e", "multiply_32"), ("comp", 2, 3)])
    # ill-typed: comp of mismatching arrows
    out.append([("unit",), ("jet", "e", "version"), ("comp", 0, 1), ("injl", 2), ("word", 3, [0] * 8), ("comp", 3, 4)])
    # disconnect with both branches: 1 -> 2^256 * 1, the output is the CMR of the right branch
    out.append([("iden",), ("unit",), ("disc", 0, 1)])
    return out


JET_SUBSET = ["add_8", "add_16", "add_32", "subtract_16", "multiply_8", "eq_8", "eq_32", "le_8", "lt_16", "and_8", "or_16",
              "xor_32", "complement_8", "low_8", "high_16", "some_8", "all_16", "increment_8", "negate_8", "max_8", "min_16",
              "version", "lock_time", "current_index", "num_inputs", "num_outputs", "tx_is_final", "tx_lock_height",
              "current_sequence", "genesis_block_hash", "script_cmr", "sha_256_iv", "one_8", "verify", "parse_lock"]


def generated_programs(rng, binary, workdir, n):
    """type-directed programs over core + Elements jets, witnesses filled from the inferred types"""
    jl = [j for j in pg.jet_list(binary, "e", workdir) if j[1] in JET_SUBSET]
    jets = [("e", name, s, t) for (_i, name, s, t) in jl]
    progs = []
    for k in range(n):
        tgt = rng.choice([pg.U, pg.BIT, pg.word(3), pg.word(5), pg.P(pg.word(3), pg.BIT), pg.S(pg.U, pg.word(3))])
        p = pg.gen_program(rng, pg.U, tgt, rng.range(3, 6), {"jets": jets, "witness": 15, "fail": 1, "hidden": 10,
                                                             "disconnect": 0, "share": 30})
        progs.append(p)
    lines = ["g%d arrows 0 %s" % (i, pg.prog_pdl(p)) for i, p in enumerate(progs)]
    res = vplib.run_harness(binary, "prog", lines, workdir=workdir)
    out = []
    for i, p in enumerate(progs):
        arr = pg.parse_arrows(res.get("g%d" % i))
        if isinstance(arr, tuple):
            out.append(p)   # ill typed: kept, it exercises the error paths
        else:
            out.append(pg.fill_witnesses(rng, p, arr, zero=rng.chance(1, 4)))
    return out


POLICIES = ["k1", "h1", "a50", "a200", "o5", "o20", "t", "u", "and.k1.h2", "or.k1.k2", "or.h1.a50", "and.k1.or.h1.k2",
            "thr2n3.k1.k2.k3", "thr1n2.h1.h2", "and.a50.o5", "or.u.k3", "thr2n3.k1.h2.a500", "and.and.k1.k2.or.h3.o5"]

ITEM_KINDS = ["inf", "root", "dec", "cdec", "exec", "prune", "sat", "sx", "se", "sp", "su", "sv", "st", "sd"]


def gen_work(rng, pool, k, tier, pure=False):
    nthreads = [2, 3, 4, 8, 16][k % 5] if rng.chance(3, 4) else rng.range(2, 16)
    mode = 0 if rng.chance(3, 4) else 1
    # pure: nothing is prepared on the calling thread before the worker threads start (no shared objects, no
    # pre-encoded programs), so process-wide state is first touched by the concurrent threads
    nsh = 0 if pure else rng.range(1, 4)
    shared = [pg.prog_pdl(rng.choice(pool)) for _ in range(nsh)]
    item_kinds = ["inf", "root", "exec", "prune", "sat"] if pure else ITEM_KINDS
    nit = rng.range(12, 36) if mode == 0 else rng.range(2 * nthreads, 4 * nthreads)
    items = []
    kinds = []
    for j in range(nit):
        kind = item_kinds[(k + j) % len(item_kinds)] if rng.chance(1, 2) else rng.choice(item_kinds)
        p = pg.prog_pdl(rng.choice(pool))
        if kind == "inf":
            items.append("inf:%d:%s" % (rng.below(2), p))
        elif kind in ("dec", "cdec"):
            flip = -1 if rng.chance(2, 3) else rng.below(4000)
            items.append("%s:%d:%s" % (kind, flip, p))
        elif kind in ("root", "exec", "prune"):
            items.append("%s:%s" % (kind, p))
        elif kind == "sat":
            items.append("sat:%d:%d:%s" % (rng.below(16) * 2, rng.below(16) * 2, rng.choice(POLICIES)))
        else:
            items.append("%s:%d" % (kind, rng.below(8)))
        kinds.append(kind)
    line = "%d %d %d SH %s IT %s" % (nthreads, rng.next() & (2**62 - 1), mode, " ".join(shared), " ".join(items))
    return line, {"nthreads": nthreads, "mode": mode, "kinds": kinds, "nshared": nsh}


def names_ref(programs, sched):
    """python reference of the shared-state model: one counter, one slab per thread"""
    counter = 0
    slabs = [[] for _ in programs]
    pcs = [0] * len(programs)
    out = []
    for k in sched:
        if pcs[k] >= len(programs[k]):
            continue
        op = programs[k][pcs[k]]
        pcs[k] += 1
        if op == "a":
            slabs[k].append(counter)
            out += [k, 0, counter]
            counter += 1
        elif op[0] == "r":
            i = int(op[1:])
            out += [k, 1, slabs[k][i]] if i < len(slabs[k]) else [k, 2]
        else:
            out += [k, 3, len(slabs[k])]
    return out


def gen_names(rng, k):
    nthreads = rng.range(2, 6)
    programs = []
    for _t in range(nthreads):
        ops = []
        na = 0
        for _o in range(rng.range(1, 8)):
            r = rng.below(10)
            if r < 6:
                ops.append("a")
                na += 1
            elif r < 9:
                ops.append("r%d" % rng.below(na + 2))
            else:
                ops.append("s")
        programs.append(ops)
    slots = [t for t, p in enumerate(programs) for _ in p]
    sched = rng.shuffle(slots)
    # a few extra turns for threads that have nothing left (they skip)
    for _ in range(rng.below(3)):
        sched.insert(rng.below(len(sched) + 1), rng.below(nthreads))
    line = "%d %s S %s" % (nthreads, " ".join("T " + " ".join(p) for p in programs), " ".join(str(s) for s in sched))

    def coq_op(o):
        return "CAlloc" if o == "a" else ("CSize" if o == "s" else "CRead %s" % o[1:])
    expr = "run_names [%s] [%s]%%nat" % ("; ".join("[" + "; ".join(coq_op(o) for o in p) + "]" for p in programs),
                                         "; ".join(str(s) for s in sched))
    return line, expr, {"programs": programs, "sched": sched}


def gen_cases(rng, tier, pool):
    cases = []
    nwork = 48 if tier == "quick" else 700
    for k in range(nwork):
        line, meta = gen_work(rng.fork("w%d" % k), pool, k, tier)
        cases.append(Case("w%d" % k, "work", line, None, meta))
    nnames = 160 if tier == "quick" else 3000
    for k in range(nnames):
        line, expr, meta = gen_names(rng.fork("n%d" % k), k)
        cases.append(Case("n%d" % k, "names", line, expr, meta))
    # unforced allocation of fresh names: all names handed out must be distinct (names_unique on the implementation)
    for k in range(12 if tier == "quick" else 100):
        nt, cnt = [2, 4, 8, 16][k % 4], [50, 500, 3000][k % 3]
        cases.append(Case("u%d" % k, "uniq", "%d %d" % (nt, cnt), None, {"nthreads": nt, "count": cnt}))
    return cases


def gen_cold(rng, pool, tier):
    """work cases that are each run in a process of their own: the threads meet cold thread-local tables,
    a cold name counter and cold C static data under contention"""
    cases = []
    for k in range(20 if tier == "quick" else 300):
        line, meta = gen_work(rng.fork("c%d" % k), pool, k, tier, pure=(k % 2 == 0))
        # many threads, every thread runs every item
        t = line.split()
        t[0], t[2] = str([16, 8, 16, 12][k % 4]), "0"
        meta["nthreads"], meta["mode"], meta["cold"] = int(t[0]), 0, True
        cases.append(Case("c%d" % k, "work", " ".join(t), None, meta))
    return cases


def run_cold(binary, cases, workdir):
    """one process per case"""
    import concurrent.futures
    res = {}

    def one(c):
        d = os.path.join(workdir, "cold_" + c.cid)
        r = vplib.run_harness(binary, "conc", ["%s %s %s" % (c.cid, c.kind, c.line)], workdir=d, timeout=200)
        return c.cid, r.get(c.cid)
    with concurrent.futures.ThreadPoolExecutor(max_workers=4) as ex:
        for cid, r in ex.map(one, cases):
            res[cid] = r
    return res


# ------------------------------------------------------------ the property on the implementation
def parse_work(r):
    n = r[1]
    flags = r[2:2 + n]
    panics, hang = r[2 + n], r[3 + n]
    digest = (r[4 + n], r[5 + n])
    n2 = r[6 + n]
    classes = r[7 + n:7 + n + n2]
    execs = r[7 + n + n2]
    return flags, panics, hang, digest, classes, execs


def prop_check(c, r):
    if r == "TIMEOUT":
        return ("hang", "the harness did not return (deadlock or livelock?) on `%s %s`" % (c.kind, c.line[:200]))
    if r == "CRASH" or r is None or not isinstance(r, list):
        return ("crash", "the process died (abort / segfault) on `%s %s`" % (c.kind, c.line[:200]))
    if r == [9]:
        return ("panic", "panic outside the workload items on `%s %s`" % (c.kind, c.line[:200]))
    if c.kind == "work":
        flags, panics, hang, _d, _cl, _e = parse_work(r)
        if hang:
            return ("hang", "threads did not finish within 60 s (%d threads, mode %d)" % (c.meta["nthreads"], c.meta["mode"]))
        if panics:
            return ("panic", "%d panics in workload items or worker threads (%d threads)" % (panics, c.meta["nthreads"]))
        bad = [j for j, f in enumerate(flags) if not f]
        if bad:
            return ("result_differs", "items %s (%s) gave a different result on %d threads than when run one at a time"
                    % (bad[:6], [c.meta["kinds"][j] for j in bad[:6]], c.meta["nthreads"]))
        return None
    if c.kind == "uniq":
        total = c.meta["nthreads"] * c.meta["count"]
        if r != [total, total, total]:
            return ("names_not_unique", "%d threads x %d fresh variables: %d names, %d distinct, span %d (expected all = %d)"
                    % (c.meta["nthreads"], c.meta["count"], r[0], r[1], r[2], total))
        return None
    if c.kind == "names":
        exp = names_ref(c.meta["programs"], c.meta["sched"])
        if r != exp:
            return ("names_differ", "fresh variable names / context contents under schedule %s: got %s expected %s"
                    % (c.meta["sched"], r, exp))
    return None


def nontrivial(c, r):
    m = c.meta
    if c.kind == "work":
        if len(set(m["kinds"])) < 2:
            return None
        return ("work", m["nthreads"], m["mode"], tuple(m["kinds"]), c.line[:80], m.get("cold", False))
    if c.kind == "uniq":
        return ("uniq", m["nthreads"], m["count"])
    sw = sum(1 for a, b in zip(m["sched"], m["sched"][1:]) if a != b)
    if sw < 2:
        return None
    return ("names", tuple(tuple(p) for p in m["programs"]), tuple(m["sched"]))


LIB_FRAME = ("simplicity::", "simplicity_sys::", "rustsimplicity_0_7")


def helgrind_reports(out):
    """data-race reports of helgrind whose racing access is inside library code (one of the first 8 frames of the
    reporting stack is a simplicity / simplicity-sys / libsimplicity function).  Rust's std synchronisation
    (futex mutexes, channels, barriers) is invisible to helgrind and produces reports with std frames only: ignored."""
    import re
    hits = []
    lines = out.split("\n")
    i = 0
    total = 0
    while i < len(lines):
        if "Possible data race" in lines[i]:
            total += 1
            head = lines[i]
            frames = []
            j = i + 1
            while j < len(lines) and "Locks held" in lines[j]:
                j += 1
            while j < len(lines) and re.search(r"==\d+==\s+(at|by) 0x", lines[j]):
                frames.append(re.sub(r"==\d+==\s+(at|by) 0x[0-9A-F]+: ", "", lines[j]))
                j += 1
            top = frames[:8]
            if any(any(p in f for p in LIB_FRAME) and "verif_harness" not in f for f in top):
                hits.append((re.sub(r"==\d+== ", "", head), top[:6]))
            i = j
        else:
            i += 1
    return total, hits


def helgrind_stage(rep, binary, cold_cases, n):
    """A sample of the workloads under valgrind's happens-before race detector.  A test: it sees the
    schedules of one run, but reports unsynchronised conflicting accesses even when the race does not manifest."""
    import concurrent.futures
    import subprocess
    vg = subprocess.run("command -v valgrind", shell=True, capture_output=True, text=True).stdout.strip()
    info = {"available": bool(vg), "cases": 0, "reports_total": 0, "reports_in_library_code": 0}
    if not vg:
        rep.coverage["helgrind"] = info
        return
    lines = []
    for c in [c for c in cold_cases if c.line.split()[4] == "IT"][:n]:
        t = c.line.split()
        t[0] = "4"
        lines.append("%s work %s" % (c.cid, " ".join(t[:5 + 10])))
    lines.append("hu uniq 4 60")

    def one(k):
        d = os.path.join(rep.workdir(), "helgrind")
        os.makedirs(d, exist_ok=True)
        path = os.path.join(d, "case_%d.txt" % k)
        open(path, "w").write(lines[k] + "\n")
        rc, out = vplib.sh([vg, "--tool=helgrind", "-q", binary, "conc", path], timeout=600)
        return k, rc, out
    with concurrent.futures.ThreadPoolExecutor(max_workers=6) as ex:
        runs = list(ex.map(one, range(len(lines))))
    for k, rc, out in runs:
        if rc == 124:
            continue
        total, hits = helgrind_reports(out)
        info["cases"] += 1
        info["reports_total"] += total
        info["reports_in_library_code"] += len(hits)
        if hits and not rep.violations:
            rep.violation("helgrind reports a data race inside library code: %s at %s" % (hits[0][0], hits[0][1][:3]),
                          {"case": {"id": "helgrind", "kind": lines[k].split()[1], "harness_args": lines[k].split(None, 2)[2],
                                    "model_expr": None}, "helgrind_reports": hits[:5]}, True)
    rep.coverage["helgrind"] = info


def run(rep, tier, rng):
    proof_ok = vplib.proof_stage(rep, "Props/C20.v", extra_targets=["Conc/Run.vo"], translators=())
    binary, out = vplib.harness_build("debug", crate=CRATE)
    if binary is None:
        raise vplib.Infra("harness build failed:\n" + out[-3000:])
    prng = rng.fork("pool")
    pool = fixed_programs(prng) + generated_programs(prng, binary, rep.workdir(), 60 if tier == "quick" else 400)
    cases = corpus_cases() + gen_cases(rng, tier, pool)
    impl, model = vplib.eval_cases(rep, binary, "conc", cases, IMPORTS, tag="c20", batch=250, harness_timeout=1500)
    cold = gen_cold(rng.fork("cold"), pool, tier)
    impl.update(run_cold(binary, cold, rep.workdir()))
    cases = cases + cold
    pfail, mism = vplib.decide(rep, cases, impl, model, prop_check, None, nontrivial,
                               what="correspondence Conc/Run.v (run_names) vs fresh names under forced schedules")
    # measured statistics of the stress part
    st = {"work_cases": 0, "item_executions_concurrent": 0, "items": 0, "thread_spawns": 0, "threads": {}, "item_kinds": {},
          "cold_process_cases": 0,
          "outcome_classes": {"ok": 0, "unsatisfiable": 0, "execution_error": 0, "decode_or_type_error": 0, "build_error": 0,
                              "other": 0, "panic": 0}, "distinct_digests": 0}
    names = ["ok", "unsatisfiable", "execution_error", "decode_or_type_error", "build_error", "other"]
    digests = set()
    for c in cases:
        r = impl.get(c.cid)
        if c.kind != "work" or not isinstance(r, list) or len(r) < 8:
            continue
        flags, panics, hang, d, classes, execs = parse_work(r)
        st["work_cases"] += 1
        st["cold_process_cases"] += 1 if c.meta.get("cold") else 0
        st["items"] += len(flags)
        st["item_executions_concurrent"] += execs
        st["thread_spawns"] += c.meta["nthreads"]
        st["threads"][str(c.meta["nthreads"])] = st["threads"].get(str(c.meta["nthreads"]), 0) + 1
        for kd in c.meta["kinds"]:
            st["item_kinds"][kd] = st["item_kinds"].get(kd, 0) + 1
        for cl in classes:
            st["outcome_classes"]["panic" if cl == 9 else names[min(cl, 5)]] += 1
        digests.add(d)
    st["distinct_digests"] = len(digests)
    rep.coverage["stress"] = st
    helgrind_stage(rep, binary, cold, 3 if tier == "quick" else 16)
    rep.coverage["names_cases_compared_with_model"] = len([c for c in cases if c.kind == "names"])
    rep.coverage["explanation"] = (
        "Level 'other'.  THEOREMS (Coq, Props/C20.v, about the model Conc/Interleave.v only): for a global state made of one "
        "name counter, per-context inference states each owned by one thread, and immutable shared data, with ANY per-context "
        "semantics that does not inspect variable names, every interleaving gives each thread the results of its run alone up to "
        "a renaming of fresh names that is injective on the names involved (schedule_independent, _alone), equal results once "
        "names are erased (_erased), and no name is ever handed out twice (names_unique); a concrete instance and a two-thread "
        "interleaved example show the hypotheses are satisfiable.  CORRESPONDENCE (kind names, %d cases): that concrete instance "
        "evaluated by vm_compute vs the real library driven through the same schedule by real threads.  STRESS COMPARISON (kind "
        "work, %d cases, %d concurrent item executions on 2..16 threads): decode, type inference, roots, execution with C jets "
        "(sha-256, bip-340, arithmetic, Elements environment), pruning, policy satisfaction and operations on shared "
        "Arc<RedeemNode>/Arc<CommitNode>/Arc<Final>/Value, each compared with the result of the same item run alone (errors as "
        "enum tags, variable names erased); panics (catch_unwind + join) and hangs (60 s watchdog) are detected.  The stress "
        "comparison only explores the schedules the OS happened to produce (with a start barrier and seeded sleeps/yields/spins); "
        "it is a test, not a proof.  A small sample of the workloads is also run under valgrind/helgrind (happens-before race "
        "detection; reports are counted only when the racing access is inside library code) - again a test.  Data races, memory ordering, thread-local initialisation, the C code and its static tables, "
        "the allocator shims and deadlock freedom of std Mutex are outside the model."
        % (rep.coverage["names_cases_compared_with_model"], st["work_cases"], st["item_executions_concurrent"]))
    rep.coverage["trusted_base"] = vplib.GENERIC_TRUSTED + [
        "Conc/Interleave.v written by hand from types/variable.rs (NEXT_ID), types/context.rs (per-context Mutex), node/mod.rs (Arc-shared nodes)",
        "harness_conc/src/conc.rs: workload runner, canonical results, watchdog; the OS scheduler decides which interleavings are seen",
        "merging `new_name` and the following locked `alloc_free` into one model step (the second touches thread-owned state only)",
    ]
    rep.coverage["rule"] = (
        "work: 12..36 items drawn from 14 kinds (inf root dec cdec exec prune sat sx se sp su sv st sd) over a pool of hand-written "
        "programs (bip-340 vector, sha-256 blocks, pruned cases, assertions, lock-time checks, ill-typed) and type-directed generated "
        "programs with jets and witnesses, 1..4 shared programs, 2..16 threads, mode 0 (every thread runs every item in a rotated "
        "order) or 1 (items dealt round robin), seeded sleeps/yields.  names: 2..6 threads x 1..8 operations (allocate a node / "
        "read a slot / count) under a random total schedule incl. turns for finished threads.  Distinct = distinct (threads, mode, "
        "item kinds, line prefix) resp. (programs, schedule); non-trivial = at least two item kinds resp. at least two context switches")
    ws = [c for c in cases if c.kind == "work"][:2]
    ns = [c for c in cases if c.kind == "names"][:3]
    rep.coverage["samples"] = [{"kind": c.kind, "args": c.line[:500] + (" ..." if len(c.line) > 500 else ""),
                                "impl": impl.get(c.cid)} for c in ws + ns]
    vplib.finish_proof_verdict(rep, pfail)
    rep.assumptions += [
        "each thread owns its inference contexts, Bit Machines and ElementsEnv (as the property states); sharing a Context between threads is not exercised",
        "identical results are required exactly (roots, encodings, output bits, error tags); timing and addresses are never compared",
    ]


def corpus_cases():
    out = []
    d = os.path.join(vplib.VERIF, "corpus", PROP)
    if not os.path.isdir(d):
        return out
    for fn in sorted(os.listdir(d)):
        if not fn.endswith(".case"):
            continue
        for k, line in enumerate(open(os.path.join(d, fn))):
            line = line.strip()
            if not line or line.startswith("#"):
                continue
            kind, rest = line.split(None, 1)
            out.append(Case("k%s_%d" % (fn[:-5], k), kind, rest, None, meta_of_line(kind, rest)))
    return out


def meta_of_line(kind, rest):
    t = rest.split()
    if kind == "uniq":
        return {"nthreads": int(t[0]), "count": int(t[1])}
    if kind == "work":
        items = t[t.index("IT") + 1:]
        return {"nthreads": int(t[0]), "mode": int(t[2]), "kinds": [i.split(":")[0] for i in items],
                "nshared": t.index("IT") - t.index("SH") - 1}
    programs = []
    pos = 1
    while t[pos] == "T":
        pos += 1
        ops = []
        while t[pos] not in ("T", "S"):
            ops.append(t[pos])
            pos += 1
        programs.append(ops)
    return {"programs": programs, "sched": [int(x) for x in t[pos + 1:]]}


def replay(obj):
    import json
    c = obj.get("case")
    print(json.dumps({k: v for k, v in obj.items() if k != "case"}, indent=1, default=str)[:3000])
    if not c:
        return 0
    binary, _ = vplib.harness_build("debug", crate=CRATE)
    case = Case(c["id"], c["kind"], c["harness_args"], c.get("model_expr"), meta_of_line(c["kind"], c["harness_args"]))
    rep = vplib.Report(PROP, "quick", 0, level=LEVEL)
    for attempt in range(5):
        raw = vplib.run_harness(binary, "conc", ["%s %s %s" % (case.cid, case.kind, case.line)], workdir=rep.workdir())
        r = raw.get(case.cid)
        print("attempt %d: implementation: %s" % (attempt, r if not isinstance(r, list) else r[:60]))
        print("attempt %d: property      : %s" % (attempt, prop_check(case, r)))
    print("(set VERIF_CONC_DUMP=1 and run the harness binary on the case to see the differing canonical results)")
    return 0
