(* C01 / C02 - the explicit-stack post-order iterator exactly as src/dag.rs PostOrderIter::next runs it
   (as of /repo 7ce2109), on abstract children / keys.  Coq/Dag (C18) owns the model of dag.rs and its
   theorems; this copy exists so that Codec/Run.v can evaluate the recursive traversal of Codec/Linearise.v
   and the stack machine side by side on every correspondence case, whatever revision Coq/Dag models.
   Panic codes: 1 assert_eq!(stack_len, 0); 2,3,4 assert!(..processed); 5 index out of range. *)
From RS Require Import Lib.Tac Lib.Outcome Codec.NodeCodec Codec.Linearise.
Import ListNotations.
Local Open Scope N_scope.

Inductive previous := Root | ParentLeft | SiblingLeft | ParentRight.

Record sitem := mk_sitem {
  s_elem : N; s_processed : bool; s_left : option N; s_right : option N; s_prev : previous }.

Definition unprocessed (n : N) (p : previous) : sitem := mk_sitem n false None None p.
Definition set_processed (s : sitem) := mk_sitem (s_elem s) true (s_left s) (s_right s) (s_prev s).
Definition set_left (s : sitem) (i : N) := mk_sitem (s_elem s) (s_processed s) (Some i) (s_right s) (s_prev s).
Definition set_right (s : sitem) (i : N) := mk_sitem (s_elem s) (s_processed s) (s_left s) (Some i) (s_prev s).

Inductive child := CNone | CRepeat (idx : N) | CNew (c : N).

Section Stack.
Variable children : N -> list N.
Variable key : N -> option N.

Definition classify (m : tmap) (c : option N) : child :=
  match c with
  | Some c => match seen key m c with Some idx => CRepeat idx | None => CNew c end
  | None => CNone
  end.

Definition left_of (n : N) : option N := match children n with c :: _ => Some c | [] => None end.
Definition right_of (n : N) : option N := match children n with _ :: c :: _ => Some c | _ => None end.

(* the back-patching `match current.previous` *)
Definition patch (checked : bool) (p : previous) (ci : N) (stk : list sitem) : outcome unit (list sitem) :=
  match p with
  | Root => if checked then match stk with [] => Ok [] | _ => Panic 1 end else Ok stk
  | ParentLeft =>
      match stk with
      | q :: r => if negb checked || s_processed q then Ok (set_left q ci :: r) else Panic 2
      | [] => Panic 5
      end
  | ParentRight =>
      match stk with
      | q :: r => if negb checked || s_processed q then Ok (set_right q ci :: r) else Panic 3
      | [] => Panic 5
      end
  | SiblingLeft =>
      match stk with
      | s :: q :: r => if negb checked || s_processed q then Ok (s :: set_left q ci :: r) else Panic 4
      | _ => Panic 5
      end
  end.

Record pstate := mk_ps { ps_index : N; ps_stack : list sitem; ps_map : tmap }.

Inductive pres :=
| PDone
| PYield (n : N) (l r : option N) (st : pstate)
| PCont (st : pstate)
| PPanic (c : N).

(* one iteration of the `loop` *)
Definition pstep (st : pstate) : pres :=
  match ps_stack st with
  | [] => PDone
  | current :: stk =>
      let index := ps_index st in
      let m := ps_map st in
      if negb (s_processed current) then
        match seen key m (s_elem current) with
        | Some seen_index =>
            (* yielded since it was pushed: only point the parent at it (no asserts in this branch) *)
            match patch false (s_prev current) seen_index stk with
            | Ok stk' => PCont (mk_ps index stk' m)
            | Panic c => PPanic c
            | _ => PPanic 7
            end
        | None =>
            let current := set_processed current in
            match classify m (left_of (s_elem current)), classify m (right_of (s_elem current)) with
            | CNone, _ => PCont (mk_ps index (current :: stk) m)
            | CRepeat idx, CNone => PCont (mk_ps index (set_left current idx :: stk) m)
            | CNew c, CNone => PCont (mk_ps index (unprocessed c ParentLeft :: current :: stk) m)
            | CRepeat li, CRepeat ri => PCont (mk_ps index (set_right (set_left current li) ri :: stk) m)
            | CNew c, CRepeat idx => PCont (mk_ps index (unprocessed c ParentLeft :: set_right current idx :: stk) m)
            | CRepeat idx, CNew c => PCont (mk_ps index (unprocessed c ParentRight :: set_left current idx :: stk) m)
            | CNew lc, CNew rc =>
                PCont (mk_ps index (unprocessed lc SiblingLeft :: unprocessed rc ParentRight :: current :: stk) m)
            end
        end
      else
        (* tracker.record *)
        let '(rec, m') :=
          match key (s_elem current) with
          | None => (None, m)
          | Some k => match tm_get m k with Some i => (Some i, m) | None => (None, (k, index) :: m) end
          end in
        let current_index := match rec with Some i => i | None => index end in
        match patch true (s_prev current) current_index stk with
        | Ok stk' =>
            match rec with
            | Some _ => PCont (mk_ps index stk' m')
            | None => PYield (s_elem current) (s_left current) (s_right current) (mk_ps (index + 1) stk' m')
            end
        | Panic c => PPanic c
        | _ => PPanic 7
        end
  end.

Fixpoint prun (fuel : nat) (st : pstate) : outcome unit (list (N * list N)) :=
  match fuel with
  | O => OutOfFuel
  | S f =>
      match pstep st with
      | PDone => Ok []
      | PYield n l r st' =>
          let cis := match l, r with
                     | Some a, Some b => [a; b]
                     | Some a, None => [a]
                     | None, _ => []
                     end in
          match prun f st' with
          | Ok rest => Ok ((n, cis) :: rest)
          | Err e => Err e | Panic c => Panic c | OutOfFuel => OutOfFuel
          end
      | PCont st' => prun f st'
      | PPanic c => Panic c
      end
  end.

(* every node is pushed at most once per reference and popped twice: 4 * (positions + 1) + 4 iterations suffice *)
Definition stack_traverse (root : N) : outcome unit (list (N * list N)) :=
  prun (4 * (N.to_nat root + 2) + 4) (mk_ps 0 [unprocessed root Root] []).

End Stack.
