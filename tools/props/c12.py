"""C12 - Redemption programs only ever carry well-typed witnesses."""
import json
import os

import proggen as pg
import vplib
from vplib import Case
from props import redeem_common as rc

PROP = "C12"
LEVEL = "proof"
IMPORTS = ["Ty.Ty", "Core.Prog", "Redeem.Finalize", "Redeem.Run"]
IMPORTS_FULL = ["Ty.Ty", "Core.Prog", "Redeem.Finalize", "Redeem.Run", "Redeem.RunIhr"]
FULL_MAX_NODES = 70      # the end-to-end model of the pruning routes is evaluated on programs up to this size
U, BIT = pg.U, pg.BIT
ROUTES = {100: "construct+finalize_unpruned", 101: "construct+finalize_pruned", 102: "human-readable+finalize_unpruned",
          103: "human-readable+finalize_pruned", 104: "decode"}


# ------------------------------------------------------------ candidate witnesses
def _small_types():
    base = [U, BIT, pg.word(1), pg.word(2), pg.word(3)]
    out = list(base)
    for a in base:
        for b in base:
            out += [pg.S(a, b), pg.P(a, b)]
    lvl = list(out)
    for a in lvl[:25]:
        for b in base[:3]:
            out += [pg.S(a, b), pg.P(b, a)]
    seen, res = set(), []
    for t in out:
        if t not in seen:
            seen.add(t)
            res.append(t)
    return res


SMALL = _small_types()
BY_WIDTH = {}
for _t in SMALL:
    BY_WIDTH.setdefault(pg.width(_t), []).append(_t)


def inflate(rng, t, v):
    """a type above t and a value of it that prunes to v (structurally fitting, wider)"""
    if t[0] == "u":
        t2 = rng.choice([BIT, pg.word(1), pg.P(BIT, U), pg.S(U, pg.word(1))])
        return t2, pg.rand_value(rng, t2)
    if t[0] == "s":
        a, va = (inflate(rng, t[1], v[1]) if v[0] == "L" else (inflate_ty(rng, t[1]), None))
        b, vb = (inflate(rng, t[2], v[1]) if v[0] == "R" else (inflate_ty(rng, t[2]), None))
        return pg.S(a, b), (("L", va) if v[0] == "L" else ("R", vb))
    a, va = inflate(rng, t[1], v[1]) if rng.below(2) else (t[1], v[1])
    b, vb = inflate(rng, t[2], v[2])
    return pg.P(a, b), ("P", va, vb)


def inflate_ty(rng, t):
    if t[0] == "u":
        return rng.choice([U, BIT, pg.word(1)])
    return (pg.S if t[0] == "s" else pg.P)(inflate_ty(rng, t[1]), inflate_ty(rng, t[2]))


def candidate(rng, fam, t, good):
    """(family actually used, type, value) of a candidate witness for a node of target type t"""
    w = pg.width(t)
    if fam == "right":
        return "right", t, good
    if fam == "unit" and t != U:
        return "unit", U, ("U",)
    if fam == "wide":
        opts = [pg.P(t, BIT), pg.P(BIT, t), pg.S(t, t), pg.P(t, t) if w else pg.word(1)]
        n = pg.as_word(t)
        if n is not None and n < 7:
            opts.append(pg.word(n + 1))
        t2 = rng.choice(opts)
        return "wide", t2, pg.rand_value(rng, t2)
    if fam == "narrow" and w > 0:
        opts = [x for ww in range(0, w) for x in BY_WIDTH.get(ww, [])[:6]]
        n = pg.as_word(t)
        if n is not None and n >= 1:
            opts += [pg.word(n - 1)] * 3
        if t[0] in "sp":
            opts += [t[1], t[2]] if pg.width(t[1]) < w and pg.width(t[2]) < w else []
        opts = [x for x in opts if pg.width(x) < w]
        if opts:
            t2 = rng.choice(opts)
            return "narrow", t2, pg.rand_value(rng, t2)
    if fam == "shape":
        opts = [x for x in BY_WIDTH.get(w, []) if x != t] + [pg.P(U, t), pg.P(t, U)]
        if t[0] == "p" and t[1] != t[2]:
            opts.append(pg.P(t[2], t[1]))
        t2 = rng.choice(opts)
        return "shape", t2, pg.rand_value(rng, t2)
    if fam == "coerce":
        t2, v2 = inflate(rng, t, good)
        if t2 != t:
            return "coerce", t2, v2
    # fall back: something of another type
    t2 = pg.P(t, BIT)
    return "wide", t2, pg.rand_value(rng, t2)


FAMILIES = ["wide", "narrow", "shape", "unit", "coerce"]


# ------------------------------------------------------------ cases
def make_case(cid, prog, arrows, tweak, gen, fams=None):
    line = "%s %s" % (pg.prog_pdl(prog), tweak)
    meta = {"prog": prog, "arrows": arrows, "tweak": tweak, "gen": gen, "fams": fams or {}}
    meta["ref"] = reference(prog, arrows)
    return Case(cid, "c12", line, None, meta)


def reference(prog, arrows):
    """python reference of the finaliser and of the run: per witness node the coerced value or None"""
    coerced = {}
    ok = True
    alltyped_in = True
    for i, n in enumerate(prog):
        if n[0] != "wit" or arrows[i] is None:
            continue
        tgt = arrows[i][1]
        tv = rc.wit_value(n, tgt)
        if tv is None:
            coerced[i] = pg.zero_value(tgt)
            continue
        if tv[0] != tgt:
            alltyped_in = False
        v = rc.sprune(tv[1], tgt)
        coerced[i] = v
        if v is None:
            ok = False
    run = rc.run_prog(prog, coerced, rc.make_jet_fn(rc.ENV0)) if ok else None
    return {"finalize_ok": ok, "coerced": coerced, "run": run, "all_right": alltyped_in}


def shared_witness(prog):
    """a witness node reachable from the root by two distinct paths: the human-readable encoding refuses it"""
    n = len(prog)
    paths = [0] * n
    paths[n - 1] = 1
    for i in range(n - 1, -1, -1):
        if paths[i]:
            for ch in pg.children(prog[i]):
                paths[ch] = min(2, paths[ch] + paths[i])
    return any(paths[i] >= 2 and prog[i][0] == "wit" for i in range(n))


def model_expr(c, full):
    m = c.meta
    d = rc.parse_c12(full) or {}
    n = len(m["prog"])
    order = d.get(104, {}).get("order") or []
    ids = [x if x < n else i for i, x in enumerate(d.get(105, []))]
    r106 = d.get(106, [])
    rounds = [[x if x < n else i for i, x in enumerate(r106[k:k + n])] for k in range(0, len(r106), n)] if n else []
    stream = stream_bits(m, order)
    return "run_c12 %s %s %s %s [%s]" % (rc.tprog_coq(m["prog"], m["arrows"]), rc.nat_list(order), vplib.coq_list(stream),
                                         rc.nat_list(ids), "; ".join(rc.nat_list(r) for r in rounds))


def stream_bits(m, order):
    """the substituted witness stream before padding (what the harness builds)"""
    prog, arrows, tweak = m["prog"], m["arrows"], m["tweak"]
    bits = []
    for i in order:
        w = prog[i][1]
        if w is not None and w[0] == "t":
            bits += list(w[2])
        else:
            bits += pg.compact_bits(pg.zero_value(arrows[i][1]))
    if tweak.startswith("+"):
        bits += rc.bits_of(tweak[1:])
    elif tweak.startswith("="):
        bits = rc.bits_of(tweak[1:])
    elif tweak != "-":
        k = int(tweak[1:])
        bits = bits[:max(0, len(bits) - k)]
    return bits


def full_expr(c):
    m = c.meta
    return "run_c12_full %s" % rc.tprog_coq(m["prog"], m["arrows"])


def split_full(v):
    """{101: chunk, 103: chunk} of the output of Redeem/RunIhr.v run_c12_full"""
    out = {}
    pos = 0
    try:
        for mk in (101, 103):
            if v[pos] != mk:
                return None
            pos += 1
            st = pos
            if v[pos] == 0:
                m = v[pos + 2]
                pos += 3 + m
                k = v[pos]
                pos += 1
                for _ in range(k):
                    pos += 2 + v[pos + 1]
            elif v[pos] == 1:
                pos += 2
            else:
                pos += 1
            out[mk] = v[st:pos]
        return out if pos == len(v) else None
    except IndexError:
        return None


def project_full(r, n):
    """the same chunks from the harness output (None for a route that the model does not cover)"""
    d = rc.parse_c12(r)
    if d is None:
        return None
    r106 = d.get(106, [])
    classes = []
    for k in range(0, len(r106), n):
        classes += [x if x < n else i for i, x in enumerate(r106[k:k + n])]
    out = {}
    for mk in (101, 103):
        o = d.get(mk)
        if o is None:
            return None
        k = o["kind"]
        if k == 0 and not o.get("walk_failed"):
            ch = [0, 0, len(classes)] + classes + [len(o["items"])]
            for idx, bits in o["items"]:
                ch += [idx, len(bits)] + list(bits)
            out[mk] = ch
        elif k == 1 and o.get("err") != 80:
            out[mk] = [1, o["err"]]
        elif k == 9:
            out[mk] = [9]
        else:
            out[mk] = None        # not applicable / refused by the text parser: outside the model
    return out


def gen_cases(rng, tier, binary, workdir):
    cases = []
    stats = {"structures": 0, "ill_typed_structures": 0, "no_witness": 0}
    olds = []
    for name, kind, args, fn in rc.load_corpus(PROP):
        prog = rc.parse_pdl(args[0])
        ar = rc.get_arrows(binary, [prog], workdir)[0]
        if isinstance(ar, tuple):
            continue
        if kind == "c12":
            cases.append(make_case("corpus_%s" % name, prog, ar, args[1] if len(args) > 1 else "-", "corpus:" + fn))
        elif kind == "c12old":
            c = Case("corpus_%s" % name, "c12old", pg.prog_pdl(prog), "run_c12old true %s" % rc.tprog_coq(prog, ar),
                     {"prog": prog, "arrows": ar, "gen": "corpus:" + fn})
            olds.append(c)
    n = 110 if tier == "quick" else 1200
    structs = []
    for k in range(n):
        r = rng.fork("s%d" % k)
        depth = r.choice([3, 4, 4, 5])
        opts = {"jets": False, "witness": 40, "verify": 0, "twin": 4, "hidden": 4, "fail": 1 if k % 11 == 0 else 0,
                "twice": 15}
        if k % 2:
            # tree-shaped: the human-readable route refuses witness nodes that are reachable by two paths
            opts.update(share=0, twin=0, twice=0)
        p = rc.gen_structure(r, depth, opts)
        if len(p) <= 120:
            structs.append((k, p))
    # the shape of finding F-C08 with a witness under the shared node (kept apart in the statistics)
    nsh = 40 if tier == "quick" else 400
    for k in range(nsh):
        structs.append((100000 + k, rc.gen_shared_witness(rng.fork("sh%d" % k))))
    stats["shared_witness_structures"] = nsh
    arrows = rc.get_arrows(binary, [p for _k, p in structs], workdir)
    for (k, p), ar in zip(structs, arrows):
        stats["structures"] += 1
        if isinstance(ar, tuple):
            stats["ill_typed_structures"] += 1
            continue
        ws = rc.witness_nodes(p)
        if not ws:
            stats["no_witness"] += 1
            continue
        r = rng.fork("w%d" % k)
        wv, ref = rc.choose_witnesses(r, p, ar, rc.ENV0)
        executed = {j for (j, _s) in ref[2]} if ref[0] == "ok" else set()

        def variant(tag, corrupt, tweak="-"):
            prog = []
            fams = {}
            for i, nd in enumerate(p):
                if nd[0] == "wit":
                    t = ar[i][1]
                    if i in corrupt:
                        if corrupt[i] == "missing":
                            fams[i] = ("missing", i in executed)
                            prog.append(("wit", None))
                            continue
                        fam, t2, v2 = candidate(r, corrupt[i], t, wv[i])
                        fams[i] = (fam, i in executed)
                        prog.append(("wit", ("t", t2, pg.compact_bits(v2))))
                    else:
                        prog.append(("wit", ("t", t, pg.compact_bits(wv[i]))))
                else:
                    prog.append(nd)
            cases.append(make_case("g%d_%s" % (k, tag), prog, ar, tweak, "gen", fams))

        variant("ok", {})
        nv = 4 if tier == "quick" else 6
        for v in range(nv):
            fam = FAMILIES[(k + v) % len(FAMILIES)]
            unex = [i for i in ws if i not in executed]
            wide_ws = [i for i in ws if pg.width(ar[i][1]) > 0]      # a unit target accepts (and erases) every value
            pool = wide_ws if wide_ws and r.below(100) < 80 else ws
            unex_pool = [i for i in pool if i in unex] or unex
            targets = [r.choice(unex_pool)] if unex_pool and r.below(100) < 40 else [r.choice(pool)]
            if r.below(4) == 0 and len(ws) > 1:
                targets.append(r.choice(ws))
            corrupt = {i: (fam if j == 0 else r.choice(FAMILIES + ["missing"])) for j, i in enumerate(targets)}
            variant("v%d" % v, corrupt)
        # the witness stream of the decode route: too long, too short, arbitrary
        tw = r.choice(["+1", "+0", "+00000000", "+10110", "-1", "-3", "-9"])
        variant("tw", {}, tw)
        variant("rnd", {}, "=" + "".join(str(b) for b in r.bits(r.below(24))))
    return cases, olds, stats


# ------------------------------------------------------------ the property, tested on the implementation
def check_full(c, r):
    m = c.meta
    prog, arrows, ref = m["prog"], m["arrows"], m["ref"]
    if r in ("CRASH", "TIMEOUT") or r is None:
        return ("crash", "implementation crashed or hung on %s" % c.line[:200])
    if r == [9]:
        return ("panic", "harness panicked outside the guarded stages")
    d = rc.parse_c12(r)
    if d is None:
        return ("format", "unparsable harness output %s" % r[:20])
    n = len(prog)
    ids = [x if x < n else i for i, x in enumerate(d.get(105, []))] or list(range(n))
    for mk in (100, 101, 102, 103, 104):
        o = d.get(mk)
        name = ROUTES[mk]
        if o is None:
            return ("format", "route %s missing in the output" % name)
        k = o["kind"]
        if k == 9:
            return ("panic", "route %s panics" % name)
        if k == 8:
            if mk in (100, 101):
                return ("format", "route %s not applicable?" % name)
            continue
        if mk in (102, 103) and k == 1 and o.get("err") == 80:
            if shared_witness(prog):
                continue      # the text format refuses witness nodes that are reachable by two paths: an error report
            return ("hr-parse", "the rendered human-readable program does not parse")
        if k == 0:
            if o.get("walk_failed"):
                return ("format", "route %s: result does not have the shape of the description" % name)
            if o["alltyped"] != 1:
                return ("ill-typed-witness", "route %s returns a program with a witness that is not of the target type of "
                        "its node" % name)
            if o["exec"] == 9:
                return ("exec-panic", "route %s: executing the returned program panics" % name)
            if mk != 104 and o["selfdec"] != 1:
                if o.get("principal") == 0 and mk in (101, 103):
                    return ("shared-retype", "route %s returns a program whose types are not the ones its structure infers; "
                            "its own serialisation does not decode to it (%d)" % (name, o["selfdec"]))
                return ("self-decode", "route %s returns a program whose own serialisation does not decode (%d)" % (name, o["selfdec"]))
            if mk == 104 and o["reenc"] != 1:
                return ("reencode", "route decode: the decoded program does not serialise to the bytes it was decoded from")
        # reference verdicts
        if mk in (100, 102):
            if ref["finalize_ok"]:
                if k != 0:
                    return ("typed-refused", "route %s refuses witnesses that fit their target types (error %s)" % (name, o.get("err")))
                for idx, bits in o["items"]:
                    exp = ref["coerced"].get(idx)
                    if exp is None or pg.compact_bits(exp) != list(bits):
                        return ("witness-value", "route %s: witness %d is not the supplied value coerced to the target type" % (name, idx))
                if ref["run"] is not None:
                    ecode = 0 if ref["run"][0] == "ok" else ref["run"][1]
                    if o["exec"] != ecode:
                        return ("exec-differs", "route %s: execution code %d, reference run %d" % (name, o["exec"], ecode))
            else:
                if k != 1 or o.get("err") != 41:
                    return ("ill-typed-accepted", "route %s accepts a witness that does not fit the target type of its node" % name)
        if mk in (101, 103):
            if not ref["finalize_ok"]:
                if k != 1 or o.get("err") != 41:
                    return ("ill-typed-accepted", "route %s accepts a witness that does not fit the target type of its node" % name)
            elif ref["run"][0] != "ok":
                if k != 1 or o.get("err") != 42:
                    return ("exec-differs", "route %s: the reference run fails (%d) but the route does not report an execution "
                            "error" % (name, ref["run"][1]))
            else:
                if k != 0:
                    return ("typed-refused", "route %s fails (%s) although the program runs" % (name, o.get("err")))
                if o["exec"] != 0:
                    return ("pruned-fails", "route %s: the pruned program does not run (%d)" % (name, o["exec"]))
                if o.get("principal") != 1:
                    return ("shared-retype", "route %s returns a program whose types are not the ones its structure infers" % name)
                ev = ref["run"][2]
                execd = {j for (j, _s) in ev}
                cls_exec = {ids[j] for j in execd}
                kept = {idx for idx, _b in o["items"]}
                for j in execd:
                    if prog[j][0] == "wit" and j not in kept:
                        return ("executed-dropped", "route %s drops the executed witness node %d" % (name, j))
                for j in kept:
                    if ids[j] not in cls_exec:
                        return ("unexecuted-kept", "route %s keeps witness node %d which was never executed" % (name, j))
        if mk == 104 and "order" in o:
            order = o["order"]
            stream = stream_bits(m, order)
            padded = stream + [0] * ((8 - len(stream) % 8) % 8)
            pos, vals, err = 0, [], None
            for i in order:
                rr = pg.of_compact(arrows[i][1], padded, pos)
                if rr is None:
                    err = 1
                    break
                vals.append(rr[0])
                pos = rr[1]
            if err is None:
                rest = padded[pos:]
                want = (8 - pos % 8) % 8
                if len(rest) > want:
                    err = 2
                elif any(rest):
                    err = 3
            if err is not None:
                if k != 1 or o.get("err") != err:
                    return ("decode-verdict", "route decode: expected error %d, got %s" % (err, (k, o.get("err"))))
            else:
                if k == 1 and o.get("err") == 4:
                    pass      # substituted values made two nodes identical: sharing is no longer maximal
                elif k != 0:
                    return ("decode-verdict", "route decode: a well-formed witness stream is refused (%s)" % o.get("err"))
                else:
                    for (idx, bits), v in zip(o["items"], vals):
                        if pg.compact_bits(v) != list(bits):
                            return ("decode-value", "route decode: witness %d is not the value in the stream" % idx)
    # identity: right-typed witnesses come back unchanged
    if ref["all_right"] and ref["finalize_ok"]:
        for mk in (100, 102):
            o = d[mk]
            if o["kind"] == 0:
                for idx, bits in o["items"]:
                    w = prog[idx][1]
                    if w is not None and list(w[2]) != list(bits):
                        return ("typed-changed", "route %s changes a witness that already has the target type" % ROUTES[mk])
    return None


def check_old(c, r):
    if r != [1, 0]:
        if isinstance(r, list) and r and r[0] == 0:
            return ("ill-typed-witness", "finalize_unpruned returns the 16-bit witness where 2^8 is inferred (F-C12 is back)")
        return ("old-witness", "unexpected result %s for the witness of F-C12 (expected refusal)" % (r,))
    return None


def finding_match(c, r, cls):
    for f in vplib.open_findings(PROP):
        if f.get("match", {}).get("kind") == cls:
            return f["id"]
    return None


# ------------------------------------------------------------ driver
def run(rep, tier, rng):
    vplib.proof_stage(rep, "Props/C12.v", extra_targets=["Redeem/Run.vo", "Redeem/RunIhr.vo"],
                      translators=("xlate_consts.py", "xlate_ivs.py", "xlate_jets.py"))
    rep.coverage["trusted_base"] = vplib.GENERIC_TRUSTED + [
        "models Redeem/Finalize.v, Redeem/Routes.v written by hand from node/construct.rs (finalize_unpruned, finalize_pruned), "
        "node/redeem.rs (decode: DecodeFinalizer; prune: Finalizer), human_encoding/named_node.rs (Populator), value.rs (prune, "
        "zero, is_of_type)",
        "final arrows of every node of the UNPRUNED program are taken from the implementation (`prog arrows`) and handed to the "
        "model as data; a Value is modelled as (type, structural value); the witness order of the decode route is read from the "
        "implementation.  For the pruning routes the first model (Redeem/Run.v) still takes the identity classes per round from the "
        "implementation; the second one (Redeem/RunIhr.v) computes them, the re-inferred types and the shrunk witnesses itself",
        "Redeem/CodecBridge.v ties the witness stream of this family to C01's (Codec/WitnessCodec.v) and to the program bits "
        "(Codec/Main.v canonical_roundtrip, Codec/RealJets.v for the Elements jet code); Codec files are another family's",
        "SharingNotMaximal verdicts of the decode route (substituted values make two nodes identical) are not modelled",
        "the logos lexer / parser of the human-readable encoding is exercised, not modelled (the route is modelled from the "
        "witness map onwards)",
        "Rust harness crate /verif/harness_redeem",
    ]
    rep.coverage["refuted_lemmas"] = ["C12_route_typed_old_refuted (the code before commit 7523d2e)"]
    binary = rc.harness_binary()
    cases, olds, stats = gen_cases(rng, tier, binary, rep.workdir())
    import time
    t0 = time.time()
    allc = olds + cases
    full = vplib.run_harness(binary, rc.COMMAND, ["%s %s %s" % (c.cid, c.kind, c.line) for c in allc],
                             workdir=rep.workdir(), timeout=900)
    t1 = time.time()
    for c in cases:
        c.expr = model_expr(c, full.get(c.cid))
    vals, logs = vplib.coq_eval(IMPORTS, [c.expr for c in allc], workdir=rep.workdir(), tag="c12",
                                batch=max(40, min(250, (len(allc) + 11) // 12)))
    t2 = time.time()
    bad = [l for l in logs if l]
    if bad:
        raise vplib.Infra("model evaluation failed in Coq:\n" + bad[0][-3000:])
    model = {c.cid: v for c, v in zip(allc, vals) if v is not None}
    impl = {}
    for c in allc:
        r = full.get(c.cid)
        if c.kind == "c12":
            pr = rc.project_c12(r)
            # SharingNotMaximal of the decode route is outside the model
            mv = model.get(c.cid)
            d = rc.parse_c12(r)
            o104 = (d or {}).get(104, {})
            if mv is not None and ((o104.get("kind") == 1 and o104.get("err") == 4) or o104.get("kind") == 8):
                model[c.cid] = splice_104(mv, pr)
            if mv is not None and d and any(d.get(mk, {}).get("err") == 80 for mk in (102, 103)):
                model[c.cid] = splice_hr(model[c.cid], pr)
            impl[c.cid] = pr
        else:
            impl[c.cid] = r
    # second model: the pruning routes end to end (Redeem/PruneIhr.v: identity classes of every round computed in Coq,
    # re-inference by the reference of C04, witness shrinking): rounds, kept witnesses AND their bits
    sample = [c for k, c in enumerate(cases) if len(c.meta["prog"]) <= FULL_MAX_NODES
              and (tier != "quick" or c.cid.startswith("g1000") or c.cid.startswith("corpus") or k % 4 == 0)]
    if len(sample) > 3000:      # thorough tier: bound the evaluation time; corpus and shared-witness cases first
        first = [c for c in sample if c.cid.startswith("g1000") or c.cid.startswith("corpus")]
        rest = [c for c in sample if not (c.cid.startswith("g1000") or c.cid.startswith("corpus"))]
        sample = (first + rest[::max(1, len(rest) // max(1, 3000 - len(first)))])[:3000]
    vals2, logs2 = vplib.coq_eval(IMPORTS_FULL, [full_expr(c) for c in sample], workdir=rep.workdir(), tag="c12f",
                                  batch=max(8, min(60, (len(sample) + 15) // 16)))
    t3 = time.time()
    bad2 = [l for l in logs2 if l]
    if bad2:
        raise vplib.Infra("evaluation of the end-to-end model failed in Coq:\n" + bad2[0][-3000:])
    n_full = n_routes = 0
    for c, v in zip(sample, vals2):
        if v is None or c.cid not in model:
            continue
        mv = split_full(v)
        iv = project_full(full.get(c.cid), len(c.meta["prog"]))
        if mv is None or iv is None:
            model[c.cid] = list(model[c.cid]) + [777, -1]
            impl[c.cid] = list(impl[c.cid]) + [777, -2]
            continue
        n_full += 1
        mm, ii = [777], [777]
        for mk in (101, 103):
            if iv[mk] is None:
                continue
            n_routes += 1
            mm += [mk] + list(mv[mk])
            ii += [mk] + list(iv[mk])
        model[c.cid] = list(model[c.cid]) + mm
        impl[c.cid] = list(impl[c.cid]) + ii
    cor = rep.coverage.setdefault("correspondence", {})
    cor["impl_eval_s"] = round(t1 - t0, 2)
    cor["model_eval_s"] = round(t2 - t1, 2)
    cor["end_to_end_model_eval_s"] = round(t3 - t2, 2)
    cor["end_to_end_model"] = {
        "what": "Redeem/RunIhr.v run_c12_full: finalize_pruned (routes 101/103) = finalize_unpruned + RedeemNode::prune with the "
                "identity classes of every round computed in Coq (Merkle/Ihr.v, SHA-256), re-inference by Infer.infer and witness "
                "shrinking; compared: outcome, classes of every round, kept witness nodes and the BITS of every kept witness",
        "cases": n_full, "of": len(cases), "routes_compared": n_routes,
        "rule": "programs with at most %d nodes (quick tier: every shared-witness case and every fourth other case); a route "
                "refused by the parser of the text format is outside the model" % FULL_MAX_NODES,
    }

    def pc(c, _r):
        return check_old(c, full.get(c.cid)) if c.kind == "c12old" else check_full(c, full.get(c.cid))

    def nontrivial(c, _r):
        if c.kind != "c12":
            return None
        f = c.meta.get("fams") or {}
        if not f and c.meta["tweak"] == "-":
            return None
        return c.line

    pfail, mism = vplib.decide(rep, allc, impl, model, pc, finding_match, nontrivial,
                               what="correspondence Redeem/Run.v (run_c12) vs the finalising routes")
    hist = {}
    outcomes = {}
    for c in cases:
        d = rc.parse_c12(full.get(c.cid)) or {}
        for i, (fam, ex) in (c.meta.get("fams") or {}).items():
            key = "%s/%s" % (fam, "executed" if ex else "unexecuted")
            hist[key] = hist.get(key, 0) + 1
        for mk in (100, 101, 102, 103, 104):
            o = d.get(mk)
            if o:
                key = "%d:%s" % (mk, {0: "ok", 1: "err%s" % o.get("err"), 8: "n/a", 9: "panic"}.get(o["kind"]))
                outcomes[key] = outcomes.get(key, 0) + 1
    stats["candidate_families"] = hist
    stats["route_outcomes"] = outcomes
    rep.coverage["population"] = stats
    rep.coverage["rule"] = ("jet-free type-directed 1 -> 1 programs with many witness nodes (all target types the generator reaches), "
                            "nested cases, sharing, twins, assertions; witnesses first chosen so that the program runs, then one or "
                            "two of them replaced by a candidate of family wide / narrow / same-width-other-shape / unit / "
                            "coercible-wider / missing, on executed and unexecuted branches; every case through five routes; the "
                            "decode route also with lengthened, shortened and random witness streams.  Distinct non-trivial = "
                            "distinct case with at least one replaced witness or a modified stream")
    rep.coverage["samples"] = [{"kind": c.kind, "args": c.line[:300], "impl": (full.get(c.cid) or [])[:40]}
                               for c in allc[::max(1, len(allc) // 5)][:6]]
    vplib.finish_proof_verdict(rep, pfail)


def segments(v):
    """marker -> (start, end) of each route's segment in a PROJECTED result (the format of Redeem/Run.v run_c12),
    parsed sequentially: node indices inside a segment may equal a marker once a program has more than 100 nodes"""
    seg = {}
    pos = 0
    try:
        while pos < len(v):
            m = v[pos]
            start = pos
            pos += 1
            if m == 105:
                pos += 1 + v[pos]
            elif m in (100, 101, 102, 103, 104):
                if m == 104:
                    if v[pos] == 8 and (pos + 1 >= len(v) or v[pos + 1] == 105):
                        pos += 1
                        seg[m] = (start, pos)
                        continue
                    pos += 1 + v[pos]
                k = v[pos]
                pos += 1
                if k == 1:
                    pos += 1
                elif k == 0:
                    pos += 2 if m == 104 else 4
                    cnt = v[pos]
                    pos += 1
                    for _ in range(cnt):
                        pos += 1 if m in (101, 103) else 2 + v[pos + 1]
            else:
                return None
            if pos > len(v):
                return None
            seg[m] = (start, pos)
    except (IndexError, TypeError):
        return None
    return seg


def splice_routes(model_v, impl_v, first, after):
    """replace the segments [first, after) of the model's result by the implementation's"""
    sm, si = segments(model_v), segments(impl_v)
    if not sm or not si or first not in sm or after not in sm or first not in si or after not in si:
        return model_v
    return model_v[:sm[first][0]] + impl_v[si[first][0]:si[after][0]] + model_v[sm[after][0]:]


def splice_104(model_v, impl_v):
    """replace the route-104 outcome of the model by the implementation's (sharing verdict)"""
    return splice_routes(model_v, impl_v, 104, 105)


def splice_hr(model_v, impl_v):
    """routes 102/103 refused by the parser of the text format (shared witness node): not modelled"""
    return splice_routes(model_v, impl_v, 102, 104)


def replay(obj):
    print(json.dumps(obj, indent=1)[:6000])
    c = obj.get("case")
    if not c:
        return 0
    binary = rc.harness_binary()
    wd = os.path.join(vplib.WORK, PROP)
    os.makedirs(wd, exist_ok=True)
    t = c["harness_args"].split()
    prog = rc.parse_pdl(t[0])
    ar = rc.get_arrows(binary, [prog], wd)[0]
    if c["kind"] == "c12old":
        full = vplib.run_harness(binary, rc.COMMAND, ["x c12old %s" % t[0]], workdir=wd)
        print("implementation:", full.get("x"), " (1 0 = refused, property holds)")
        return 0
    case = make_case(c["id"], prog, ar, t[1] if len(t) > 1 else "-", "replay", (c.get("meta") or {}).get("fams"))
    full = vplib.run_harness(binary, rc.COMMAND, ["%s %s %s" % (case.cid, case.kind, case.line)], workdir=wd)
    r = full.get(case.cid)
    vals, logs = vplib.coq_eval(IMPORTS, [model_expr(case, r)], workdir=wd, tag="replay")
    print("implementation:", r)
    print("projected     :", rc.project_c12(r))
    print("model         :", vals[0] if vals else logs)
    vals2, logs2 = vplib.coq_eval(IMPORTS_FULL, [full_expr(case)], workdir=wd, tag="replayf")
    print("projected (end-to-end model of the pruning routes):", project_full(r, len(prog)))
    print("end-to-end model                                  :", split_full(vals2[0]) if vals2 and vals2[0] else logs2)
    print("property      :", check_full(case, r))
    return 0
