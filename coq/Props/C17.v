(* C17 - Human-readable encoding round-trips.
   Only pinned statements (`Theorem .. exact lemma`), `Print Assumptions`, and examples showing
   that the hypotheses are satisfiable.  Models: Human/Namer.v (names, Namer, from_program),
   Human/Render.v (string_serialize), Human/Resolve.v (the parser from the line list on).
   The model is at the level of definitions; characters, the lexer, the line grammar, type
   ascriptions / type inference and number formats are outside it (tested on the implementation
   by tools/props/c17.py only). *)
From RS Require Import Lib.Tac Lib.Outcome Core.Prog Human.Namer Human.Render Human.Resolve
  Human.RenderProofs Human.ResolveProofs Human.ConvProofs Human.FinProofs Human.RoundTrip Human.Run.
Import ListNotations.
Local Open Scope N_scope.

(* 1. the walk of the renderer (post order by node object) visits the root, is closed under
   children, visits nothing twice and nothing that is not reachable from the root *)
Theorem C17_post_order : forall d, wf_ndag d = true -> po_facts d (post_order d).
Proof. exact post_order_facts. Qed.
Print Assumptions C17_post_order.

(* 2. render_defined: when distinct node objects carry distinct names, every name a rendered
   line refers to is the name of exactly one rendered line (the section split only reorders) *)
Theorem C17_render_defined : forall d,
  wf_ndag d = true -> NoDup (map (nname d) (post_order d)) -> all_defined (render d).
Proof. exact render_defined. Qed.
Print Assumptions C17_render_defined.

(* 3. resolve_render: the parser applied to the rendering of a named DAG (distinct names, every
   witness / disconnect name on one path only - the parser's own acceptance rule) succeeds with
   exactly one root, under the root's name, and the DAG it builds is the rendered one up to
   renumbering: same kinds, payloads, names, hole names, same sharing *)
Theorem C17_resolve_render : forall d cmr_of,
  wf_ndag d = true -> NoDup (map (nname d) (post_order d)) -> path_errs d = [] ->
  exists d', resolve_lines cmr_of (render d) = Ok [(nname d (root_of d), d')] /\
             iso d d' /\ wf_ndag d' = true.
Proof. exact resolve_render_thm. Qed.
Print Assumptions C17_resolve_render.

(* 4. what a copy up to renumbering preserves: every value computed bottom-up from kind,
   payload and the values of the children - in particular a commitment root, for ANY hash
   function `step` (the structural theorems of C09 / C01 then give the real root and encoding) *)
Theorem C17_iso_cmr : forall (C : Type) (c0 : C) (step : kind -> list N -> option C -> option C -> C) d d',
  wf_ndag d = true -> wf_ndag d' = true -> iso d d' -> cmr_root c0 step d' = cmr_root c0 step d.
Proof. exact @iso_cmr_thm. Qed.
Print Assumptions C17_iso_cmr.

Theorem C17_roundtrip_cmr : forall (C : Type) (c0 : C) (step : kind -> list N -> option C -> option C -> C) d cmr_of,
  wf_ndag d = true -> NoDup (map (nname d) (post_order d)) -> path_errs d = [] ->
  exists d', resolve_lines cmr_of (render d) = Ok [(nname d (root_of d), d')] /\
             cmr_root c0 step d' = cmr_root c0 step d.
Proof. exact @roundtrip_cmr. Qed.
Print Assumptions C17_roundtrip_cmr.

(* 5. Namer: a generated name is new (not below the counters before, below them after, never
   `main`); from_program gives distinct node objects distinct names when no proper
   sub-expression has the commitment root of the whole program *)
Theorem C17_assign_name_fresh : forall nm k n nm',
  assign_name nm k = (n, nm') ->
  ~ name_below nm n /\ name_below nm' n /\ n <> NMain /\
  const_idx nm <= const_idx nm' /\ wit_idx nm <= wit_idx nm' /\ other_idx nm <= other_idx nm'.
Proof. exact assign_name_fresh. Qed.
Print Assumptions C17_assign_name_fresh.

Theorem C17_from_program_names : forall p ihr cmr,
  wf_prog p = true ->
  (forall j, (j < pred (length p))%nat -> nth j cmr 0 <> nth (pred (length p)) cmr 0) ->
  NoDup (map nn_name (name_program p ihr cmr)).
Proof. exact name_program_names_distinct. Qed.
Print Assumptions C17_from_program_names.

(* 6. the renderer before commit 5461b0f (one line per identity hash class, operands named per
   object) is refuted: a well-formed DAG with distinct names whose old rendering refers to `ut2`
   and defines it nowhere *)
Theorem C17_render_old_refuted :
  exists d ihr, wf_ndag d = true /\ NoDup (map (nname d) (post_order d)) /\
    ~ all_defined (render_old d ihr) /\
    (exists l, In l (render_old d ihr) /\ In (NGen PUt 2) (dl_refs l) /\
               count_name (NGen PUt 2) (map dl_name (render_old d ihr)) = 0%nat).
Proof. exact render_old_refuted. Qed.
Print Assumptions C17_render_old_refuted.

(* ------------------------------------------------------------------ the hypotheses are satisfiable *)
(* `main := comp (pair unit unit) unit` as parsed: theorem 3 applies and the model computes the
   same DAG again *)
Example C17_ex_hyps :
  wf_ndag old_witness = true /\ NoDup (map (nname old_witness) (post_order old_witness)) /\
  path_errs old_witness = [].
Proof.
  split; [reflexivity|]. split; [|reflexivity].
  vm_compute. repeat constructor; cbn; intuition discriminate.
Qed.

Example C17_ex_roundtrip :
  resolve_lines no_cmr (render old_witness) = Ok [(NMain, old_witness)].
Proof. vm_compute. reflexivity. Qed.

(* a disconnect with its hole, an assertion with its hidden root, a witness: all go round *)
Definition ex_special : ndag :=
  [ mk_nn KIden [] None None (NGen PId 1) None;
    mk_nn KDisconnect [] (Some 0%nat) None (NGen PDisc 3) (Some (NHole 1));
    mk_nn KWitness [] None None (NGen PWit 1) None;
    mk_nn KAssertL [1; 2; 3] (Some 2%nat) None (NGen PAsstl 4) None;
    mk_nn KPair [] (Some 1%nat) (Some 3%nat) (NGen PPr 5) None;
    mk_nn KUnit [] None None (NGen PUt 6) None;
    mk_nn KComp [] (Some 4%nat) (Some 5%nat) NMain None ].

Example C17_ex_special :
  wf_ndag ex_special = true /\ path_errs ex_special = [] /\
  exists d', resolve_lines no_cmr (render ex_special) = Ok [(NMain, d')] /\
             show_lines (render d') = show_lines (render ex_special).
Proof.
  split; [reflexivity|]. split; [reflexivity|].
  eexists. split; [vm_compute; reflexivity | reflexivity].
Qed.

(* Full statement for committed programs, of which 3 + 5 prove the part about names: the named
   DAG that from_program builds satisfies all hypotheses of theorem 3.  Not proved: that it is
   well formed as a table and that every witness is on one path only (the copies made for nodes
   without identity hash); both are evaluated on every generated case by the check. *)
Definition C17_from_program_statement : Prop :=
  forall p ihr cmr,
    wf_prog p = true ->
    (forall j, (j < pred (length p))%nat -> nth j cmr 0 <> nth (pred (length p)) cmr 0) ->
    (forall i, nth i ihr None <> None -> shape_of p i <> None) ->
    let d := name_program p ihr cmr in
    wf_ndag d = true /\ NoDup (map (nname d) (post_order d)) /\ path_errs d = [].
