(* C17 - the parser model applied to the output of the renderer model, part 4: the round trip
   `resolve (render d) = Ok [(root name, d')]` with d' a copy of d up to renumbering, and what
   is invariant under such a copy (values computed bottom-up: an abstract commitment root, the
   path counts of witness names). *)
From RS Require Import Lib.Tac Lib.Outcome Human.Namer Human.Render Human.Resolve
  Human.RenderProofs Human.ResolveProofs Human.ConvProofs Human.FinProofs.
Import ListNotations.
Local Open Scope N_scope.

(* ------------------------------------------------------------------ copies up to renumbering *)
Definition olift (rho : nat -> option nat) (o : option nat) : option nat :=
  match o with Some c => rho c | None => None end.

Record iso_map (d d' : ndag) (rho : nat -> option nat) : Prop := mk_iso {
  im_root : rho (root_of d) = Some (root_of d');
  im_inj : forall a b k, rho a = Some k -> rho b = Some k -> a = b;
  im_node : forall a b, rho a = Some b ->
    (a < length d)%nat /\ (b < length d')%nat /\
    nn_kind (nget d' b) = nn_kind (nget d a) /\ nn_pay (nget d' b) = nn_pay (nget d a) /\
    nn_name (nget d' b) = nn_name (nget d a) /\ nn_hole (nget d' b) = nn_hole (nget d a) /\
    nn_l (nget d' b) = olift rho (nn_l (nget d a)) /\
    (forall c, nn_l (nget d a) = Some c -> exists c', rho c = Some c' /\ (c' < b)%nat) /\
    nn_r (nget d' b) = olift rho (nn_r (nget d a)) /\
    (forall c, nn_r (nget d a) = Some c -> exists c', rho c = Some c' /\ (c' < b)%nat) }.

(* same nodes, same sharing: a function on the nodes reachable from the root, injective, that
   commutes with the children and keeps kind, payload, name and hole name *)
Definition iso (d d' : ndag) : Prop := exists rho, iso_map d d' rho.

(* ------------------------------------------------------------------ values computed bottom-up *)
Section EvalFacts.
Context {X : Type}.
Variable dflt : X.
Variable f : nnode -> option X -> option X -> X.

Lemma eval_go_length : forall rest pre, length (eval_go dflt f pre rest) = (length pre + length rest)%nat.
Proof.
  induction rest as [|n r IH]; intros pre; cbn [eval_go length]; [lia|].
  rewrite IH, app_length. cbn. lia.
Qed.

Lemma eval_go_pre : forall rest pre i, (i < length pre)%nat ->
  nth i (eval_go dflt f pre rest) dflt = nth i pre dflt.
Proof.
  induction rest as [|n r IH]; intros pre i Hi; cbn [eval_go]; [reflexivity|].
  rewrite IH by (rewrite app_length; lia). apply app_nth1. exact Hi.
Qed.

Lemma eval_go_spec : forall rest pre i, (i < length rest)%nat ->
  (forall c, nn_l (nth i rest dummy_nn) = Some c -> (c < length pre + i)%nat) ->
  (forall c, nn_r (nth i rest dummy_nn) = Some c -> (c < length pre + i)%nat) ->
  nth (length pre + i) (eval_go dflt f pre rest) dflt =
  f (nth i rest dummy_nn)
    (option_map (fun c => nth c (eval_go dflt f pre rest) dflt) (nn_l (nth i rest dummy_nn)))
    (option_map (fun c => nth c (eval_go dflt f pre rest) dflt) (nn_r (nth i rest dummy_nn))).
Proof.
  induction rest as [|n r IH]; intros pre i Hi Hl Hr; [cbn in Hi; lia|].
  destruct i as [|i].
  - cbn [nth] in *. cbn [eval_go]. rewrite Nat.add_0_r in *.
    rewrite eval_go_pre by (rewrite app_length; cbn; lia).
    rewrite app_nth2 by lia. rewrite Nat.sub_diag. cbn [nth].
    f_equal.
    + destruct (nn_l n) as [c|]; [|reflexivity]. cbn [option_map]. f_equal.
      specialize (Hl c eq_refl). rewrite eval_go_pre by (rewrite app_length; cbn; lia).
      symmetry. apply app_nth1. exact Hl.
    + destruct (nn_r n) as [c|]; [|reflexivity]. cbn [option_map]. f_equal.
      specialize (Hr c eq_refl). rewrite eval_go_pre by (rewrite app_length; cbn; lia).
      symmetry. apply app_nth1. exact Hr.
  - cbn [nth] in *. cbn [eval_go].
    set (v := f n _ _).
    specialize (IH (pre ++ [v]) i).
    rewrite app_length in IH. cbn [length] in IH.
    replace (length pre + 1 + i)%nat with (length pre + S i)%nat in IH by lia.
    apply IH; [cbn in Hi; lia | exact Hl | exact Hr].
Qed.

Lemma eval_tbl_nth d i : wf_ndag d = true -> (i < length d)%nat ->
  nth i (eval_tbl dflt f d) dflt =
  f (nget d i) (option_map (fun c => nth c (eval_tbl dflt f d) dflt) (nn_l (nget d i)))
    (option_map (fun c => nth c (eval_tbl dflt f d) dflt) (nn_r (nget d i))).
Proof.
  intros W Hi. unfold eval_tbl.
  pose proof (eval_go_spec d [] i Hi) as H. cbn [length Nat.add] in H. apply H.
  - intros c Hc. assert (child d i c) by (left; exact Hc). apply (wf_child d i c W) in H0. lia.
  - intros c Hc. assert (child d i c) by (right; exact Hc). apply (wf_child d i c W) in H0. lia.
Qed.

Hypothesis f_label : forall n n' x y,
  nn_kind n = nn_kind n' -> nn_pay n = nn_pay n' -> nn_name n = nn_name n' -> nn_hole n = nn_hole n' ->
  f n x y = f n' x y.

Lemma eval_transfer d d' rho : wf_ndag d = true -> wf_ndag d' = true -> iso_map d d' rho ->
  forall a b, rho a = Some b -> nth b (eval_tbl dflt f d') dflt = nth a (eval_tbl dflt f d) dflt.
Proof.
  intros W W' I. induction a as [a IH] using lt_wf_ind. intros b Hab.
  destruct (im_node _ _ _ I a b Hab) as [Ha [Hb [Hk [Hp [Hn [Hh [Hl [Hld [Hr Hrd]]]]]]]]].
  rewrite (eval_tbl_nth d' b W' Hb), (eval_tbl_nth d a W Ha).
  rewrite (f_label (nget d' b) (nget d a)) by assumption.
  f_equal.
  - rewrite Hl. destruct (nn_l (nget d a)) as [c|] eqn:El; [|reflexivity]. cbn [olift option_map].
    destruct (Hld c eq_refl) as [c' [Hc' _]]. rewrite Hc'. cbn [option_map]. f_equal.
    apply IH; [|exact Hc']. assert (child d a c) by (left; exact El). apply (wf_child d a c W) in H. lia.
  - rewrite Hr. destruct (nn_r (nget d a)) as [c|] eqn:Er; [|reflexivity]. cbn [olift option_map].
    destruct (Hrd c eq_refl) as [c' [Hc' _]]. rewrite Hc'. cbn [option_map]. f_equal.
    apply IH; [|exact Hc']. assert (child d a c) by (right; exact Er). apply (wf_child d a c W) in H. lia.
Qed.
End EvalFacts.

(* an abstract commitment root: any function of kind, payload and the roots of the children *)
Section Cmr.
Context {C : Type}.
Variable c0 : C.
Variable cmr_step : kind -> list N -> option C -> option C -> C.

Definition cmr_tbl (d : ndag) : list C :=
  eval_tbl c0 (fun n l r => cmr_step (nn_kind n) (nn_pay n) l r) d.
Definition cmr_root (d : ndag) : C := nth (root_of d) (cmr_tbl d) c0.

Theorem iso_cmr d d' : wf_ndag d = true -> wf_ndag d' = true -> iso d d' -> cmr_root d' = cmr_root d.
Proof.
  intros W W' [rho I]. unfold cmr_root, cmr_tbl.
  apply (eval_transfer c0 _) with (rho := rho); try assumption.
  - intros n n' x y Hk Hp _ _. rewrite Hk, Hp. reflexivity.
  - apply (im_root _ _ _ I).
Qed.
End Cmr.

Lemma iso_path_counts d d' : wf_ndag d = true -> wf_ndag d' = true -> iso d d' ->
  path_counts d' = path_counts d.
Proof.
  intros W W' [rho I]. unfold path_counts.
  apply (eval_transfer [] cnt_node) with (rho := rho); try assumption.
  - intros n n' x y Hk _ Hn _. unfold cnt_node, counted. rewrite Hk, Hn. reflexivity.
  - apply (im_root _ _ _ I).
Qed.

(* ------------------------------------------------------------------ lists of distinct names *)
Lemma count_le_nodup l : NoDup l -> forall n, (count_name n l <= 1)%nat.
Proof.
  intros Hd n. destruct (in_dec name_dec n l) as [Hin|Hn].
  - rewrite (count_name_nodup n l Hd Hin). lia.
  - unfold count_name. rewrite (filter_none (name_eqb n) l); [cbn; lia|].
    intros x Hx. apply name_eqb_neq. intros ->. contradiction.
Qed.

Lemma nodup_of_count l : (forall n, (count_name n l <= 1)%nat) -> NoDup l.
Proof.
  induction l as [|x r IH]; intros H; constructor.
  - intros Hin. specialize (H x). unfold count_name in H. cbn [filter] in H.
    rewrite name_eqb_refl in H. cbn [length] in H.
    assert (1 <= length (filter (name_eqb x) r))%nat.
    { clear H IH. induction r as [|y r IH]; [inversion Hin|]. cbn [filter]. destruct Hin as [->|Hin].
      - rewrite name_eqb_refl. cbn. lia.
      - destruct (name_eqb x y); cbn [length]; [lia | apply IH; exact Hin]. }
    lia.
  - apply IH. intros n. specialize (H n). unfold count_name in *. cbn [filter] in H.
    destruct (name_eqb n x); cbn [length] in H; lia.
Qed.

(* ------------------------------------------------------------------ the round trip *)
Section RoundTrip.
Variable d : ndag.
Hypothesis W : wf_ndag d = true.
Hypothesis Hnames : NoDup (map (nname d) (post_order d)).
Variable cmr_of : ndag -> nat -> list N.

Let PO := post_order d.
Let F : po_facts d PO := post_order_facts d W.
Let lines := parse_lines (render d).
Let um : umap := map entry_of lines.
Let rn := nname d (root_of d).

Lemma lines_names : map ln_name lines = map dl_name (render d).
Proof. unfold lines, parse_lines. rewrite map_map. reflexivity. Qed.

Lemma lines_nodup : NoDup (map ln_name lines).
Proof.
  rewrite lines_names. apply nodup_of_count. intros n. rewrite render_names_perm.
  apply count_le_nodup. exact Hnames.
Qed.

Lemma um_keys : map fst um = map dl_name (render d).
Proof. unfold um. rewrite map_map. cbn [entry_of fst]. apply lines_names. Qed.

Lemma step1_lines : step1 lines = (um, []).
Proof. apply step1_nodup. exact lines_nodup. Qed.

Lemma um_entry a : In a PO ->
  In (nname d a, Some (expr_of_defline (line_of d a))) um.
Proof.
  intros Ha. unfold um, lines, parse_lines. rewrite map_map. cbn [entry_of ln_name ln_expr].
  apply in_map_iff. exists (line_of d a). split; [reflexivity|].
  unfold render. apply in_sections. unfold lines_of_root. apply in_map. exact Ha.
Qed.

Lemma um_nodup : NoDup (map fst um).
Proof. rewrite um_keys, <- lines_names. exact lines_nodup. Qed.

Lemma um_lookup a : In a PO ->
  um_get um (nname d a) = Some (Some (expr_of_defline (line_of d a))).
Proof. intros Ha. apply um_get_in; [exact um_nodup | apply um_entry; exact Ha]. Qed.

Lemma um_entries ne : In ne um -> exists a, In a PO /\ ne = (nname d a, Some (expr_of_defline (line_of d a))).
Proof.
  unfold um, lines, parse_lines. rewrite map_map. cbn [entry_of ln_name ln_expr].
  intros H. apply in_map_iff in H. destruct H as [l [<- Hl]].
  unfold render in Hl. apply (proj1 (in_sections _ _)) in Hl. unfold lines_of_root in Hl.
  apply in_map_iff in Hl. destruct Hl as [a [<- Ha]]. exists a. split; [exact Ha | reflexivity].
Qed.

Lemma name_inj' a b : In a PO -> In b PO -> nname d a = nname d b -> a = b.
Proof. apply (name_inj d Hnames). Qed.

(* the names referred to: the names of the children of visited nodes *)
Lemma all_refs_spec n : In n (all_refs um) <-> exists a c, In a PO /\ child d a c /\ n = nname d c.
Proof.
  unfold all_refs. rewrite in_flat_map. split.
  - intros [ne [Hne Hn]]. destruct (um_entries ne Hne) as [a [Ha ->]]. cbn [snd] in Hn.
    rewrite (refs_rendered d a W (pf_range _ _ F a Ha)) in Hn.
    unfold dl_refs, line_of in Hn. cbn [dl_l dl_r] in Hn. apply in_app_or in Hn. destruct Hn as [Hn|Hn].
    + destruct (nn_l (nget d a)) as [c|] eqn:El; cbn in Hn; [|inversion Hn]. destruct Hn as [<-|[]].
      exists a, c. split; [exact Ha|]. split; [left; exact El | reflexivity].
    + destruct (nn_r (nget d a)) as [c|] eqn:Er; cbn in Hn; [|inversion Hn]. destruct Hn as [<-|[]].
      exists a, c. split; [exact Ha|]. split; [right; exact Er | reflexivity].
  - intros [a [c [Ha [Hc ->]]]]. exists (nname d a, Some (expr_of_defline (line_of d a))).
    split; [apply um_entry; exact Ha|]. cbn [snd].
    rewrite (refs_rendered d a W (pf_range _ _ F a Ha)).
    unfold dl_refs, line_of. cbn [dl_l dl_r]. apply in_or_app. destruct Hc as [Hc|Hc]; rewrite Hc; cbn; tauto.
Qed.

Lemma root_names_um : root_names um = [rn].
Proof.
  unfold root_names.
  set (P := fun ne : name * option expr => negb (mem_name (fst ne) (all_refs um))).
  assert (Hroot : In (root_of d) PO) by (apply (pf_root _ _ F)).
  rewrite (filter_unique P um (rn, Some (expr_of_defline (line_of d (root_of d))))).
  - reflexivity.
  - apply (NoDup_map_inv fst). exact um_nodup.
  - apply um_entry. exact Hroot.
  - unfold P. cbn [fst]. destruct (mem_name rn (all_refs um)) eqn:E; [|reflexivity].
    apply mem_name_In in E. apply all_refs_spec in E. destruct E as [a [c [Ha [Hc En]]]].
    assert (Hcpo : In c PO) by (apply (pf_closed _ _ F a c Ha Hc)).
    apply name_inj' in En; [|exact Hroot | exact Hcpo].
    pose proof (wf_child d a c W Hc) as [H1 H2]. unfold root_of in En. lia.
  - intros ne Hne Hneq. destruct (um_entries ne Hne) as [a [Ha ->]].
    unfold P. cbn [fst].
    destruct (pf_parent _ _ F a Ha) as [->|[p [Hp Hc]]]; [exfalso; apply Hneq; reflexivity|].
    assert (In (nname d a) (all_refs um)).
    { apply all_refs_spec. exists p, a. repeat split; assumption. }
    apply mem_name_In in H. rewrite H. reflexivity.
Qed.

(* rank: the number of visited nodes below a node *)
Definition rank (a : nat) : nat := length (filter (fun b => Nat.ltb b a) PO).

Lemma filter_length_lt {A} (p q : A -> bool) l y :
  (forall x, p x = true -> q x = true) -> In y l -> q y = true -> p y = false ->
  (length (filter p l) < length (filter q l))%nat.
Proof.
  intros Hpq. induction l as [|x r IH]; intros Hin Hq Hp; [inversion Hin|].
  assert (Hle : forall l', (length (filter p l') <= length (filter q l'))%nat).
  { induction l' as [|z l' IH']; [cbn; lia|]. cbn [filter].
    destruct (p z) eqn:Ez; [rewrite (Hpq z Ez); cbn; lia | destruct (q z); cbn; lia]. }
  cbn [filter]. destruct Hin as [->|Hin].
  - rewrite Hp, Hq. cbn [length]. specialize (Hle r). lia.
  - specialize (IH Hin Hq Hp). destruct (p x) eqn:Ex; [rewrite (Hpq x Ex); cbn; lia | destruct (q x); cbn; lia].
Qed.

Lemma rank_child a c : In a PO -> child d a c -> (rank c < rank a)%nat.
Proof.
  intros Ha Hc. unfold rank. pose proof (wf_child d a c W Hc) as [Hlt _].
  apply (filter_length_lt _ _ PO c).
  - intros x Hx. apply Nat.ltb_lt in Hx. apply Nat.ltb_lt. lia.
  - apply (pf_closed _ _ F a c Ha Hc).
  - apply Nat.ltb_lt. exact Hlt.
  - apply Nat.ltb_ge. lia.
Qed.

Lemma rank_le a : (rank a <= length PO)%nat.
Proof.
  unfold rank. generalize PO as l. induction l as [|x r IH]; cbn [filter length]; [lia|].
  destruct (Nat.ltb x a); cbn [length]; lia.
Qed.

Lemma total_size_ge : forall (u : umap) acc,
  (acc + length u <= fold_left (fun acc ne => acc + 1 +
     (fix sz (e : expr) : nat :=
        match e with
        | ERef _ | EHole _ => 1
        | ENode _ _ l r => 1 + match l with Some a => sz a | None => 0 end + match r with Some b => sz b | None => 0 end
        | EAssertLit _ c _ => 1 + sz c
        | EAssertExpr _ c h => 1 + sz c + sz h
        end) (match snd ne with Some e => e | None => ERef NMain end))%nat u acc)%nat.
Proof.
  induction u as [|x r IH]; intros acc; cbn [fold_left length]; [lia|].
  eapply Nat.le_trans; [|apply IH]. lia.
Qed.

Lemma fuel_enough : (2 * rank (root_of d) + 2 <= 2 * total_size um + 2)%nat.
Proof.
  assert (E : forall ls : list defline, length (sections ls) = length ls).
  { intros ls. unfold sections. rewrite !app_length.
    induction ls as [|x r IH]; [reflexivity|]. cbn [filter].
    destruct (line_class x) as [[-> [-> ->]]|[[-> [-> ->]]|[-> [-> ->]]]]; cbn [length]; lia. }
  assert (length PO = length um).
  { unfold um, lines, parse_lines, render, lines_of_root. rewrite !map_length, E, map_length. reflexivity. }
  pose proof (rank_le (root_of d)). pose proof (total_size_ge um 1). unfold total_size. lia.
Qed.

(* the invariant holds initially *)
Lemma invA_init : invA d [] (mk_rs [] [] namer_new []).
Proof.
  constructor; cbn; try reflexivity.
  - intros a [].
  - intros a b j H. discriminate H.
  - intros a j H. discriminate H.
  - intros j H. lia.
Qed.

Theorem resolve_render :
  path_errs d = [] ->
  exists d', resolve_lines cmr_of (render d) = Ok [(rn, d')] /\ iso d d' /\ wf_ndag d' = true.
Proof.
  intros Hpath.
  assert (Hroot : In (root_of d) PO) by (apply (pf_root _ _ F)).
  (* step 3: construction *)
  destruct (conv_ref_ok d W Hnames um um_lookup cmr_of rank rank_child
              (rank (root_of d)) (root_of d) (2 * total_size um + 2)%nat [] (mk_rs [] [] namer_new []) []
              (le_n _) fuel_enough invA_init Hroot) as [j [st [M [Econv [IA [_ [Gj [_ _]]]]]]]].
  { intros v []. }
  set (t := rs_tbl st) in *.
  (* finalisation *)
  set (good := fun j' => exists a, map_get M a = Some j').
  assert (G_lt : forall j', good j' -> (j' < length t)%nat).
  { intros j' [a Ha]. exact (ra_lt _ _ _ _ _ (ia_rel _ _ _ IA a j' Ha)). }
  assert (G_nohole : forall j', good j' -> nn_hole (nget t j') = None).
  { intros j' [a Ha]. exact (ra_hole _ _ _ _ _ (ia_rel _ _ _ IA a j' Ha)). }
  assert (G_l : forall j' c, good j' -> nn_l (nget t j') = Some c -> good c /\ (c < j')%nat).
  { intros j' c [a Ha] Hc. pose proof (ia_rel _ _ _ IA a j' Ha) as R. fold t in R.
    rewrite (ra_l _ _ _ _ _ R) in Hc. destruct (nn_l (nget d a)) as [c0|] eqn:El; [|discriminate Hc].
    cbn [lift] in Hc. destruct (ra_ldef _ _ _ _ _ R c0 El) as [jc [Hjc Hlt]].
    rewrite Hjc in Hc. injection Hc as <-. split; [exists c0; exact Hjc | exact Hlt]. }
  assert (G_r : forall j' c, good j' -> nn_r (nget t j') = Some c ->
            if kind_eqb (nn_kind (nget t j')) KDisconnect
            then (c < j')%nat /\ exists hn, nget t c = hole_node hn
            else good c /\ (c < j')%nat).
  { intros j' c [a Ha] Hc. pose proof (ia_rel _ _ _ IA a j' Ha) as R. fold t in R.
    rewrite (ra_kind _ _ _ _ _ R). pose proof (ra_r _ _ _ _ _ R) as Rr.
    destruct (nn_kind (nget d a)) eqn:Ek; cbn [kind_eqb kind_code N.eqb Pos.eqb];
      try (destruct Rr as [Rr Rd]; rewrite Rr in Hc;
           destruct (nn_r (nget d a)) as [c0|] eqn:Er; [|discriminate Hc];
           cbn [lift] in Hc; destruct (Rd c0 eq_refl) as [jc [Hjc Hlt]];
           rewrite Hjc in Hc; injection Hc as <-; split; [exists c0; exact Hjc | exact Hlt]).
    destruct Rr as [h [hn [H1 [H2 [H3 H4]]]]]. rewrite H1 in Hc. injection Hc as <-.
    split; [exact H2 | exists hn; exact H4]. }
  assert (G_disc : forall j', good j' -> nn_kind (nget t j') = KDisconnect -> exists c, nn_r (nget t j') = Some c).
  { intros j' [a Ha] Hk. pose proof (ia_rel _ _ _ IA a j' Ha) as R. fold t in R.
    rewrite (ra_kind _ _ _ _ _ R) in Hk. pose proof (ra_r _ _ _ _ _ R) as Rr. rewrite Hk in Rr.
    destruct Rr as [h [hn [H1 _]]]. exists h. exact H1. }
  assert (IB0 : invB t good (mk_fs [] [] false [])).
  { constructor; cbn; try reflexivity.
    - intros x k H. discriminate H.
    - intros a b k H. discriminate H.
    - intros x k H. discriminate H.
    - intros k H. lia. }
  assert (Hjt : (j < S (length t))%nat).
  { pose proof (G_lt j (ex_intro _ _ Gj)). lia. }
  destruct (fin_ok t good G_lt G_nohole G_l G_r G_disc (S (length t)) j (mk_fs [] [] false []) Hjt IB0
              (or_introl (ex_intro _ _ Gj)) eq_refl) as [k [fs [Efin [IB [_ [Gk [_ [_ [_ Hlast]]]]]]]]].
  specialize (Hlast eq_refl).
  set (d' := fs_tbl fs) in *.
  (* the composed map *)
  set (rho := fun a => match map_get M a with Some j' => map_get (fs_map fs) j' | None => None end).
  assert (Hrho : forall a b, rho a = Some b -> exists j', map_get M a = Some j' /\ map_get (fs_map fs) j' = Some b).
  { intros a b H. unfold rho in H. destruct (map_get M a) as [j'|]; [|discriminate H]. eauto. }
  (* every node of d in M is mapped by fin: those reachable from j *)
  assert (Hdom : forall a j', map_get M a = Some j' -> In a PO).
  { intros a j' H. apply (ia_po _ _ _ IA). eapply map_get_keys. exact H. }
  assert (Iso : iso_map d d' rho).
  { constructor.
    - unfold rho. rewrite Gj, Gk. f_equal. unfold root_of. fold d'. lia.
    - intros a b x Ha Hb. destruct (Hrho a x Ha) as [ja [Ha1 Ha2]]. destruct (Hrho b x Hb) as [jb [Hb1 Hb2]].
      assert (ja = jb) by (eapply (ib_inj _ _ _ IB); eauto). subst jb.
      eapply (ia_inj _ _ _ IA); eauto.
    - intros a b Hab. destruct (Hrho a b Hab) as [j' [Ha1 Ha2]].
      pose proof (ia_rel _ _ _ IA a j' Ha1) as RA. pose proof (ib_rel _ _ _ IB j' b Ha2) as RB.
      fold t in RA. fold d' in RB.
      assert (Hald : (a < length d)%nat) by (apply (pf_range _ _ F); eapply Hdom; exact Ha1).
      split; [exact Hald|]. split; [exact (rb_lt _ _ _ _ _ RB)|].
      split; [rewrite (rb_kind _ _ _ _ _ RB); exact (ra_kind _ _ _ _ _ RA)|].
      split; [rewrite (rb_pay _ _ _ _ _ RB); exact (ra_pay _ _ _ _ _ RA)|].
      split; [rewrite (rb_name _ _ _ _ _ RB); exact (ra_name _ _ _ _ _ RA)|].
      (* children: through both maps *)
      assert (Lc : forall c, nn_l (nget d a) = Some c -> exists c', rho c = Some c' /\ (c' < b)%nat).
      { intros c Hc. destruct (ra_ldef _ _ _ _ _ RA c Hc) as [jc [Hjc _]].
        assert (Hlt : nn_l (nget t j') = Some jc).
        { rewrite (ra_l _ _ _ _ _ RA), Hc. cbn [lift]. exact Hjc. }
        destruct (rb_ldef _ _ _ _ _ RB jc Hlt) as [kc [Hkc Hlt']]. exists kc. split; [|exact Hlt'].
        unfold rho. rewrite Hjc. exact Hkc. }
      assert (Ll : nn_l (nget d' b) = olift rho (nn_l (nget d a))).
      { rewrite (rb_l _ _ _ _ _ RB), (ra_l _ _ _ _ _ RA).
        destruct (nn_l (nget d a)) as [c|] eqn:El; [|reflexivity]. cbn [lift olift].
        destruct (ra_ldef _ _ _ _ _ RA c El) as [jc [Hjc _]]. rewrite Hjc. cbn [lift].
        unfold rho. rewrite Hjc. reflexivity. }
      pose proof (hole_of_disc d a W Hald) as Hh.
      pose proof (arity_children d a W Hald) as Ar.
      pose proof (ra_r _ _ _ _ _ RA) as RAr. pose proof (rb_r _ _ _ _ _ RB) as RBr.
      rewrite (ra_kind _ _ _ _ _ RA) in RBr.
      destruct (nn_kind (nget d a)) eqn:Ek; cbn [kind_eqb kind_code N.eqb Pos.eqb] in RBr;
        try (destruct RAr as [RAr RAd]; destruct RBr as [RBr [RBd RBh]];
             split; [rewrite RBh, Hh; reflexivity|]; split; [exact Ll|]; split; [exact Lc|];
             split;
             [rewrite RBr, RAr; destruct (nn_r (nget d a)) as [c|] eqn:Er; [|reflexivity]; cbn [lift olift];
              destruct (RAd c eq_refl) as [jc [Hjc _]]; rewrite Hjc; cbn [lift]; unfold rho; rewrite Hjc; reflexivity
             |intros c Hc; destruct (RAd c Hc) as [jc [Hjc _]];
              assert (Hrt : nn_r (nget t j') = Some jc) by (rewrite RAr, Hc; cbn [lift]; exact Hjc);
              destruct (RBd jc Hrt) as [kc [Hkc Hlt']]; exists kc; split; [unfold rho; rewrite Hjc; exact Hkc | exact Hlt']]).
      (* disconnect *)
      destruct RAr as [h [hn [H1 [H2 [H3 H4]]]]]. destruct RBr as [RBr [c [hn' [H5 [H6 H7]]]]].
      rewrite H1 in H5. injection H5 as <-. rewrite H4 in H6. injection H6 as <-.
      cbn [arity] in Ar. destruct Ar as [_ Hrn].
      split; [rewrite H7, H3; reflexivity|]. split; [exact Ll|]. split; [exact Lc|].
      split; [rewrite RBr, Hrn; reflexivity | intros c Hc; rewrite Hrn in Hc; discriminate Hc]. }
  (* d' is well formed: every node is the image of a node of t *)
  assert (Wd' : wf_ndag d' = true).
  { unfold wf_ndag. apply andb_true_iff. split.
    - fold d' in Hlast. destruct (length d'); [lia | reflexivity].
    - assert (Hall : forall b, (b < length d')%nat -> node_wf b (nget d' b) = true).
      { intros b Hb. destruct (ib_onto _ _ _ IB b Hb) as [j' Hj'].
        pose proof (ib_rel _ _ _ IB j' b Hj') as RB. fold d' in RB.
        destruct (ib_tgt _ _ _ IB j' b Hj') as [[a Ha]|[hn Hh]].
        + (* image of a node of d: use the isomorphism *)
          assert (Hab : rho a = Some b) by (unfold rho; rewrite Ha; exact Hj').
          destruct (im_node _ _ _ Iso a b Hab) as [Hald [_ [Hk [_ [_ [Hho [Hl [Hld [Hr Hrd]]]]]]]]].
          pose proof (wf_node d a W Hald) as Wa. unfold node_wf in *.
          repeat (apply andb_true_iff in Wa; destruct Wa as [Wa ?]).
          rewrite Hk, Hho, Hl, Hr.
          assert (OL : forall o, (forall c, o = Some c -> exists c', rho c = Some c' /\ (c' < b)%nat) ->
                                 opt_lt (olift rho o) b = true /\ opt_some (olift rho o) = opt_some o).
          { intros [c|] Hc; cbn; [|split; reflexivity]. destruct (Hc c eq_refl) as [c' [Hc' Hlt]].
            rewrite Hc'. cbn. split; [apply Nat.ltb_lt; exact Hlt | reflexivity]. }
          destruct (OL _ Hld) as [L1 L2]. destruct (OL _ Hrd) as [R1 R2].
          rewrite L1, R1, L2, R2. cbn [andb]. rewrite H0, H. reflexivity.
        + (* a hole: a witness leaf *)
          unfold node_wf. rewrite (rb_kind _ _ _ _ _ RB), (rb_l _ _ _ _ _ RB), Hh.
          pose proof (rb_r _ _ _ _ _ RB) as Rr. rewrite Hh in Rr. cbn in Rr. destruct Rr as [Rr [_ Rh]].
          rewrite Rr, Rh. reflexivity. }
      clear - Hall. revert Hall. generalize d' as l. intros l.
      assert (G : forall l k, (forall b, (b < length l)%nat -> node_wf (k + b) (nth b l dummy_nn) = true) ->
                              wf_from k l = true).
      { induction l0 as [|x r IH]; intros k H; [reflexivity|]. cbn [wf_from]. apply andb_true_iff. split.
        - specialize (H 0%nat ltac:(cbn; lia)). rewrite Nat.add_0_r in H. exact H.
        - apply IH. intros b Hb. specialize (H (S b) ltac:(cbn; lia)).
          replace (k + S b)%nat with (S k + b)%nat in H by lia. exact H. }
      intros H. apply G. intros b Hb. cbn [Nat.add]. apply H. exact Hb. }
  (* every visited node was converted: no definition is left unreached *)
  assert (Cover : forall n a, (root_of d - a <= n)%nat -> In a PO -> exists j', map_get M a = Some j').
  { induction n as [|n IHn]; intros a Hn Ha.
    - assert (a = root_of d).
      { pose proof (pf_range _ _ F a Ha). unfold root_of in *. lia. }
      subst a. eauto.
    - destruct (pf_parent _ _ F a Ha) as [->|[p [Hp Hc]]]; [eauto|].
      pose proof (wf_child d p a W Hc) as [Hlt Hpl].
      destruct (IHn p) as [jp Hjp]; [unfold root_of in *; lia | exact Hp |].
      pose proof (ia_rel _ _ _ IA p jp Hjp) as R.
      destruct Hc as [Hc|Hc].
      + destruct (ra_ldef _ _ _ _ _ R a Hc) as [ja [Hja _]]. eauto.
      + pose proof (ra_r _ _ _ _ _ R) as Rr.
        pose proof (arity_children d p W Hpl) as Ar.
        destruct (nn_kind (nget d p)); cbn [arity] in Ar;
          try (destruct Rr as [_ Rd]; destruct (Rd a Hc) as [ja [Hja _]]; eauto).
        destruct Ar as [_ Ar]. congruence. }
  assert (Hseen : unreached um (map fst (rs_memo st) ++ []) = []).
  { unfold unreached.
    assert (Hall : forallb (fun ne : name * option expr => mem_name (fst ne) (map fst (rs_memo st) ++ [])) um = true).
    { apply forallb_forall. intros ne Hne. destruct (um_entries ne Hne) as [a [Ha ->]]. cbn [fst].
      apply mem_name_In. rewrite app_nil_r. rewrite (ia_memo _ _ _ IA). unfold memo_of. rewrite map_map. cbn [fst].
      destruct (Cover (root_of d) a ltac:(lia) Ha) as [ja Hja].
      apply in_map_iff. exists (a, ja). split; [reflexivity|].
      clear - Hja. induction M as [|[b k0] r IH]; [discriminate Hja|]. rewrite map_get_cons in Hja.
      destruct (Nat.eqb b a) eqn:E.
      - apply Nat.eqb_eq in E. injection Hja as <-. subst. left. reflexivity.
      - right. apply IH. exact Hja. }
    rewrite Hall. reflexivity. }
  exists d'. split; [|split; [exists rho; exact Iso | exact Wd']].
  (* putting the parser together *)
  unfold resolve_lines, resolve. fold lines. rewrite step1_lines. fold um.
  rewrite root_names_um. cbn [map flat_map].
  unfold resolve_root. fold rn in Econv. rewrite Econv. fold t. rewrite Efin.
  rewrite (ib_errs _ _ _ IB), (ia_errs _ _ _ IA). cbn [app].
  assert (Hp : path_errs d' = []).
  { unfold path_errs. rewrite (iso_path_counts d d' W Wd' (ex_intro _ rho Iso)). exact Hpath. }
  fold d'. rewrite Hp. cbn [fst snd app]. rewrite Hseen. reflexivity.
Qed.

End RoundTrip.

(* the statements with the arguments in the order of Props/C17.v *)
Theorem resolve_render_thm : forall d cmr_of,
  wf_ndag d = true -> NoDup (map (nname d) (post_order d)) -> path_errs d = [] ->
  exists d', resolve_lines cmr_of (render d) = Ok [(nname d (root_of d), d')] /\
             iso d d' /\ wf_ndag d' = true.
Proof. intros d cmr_of W Hn Hp. exact (resolve_render d W Hn cmr_of Hp). Qed.

Theorem roundtrip_cmr : forall (C : Type) (c0 : C) (step : kind -> list N -> option C -> option C -> C) d cmr_of,
  wf_ndag d = true -> NoDup (map (nname d) (post_order d)) -> path_errs d = [] ->
  exists d', resolve_lines cmr_of (render d) = Ok [(nname d (root_of d), d')] /\
             cmr_root c0 step d' = cmr_root c0 step d.
Proof.
  intros C c0 step d cmr_of W Hn Hp.
  destruct (resolve_render d W Hn cmr_of Hp) as [d' [E [I W']]].
  exists d'. split; [exact E | exact (iso_cmr c0 step d d' W W' I)].
Qed.

Theorem iso_cmr_thm : forall (C : Type) (c0 : C) (step : kind -> list N -> option C -> option C -> C) d d',
  wf_ndag d = true -> wf_ndag d' = true -> iso d d' -> cmr_root c0 step d' = cmr_root c0 step d.
Proof. intros C c0 step d d'. exact (iso_cmr c0 step d d'). Qed.
