(* C04, phase 3 - layer (c): Sim (both domains) and its preservation by every primitive. *)
From RS Require Import Lib.Tac Lib.Outcome Ty.Ty Core.Prog Infer.Constraints Infer.Unify Infer.Infer Infer.Gen
  Infer.UnionFind Infer.Slab Infer.SlabProofs Infer.Rational Infer.SlabSim Infer.SlabSimInst Infer.SlabPrims Infer.SlabNodes.
Import ListNotations.
Local Open Scope outcome_scope.

(* ------------------------------------------------------------------ generic wrappers of m_alloc *)
Section G.
  Variable D : Type.
  Variable deq : D -> D -> Prop.
  Variable done : D.
  Variable dsum dprod : D -> D -> D.
  Hypothesis deq_refl : forall a, deq a a.
  Hypothesis deq_sym : forall a b, deq a b -> deq b a.
  Hypothesis deq_trans : forall a b c, deq a b -> deq b c -> deq a c.
  Hypothesis dsum_cong : forall a b c d, deq a c -> deq b d -> deq (dsum a b) (dsum c d).
  Hypothesis dprod_cong : forall a b c d, deq a c -> deq b d -> deq (dprod a b) (dprod c d).
  Hypothesis dsum_inj : forall a b c d, deq (dsum a b) (dsum c d) -> deq a c /\ deq b d.
  Hypothesis dprod_inj : forall a b c d, deq (dprod a b) (dprod c d) -> deq a c /\ deq b d.
  Hypothesis one_sum : forall a b, ~ deq done (dsum a b).
  Hypothesis one_prod : forall a b, ~ deq done (dprod a b).
  Hypothesis sum_prod : forall a b c d, ~ deq (dsum a b) (dprod c d).

  Let sim := simD D deq done dsum dprod.

  Lemma g_free c s eqs em : base c s eqs em -> sim c s eqs em ->
    sim (fst (new_type c RFree)) (s ++ [BFree]) eqs (upd em (length (c_uf c)) (length s)).
  Proof.
    intros B S0. pose proof B as (CW & _).
    assert (NT : alloc_post D deq done dsum dprod c (fst (new_type c RFree)) (snd (new_type c RFree)) RFree)
      by (apply (new_type_spec D deq done dsum dprod); auto; exact I).
    destruct NT as (_ & CW' & L' & _ & _ & Sem).
    apply (m_alloc D deq done dsum dprod) with (c := c) (Q := fun _ => True); auto.
    - exact I.
    - intros al. cbn. tauto.
  Qed.

  Lemma g_pair sb c s eqs em l r c' e : base c s eqs em -> sim c s eqs em ->
    (l < length (c_uf c))%nat -> (r < length (c_uf c))%nat -> ty_pair sb c l r = Ok (c', e) ->
    sim c' (s ++ [if sb then BSum (em l) (em r) else BProd (em l) (em r)]) eqs (upd em (length (c_uf c)) (length s)).
  Proof.
    intros B S0 Ll Lr E. pose proof B as (CW & _ & _ & Rg).
    assert (TP : exists c'' e'', ty_pair sb c l r = Ok (c'', e'') /\ e'' = length (c_uf c) /\ cwf c'' /\
              length (c_uf c'') = S (length (c_uf c)) /\
              (forall al, drsat D deq done dsum dprod al c'' <-> drsat D deq done dsum dprod al c /\
                          deq (al e'') (dpair D dsum dprod sb (al l) (al r))))
      by (apply (ty_pair_spec D deq done dsum dprod); auto).
    destruct TP as (c'' & e'' & E' & Ee & CW' & L' & Sem). rewrite E in E'. injection E' as <- <-. subst e.
    apply (m_alloc D deq done dsum dprod) with (c := c) (Q := fun be => deq (be (length (c_uf c))) (dpair D dsum dprod sb (be l) (be r))); auto.
    - destruct sb; cbn [wf_new]; split; pose proof (Rg l Ll); pose proof (Rg r Lr); lia.
    - intros al. rewrite upd_eq, !upd_lt by assumption. destruct sb; cbn; tauto.
    - intros be be' Ag Q. eapply deq_trans; [apply Ag; lia|]. eapply deq_trans; [exact Q|].
      destruct sb; cbn [dpair]; [apply dsum_cong|apply dprod_cong]; apply deq_sym; apply Ag; lia.
  Qed.
End G.

(* ------------------------------------------------------------------ Sim: both domains *)

Record Sim (c : ctx) (s : store) (eqs : list (nat * nat)) (em : nat -> nat) : Prop := mk_Sim {
  sim_base : base c s eqs em;
  sim_f : simD ty eq One Sum Prod c s eqs em;
  sim_t : simD itree teq tone tsum tprod c s eqs em
}.

Lemma base_alloc c c' s eqs em l v : base c s eqs em -> cwf c' -> length (c_uf c') = S (length (c_uf c)) ->
  Forall (wf_new (length l + length s)) l -> (v < length s + length l)%nat ->
  base c' (s ++ l) eqs (upd em (length (c_uf c)) v).
Proof.
  intros (CW & Ws & Ei & Rg) CW' L' F Hv. split; [exact CW'|]. split; [apply wf_app; assumption|].
  rewrite app_length. split.
  - intros x y Hin. destruct (Ei x y Hin). lia.
  - intros e He. rewrite L' in He. destruct (Nat.eq_dec e (length (c_uf c))) as [->|N].
    + rewrite upd_eq. exact Hv.
    + rewrite upd_lt by lia. pose proof (Rg e ltac:(lia)). lia.
Qed.

Ltac fin10 := fin_hyps.
Ltac tree10 := dom_hyps.

Lemma sim_free c s eqs em : Sim c s eqs em ->
  Sim (fst (ty_free c)) (s ++ [BFree]) eqs (upd em (length (c_uf c)) (length s)) /\
  snd (ty_free c) = length (c_uf c) /\ length (c_uf (fst (ty_free c))) = S (length (c_uf c)).
Proof.
  intros [B Sf St]. pose proof B as (CW & _). unfold ty_free.
  assert (NT : alloc_post ty eq One Sum Prod c (fst (new_type c RFree)) (snd (new_type c RFree)) RFree)
    by (apply (new_type_spec ty eq One Sum Prod); auto; fin10; exact I).
  destruct NT as (Ee & CW' & L' & _ & _ & _).
  split; [|split; [exact Ee|exact L']]. split.
  - apply base_alloc; auto. + constructor; [exact I|constructor]. + cbn. lia.
  - apply (g_free ty eq One Sum Prod); auto; fin10.
  - apply (g_free itree teq tone tsum tprod); auto; tree10.
Qed.

Lemma sim_block c s eqs em blk r t : Sim c s eqs em ->
  is_block ty eq One Sum Prod blk (length s) r t -> is_block itree teq tone tsum tprod blk (length s) r t ->
  Sim (fst (ty_complete c t)) (s ++ blk) eqs (upd em (length (c_uf c)) r) /\
  snd (ty_complete c t) = length (c_uf c) /\ length (c_uf (fst (ty_complete c t))) = S (length (c_uf c)).
Proof.
  intros [B Sf St] Bf Bt. pose proof B as (CW & _). unfold ty_complete.
  assert (NT : alloc_post ty eq One Sum Prod c (fst (new_type c (RComplete t))) (snd (new_type c (RComplete t))) (RComplete t))
    by (apply (new_type_spec ty eq One Sum Prod); auto; fin10; exact I).
  destruct NT as (Ee & CW' & L' & _ & _ & _).
  split; [|split; [exact Ee|exact L']]. split.
  - destruct Bf as (_ & _ & F & Hr). apply base_alloc; auto.
  - apply (m_block ty eq One Sum Prod); auto; fin10.
  - apply (m_block itree teq tone tsum tprod); auto; tree10.
Qed.

Lemma sim_pair sb c s eqs em l r : Sim c s eqs em -> (l < length (c_uf c))%nat -> (r < length (c_uf c))%nat ->
  exists c', ty_pair sb c l r = Ok (c', length (c_uf c)) /\
    Sim c' (s ++ [if sb then BSum (em l) (em r) else BProd (em l) (em r)]) eqs (upd em (length (c_uf c)) (length s)) /\
    length (c_uf c') = S (length (c_uf c)).
Proof.
  intros [B Sf St] Ll Lr. pose proof B as (CW & _ & _ & Rg).
  assert (TP : exists c'' e'', ty_pair sb c l r = Ok (c'', e'') /\ e'' = length (c_uf c) /\ cwf c'' /\
            length (c_uf c'') = S (length (c_uf c)) /\
            (forall al, drsat ty eq One Sum Prod al c'' <-> drsat ty eq One Sum Prod al c /\
                        (al e'') = (dpair ty Sum Prod sb (al l) (al r))))
    by (apply (ty_pair_spec ty eq One Sum Prod); auto; fin10).
  destruct TP as (c' & e' & E & -> & CW' & L' & _).
  exists c'. split; [exact E|]. split; [|exact L']. split.
  - apply base_alloc; auto.
    + constructor; [|constructor]. pose proof (Rg l Ll). pose proof (Rg r Lr). destruct sb; cbn; lia.
    + cbn. lia.
  - eapply (g_pair ty eq One Sum Prod); eauto; fin10.
  - eapply (g_pair itree teq tone tsum tprod); eauto; tree10.
Qed.

Lemma base_eq c c' s eqs em x y : base c s eqs em -> cwf c' -> length (c_uf c') = length (c_uf c) ->
  (x < length s)%nat -> (y < length s)%nat -> base c' s (eqs ++ [(x, y)]) em.
Proof.
  intros (CW & Ws & Ei & Rg) CW' L' Hx Hy. split; [exact CW'|]. split; [exact Ws|]. split.
  - intros a b Hin. apply in_app_or in Hin. destruct Hin as [Hin|[E|[]]]; [apply Ei; exact Hin|]. injection E as <- <-. lia.
  - intros e He. rewrite L' in He. apply Rg. exact He.
Qed.

Lemma sim_unify f c s eqs em x y : Sim c s eqs em -> (x < length (c_uf c))%nat -> (y < length (c_uf c))%nat ->
  match ctx_unify f c x y with
  | Ok c' => Sim c' s (eqs ++ [(em x, em y)]) em /\ length (c_uf c') = length (c_uf c)
  | Err _ => ~ consistent s (eqs ++ [(em x, em y)])
  | _ => True
  end.
Proof.
  intros [B Sf St] Lx Ly. pose proof B as (CW & _ & _ & Rg).
  pose proof (m_unify ty eq One Sum Prod) as Uf.
  specialize (Uf ltac:(fin10) ltac:(fin10) ltac:(fin10) ltac:(fin10) ltac:(fin10) ltac:(fin10) ltac:(fin10) ltac:(fin10) ltac:(fin10) ltac:(fin10)
                 f c s eqs em x y B Sf Lx Ly).
  pose proof (m_unify itree teq tone tsum tprod) as Ut.
  specialize (Ut ltac:(tree10) ltac:(tree10) ltac:(tree10) ltac:(tree10) ltac:(tree10) ltac:(tree10) ltac:(tree10) ltac:(tree10) ltac:(tree10) ltac:(tree10)
                 f c s eqs em x y B St Lx Ly).
  destruct (ctx_unify f c x y) as [c'|e| |]; try exact I.
  - destruct Uf as (CW' & L' & Sf'). destruct Ut as (_ & _ & St').
    split; [|exact L']. split; [|exact Sf'|exact St']. apply (base_eq c); auto.
  - intros (al & Sa & Ea). apply (Ut al). split; assumption.
Qed.

Lemma sim_bindp f c s eqs em ex l r : Sim c s eqs em ->
  (ex < length (c_uf c))%nat -> (l < length (c_uf c))%nat -> (r < length (c_uf c))%nat ->
  match bind_product f c ex l r with
  | Ok c' => Sim c' (s ++ [BProd (em l) (em r)]) (eqs ++ [(em ex, length s)]) em /\ length (c_uf c') = length (c_uf c)
  | Err _ => ~ consistent (s ++ [BProd (em l) (em r)]) (eqs ++ [(em ex, length s)])
  | _ => True
  end.
Proof.
  intros [B Sf St] Lex Ll Lr. pose proof B as (CW & Ws & Ei & Rg).
  pose proof (m_bindp ty eq One Sum Prod) as Uf.
  specialize (Uf ltac:(fin10) ltac:(fin10) ltac:(fin10) ltac:(fin10) ltac:(fin10) ltac:(fin10) ltac:(fin10) ltac:(fin10) ltac:(fin10) ltac:(fin10)
                 f c s eqs em ex l r B Sf Lex Ll Lr).
  pose proof (m_bindp itree teq tone tsum tprod) as Ut.
  specialize (Ut ltac:(tree10) ltac:(tree10) ltac:(tree10) ltac:(tree10) ltac:(tree10) ltac:(tree10) ltac:(tree10) ltac:(tree10) ltac:(tree10) ltac:(tree10)
                 f c s eqs em ex l r B St Lex Ll Lr).
  destruct (bind_product f c ex l r) as [c'|e| |]; try exact I.
  - destruct Uf as (CW' & L' & Sf'). destruct Ut as (_ & _ & St').
    split; [|exact L']. split; [|exact Sf'|exact St'].
    split; [exact CW'|]. split; [|split].
    + apply wf_app; [exact Ws|]. constructor; [|constructor]. pose proof (Rg l Ll). pose proof (Rg r Lr). cbn. lia.
    + rewrite app_length. cbn [length]. intros a b Hin. apply in_app_or in Hin. destruct Hin as [Hin|[E|[]]].
      * destruct (Ei a b Hin). lia.
      * injection E as <- <-. pose proof (Rg ex Lex). lia.
    + intros e He. rewrite L' in He. rewrite app_length. pose proof (Rg e He). lia.
  - intros (al & Sa & Ea). apply (Ut al). split; assumption.
Qed.

(* consistency is monotone: a model of more bounds and more equations is a model of fewer *)
Lemma consistent_mono s l eqs m : consistent (s ++ l) (eqs ++ m) -> consistent s eqs.
Proof.
  intros (al & Sa & Ea). exists al. split.
  - intros v Hv. specialize (Sa v ltac:(rewrite app_length; lia)). rewrite sget_app_l in Sa by exact Hv. exact Sa.
  - intros x y Hin. apply Ea. apply in_or_app. left. exact Hin.
Qed.
