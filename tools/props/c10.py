"""C10 - Value encodings, accessors and pruning follow the type's bit layout."""
import vplib
from props import value_common as vc
from props.value_common import (ONE, BIT, U, Sum, Prod, word, option, buffer_ty, width, ty_tokens, ty_str,
                                all_types, all_values, ty_le, ty_size, compact_enc, of_padded, strip,
                                Builder, make_case, case_ops, ref_run, parse_pool)

PROP = "C10"
LEVEL = "proof"


# ------------------------------------------------------------ generators
def gen_cases(rng, tier):
    cases = list(vc.load_corpus(PROP))
    k = [0]

    def add(ops, meta):
        k[0] += 1
        cases.append(make_case("c%d" % k[0], "pool", ops, meta))

    # --- exhaustive: every type with <= n constructors x every value x prune targets
    n = 3 if tier == "quick" else 4
    small = [t for i in range(n + 1) for t in all_types(i)]
    small3 = [t for i in range(4) for t in all_types(i)]
    for t in small:
        for v in all_values(t):
            b = Builder(rng)
            i0 = b.by_constructors(t, v, words=False)
            i1 = b.by_padded(t, v, dirty=True)
            i2 = b.by_compact(t, v)
            if tier == "quick":
                targets = small
            else:
                targets = small3 + [x for x in all_types(4) if ty_le(x, t)] + [rng.choice(all_types(4)) for _ in range(12)]
            for j, tt in enumerate(targets):
                b.add(("prune", (i0, i1, i2)[j % 3], tt))
            add(b.ops, {"gen": "exhaustive", "type": ty_str(t)})

    # --- every offset mod 8 x every branch of right_shift_1 / product / accessors
    prefixes = [ONE, BIT, word(1), Prod(BIT, word(1)), word(2), Prod(word(2), BIT), Prod(word(2), word(1)),
                Prod(word(2), Prod(word(1), BIT)), word(3), Prod(word(3), BIT)]
    payloads = [BIT, word(2), word(3), Sum(BIT, word(2)), Sum(word(3), ONE), Prod(option(BIT), word(1)), ONE, Prod(ONE, ONE),
                word(4), option(word(3))]
    for pt in prefixes:
        for fill in (0, 1):
            for yt in payloads:
                b = Builder(rng)
                pbits = [fill] * width(pt)
                if fill == 1 and width(pt) > 1 and rng.chance(1, 2):
                    pbits[-1] = 0  # the bit just before the payload decides the right_shift_1 branch
                p = b.add(("pad", pt, vc.pack(pbits)))
                yv = vc.rand_value(rng, yt)
                y = b.by_constructors(yt, yv) if rng.chance(1, 2) else b.by_padded(yt, yv)
                q = b.add(("prod", p, y))
                s = b.add(("snd", q))       # payload at offset width(pt), sharing q's buffer
                b.add(("left", s, ONE))
                b.add(("right", ONE, s))
                b.add(("left", s, word(3)))
                b.add(("right", word(4), s))
                l = b.add(("left", s, yt))
                b.add(("asl", l))
                b.add(("asr", l))
                b.add(("prod", s, s))
                b.add(("prod", s, p))
                b.add(("some", s))
                b.add(("prune", s, vc.shrink_type(rng, yt)))
                b.add(("prune", q, Prod(ONE, yt)))
                b.add(("prune", q, Prod(pt, ONE)))
                b.add(("machw", s))
                b.add(("fst", q))
                add(b.ops, {"gen": "offsets", "type": ty_str(yt)})

    # --- words, byte arrays, buffers
    for kk in range(0, 8):
        for _ in range(2):
            ops = [("wi", kk, rng.below(2 ** (2 ** kk)))]
            ops.append(("wi", kk, 0))
            ops.append(("wi", kk, 2 ** (2 ** kk) - 1))
            if kk <= 2:
                ops.append(("wi", kk, 2 ** (2 ** kk)))      # out of range: assert
                ops.append(("wi", kk, 255))
            ops += [("prod", 0, 1), ("fst", 3 if kk > 2 else 5), ("left", 0, word(kk)), ("some", 2)]
            add(ops, {"gen": "words"})
    for ln in (1, 2, 3, 4, 6, 8, 16, 32, 64):
        ops = [("ba", rng.bytes(ln))]
        if ln in (32, 64):
            ops.append(("wb", 8 if ln == 32 else 9, rng.bytes(ln)))
        ops += [("fst", 0), ("snd", 0), ("some", 0), ("prune", 0, ONE)]
        add(ops, {"gen": "bytearray"})
    for nn in range(0, 3 if tier == "quick" else 5):
        lens = list(range(0, 2 ** (nn + 1) + 1))
        if tier == "quick" and nn == 2:
            lens = [0, 1, 3, 4, 7, 8]
        for ln in lens:
            ops = [("buf", nn, rng.bytes(ln)), ("fst", 0), ("snd", 0), ("asr", 1), ("asl", 1),
                   ("prune", 0, vc.shrink_type(rng, buffer_ty(nn)))]
            add(ops, {"gen": "buffer"})
    # ctx8-like: product(buffer(5), product(u64, u256)) is exercised in the thorough tier only (width 838)
    if tier != "quick":
        for ln in (0, 1, 31, 32, 63):
            ops = [("buf", 5, rng.bytes(ln)), ("wi", 6, rng.below(2 ** 64)), ("wb", 8, rng.bytes(32)), ("prod", 1, 2),
                   ("prod", 0, 3), ("snd", 4), ("fst", 4), ("prune", 4, Prod(ONE, Prod(word(6), ONE)))]
            add(ops, {"gen": "ctx8"})

    # --- machine outputs with stale frame cells as padding
    for kk in (3, 4, 5, 6):
        for side in ("L", "R"):
            for j in (None, 0, 2, 3):
                if j is not None and j >= kk:
                    continue
                w = rng.choice([2 ** (2 ** kk) - 1, rng.below(2 ** (2 ** kk))])
                u = 0 if j is None else rng.below(2 ** (2 ** j))
                o = ("mach", kk, w, side, j, u)
                t, frame = vc.mach_frame(o)
                v = of_padded(t, frame)
                b = Builder(rng)
                m = b.add(o)
                b.by_constructors(t, v)
                b.add(("asl", m))
                b.add(("asr", m))
                b.add(("prune", m, vc.shrink_type(rng, t)))
                b.add(("prod", m, m))
                b.add(("machw", m))
                add(b.ops, {"gen": "machine"})

    # --- random histories
    nrand = 300 if tier == "quick" else 5000
    for _ in range(nrand):
        for _try in range(20):
            b = Builder(rng)
            t = vc.rand_big_type(rng, tier)
            v = vc.rand_value(rng, t)
            made = []
            for _h in range(rng.range(1, 3)):
                i, hname = b.any_history(t, v)
                made.append(i)
            # keep a case's output small: the model's answer is printed by Coq as one list
            if len(b.ops) <= 40 and len(b.ops) * max(8, width(t)) <= 12000:
                break
        for _e in range(rng.range(0, 6)):
            r = rng.below(12)
            i = rng.choice(made) if rng.chance(2, 3) else rng.below(len(b.ops))
            if r < 2:
                b.add((rng.choice(["asl", "asr", "fst", "snd"]), i))
            elif r < 4:
                b.add(("prune", i, vc.shrink_type(rng, t)))
            elif r == 4:
                b.add(("prune", i, t))
            elif r == 5:
                b.add(("prune", i, vc.mutate_type(rng, vc.shrink_type(rng, t, 6))))
            elif r == 6:
                b.add(("zero", vc.rand_type(rng, rng.below(6)) if rng.chance(1, 2) else t))
            elif r == 7:
                b.add(("left", i, vc.rand_type(rng, rng.below(4))))
            elif r == 8:
                b.add(("right", vc.rand_type(rng, rng.below(4)), i))
            elif r == 9:
                b.add(("prod", i, rng.below(len(b.ops))))
            elif r == 10:
                b.add(("machw", i))
            else:
                b.add(("some", i))
        add(b.ops, {"gen": "random", "type": ty_str(t) if len(ty_str(t)) < 60 else "big"})

    # --- malformed stream: truncated decodes, wrong shapes, failed operands
    for _ in range(60 if tier == "quick" else 800):
        t = vc.rand_big_type(rng, "quick")
        v = vc.rand_value(rng, t)
        pb = vc.pack(vc.padded_enc(t, v, lambda: rng.next() & 1))
        cb = vc.pack(compact_enc(v))
        ops = [("pad", t, pb[:rng.below(len(pb) + 1)]), ("cmp", t, cb[:rng.below(len(cb) + 1)]),
               ("pad", vc.mutate_type(rng, t), pb), ("cmp", vc.mutate_type(rng, t), cb),
               ("asl", 0), ("fst", 1), ("prune", 2, t), ("prod", 0, 7), ("left", 9, ONE), ("wi", 0, 2), ("ba", rng.bytes(3)),
               ("buf", 0, rng.bytes(2)), ("snd", 10)]
        add(ops, {"gen": "malformed"})

    # --- Value::ctx8 (the constructor itself; width 838: few cases) and slices that are too long
    for ln in ((0, 5, 64) if tier == "quick" else (0, 1, 31, 32, 33, 63, 64, 70)):
        ops = [("ctx8", rng.bytes(32), rng.below(2 ** 64), rng.bytes(ln)), ("fst", 0), ("snd", 0)]
        add(ops, {"gen": "ctx8"})
    # --- is_of_type: the carried type, not the shape of the element (L(x) : A + B1 is not of type A + B2)
    for _ in range(40 if tier == "quick" else 400):
        b = Builder(rng)
        t = vc.rand_type(rng, rng.below(5))
        v = vc.rand_value(rng, t)
        i, _h = b.any_history(t, v)
        b.add(("isty", i, t))
        b.add(("isty", i, vc.mutate_type(rng, t)))
        b.add(("isty", i, vc.shrink_type(rng, t)))
        j = b.add(("left", i, ONE))
        b.add(("isty", j, Sum(t, ONE)))
        b.add(("isty", j, Sum(t, BIT)))
        b.add(("isty", j, t))
        if len(b.ops) <= 40:
            add(b.ops, {"gen": "is_of_type"})
    # --- encode_value (bit_encoding/encode.rs) at every alignment of the writer: the bits it writes are the compact
    # encoding (decoded back into the pool), for padding-free types of width 8k + r and for types with padding
    pf = [Sum(vc.word(3), vc.word(3)), Prod(vc.word(3), BIT), Prod(BIT, vc.word(4)), Sum(vc.word(4), vc.word(4)),
          Prod(vc.word(3), Prod(BIT, BIT)), Prod(Sum(vc.word(3), vc.word(3)), Sum(BIT, BIT)), Prod(vc.word(5), vc.word(2)),
          Prod(vc.word(6), BIT), Sum(vc.word(8), vc.word(8)), vc.word(3), vc.word(5)]
    for kk in range(len(pf) + (30 if tier == "quick" else 400)):
        b = Builder(rng)
        t = pf[kk] if kk < len(pf) else vc.rand_type(rng, rng.range(1, 6))
        for _r in range(2):
            v = vc.rand_value(rng, t)
            i, _h = b.any_history(t, v)
            for pre in ((0, 1, 7) if tier == "quick" and kk >= len(pf) else range(8)):
                b.add(("encv", i, pre))
        if len(b.ops) <= 60:
            add(b.ops, {"gen": "encode_value"})
    # --- end of stream in from_compact_bits: every byte-aligned prefix of an encoding, and of padded ones
    for _ in range(60 if tier == "quick" else 600):
        t = vc.rand_type(rng, rng.range(1, 7))
        v = vc.rand_value(rng, t)
        ce = compact_enc(v)
        ops = []
        for nb in range(0, (len(ce) + 7) // 8 + 2):
            bs = vc.pack(ce + rng.bits(24))[:nb]
            ops.append(("cmp", t, bs))
            if rng.chance(1, 3):
                ops.append(("pad", t, bs))
        if len(ops) <= 30:
            add(ops, {"gen": "eos"})

    # --- sums whose two sides have equal width while only one side contains padding: has_padding of the sum
    # must come from the summands, not from the width difference (from_compact_bits takes the padded
    # shortcut only for padding-free types)
    flat3 = Prod(BIT, Prod(BIT, BIT))                  # width 3, no padding
    padded3 = Sum(ONE, word(1))                        # width 3, padding in the left case
    padded5 = Prod(option(BIT), option(BIT))           # width 4 ... used below with word(2)
    pairs_eq = [(flat3, padded3), (padded3, flat3), (word(2), padded5), (padded5, word(2)),
                (Prod(word(1), word(1)), Prod(option(BIT), word(1))), (Prod(option(BIT), word(1)), word(2))]
    for _ in range(4 if tier == "quick" else 40):
        for (a, b2) in pairs_eq:
            assert width(a) == width(b2)
            t = Sum(a, b2)
            ops = []
            for side, st in (("L", a), ("R", b2)):
                for _v in range(3):
                    v = (side, vc.rand_value(rng, st))
                    ce = compact_enc(v)
                    ops.append(("cmp", t, vc.pack(ce + rng.bits(16))))
                    ops.append(("cmp", Prod(t, t), vc.pack(ce + ce + rng.bits(16))))
                    ops.append(("cmp", option(t), vc.pack([1] + ce + rng.bits(16))))
            ops.append(("zero", t))
            ops.append(("prune", 0, Sum(ONE, b2)))
            add(ops, {"gen": "equal-width-sums"})
    return cases


# ------------------------------------------------------------ the property, tested directly on the implementation
def prop_check(c, r):
    if r in ("CRASH", "TIMEOUT") or r is None:
        return ("crash", "implementation crashed or hung on %s" % c.line[:200])
    if r == [9]:
        return ("panic", "an observation (iter_padded / iter_compact / Debug) panicked on %s" % c.line[:200])
    ops = case_ops(c)
    pool, _log = ref_run(ops)
    pr = parse_pool(r, ops)
    if pr is None:
        return ("malformed-output", "unparsable harness output for %s" % c.line[:200])
    codes, obs = pr
    vi = 0
    for idx, (o, e, (code, extra)) in enumerate(zip(ops, pool, codes)):
        name = o[0]
        where = "entry %d (`%s`)" % (idx, vc.op_line(o)[:80])
        if isinstance(e, int):
            if code != e:
                if code == 0:
                    vi += 1
                if name == "prune":
                    return ("prune-incompatible", "%s: prune to an incompatible type returned %s, expected None" %
                            (where, "a value" if code == 0 else "code %d" % code))
                return ("status", "%s: status %d, expected %d" % (where, code, e))
            continue
        t, v = e
        if code != 0:
            cls = {"prune": "prune-none", "asl": "accessor", "asr": "accessor", "fst": "accessor", "snd": "accessor",
                   "pad": "decode", "cmp": "decode"}.get(name, "status")
            if code == 9:
                cls = "panic"
            return (cls, "%s: failed with code %d, expected a value of type %s" % (where, code, ty_str(t)[:60]))
        d = obs[vi]
        vi += 1
        if name == "pad" and extra != [width(t)]:
            return ("consumption", "%s: from_padded_bits consumed %s bits, the encoding has %d" % (where, extra, width(t)))
        if name == "cmp" and extra != [len(compact_enc(v))]:
            return ("consumption", "%s: from_compact_bits consumed %s bits, the encoding has %d" % (where, extra, len(compact_enc(v))))
        if name == "encv" and extra != [len(compact_enc(v))]:
            return ("encode-value", "%s: encode_value wrote %s bits, the compact encoding has %d" % (where, extra, len(compact_enc(v))))
        if name == "isty" and extra != [1 if t == o[2] else 0]:
            return ("is-of-type", "%s: is_of_type(%s) answered %s on a value of type %s" % (where, ty_str(o[2])[:40], extra, ty_str(t)[:40]))
        if d["tokens"] != ty_tokens(t):
            return ("prune-type" if name == "prune" else "type", "%s: type of the result is not %s" % (where, ty_str(t)[:60]))
        w = width(t)
        if len(d["padded"]) != w or d["padded_len"] != w:
            return ("padded-width", "%s: iter_padded yields %d bits, padded_len %d, the type's width is %d" %
                    (where, len(d["padded"]), d["padded_len"], w))
        if d["off"] + w > 8 * len(d["bytes"]):
            return ("malformed", "%s: bit offset %d + width %d exceeds the %d-byte buffer" % (where, d["off"], w, len(d["bytes"])))
        got = of_padded(t, d["padded"])
        if got != v:
            cls = {"prune": "prune-value", "asl": "accessor-inverse", "asr": "accessor-inverse", "fst": "accessor-inverse",
                   "snd": "accessor-inverse", "pad": "decode-value", "cmp": "decode-value", "left": "constructor",
                   "right": "constructor", "prod": "constructor", "some": "constructor", "none": "constructor",
                   "mach": "machine-output", "machw": "machine-output"}.get(name, "denotation")
            return (cls, "%s: the padded bits %s denote a different element than expected" % (where, "".join(map(str, d["padded"]))[:80]))
        ce = compact_enc(v)
        if d["compact"] != ce:
            return ("compact", "%s: iter_compact = %s, expected %s" % (where, "".join(map(str, d["compact"]))[:80], "".join(map(str, ce))[:80]))
        if strip(t, d["padded"]) != d["compact"]:
            return ("compact-not-strip", "%s: compact encoding is not the padded one minus padding" % where)
        if d["compact_len"] != len(ce):
            return ("compact-len", "%s: compact_len %d, expected %d" % (where, d["compact_len"], len(ce)))
    return None


def nontrivial(c, r):
    ops = case_ops(c)
    pr = parse_pool(r, ops) if isinstance(r, list) else None
    if pr is None:
        return None
    codes, obs = pr
    keys = set()
    vi = 0
    for o, (code, _e) in zip(ops, codes):
        if code != 0:
            continue
        d = obs[vi]
        vi += 1
        padded = len(d["padded"]) != len(d["compact"])
        if padded or d["off"] % 8 != 0:
            keys.add((tuple(d["tokens"]), d["off"] % 8, o[0]))
    return tuple(sorted(keys)) if keys else None


def run(rep, tier, rng):
    vplib.proof_stage(rep, "Props/C10.v", extra_targets=["Value/Run.vo", "Value/RunWord.vo"])
    rep.coverage["trusted_base"] = vplib.GENERIC_TRUSTED + TRUSTED
    binary, out = vplib.harness_build("debug", crate=vc.CRATE)
    if binary is None:
        raise vplib.Infra("harness build failed:\n" + out[-3000:])
    cases = gen_cases(rng, tier)
    impl, model = vplib.eval_cases(rep, binary, vc.COMMAND, cases, vc.IMPORTS, tag="c10",
                                   batch=max(40, min(120, (len(cases) + 7) // 8)))
    raw_only = 0
    semantic = 0
    for c in cases:
        if c.cid in model and model[c.cid] != impl.get(c.cid):
            if vc.raw_only_difference(c, impl.get(c.cid), model[c.cid]):
                raw_only += 1
            else:
                semantic += 1
    what = "correspondence Value/Run.v vs value.rs"
    if raw_only and not semantic:
        what += " (raw buffer bytes / bit offset only: every semantic observation agrees)"
    elif semantic:
        what += " (semantic observations differ in %d cases, raw representation only in %d)" % (semantic, raw_only)
    pfail, mism = vplib.decide(rep, cases, impl, model, prop_check, None, nontrivial, what=what)
    cor = rep.coverage["correspondence"]
    cor["raw_only_disagreements"] = raw_only
    cor["semantic_disagreements"] = semantic
    gens = {}
    for c in cases:
        g = c.meta.get("gen", "corpus")
        gens[g] = gens.get(g, 0) + 1
    cor["generator_histogram"] = gens
    cor["ops_total"] = sum(len(c.meta["ops"]) for c in cases)
    rep.coverage["rule"] = (
        "pool-machine histories: exhaustive (all types with <= %d constructors x all values x constructor / dirty padded / compact "
        "decode x prune targets), all offsets mod 8 x right_shift_1 branches, words / byte arrays / buffers, machine outputs with "
        "stale padding, random histories (nested sums of unequal width, unit-heavy products, words, buffer types), malformed. "
        "Distinct non-trivial = distinct set of (type shape, bit offset mod 8, producing op) triples with padding or offset != 0 "
        "among a case's entries" % (3 if tier == "quick" else 4))
    rep.coverage["samples"] = [{"kind": c.kind, "args": c.line[:300], "impl": (impl.get(c.cid) or [])[:60] if isinstance(impl.get(c.cid), list) else impl.get(c.cid)}
                               for c in cases[::max(1, len(cases) // 5)][:6]]
    vplib.finish_proof_verdict(rep, pfail)


TRUSTED = [
    "model Value/ValueModel.v written by hand from src/value.rs and src/types/final_data.rs (ValueRef = Value: a view (buffer, bit offset, type))",
    "type equality/order: the code compares TMR hashes, the model compares type trees (gap = a TMR collision)",
    "BitIter arguments of the decoders are modelled by their bit queue (justified by C13_reader_next / C13_reader_u8)",
    "widths: Final::bit_width saturates at usize::MAX; theorems are stated for types of width <= usize::MAX (all others need a 2^61-byte buffer)",
    "raw buffer and offset of the implementation are read from the Debug form of Value (fields raw_value / raw_bit_offset)",
    "Value::ctx8 is modelled as product(buffer8(5), product(u64, u256)) (Value/ValueBuffer.v: v_ctx8); Final::buffer8_two_n_plus_one's "
    "NTooLarge refusal is not modelled (the theorems assume the buffer type below saturation); is_of_type = structural type equality; "
    "Final::as_word (TMR lookup) = structural recognition of 2^(2^n), n < 32",
    "end-of-stream is observable only at byte granularity (BitIter over whole bytes); the theorems are about arbitrary bit lengths",
    "machine outputs: the Bit Machine is not modelled here (C05); the model decodes the output frame contents predicted by the generator",
]


def replay(obj):
    return vc.replay_common(PROP, obj, prop_check)
