(* C06 - Rust and C evaluators reach the same verdict.                   (claimed level: other)

   The C evaluator is not modelled and no theorem mentions it.  The check is a differential
   comparison (tools/props/c06.py): BitMachine::exec vs evalTCOExpression without anti-DoS flags
   on the same marshalled environment.  The only statements pinned here are about the small
   classification the comparison is made through (Cdiff/VerdictRef.v): it is injective on the
   Rust side and maps exactly one C code to each verdict the property names, so "same kind"
   means what the property says. *)
From RS Require Import Lib.Tac Cdiff.VerdictRef.
Import ListNotations.
Local Open Scope Z_scope.

Theorem C06_kind_code_injective : forall a b, kind_code a = kind_code b -> a = b.
Proof. exact kind_code_inj. Qed.
Print Assumptions C06_kind_code_injective.

Theorem C06_rust_kind_injective : forall a b, rust_exec_kind a = rust_exec_kind b -> a = b.
Proof. exact rust_exec_kind_inj. Qed.
Print Assumptions C06_rust_kind_injective.

Theorem C06_same_verdict_spec : forall r c, same_verdict r c = true ->
  (r = None <-> c = 0) /\
  (r = Some RReachedPrunedBranch <-> c = -40) /\
  (r = Some RJetFailed <-> c = -38).
Proof. exact same_verdict_spec. Qed.
Print Assumptions C06_same_verdict_spec.
