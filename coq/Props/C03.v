(* C03 - Validity, Merkle roots and cost agree with libsimplicity.       (claimed level: other)

   No theorem can mention the C code (no verified-C front end is installed) and none does.
   What is proved here concerns only the executable reference of the static cost bound,
   Cdiff/CostRef.v + Cdiff/CostRustC.v: three hand-written models (ideal arithmetic, the formulas of
   eval.c analyseBounds, the formulas of analysis.rs NodeBounds).  The property itself - same
   accept/reject verdict, identical CMR / AMR / IHR / cost - is checked differentially,
   Rust vs C vs this reference, by tools/props/c03.py.
   Only `Theorem .. exact lemma` and `Print Assumptions` below. *)
From RS Require Import Lib.Tac Lib.Outcome Ty.Ty Core.Prog Cdiff.CostRef Cdiff.CostRustC Cdiff.VerdictRef.
Import ListNotations.
Local Open Scope N_scope.

(* 1. the cost is a function of the typed structure only: two typed programs that differ only in
      their witness values have the same annotated table, hence the same cost in all three models *)
Theorem C03_cost_witness_independent : forall jc tp1 tp2,
  erase_wit tp1 = erase_wit tp2 -> annotate jc tp1 = annotate jc tp2.
Proof. exact cost_witness_independent. Qed.
Print Assumptions C03_cost_witness_independent.

(* 2. monotone in sub-costs, jet costs and type widths (cle: same shape, numbers pointwise <=) *)
Theorem C03_cost_monotone_ideal : forall ns1 ns2, Forall2 cle ns1 ns2 -> ideal_cost ns1 <= ideal_cost ns2.
Proof. exact ideal_cost_monotone. Qed.
Print Assumptions C03_cost_monotone_ideal.

Theorem C03_cost_monotone_c : forall ns1 ns2, Forall2 cle ns1 ns2 -> c_cost ns1 <= c_cost ns2.
Proof. exact c_cost_monotone. Qed.
Print Assumptions C03_cost_monotone_c.

Theorem C03_cost_ge_children : forall tbl n c, In c (cchildren n) -> nth_cost tbl c <= ideal_node tbl n.
Proof. exact ideal_node_ge_child. Qed.
Print Assumptions C03_cost_ge_children.

(* 3. saturation: the C formulas compute the ideal cost clipped at 2^32-1, entry by entry; the bound
      is clipped exactly when the ideal value reaches 2^32-1 and exact below *)
Theorem C03_c_table_saturates : forall ns, c_table ns = map sat32 (ideal_table ns).
Proof. exact c_table_saturates. Qed.
Print Assumptions C03_c_table_saturates.

Theorem C03_c_cost_saturates : forall ns, c_cost ns = N.min (ideal_cost ns) u32_max.
Proof. exact c_cost_saturates. Qed.
Print Assumptions C03_c_cost_saturates.

Theorem C03_c_cost_clipped_iff : forall ns, c_cost ns = u32_max <-> u32_max <= ideal_cost ns.
Proof. exact c_cost_clipped_iff. Qed.
Print Assumptions C03_c_cost_clipped_iff.

(* 4. the Rust formulas equal the C formulas whenever every type width they mention is below 2^32
      (and disconnect's B width is the difference the Rust code computes) ... *)
Theorem C03_rust_cost_eq_c : forall ns, Forall small ns -> rust_cost ns = Ok (c_cost ns).
Proof. exact rust_cost_eq_c. Qed.
Print Assumptions C03_rust_cost_eq_c.

(* ... and differ beyond: `Cost::of_type` is a truncating cast.  Such programs need more than
   CELLS_MAX cells, i.e. they are outside libsimplicity's limits, where C03 does not compare. *)
Theorem C03_rust_c_differ_wide :
  width (word_ty 32) = two32 /\
  rust_cost [CIden two32] = Ok 100 /\ c_cost [CIden two32] = u32_max.
Proof. exact rust_c_differ_wide. Qed.
Print Assumptions C03_rust_c_differ_wide.

(* 5. verdict classes: exactly one libsimplicity code is "accepted", exactly one is "fail node" *)
Theorem C03_class_ok : forall e, c_decode_class e = 0 <-> e = 0%Z.
Proof. exact c_decode_class_ok. Qed.
Print Assumptions C03_class_ok.

Theorem C03_class_fail : forall e, c_decode_class e = 5 <-> e = (-6)%Z.
Proof. exact c_decode_class_fail. Qed.
Print Assumptions C03_class_fail.

(* non-vacuity *)
Theorem C03_cost_example :
  let ns := [CUnit; CWitness 32; CComp 0 1 0; CJet 150; CPair 2 3; CHidden; CCase 4 5] in
  Forall small ns /\ ideal_cost ns = 782 /\ c_cost ns = 782 /\ rust_cost ns = Ok 782.
Proof. exact cost_example. Qed.
Print Assumptions C03_cost_example.

(* ================================================================== phase 2: the whole property about a reference
   Cdiff/Reference.v assembles an executable reference for everything C03 names from the reference components of
   the sibling families (Codec's decoder model over the real Elements jet code, Infer's `infer` with root 1 -> 1,
   Ty.of_compact witness filling, Merkle's CMR / IHR / AMR over SHA-256, the cost reference above).  The theorems
   below are about that reference; Rust and libsimplicity are each compared with it on the same byte pairs by
   tools/props/c03.py (three-way).  Still no theorem mentions the C or the Rust code. *)
From RS Require Import Lib.Bits Lib.Sweep Bits.Natural Bits.BitIter Jets.JetTable Jets.TypeName Generated.Jets_elements
  Codec.NodeCodec Codec.Linearise Codec.Decode Codec.WitnessCodec Codec.RealJets
  Infer.Constraints Infer.Infer Merkle.Sha256 Merkle.Cmr Merkle.Ihr Merkle.Real
  Cdiff.Reference Cdiff.ReferenceProofs.

(* 6. whatever the reference accepts is the canonical encoding of the table it decoded: the program bits are the
      encoder's bits of that table followed by the (closed: fewer than 8, all zero) padding, the table is in
      canonical order (its pointer post-order is 0, 1, .., len-1), passes the structural rules (hidden nodes only
      under case, no repeated hidden root) and has no one-child disconnect *)
Theorem C03_ref_accept_canonical : forall pb wb a, reference pb wb = VAccept a ->
  exists rest,
    bits_of_bytes pb = enc_prog N elements_enc (a_nodes a) ++ rest /\
    wf_prog N elements_okb (a_nodes a) /\
    order_of (a_nodes a) key_ptr = upto (length (a_nodes a)) /\
    dec_struct (a_nodes a) = Ok tt /\
    close_after pb (consumed (bits_of_bytes pb) rest) = Ok tt /\
    (forall d, In d (a_nodes a) -> is_disc1 d = false).
Proof. exact ref_accept_canonical. Qed.
Print Assumptions C03_ref_accept_canonical.

(* 7. ... is well typed with root 1 -> 1 (every node satisfies the typing rule of its combinator, jets at the types
      of the regenerated Elements table), and the arrows are the principal ones (below every other typing) *)
Theorem C03_ref_accept_typed : forall pb wb a, reference pb wb = VAccept a ->
  check_typing elements_jt (root_of (a_nodes a)) (prog_of (a_nodes a)) (a_tau a) = true /\
  (forall tau, check_typing elements_jt (root_of (a_nodes a)) (prog_of (a_nodes a)) tau = true ->
               typing_le (a_tau a) tau = true).
Proof. exact ref_accept_typed. Qed.
Print Assumptions C03_ref_accept_typed.

Theorem C03_elements_jt_types : forall r, In r (f_rows elements_family) ->
  exists gs gt, jet_lookup elements_jt 1 (j_idx r) = Some (gs, gt) /\
    tn_to_final (j_src r) = Ok (gty_ty gs) /\ tn_to_final (j_tgt r) = Ok (gty_ty gt).
Proof. exact elements_jt_types. Qed.
Print Assumptions C03_elements_jt_types.

(* 8. ... its witness stream is exactly the concatenated compact encodings of values of the inferred target types
      of the witness nodes (in table order) followed by closed padding; no witness is wider than CELLS_MAX *)
Theorem C03_ref_accept_witness : forall pb wb a, reference pb wb = VAccept a ->
  exists vs wrest,
    bits_of_bytes wb = enc_witnesses vs ++ wrest /\
    all_typed vs (wit_tys (prog_of (a_nodes a)) (a_tau a)) = true /\
    close_after wb (consumed (bits_of_bytes wb) wrest) = Ok tt /\
    a_table a = fill (prog_of (a_nodes a)) (a_tau a) vs /\
    Forall (fun t => Ty.width t <= CELLS_MAX) (wit_tys (prog_of (a_nodes a)) (a_tau a)).
Proof. exact ref_accept_witness. Qed.
Print Assumptions C03_ref_accept_witness.

(* 9. ... its commitment root is the root hashed from scratch with SHA-256 from the committed structure of the
      decoded table (Merkle's cmr_spec: no witness value, no disconnected branch, no type enters); the annotated
      and identity roots are the ones Merkle.Ihr.redeem_table computes for the typed, witness-filled table, and all
      identity hashes (hidden roots included) are pairwise different *)
Theorem C03_ref_accept_roots : forall pb wb a, reference pb wb = VAccept a ->
  a_cmr a = bytes_of_state (r_cmr_spec (last (r_erase (prog_of (a_nodes a))) Cmr.CUnit)) /\
  exists rt, ref_redeem (a_table a) = Ok rt /\
    a_amr a = root_amr rt /\ a_ihr a = root_ihr rt /\ nodup_bytes (map ih_bytes rt) = true.
Proof. exact ref_accept_roots. Qed.
Print Assumptions C03_ref_accept_roots.

(* 10. ... and its cost is the cost reference of the first part: the C-shaped value is the ideal bound clipped at
       2^32-1, and the Rust-shaped value equals it whenever all type widths are below 2^32 *)
Theorem C03_ref_accept_cost : forall pb wb a, reference pb wb = VAccept a ->
  exists ns, annotate elements_cost (a_table a) = Some ns /\
    k_ideal (a_costs a) = ideal_cost ns /\
    k_c (a_costs a) = N.min (ideal_cost ns) CostRef.u32_max /\
    k_rust (a_costs a) = rust_cost ns /\
    (Forall small ns -> k_rust (a_costs a) = Ok (k_c (a_costs a))).
Proof. exact ref_accept_cost. Qed.
Print Assumptions C03_ref_accept_cost.

(* 11. the reference rejects only with the classes the comparison uses: program end of stream (1), trailing bytes /
       padding (2), value out of range (3), not canonical order (4), one-child disconnect (6), hidden node
       misplaced (7), type error (8), witness stream (9), sharing not maximal (10), witness wider than CELLS_MAX
       (11).  A fail node is never a reason (class 5 is libsimplicity's designed exception): the reference accepts
       such programs and reports the fact in a_has_fail *)
Theorem C03_ref_reject_classes : forall pb wb c, reference pb wb = VReject c ->
  In c [1; 2; 3; 4; 6; 7; 8; 9; 10; 11].
Proof. exact ref_reject_classes. Qed.
Print Assumptions C03_ref_reject_classes.

Theorem C03_ref_never_fail_class : forall pb wb, reference pb wb <> VReject 5.
Proof. exact ref_never_fail_class. Qed.
Print Assumptions C03_ref_never_fail_class.

(* 12. the type-error class is exact: a decodable program is rejected with class 8 precisely when NO assignment of
       arrows satisfies the typing rules with root 1 -> 1 (completeness of the reference inference) *)
Theorem C03_ref_reject_type_iff : forall pb wb ns, decodes_to pb ns ->
  (reference pb wb = VReject 8 <->
   forall tau, check_typing elements_jt (root_of ns) (prog_of ns) tau = false).
Proof. exact ref_reject_type_iff. Qed.
Print Assumptions C03_ref_reject_type_iff.

(* the syntactic / structural classes are those of the decoder model of C02 *)
Theorem C03_ref_reject_syntax : forall pb wb e,
  dec_prog N elements_dec (bits_of_bytes pb) = Err e -> reference pb wb = VReject (class_of_dec_err e).
Proof. exact ref_reject_syntax. Qed.
Print Assumptions C03_ref_reject_syntax.

Theorem C03_ref_reject_structure : forall pb wb ns rest e,
  dec_prog N elements_dec (bits_of_bytes pb) = Ok (ns, rest) -> dec_struct ns = Err e ->
  reference pb wb = VReject (class_of_dec_err e).
Proof. exact ref_reject_structure. Qed.
Print Assumptions C03_ref_reject_structure.

(* 13. the reference is total up to the roots: no stage before them panics or runs out of fuel; the only internal
       error it can report is "a root / cost function failed on a decoded, typed, witness-filled table" (code 6) *)
Theorem C03_ref_internal_only_roots : forall pb wb c, reference pb wb = VInternal c -> c = 6.
Proof. exact ref_internal_only_roots. Qed.
Print Assumptions C03_ref_internal_only_roots.

(* non-vacuity: accepted and rejected inputs (computed with the real SHA-256 and jet tables) *)
Theorem C03_ref_examples :
  match reference [36] [] with
  | VAccept a => a_nodes a = [DUnit] /\ a_tau a = [Some (Ty.One, Ty.One)] /\ k_c (a_costs a) = 100 /\ a_has_fail a = false
  | _ => False
  end /\
  reference [] [] = VReject 1 /\ reference [36; 0] [] = VReject 2 /\
  reference [0xc1; 0x28; 0x30; 0x14] [] = VReject 8 /\ reference [36] [0] = VReject 9.
Proof. exact (conj ref_accepts_unit ref_rejects_examples). Qed.
Print Assumptions C03_ref_examples.

(* 14. the witness hash inside AMR / IHR (merkle/mod.rs compact_value as modelled by Merkle.Real.r_compact_value) is
       SHA-256 with the FIPS 180-4 padding: the model hashes [cv_message bits], whose length is, for EVERY bit string,
       the least multiple of 512 bits that holds the bits, the delimiter bit and the 64-bit length ... *)
From RS Require Import Cdiff.CompactValue.

Theorem C03_compact_value_message : forall bits, r_compact_value bits = sha_absorb sha_iv0 (cv_message bits).
Proof. exact compact_value_message. Qed.
Print Assumptions C03_compact_value_message.

Theorem C03_compact_value_padding_minimal : forall bits,
  N.of_nat (length (cv_message bits)) = 64 * ((N.of_nat (length bits) + 65 + 511) / 512).
Proof. exact cv_message_length. Qed.
Print Assumptions C03_compact_value_padding_minimal.

(* ... the test `bytes.len() % 64 > 56` is the exact threshold: `>= 56` differs precisely for bit lengths
   440..447 mod 512, where it appends a whole extra block (64 zero bytes instead of none) ... *)
Theorem C03_compact_value_threshold_exact :
  (forall len, len mod 64 <> 56 -> cv_zeros true len = cv_zeros false len) /\
  (forall len, len mod 64 = 56 -> cv_zeros true len = 0 /\ cv_zeros false len = 64) /\
  (forall n, 440 <= n mod 512 <= 447 <-> (n / 8 + 1) mod 64 = 56).
Proof. exact cv_threshold_exact. Qed.
Print Assumptions C03_compact_value_threshold_exact.

(* ... and for byte-aligned values the result is the SHA-256 of the bytes (Merkle.Sha256.sha256) *)
Theorem C03_compact_value_sha256 : forall bs, Forall (fun b => b < 256) bs ->
  bytes_of_state (r_compact_value (bits_of_bytes bs)) = sha256 bs.
Proof. exact compact_value_is_sha256. Qed.
Print Assumptions C03_compact_value_sha256.

(* 15. one program, one encoding: the program bytes the reference accepts are the bit writer's output for the encoder's
       bits of the table it decoded (Codec's reencode_bytes with the real Elements jet code; a clean close leaves fewer than
       8 unread bits, all zero), so two accepted byte strings that decode to the same table are equal *)
From RS Require Import Bits.BitWriter Cdiff.Canonical.

Theorem C03_ref_accept_reencodes : forall pb wb a, bytes_ok pb -> reference pb wb = VAccept a ->
  bw_out (bw_flush_all (bw_write_bits bw_new (enc_prog N elements_enc (linearise (a_nodes a) key_ptr)))) = pb.
Proof. exact ref_accept_reencodes. Qed.
Print Assumptions C03_ref_accept_reencodes.

Theorem C03_ref_accept_unique_encoding : forall pb wb a pb' wb' a',
  bytes_ok pb -> bytes_ok pb' ->
  reference pb wb = VAccept a -> reference pb' wb' = VAccept a' ->
  a_nodes a = a_nodes a' -> pb = pb'.
Proof. exact ref_accept_unique_encoding. Qed.
Print Assumptions C03_ref_accept_unique_encoding.
