(* C16 - the four jets that Policy/Sem.v gives by specification (eq_256, eq_32, add_32, verify)
   have, on encoded values, exactly the specification of Jets/JetSpec.v - the one the C05 check
   compares with the C jets on every run (Core ids 45, 46, 1, 357; the Elements family reuses
   the same C functions, C14).  So for these jets [jets_agree] holds with [cj] = [jet_spec]. *)
From Coq Require Import String.
From RS Require Import Lib.Tac Lib.Outcome Lib.Bits Ty.Ty.
From RS Require Core.Prog Core.Term Core.Typing Core.Sem Jets.JetSpec.
From RS Require Import Policy.PolicyAst Policy.Sort Policy.Compile Policy.Satisfy Policy.Sem Policy.Bridge
  Policy.BridgeExample.
Import ListNotations.
Local Open Scope N_scope.

Lemma firstn_app_exact {A} (l1 l2 : list A) n : length l1 = n -> firstn n (l1 ++ l2) = l1.
Proof. intros <-. rewrite firstn_app, Nat.sub_diag, firstn_O, app_nil_r. apply firstn_all. Qed.

Lemma skipn_app_exact {A} (l1 l2 : list A) n : length l1 = n -> skipn n (l1 ++ l2) = l2.
Proof. intros <-. rewrite skipn_app, Nat.sub_diag, skipn_all. reflexivity. Qed.

(* the input fields of a two-word jet on two encoded words *)
Lemma fields2 k (w : nat) a b : N.to_nat (width (word_ty k)) = w -> a < 2 ^ N.of_nat w -> b < 2 ^ N.of_nat w ->
  JetSpec.fields [w; w] (padded_enc (word_ty (S k))
     (SP (of_padded (word_ty k) (bits_be w a)) (of_padded (word_ty k) (bits_be w b)))) = [a; b].
Proof.
  intros Hw Ha Hb. change (word_ty (S k)) with (Prod (word_ty k) (word_ty k)). cbn [padded_enc].
  assert (Hl : forall x, length (bits_be w x) = N.to_nat (width (word_ty k))).
  { intros x. rewrite bits_be_length. symmetry. exact Hw. }
  rewrite !padded_enc_of_padded_word by apply Hl.
  cbn [JetSpec.fields]. rewrite firstn_app_exact, skipn_app_exact by apply bits_be_length.
  rewrite firstn_all2 by (rewrite bits_be_length; lia).
  rewrite !val_be_bits_be, !N.mod_small by assumption. reflexivity.
Qed.

Lemma find_eq32 : JetSpec.find_jet JetSpec.jet_table 46 = Some (JetSpec.j_eq 46 "eq_32" 32).
Proof. vm_compute. reflexivity. Qed.
Lemma find_eq256 : JetSpec.find_jet JetSpec.jet_table 45 = Some (JetSpec.j_eq 45 "eq_256" 256).
Proof. vm_compute. reflexivity. Qed.
Lemma find_add32 : JetSpec.find_jet JetSpec.jet_table 1 = Some (JetSpec.j_add 1 "add_32" 32).
Proof. vm_compute. reflexivity. Qed.
Lemma find_verify : JetSpec.find_jet JetSpec.jet_table 357 = Some (JetSpec.j_verify 357 "verify").
Proof. vm_compute. reflexivity. Qed.

Lemma bit_of_padded c : of_padded Bit [c] = bit_sval c.
Proof. destruct c; reflexivity. Qed.

Theorem spec_eq32 a b : a < 2 ^ 32 -> b < 2 ^ 32 ->
  JetSpec.jet_spec 46 (SP (word_sval 32 a) (word_sval 32 b)) = Some (bit_sval (a =? b)).
Proof.
  intros Ha Hb. unfold JetSpec.jet_spec. rewrite find_eq32.
  cbn [JetSpec.j_eq JetSpec.j_cmp JetSpec.j_src JetSpec.j_in JetSpec.j_fn JetSpec.j_tgt].
  change (JetSpec.WW (JetSpec.dbl 32)) with (word_ty 6). unfold word_sval. change (lg 32) with 5%nat.
  change (N.to_nat 32) with 32%nat.
  rewrite (fields2 5 32 a b eq_refl Ha Hb). cbn [JetSpec.f2 JetSpec.bit1 JetSpec.layout].
  destruct (a =? b); reflexivity.
Qed.

Theorem spec_eq256 a b : a < 2 ^ 256 -> b < 2 ^ 256 ->
  JetSpec.jet_spec 45 (SP (word_sval 256 a) (word_sval 256 b)) = Some (bit_sval (a =? b)).
Proof.
  intros Ha Hb. unfold JetSpec.jet_spec. rewrite find_eq256.
  cbn [JetSpec.j_eq JetSpec.j_cmp JetSpec.j_src JetSpec.j_in JetSpec.j_fn JetSpec.j_tgt].
  change (JetSpec.WW (JetSpec.dbl 256)) with (word_ty 9). unfold word_sval. change (lg 256) with 8%nat.
  change (N.to_nat 256) with 256%nat.
  rewrite (fields2 8 256 a b eq_refl Ha Hb). cbn [JetSpec.f2 JetSpec.bit1 JetSpec.layout].
  destruct (a =? b); reflexivity.
Qed.

Lemma bits_be_mod len x : bits_be len (x mod 2 ^ N.of_nat len) = bits_be len x.
Proof.
  pose proof (bits_be_val_be (bits_be len x) 0) as Hv. rewrite bits_be_length in Hv.
  rewrite val_be_acc_bits_be in Hv. rewrite N.mul_0_l, N.add_0_l in Hv. exact Hv.
Qed.

Lemma carry32 a b : a < 4294967296 -> b < 4294967296 ->
  (a + b) / 4294967296 = if 4294967296 <=? a + b then 1 else 0.
Proof.
  intros Ha Hb. destruct (N.leb_spec 4294967296 (a + b)).
  - symmetry. apply N.div_unique with (r := a + b - 4294967296); lia.
  - apply N.div_small. lia.
Qed.

Lemma of_padded_bit_word (l1 l2 : list bool) : length l1 = 1%nat ->
  of_padded (Prod Bit (word_ty 5)) (l1 ++ l2) = SP (of_padded Bit l1) (of_padded (word_ty 5) l2).
Proof.
  intros Hl. change (of_padded (Prod Bit (word_ty 5)) (l1 ++ l2)) with
    (SP (of_padded Bit (firstn 1 (l1 ++ l2))) (of_padded (word_ty 5) (skipn 1 (l1 ++ l2)))).
  rewrite firstn_app_exact, skipn_app_exact by exact Hl. reflexivity.
Qed.

Theorem spec_add32 a b : a < 2 ^ 32 -> b < 2 ^ 32 ->
  JetSpec.jet_spec 1 (SP (word_sval 32 a) (word_sval 32 b)) =
  Some (SP (bit_sval (2 ^ 32 <=? a + b)) (word_sval 32 ((a + b) mod 2 ^ 32))).
Proof.
  intros Ha Hb. unfold JetSpec.jet_spec. rewrite find_add32.
  cbn [JetSpec.j_add JetSpec.j_src JetSpec.j_in JetSpec.j_fn JetSpec.j_tgt].
  change (JetSpec.WW (2 * 32)) with (word_ty 6). unfold word_sval. change (lg 32) with 5%nat.
  change (N.to_nat 32) with 32%nat.
  rewrite (fields2 5 32 a b eq_refl Ha Hb). cbn [JetSpec.layout].
  rewrite app_nil_r, app_length, !bits_be_length.
  change (Nat.eqb (1 + 32) (N.to_nat (width (Prod Bit (JetSpec.WW 32))))) with true. cbv iota.
  change (JetSpec.WW 32) with (word_ty 5). change (JetSpec.pw 32) with 4294967296.
  change (2 ^ 32) with 4294967296 in *.
  rewrite (carry32 a b Ha Hb).
  rewrite of_padded_bit_word by apply bits_be_length.
  rewrite <- (bits_be_mod 32 (a + b)). change (2 ^ N.of_nat 32) with 4294967296.
  f_equal. f_equal. destruct (4294967296 <=? a + b); reflexivity.
Qed.

Theorem spec_verify : JetSpec.jet_spec 357 (SR SU) = Some SU /\ JetSpec.jet_spec 357 (SL SU) = None.
Proof. split; vm_compute; reflexivity. Qed.

(* the policy-level specification of the four jets is the JetSpec specification on encodings *)
Theorem policy_jets_are_spec (e : envo) :
  (forall a b, a < 2 ^ 256 -> b < 2 ^ 256 ->
     option_map bx_enc (jet_sem e Eq256 (VP (VW 256 a) (VW 256 b)))
     = JetSpec.jet_spec 45 (bx_enc (VP (VW 256 a) (VW 256 b)))) /\
  (forall a b, a < 2 ^ 32 -> b < 2 ^ 32 ->
     option_map bx_enc (jet_sem e Eq32 (VP (VW 32 a) (VW 32 b)))
     = JetSpec.jet_spec 46 (bx_enc (VP (VW 32 a) (VW 32 b)))) /\
  (forall a b, a < 2 ^ 32 -> b < 2 ^ 32 ->
     option_map bx_enc (jet_sem e Add32 (VP (VW 32 a) (VW 32 b)))
     = JetSpec.jet_spec 1 (bx_enc (VP (VW 32 a) (VW 32 b)))) /\
  (forall c, option_map bx_enc (jet_sem e Verify (vbit c)) = JetSpec.jet_spec 357 (bx_enc (vbit c))).
Proof.
  split; [|split; [|split]].
  - intros a b Ha Hb. cbn [jet_sem option_map bx_enc enc]. rewrite spec_eq256 by assumption.
    rewrite bit_sval_enc. reflexivity.
  - intros a b Ha Hb. cbn [jet_sem option_map bx_enc enc]. rewrite spec_eq32 by assumption.
    rewrite bit_sval_enc. reflexivity.
  - intros a b Ha Hb. cbn [jet_sem option_map bx_enc enc]. rewrite spec_add32 by assumption.
    rewrite bit_sval_enc. reflexivity.
  - intros [|]; vm_compute; reflexivity.
Qed.
