(* Proofs about Human/TypeText.v:
     as_word_spec          as_word recognises exactly the 32 word types
     display_eq_print      the Display loop (iterator items, `skipping` state) prints print_ty
     parse_print_sub       parse_type_postfix reads a printed sub-type back, whatever follows
     parse_print_ty        parse_ty (print_ty t ++ rest) = Ok (Some (ast_of t), tdepth t, rest) for small t
     reify_ast_of          and that AST denotes t
     print_tokens_ok       only tokens of the type grammar are printed
     small_of_size         every type with at most 1000 constructors is small
     parse_postfix_depth / parse_depth_bounded   the depth invariant of the parser (commit c4e3694)
     parse_print_ty_refuted_deep / parse_print_ty_deep_ok   the exact bound of `small`
     print_i32_refuted_w31            the printer before F-C17k
     parse_nobudget_depth_refuted     the parser before F-C17j
     parse_perloop_depth_refuted      the parser between F-C17j and F-C17l
     parse_ty_total        the fuel of parse_ty is never exhausted, no panic *)
From RS Require Import Lib.Tac Lib.Outcome Ty.Ty Human.TypeText.
Import ListNotations.
Local Open Scope N_scope.

Fixpoint tsize (t : ty) : nat :=
  match t with One => 1 | Sum a b | Prod a b => S (tsize a + tsize b) end.

(* ------------------------------------------------------------------ as_word *)
Lemma as_word_word n : (n <= 31)%nat -> as_word (word_ty n) = Some n.
Proof.
  induction n as [|n IH]; intros H; [reflexivity|].
  cbn [word_ty as_word]. rewrite IH by lia. rewrite Nat.eqb_refl.
  destruct (Nat.ltb n 31) eqn:E; [reflexivity|]. apply Nat.ltb_ge in E. lia.
Qed.

Lemma as_word_sound t : forall n, as_word t = Some n -> t = word_ty n /\ (n <= 31)%nat.
Proof.
  induction t as [|a IHa b IHb|a IHa b IHb]; intros n H.
  - discriminate.
  - destruct a; [|discriminate H|discriminate H]. destruct b; [|discriminate H|discriminate H].
    cbn in H. injection H as <-. split; [reflexivity|lia].
  - cbn [as_word] in H. destruct (as_word a) as [x|]; [|discriminate]. destruct (as_word b) as [y|]; [|discriminate].
    destruct (Nat.eqb x y) eqn:E1; [|discriminate]. destruct (Nat.ltb x 31) eqn:E2; [|discriminate].
    cbn in H. injection H as <-. apply Nat.eqb_eq in E1. subst y. apply Nat.ltb_lt in E2.
    destruct (IHa x eq_refl) as [-> _]. destruct (IHb x eq_refl) as [-> _]. split; [reflexivity|lia].
Qed.

Theorem as_word_spec t n : as_word t = Some n <-> t = word_ty n /\ (n <= 31)%nat.
Proof.
  split; [apply as_word_sound|]. intros [-> H]. apply as_word_word, H.
Qed.

Lemma as_word_not_one t n : as_word t = Some n -> t <> One.
Proof. intros H ->. discriminate. Qed.

(* ------------------------------------------------------------------ the iterator items *)
Lemma events_next t : forall i, (i < snd (events t i))%nat.
Proof.
  induction t as [|a IHa b IHb|a IHa b IHb]; intros i; cbn [events].
  - cbn. lia.
  - specialize (IHa (S i)). destruct (events a (S i)) as [ea i1]. specialize (IHb i1).
    destruct (events b i1) as [eb i2]. cbn in *. lia.
  - specialize (IHa (S i)). destruct (events a (S i)) as [ea i1]. specialize (IHb i1).
    destruct (events b i1) as [eb i2]. cbn in *. lia.
Qed.

Lemma events_size t : forall i e, In e (fst (events t i)) -> (tsize (ev_ty e) <= tsize t)%nat.
Proof.
  induction t as [|a IHa b IHb|a IHa b IHb]; intros i e H; cbn [events] in H.
  - cbn in H. destruct H as [<-|[]]. cbn. lia.
  - specialize (IHa (S i)). destruct (events a (S i)) as [ea i1]. specialize (IHb i1).
    destruct (events b i1) as [eb i2]. cbn [fst] in *.
    destruct H as [<-|H]; [cbn; lia|]. apply in_app_or in H. destruct H as [H|H].
    + specialize (IHa e H). cbn [tsize]. lia.
    + destruct H as [<-|H]; [cbn; lia|]. apply in_app_or in H. destruct H as [H|H].
      * specialize (IHb e H). cbn [tsize]. lia.
      * destruct H as [<-|[]]. cbn. lia.
  - specialize (IHa (S i)). destruct (events a (S i)) as [ea i1]. specialize (IHb i1).
    destruct (events b i1) as [eb i2]. cbn [fst] in *.
    destruct H as [<-|H]; [cbn; lia|]. apply in_app_or in H. destruct H as [H|H].
    + specialize (IHa e H). cbn [tsize]. lia.
    + destruct H as [<-|H]; [cbn; lia|]. apply in_app_or in H. destruct H as [H|H].
      * specialize (IHb e H). cbn [tsize]. lia.
      * destruct H as [<-|[]]. cbn. lia.
Qed.

Lemma ty_eqb_refl t : ty_eqb t t = true.
Proof. apply ty_eqb_eq. reflexivity. Qed.

Lemma ty_eqb_size a b : (tsize a < tsize b)%nat -> ty_eqb a b = false.
Proof.
  intros H. destruct (ty_eqb a b) eqn:E; [|reflexivity]. apply ty_eqb_eq in E. subst. lia.
Qed.

(* while skipping, items that are not the complete item of the awaited type write nothing *)
Lemma skip_run wt s evs : forall r,
  (forall e, In e evs -> ev_complete e && ty_eqb (ev_ty e) s = false) ->
  disp_run_gen wt (Some s) (evs ++ r) = disp_run_gen wt (Some s) r.
Proof.
  induction evs as [|e evs IH]; intros r H; [reflexivity|].
  cbn [app disp_run_gen disp_step_gen]. rewrite (H e (or_introl eq_refl)). cbn [app].
  apply IH. intros e' He'. apply H. right. exact He'.
Qed.

(* skipping over a whole binary node t = a (+|×) b after its first item *)
Lemma skip_node wt t a b i1 i2 idx rest :
  (tsize a < tsize t)%nat -> (tsize b < tsize t)%nat ->
  disp_run_gen wt (Some t)
    ((fst (events a i1) ++ mk_event t idx 1 false :: fst (events b i2) ++ [mk_event t idx 2 true]) ++ rest)
  = disp_run_gen wt None rest.
Proof.
  intros Ha Hb.
  rewrite <- app_assoc. rewrite skip_run.
  2:{ intros e He. apply events_size in He. rewrite ty_eqb_size by lia. apply andb_false_r. }
  cbn [app disp_run_gen disp_step_gen ev_complete andb].
  rewrite <- app_assoc. rewrite skip_run.
  2:{ intros e He. apply events_size in He. rewrite ty_eqb_size by lia. apply andb_false_r. }
  cbn [app disp_run_gen disp_step_gen ev_complete ev_ty andb]. rewrite ty_eqb_refl. reflexivity.
Qed.

Lemma paren_open_spec i : paren_open i = if Nat.eqb i 0 then [] else [TLParen].
Proof. destruct i; reflexivity. Qed.
Lemma paren_close_spec i : paren_close i = if Nat.eqb i 0 then [] else [TRParen].
Proof. destruct i; reflexivity. Qed.

Lemma disp_events wt t : forall i rest,
  disp_run_gen wt None (fst (events t i) ++ rest) = print_gen wt (Nat.eqb i 0) t ++ disp_run_gen wt None rest.
Proof.
  induction t as [|a IHa b IHb|a IHa b IHb]; intros i rest.
  - reflexivity.
  - (* sum *)
    cbn [events].
    pose proof (events_next a (S i)) as Hn1.
    destruct (events a (S i)) as [ea i1] eqn:Ea. cbn [snd] in Hn1.
    destruct (events b i1) as [eb i2] eqn:Eb. cbn [fst].
    assert (Hea : ea = fst (events a (S i))) by (rewrite Ea; reflexivity).
    assert (Heb : eb = fst (events b i1)) by (rewrite Eb; reflexivity).
    destruct (as_word (Sum a b)) as [n|] eqn:Hw.
    + (* a word: 2 *)
      cbn [app disp_run_gen disp_step_gen ev_ty]. rewrite Hw.
      replace (print_gen wt (Nat.eqb i 0) (Sum a b)) with (wt n)
        by (destruct a, b; cbn [print_gen]; rewrite ?Hw; reflexivity).
      f_equal. rewrite Hea, Heb.
      change (fst (events a (S i)) ++ mk_event (Sum a b) i 1 false :: fst (events b i1) ++ [mk_event (Sum a b) i 2 true])
        with (fst (events a (S i)) ++ mk_event (Sum a b) i 1 false :: fst (events b i1) ++ [mk_event (Sum a b) i 2 true]).
      apply skip_node; cbn [tsize]; lia.
    + destruct a as [|a1 a2|a1 a2].
      * (* option *)
        destruct b as [|b1 b2|b1 b2]; [discriminate Hw| |].
        all: cbn [events] in Ea; injection Ea as <- <-.
        all: cbn [app disp_run_gen disp_step_gen ev_ty ev_n ev_complete]; rewrite Hw.
        all: cbn [app disp_run_gen disp_step_gen ev_ty ev_n ev_complete andb ty_eqb as_word].
        all: rewrite Heb, <- app_assoc, IHb.
        all: cbn [Nat.eqb app disp_run_gen disp_step_gen ev_ty ev_n ev_complete]; rewrite Hw.
        all: cbn [print_gen]; rewrite Hw; rewrite <- app_assoc; reflexivity.
      * (* sum whose left part is a sum *)
        cbn [app disp_run_gen disp_step_gen ev_ty ev_n ev_index]. rewrite Hw.
        rewrite Hea, <- app_assoc, IHa. cbn [Nat.eqb].
        cbn [app disp_run_gen disp_step_gen ev_ty ev_n ev_index]. rewrite Hw.
        rewrite Heb, <- app_assoc, IHb.
        replace (Nat.eqb i1 0) with false by (destruct i1; [lia|reflexivity]).
        cbn [app disp_run_gen disp_step_gen ev_ty ev_n ev_index]. rewrite Hw.
        cbn [print_gen]. rewrite Hw. rewrite paren_open_spec, paren_close_spec.
        destruct (Nat.eqb i 0); cbn [paren app]; rewrite <- ?app_assoc; cbn [app]; rewrite <- ?app_assoc; reflexivity.
      * cbn [app disp_run_gen disp_step_gen ev_ty ev_n ev_index]. rewrite Hw.
        rewrite Hea, <- app_assoc, IHa. cbn [Nat.eqb].
        cbn [app disp_run_gen disp_step_gen ev_ty ev_n ev_index]. rewrite Hw.
        rewrite Heb, <- app_assoc, IHb.
        replace (Nat.eqb i1 0) with false by (destruct i1; [lia|reflexivity]).
        cbn [app disp_run_gen disp_step_gen ev_ty ev_n ev_index]. rewrite Hw.
        cbn [print_gen]. rewrite Hw. rewrite paren_open_spec, paren_close_spec.
        destruct (Nat.eqb i 0); cbn [paren app]; rewrite <- ?app_assoc; cbn [app]; rewrite <- ?app_assoc; reflexivity.
  - (* product *)
    cbn [events].
    pose proof (events_next a (S i)) as Hn1.
    destruct (events a (S i)) as [ea i1] eqn:Ea. cbn [snd] in Hn1.
    destruct (events b i1) as [eb i2] eqn:Eb. cbn [fst].
    assert (Hea : ea = fst (events a (S i))) by (rewrite Ea; reflexivity).
    assert (Heb : eb = fst (events b i1)) by (rewrite Eb; reflexivity).
    destruct (as_word (Prod a b)) as [n|] eqn:Hw.
    + cbn [app disp_run_gen disp_step_gen ev_ty]. rewrite Hw.
      replace (print_gen wt (Nat.eqb i 0) (Prod a b)) with (wt n)
        by (cbn [print_gen]; rewrite Hw; reflexivity).
      f_equal. rewrite Hea, Heb.
      apply skip_node; cbn [tsize]; lia.
    + cbn [app disp_run_gen disp_step_gen ev_ty ev_n ev_index]. rewrite Hw.
      rewrite Hea, <- app_assoc, IHa. cbn [Nat.eqb].
      cbn [app disp_run_gen disp_step_gen ev_ty ev_n ev_index]. rewrite Hw.
      rewrite Heb, <- app_assoc, IHb.
      replace (Nat.eqb i1 0) with false by (destruct i1; [lia|reflexivity]).
      cbn [app disp_run_gen disp_step_gen ev_ty ev_n ev_index]. rewrite Hw.
      cbn [print_gen]. rewrite Hw. rewrite paren_open_spec, paren_close_spec.
      destruct (Nat.eqb i 0); cbn [paren app]; rewrite <- ?app_assoc; cbn [app]; rewrite <- ?app_assoc; reflexivity.
Qed.

Lemma display_gen_eq wt t : display_gen wt t = print_gen wt true t.
Proof.
  unfold display_gen.
  rewrite <- (app_nil_r (fst (events t 0))). rewrite disp_events. cbn. apply app_nil_r.
Qed.

(* the Display loop prints print_ty *)
Theorem display_eq_print t : display t = print_ty t.
Proof. apply display_gen_eq. Qed.

Theorem display_i32_eq_print t : display_i32 t = print_ty_i32 t.
Proof. apply display_gen_eq. Qed.

(* ------------------------------------------------------------------ reading a printed type back *)
Lemma over_false d n : d + n <= max_nesting -> over d n = false.
Proof. intros H. unfold over. apply N.ltb_ge. lia. Qed.

Lemma eat_q_follow m d c a rest : follow_ok rest -> eat_q m d c a rest = Ok (a, c, rest).
Proof. destruct rest as [|[] r]; cbn; intros H; try reflexivity; destruct H. Qed.

Lemma loop_follow m f d c lhs rest : follow_ok rest -> parse_loop_gen m (S f) d c lhs rest = Ok (lhs, c, rest).
Proof. destruct rest as [|[] r]; cbn; intros H; try reflexivity; destruct H. Qed.

Lemma atom_pow_word n : (1 <= n)%nat -> (n <= 31)%nat ->
  atom_pow (2 ^ N.of_nat n) = Ok (Some (APow (N.of_nat n))).
Proof.
  intros H1 H2. unfold atom_pow.
  assert (Hs : 2 ^ N.of_nat n <= 2147483648).
  { change 2147483648 with (2 ^ 31). apply N.pow_le_mono_r; lia. }
  assert (Hge : 2 <= 2 ^ N.of_nat n).
  { change 2 with (2 ^ 1) at 1. apply N.pow_le_mono_r; lia. }
  replace (u32_max <? 2 ^ N.of_nat n) with false by (symmetry; apply N.ltb_ge; unfold u32_max; lia).
  replace (2 ^ N.of_nat n =? 0) with false by (symmetry; apply N.eqb_neq; lia).
  replace (2 ^ N.of_nat n =? 1) with false by (symmetry; apply N.eqb_neq; lia).
  unfold is_pow2. rewrite N.log2_pow2 by lia. rewrite N.eqb_refl.
  replace (0 <? 2 ^ N.of_nat n) with true by (symmetry; apply N.ltb_lt; lia).
  reflexivity.
Qed.

(* a word token is read back as the word *)
Lemma parse_word_tokens m n f d rest : (n <= 31)%nat ->
  parse_atom_gen m (S f) d (word_tokens n ++ rest) =
  Ok (Some (match n with O => ATwo | _ => APow (N.of_nat n) end), 0, rest).
Proof.
  intros H. destruct n as [|n]; [reflexivity|].
  unfold word_tokens. cbn [app parse_atom_gen]. rewrite atom_pow_word by lia. reflexivity.
Qed.

Lemma ast_of_word t n : as_word t = Some n -> ast_of t = match n with O => ATwo | _ => APow (N.of_nat n) end.
Proof. intros H. destruct t; cbn [ast_of]; rewrite H; reflexivity. Qed.

(* unfolding of the definitions at a node *)
Lemma print_gen_word wt top t n : as_word t = Some n -> print_gen wt top t = wt n.
Proof. intros H. destruct t; cbn [print_gen]; rewrite H; reflexivity. Qed.
Lemma print_gen_opt wt top b : as_word (Sum One b) = None ->
  print_gen wt top (Sum One b) = print_gen wt false b ++ [TQuestion].
Proof. intros H. cbn [print_gen]. rewrite H. reflexivity. Qed.
Lemma print_gen_sum wt top a b : as_word (Sum a b) = None -> a <> One ->
  print_gen wt top (Sum a b) = paren top (print_gen wt false a ++ TPlus :: print_gen wt false b).
Proof. intros H Ha. cbn [print_gen]. rewrite H. destruct a; [congruence|reflexivity|reflexivity]. Qed.
Lemma print_gen_prod wt top a b : as_word (Prod a b) = None ->
  print_gen wt top (Prod a b) = paren top (print_gen wt false a ++ TStar :: print_gen wt false b).
Proof. intros H. cbn [print_gen]. rewrite H. reflexivity. Qed.

Lemma print_sub_word top t n : as_word t = Some n -> print_sub top t = word_tokens n.
Proof. apply print_gen_word. Qed.
Lemma print_sub_opt top b : as_word (Sum One b) = None ->
  print_sub top (Sum One b) = print_sub false b ++ [TQuestion].
Proof. apply print_gen_opt. Qed.
Lemma print_sub_sum top a b : as_word (Sum a b) = None -> a <> One ->
  print_sub top (Sum a b) = paren top (print_sub false a ++ TPlus :: print_sub false b).
Proof. apply print_gen_sum. Qed.
Lemma print_sub_prod top a b : as_word (Prod a b) = None ->
  print_sub top (Prod a b) = paren top (print_sub false a ++ TStar :: print_sub false b).
Proof. apply print_gen_prod. Qed.

Lemma tdepth_word t n : as_word t = Some n -> tdepth t = 0.
Proof. intros H. destruct t; cbn [tdepth]; rewrite H; reflexivity. Qed.
Lemma tdepth_sum a b : as_word (Sum a b) = None -> tdepth (Sum a b) = 1 + N.max (tdepth a) (tdepth b).
Proof. intros H. cbn [tdepth]. rewrite H. reflexivity. Qed.
Lemma tdepth_prod a b : as_word (Prod a b) = None -> tdepth (Prod a b) = 1 + N.max (tdepth a) (tdepth b).
Proof. intros H. cbn [tdepth]. rewrite H. reflexivity. Qed.
Lemma ast_of_sum a b : as_word (Sum a b) = None -> ast_of (Sum a b) = ASum (ast_of a) (ast_of b).
Proof. intros H. cbn [ast_of]. rewrite H. reflexivity. Qed.
Lemma ast_of_prod a b : as_word (Prod a b) = None -> ast_of (Prod a b) = AProd (ast_of a) (ast_of b).
Proof. intros H. cbn [ast_of]. rewrite H. reflexivity. Qed.

Lemma adepth_ast_of t : adepth (ast_of t) = tdepth t.
Proof.
  induction t as [|a IHa b IHb|a IHa b IHb].
  - reflexivity.
  - destruct (as_word (Sum a b)) as [n|] eqn:E.
    + rewrite (ast_of_word _ _ E), (tdepth_word _ _ E). destruct n; reflexivity.
    + rewrite (ast_of_sum _ _ E), (tdepth_sum _ _ E). cbn [adepth]. rewrite IHa, IHb. reflexivity.
  - destruct (as_word (Prod a b)) as [n|] eqn:E.
    + rewrite (ast_of_word _ _ E), (tdepth_word _ _ E). destruct n; reflexivity.
    + rewrite (ast_of_prod _ _ E), (tdepth_prod _ _ E). cbn [adepth]. rewrite IHa, IHb. reflexivity.
Qed.

(* 1 when print_sub false t is a parenthesised sum or product *)
Definition parens (t : ty) : N :=
  match as_word t with
  | Some _ => 0
  | None => match t with One => 0 | Sum One _ => 0 | _ => 1 end
  end.
Lemma parens_le t : parens t <= 1.
Proof. unfold parens. destruct (as_word t); [lia|]. destruct t as [|[] ?|]; lia. Qed.

(* one-step unfoldings *)
Lemma parse_postfix_S m f d ts :
  parse_postfix_gen m (S f) d ts =
  obind (parse_atom_gen m f d ts) (fun p => eat_q m d (start m (r_dep p)) (r_ty p) (r_rest p)).
Proof. reflexivity. Qed.
Lemma parse_atom_paren m f d r :
  parse_atom_gen m (S f) d (TLParen :: r) =
  obind (parse_type_gen m f d r)
    (fun p => match r_rest p with TRParen :: r2 => Ok (r_ty p, r_dep p, r2) | _ => Err EParse end).
Proof. reflexivity. Qed.
Lemma parse_type_S m f d ts :
  parse_type_gen m (S f) d ts =
  if max_nesting <=? d then Err ENest
  else obind (parse_postfix_gen m f (d + 1) ts)
         (fun p => parse_loop_gen m f (d + 1) (start m (r_dep p)) (r_ty p) (r_rest p)).
Proof. reflexivity. Qed.
Lemma parse_loop_op f d c lhs (op : token) (mk : aty -> aty -> aty) r :
  (op = TPlus /\ mk = ASum) \/ (op = TStar /\ mk = AProd) ->
  parse_loop_gen ByDepth (S f) d c lhs (op :: r) =
  obind (parse_postfix_gen ByDepth f d r) (fun p =>
    if over d (N.max c (r_dep p) + 1) then Err ENest
    else parse_loop_gen ByDepth f d (N.max c (r_dep p) + 1) (zip2 mk lhs (r_ty p)) (r_rest p)).
Proof. intros [[-> ->]|[-> ->]]; reflexivity. Qed.
Lemma parse_loop_op_old m f d c lhs (op : token) (mk : aty -> aty -> aty) r :
  m <> ByDepth ->
  (op = TPlus /\ mk = ASum) \/ (op = TStar /\ mk = AProd) ->
  parse_loop_gen m (S f) d c lhs (op :: r) =
  if checked m && over d (c + 1) then Err ENest
  else obind (parse_postfix_gen m f d r) (fun p => parse_loop_gen m f d (c + 1) (zip2 mk lhs (r_ty p)) (r_rest p)).
Proof. intros Hm [[-> ->]|[-> ->]]; destruct m; try congruence; reflexivity. Qed.
Lemma parse_loop_rparen m f d c lhs r : parse_loop_gen m (S f) d c lhs (TRParen :: r) = Ok (lhs, c, TRParen :: r).
Proof. reflexivity. Qed.
Lemma eat_q_question m d c a r :
  eat_q m d c a (TQuestion :: r) =
  if checked m && over d (c + 1) then Err ENest else eat_q m d (c + 1) (option_map (ASum AOne) a) r.
Proof. reflexivity. Qed.

(* tokens p printed for a type of depth q are read at parser depth d as x, and the `?`s that
   follow are applied to it, the depth counted on from q *)
Definition reads_back (d : N) (p : list token) (x : aty) (q : N) : Prop :=
  forall fuel rest, (4 * length p <= fuel)%nat ->
    parse_postfix fuel d (p ++ rest) = eat_q ByDepth d q (Some x) rest.

(* a parenthesised `pa op pb` *)
Lemma parse_compound (op : token) (mk : aty -> aty -> aty) pa pb xa xb qa qb d :
  (op = TPlus /\ mk = ASum) \/ (op = TStar /\ mk = AProd) ->
  d + 2 + N.max qa qb <= max_nesting ->
  reads_back (d + 1) pa xa qa -> reads_back (d + 1) pb xb qb ->
  reads_back d (paren false (pa ++ op :: pb)) (mk xa xb) (1 + N.max qa qb).
Proof.
  intros Hop Hd Ra Rb fuel rest Hf. cbn [paren] in *. unfold parse_postfix in *.
  cbn [length] in Hf. rewrite ?app_length in Hf. cbn [length] in Hf. rewrite ?app_length in Hf. cbn [length] in Hf.
  destruct fuel as [|[|[|[|[|f]]]]]; try lia.
  cbn [app]. rewrite <- !app_assoc. cbn [app].
  rewrite parse_postfix_S, parse_atom_paren, parse_type_S.
  replace (max_nesting <=? d) with false by (symmetry; apply N.leb_gt; lia).
  rewrite Ra by lia.
  assert (Eq1 : eat_q ByDepth (d + 1) qa (Some xa) (op :: pb ++ TRParen :: rest) = Ok (Some xa, qa, op :: pb ++ TRParen :: rest))
    by (destruct Hop as [[-> _]|[-> _]]; reflexivity).
  rewrite Eq1. cbn [obind r_ty r_dep r_rest fst snd start].
  rewrite (parse_loop_op _ _ _ _ _ _ _ Hop). rewrite Rb by lia.
  cbn [eat_q obind r_ty r_dep r_rest fst snd].
  rewrite over_false by lia. rewrite parse_loop_rparen.
  cbn [obind r_ty r_dep r_rest fst snd zip2 start].
  replace (N.max qa qb + 1) with (1 + N.max qa qb) by lia. reflexivity.
Qed.

(* parse_type_postfix on a printed sub-type, with anything after it *)
Lemma parse_print_sub t : forall d,
  d + tdepth t + parens t <= max_nesting ->
  reads_back d (print_sub false t) (ast_of t) (tdepth t).
Proof.
  induction t as [|a IHa b IHb|a IHa b IHb]; intros d Hd.
  - intros fuel rest Hf. cbn in Hf. destruct fuel as [|[|f]]; try lia. reflexivity.
  - destruct (as_word (Sum a b)) as [n|] eqn:E.
    + intros fuel rest Hf. unfold parse_postfix.
      rewrite (print_sub_word _ _ _ E) in *. rewrite (ast_of_word _ _ E), (tdepth_word _ _ E).
      assert (Hl : (1 <= length (word_tokens n))%nat) by (unfold word_tokens; destruct n; cbn; lia).
      destruct fuel as [|[|f]]; try lia.
      rewrite parse_postfix_S, parse_word_tokens by (apply as_word_sound in E; tauto). reflexivity.
    + rewrite (tdepth_sum _ _ E) in Hd. destruct (ty_eq_dec a One) as [->|Ha].
      * (* option *)
        rewrite (print_sub_opt _ _ E), (ast_of_sum _ _ E), (tdepth_sum _ _ E).
        pose proof (parens_le b) as Hpb. change (tdepth One) with 0 in *.
        intros fuel rest Hf. rewrite app_length in Hf. cbn [length] in Hf.
        rewrite <- app_assoc. cbn [app]. rewrite (IHb d) by lia.
        rewrite eat_q_question. cbn [checked andb]. rewrite over_false by lia. cbn [option_map ast_of].
        replace (tdepth b + 1) with (1 + N.max 0 (tdepth b)) by lia. reflexivity.
      * rewrite (print_sub_sum _ _ _ E Ha), (ast_of_sum _ _ E), (tdepth_sum _ _ E).
        pose proof (parens_le a). pose proof (parens_le b).
        assert (Hp : parens (Sum a b) = 1) by (unfold parens; rewrite E; destruct a; [congruence|reflexivity|reflexivity]).
        rewrite Hp in Hd.
        apply parse_compound; [left; split; reflexivity|lia|apply IHa; lia|apply IHb; lia].
  - destruct (as_word (Prod a b)) as [n|] eqn:E.
    + intros fuel rest Hf. unfold parse_postfix.
      rewrite (print_sub_word _ _ _ E) in *. rewrite (ast_of_word _ _ E), (tdepth_word _ _ E).
      assert (Hl : (1 <= length (word_tokens n))%nat) by (unfold word_tokens; destruct n; cbn; lia).
      destruct fuel as [|[|f]]; try lia.
      rewrite parse_postfix_S, parse_word_tokens by (apply as_word_sound in E; tauto). reflexivity.
    + rewrite (print_sub_prod _ _ _ E), (ast_of_prod _ _ E), (tdepth_prod _ _ E). rewrite (tdepth_prod _ _ E) in Hd.
      pose proof (parens_le a). pose proof (parens_le b).
      assert (Hp : parens (Prod a b) = 1) by (unfold parens; rewrite E; reflexivity).
      rewrite Hp in Hd.
      apply parse_compound; [right; split; reflexivity|lia|apply IHa; lia|apply IHb; lia].
Qed.

(* ------------------------------------------------------------------ the main theorem *)
Lemma print_top_atomic t :
  (as_word t <> None \/ t = One \/ exists b, t = Sum One b) -> print_sub true t = print_sub false t.
Proof.
  intros [Hc|[->|[b ->]]].
  - destruct (as_word t) as [n|] eqn:E; [|congruence]. rewrite !(print_sub_word _ _ _ E). reflexivity.
  - reflexivity.
  - reflexivity.
Qed.

Lemma parens_atomic t :
  (as_word t <> None \/ t = One \/ exists b, t = Sum One b) -> parens t = 0.
Proof.
  intros [Hc|[->|[b ->]]]; unfold parens.
  - destruct (as_word t); [reflexivity|congruence].
  - reflexivity.
  - destruct (as_word (Sum One b)); reflexivity.
Qed.

Lemma parse_ty_atomic t rest :
  small t -> follow_ok rest ->
  (as_word t <> None \/ t = One \/ exists b, t = Sum One b) ->
  parse_ty (print_ty t ++ rest) = Ok (Some (ast_of t), tdepth t, rest).
Proof.
  intros Hd Hr Hc. unfold small in Hd.
  unfold parse_ty, parse_ty_gen, ty_fuel, print_ty. rewrite (print_top_atomic _ Hc).
  rewrite app_length.
  remember (4 * (length (print_sub false t) + length rest) + 4)%nat as fuel eqn:Hf.
  destruct fuel as [|[|f]]; try lia.
  rewrite parse_type_S. change (max_nesting <=? 0) with false. cbn [N.add].
  pose proof (parse_print_sub t (0 + 1)) as R. unfold reads_back, parse_postfix in R.
  rewrite R by (rewrite ?(parens_atomic _ Hc); unfold max_nesting in *; lia).
  rewrite (eat_q_follow _ _ _ _ _ Hr). cbn [obind r_ty r_dep r_rest fst snd start]. apply loop_follow, Hr.
Qed.

Lemma parse_ty_compound (op : token) (mk : aty -> aty -> aty) a b rest :
  (op = TPlus /\ mk = ASum) \/ (op = TStar /\ mk = AProd) ->
  1 + N.max (tdepth a) (tdepth b) < max_nesting ->
  follow_ok rest ->
  parse_ty ((print_sub false a ++ op :: print_sub false b) ++ rest) =
  Ok (Some (mk (ast_of a) (ast_of b)), 1 + N.max (tdepth a) (tdepth b), rest).
Proof.
  intros Hop Hd Hr. unfold parse_ty, parse_ty_gen, ty_fuel.
  rewrite <- app_assoc. cbn [app]. rewrite !app_length. cbn [length]. rewrite app_length.
  remember (4 * (length (print_sub false a) + S (length (print_sub false b) + length rest)) + 4)%nat as fuel eqn:Hf.
  destruct fuel as [|[|[|f]]]; try lia.
  rewrite parse_type_S. change (max_nesting <=? 0) with false. cbn [N.add].
  pose proof (parens_le a). pose proof (parens_le b).
  pose proof (parse_print_sub a (0 + 1)) as Ra. unfold reads_back, parse_postfix in Ra.
  pose proof (parse_print_sub b (0 + 1)) as Rb. unfold reads_back, parse_postfix in Rb.
  rewrite Ra by (unfold max_nesting in *; lia).
  assert (Eq1 : forall x q r, eat_q ByDepth (0 + 1) q (Some x) (op :: r) = Ok (Some x, q, op :: r))
    by (intros; destruct Hop as [[-> _]|[-> _]]; reflexivity).
  rewrite Eq1. cbn [obind r_ty r_dep r_rest fst snd start].
  rewrite (parse_loop_op _ _ _ _ _ _ _ Hop). rewrite Rb by (unfold max_nesting in *; lia).
  rewrite (eat_q_follow _ _ _ _ _ Hr). cbn [obind r_ty r_dep r_rest fst snd].
  rewrite over_false by (unfold max_nesting in *; lia).
  replace (N.max (tdepth a) (tdepth b) + 1) with (1 + N.max (tdepth a) (tdepth b)) by lia.
  apply loop_follow, Hr.
Qed.

(* Every printed small type, followed by anything that cannot continue a type, is read back as
   the AST of that type (and Parser::last_type_depth is its depth), and exactly the printed tokens
   are consumed. *)
Theorem parse_print_ty t rest :
  small t -> follow_ok rest -> parse_ty (print_ty t ++ rest) = Ok (Some (ast_of t), tdepth t, rest).
Proof.
  intros Hs Hr. destruct (as_word t) as [n|] eqn:E.
  { apply parse_ty_atomic; [assumption|assumption|left; congruence]. }
  destruct t as [|a b|a b].
  - apply parse_ty_atomic; [assumption|assumption|right; left; reflexivity].
  - destruct (ty_eq_dec a One) as [->|Ha].
    + apply parse_ty_atomic; [assumption|assumption|right; right; eexists; reflexivity].
    + unfold print_ty. rewrite (print_sub_sum _ _ _ E Ha), (ast_of_sum _ _ E), (tdepth_sum _ _ E). cbn [paren].
      apply parse_ty_compound; [left; split; reflexivity| |assumption].
      unfold small in Hs. rewrite (tdepth_sum _ _ E) in Hs. exact Hs.
  - unfold print_ty. rewrite (print_sub_prod _ _ _ E), (ast_of_prod _ _ E), (tdepth_prod _ _ E). cbn [paren].
    apply parse_ty_compound; [right; split; reflexivity| |assumption].
    unfold small in Hs. rewrite (tdepth_prod _ _ E) in Hs. exact Hs.
Qed.

(* the AST denotes the type that was printed, and has no type variables *)
Theorem reify_ast_of t : reify (ast_of t) = t /\ closed (ast_of t) = true.
Proof.
  induction t as [|a [IHa Ca] b [IHb Cb]|a [IHa Ca] b [IHb Cb]].
  - split; reflexivity.
  - destruct (as_word (Sum a b)) as [n|] eqn:E.
    + rewrite (ast_of_word _ _ E). apply as_word_sound in E. destruct E as [-> _].
      destruct n; cbn [reify closed]; [split; reflexivity|]. rewrite Nat2N.id. split; reflexivity.
    + rewrite (ast_of_sum _ _ E). cbn [reify closed]. rewrite IHa, IHb, Ca, Cb. split; reflexivity.
  - destruct (as_word (Prod a b)) as [n|] eqn:E.
    + rewrite (ast_of_word _ _ E). apply as_word_sound in E. destruct E as [-> _].
      destruct n; cbn [reify closed]; [split; reflexivity|]. rewrite Nat2N.id. split; reflexivity.
    + rewrite (ast_of_prod _ _ E). cbn [reify closed]. rewrite IHa, IHb, Ca, Cb. split; reflexivity.
Qed.

Corollary parse_print_ty_reify t rest :
  small t -> follow_ok rest ->
  exists a, parse_ty (print_ty t ++ rest) = Ok (Some a, tdepth t, rest) /\ reify a = t /\ closed a = true.
Proof.
  intros Hs Hr. exists (ast_of t). split; [apply parse_print_ty; assumption|apply reify_ast_of].
Qed.

(* ------------------------------------------------------------------ which tokens are printed *)
Definition type_token (k : token) : Prop :=
  match k with
  | TOne | TTwo | TQuestion | TLParen | TRParen | TPlus | TStar => True
  | TPow y => exists n, (1 <= n <= 31)%nat /\ y = 2 ^ N.of_nat n
  | _ => False
  end.

Lemma word_tokens_ok n : (n <= 31)%nat -> Forall type_token (word_tokens n).
Proof.
  intros H. destruct n as [|n]; [repeat constructor|].
  unfold word_tokens. constructor; [|constructor]. exists (S n). split; [lia|reflexivity].
Qed.

(* print_ty never emits a token outside the type grammar *)
Theorem print_tokens_ok t : forall top, Forall type_token (print_sub top t).
Proof.
  induction t as [|a IHa b IHb|a IHa b IHb]; intros top.
  - repeat constructor.
  - destruct (as_word (Sum a b)) as [n|] eqn:E.
    + rewrite (print_sub_word _ _ _ E). apply word_tokens_ok. apply as_word_sound in E. tauto.
    + destruct (ty_eq_dec a One) as [->|Ha].
      * rewrite (print_sub_opt _ _ E). apply Forall_app. split; [apply IHb|repeat constructor].
      * rewrite (print_sub_sum _ _ _ E Ha).
        assert (H : Forall type_token (print_sub false a ++ TPlus :: print_sub false b)).
        { apply Forall_app. split; [apply IHa|constructor; [exact I|apply IHb]]. }
        destruct top; cbn [paren]; [exact H|]. constructor; [exact I|]. apply Forall_app. split; [exact H|repeat constructor].
  - destruct (as_word (Prod a b)) as [n|] eqn:E.
    + rewrite (print_sub_word _ _ _ E). apply word_tokens_ok. apply as_word_sound in E. tauto.
    + rewrite (print_sub_prod _ _ _ E).
      assert (H : Forall type_token (print_sub false a ++ TStar :: print_sub false b)).
      { apply Forall_app. split; [apply IHa|constructor; [exact I|apply IHb]]. }
      destruct top; cbn [paren]; [exact H|]. constructor; [exact I|]. apply Forall_app. split; [exact H|repeat constructor].
Qed.

Lemma type_token_not_bad k : type_token k -> is_bad k = false.
Proof. destruct k; cbn; intros H; try reflexivity; destruct H. Qed.

Lemma existsb_bad_false l : Forall type_token l -> existsb is_bad l = false.
Proof.
  induction 1 as [|k l Hk _ IH]; [reflexivity|]. cbn. rewrite (type_token_not_bad _ Hk), IH. reflexivity.
Qed.

(* the form in which the check runs it: the whole text `<printed type>` in target position *)
Theorem parse_text_print t : small t -> parse_text (print_ty t) = Ok (Some (ast_of t)).
Proof.
  intros Hs. unfold parse_text. rewrite existsb_bad_false by apply print_tokens_ok.
  pose proof (parse_print_ty t [] Hs I) as H. rewrite app_nil_r in H. rewrite H. reflexivity.
Qed.


Lemma budget_eq_dec (a b : budget) : {a = b} + {a <> b}.
Proof. decide equality. Defined.

(* ------------------------------------------------------------------ the depth invariant of the parser *)
(* what the parser maintains (commit c4e3694): Parser::last_type_depth is the depth of the type just
   built, and a type of depth > 0 built at Parser::depth d satisfies d + depth <= MAX_NESTING *)
Definition tinv (d c : N) (a : option aty) : Prop :=
  (forall x, a = Some x -> adepth x = c) /\ (c = 0 \/ d + c <= max_nesting).
Definition dinv (d : N) (r : outcome perr pres) : Prop :=
  match r with Ok p => tinv d (r_dep p) (r_ty p) | _ => True end.

Lemma eat_q_inv d ts : forall c a, tinv d c a -> dinv d (eat_q ByDepth d c a ts).
Proof.
  induction ts as [|k r IH]; intros c a H; [exact H|].
  destruct k; try exact H.
  rewrite eat_q_question. cbn [checked andb]. destruct (over d (c + 1)) eqn:E; [exact I|].
  apply IH. unfold over in E. apply N.ltb_ge in E. destruct H as [H1 H2]. split; [|right; exact E].
  intros x Hx. destruct a as [y|]; [|discriminate]. cbn in Hx. injection Hx as <-. cbn [adepth].
  rewrite (H1 y eq_refl). cbn [adepth]. lia.
Qed.

Lemma zip2_inv (mk : aty -> aty -> aty) d c1 c2 a1 a2 :
  (mk = ASum \/ mk = AProd) ->
  tinv d c1 a1 -> tinv d c2 a2 -> d + (N.max c1 c2 + 1) <= max_nesting ->
  tinv d (N.max c1 c2 + 1) (zip2 mk a1 a2).
Proof.
  intros Hm [H1 _] [H2 _] Hc. split; [|right; exact Hc].
  intros x Hx. destruct a1 as [y1|]; [|discriminate]. destruct a2 as [y2|]; [|discriminate].
  cbn in Hx. injection Hx as <-. rewrite <- (H1 y1 eq_refl), <- (H2 y2 eq_refl).
  destruct Hm as [-> | ->]; cbn [adepth]; lia.
Qed.

Lemma tinv_weaken d c a : tinv (d + 1) c a -> tinv d c a.
Proof. intros [H1 [H2|H2]]; split; auto. right. lia. Qed.

Lemma parse_inv_aux : forall fuel,
  (forall d ts, dinv (d + 1) (parse_type fuel d ts)) /\
  (forall d c lhs ts, tinv d c lhs -> dinv d (parse_loop fuel d c lhs ts)) /\
  (forall d ts, dinv d (parse_postfix fuel d ts)) /\
  (forall d ts, dinv d (parse_atom fuel d ts)).
Proof.
  unfold parse_type, parse_loop, parse_postfix, parse_atom.
  induction fuel as [|f (IHt & IHl & IHp & IHa)]; [repeat split; intros; exact I|].
  assert (Hstep : forall (mk : aty -> aty -> aty) (op : token) d c lhs r,
            ((op = TPlus /\ mk = ASum) \/ (op = TStar /\ mk = AProd)) ->
            tinv d c lhs -> dinv d (parse_loop_gen ByDepth (S f) d c lhs (op :: r))).
  { intros mk op d c lhs r Hop H. rewrite (parse_loop_op _ _ _ _ _ _ _ Hop).
    specialize (IHp d r). destruct (parse_postfix_gen ByDepth f d r) as [p| | |]; cbn [obind]; try exact I.
    destruct (over d (N.max c (r_dep p) + 1)) eqn:E; [exact I|].
    apply IHl. unfold over in E. apply N.ltb_ge in E.
    apply zip2_inv; [destruct Hop as [[_ ->]|[_ ->]]; auto|exact H|exact IHp|exact E]. }
  repeat split.
  - intros d ts. rewrite parse_type_S. destruct (max_nesting <=? d); [exact I|].
    specialize (IHp (d + 1) ts). destruct (parse_postfix_gen ByDepth f (d + 1) ts) as [p| | |]; cbn [obind]; try exact I.
    apply IHl. exact IHp.
  - intros d c lhs ts H. destruct ts as [|k r]; [exact H|].
    destruct k; try exact H.
    + apply (Hstep ASum TPlus); [left; split; reflexivity|exact H].
    + apply (Hstep AProd TStar); [right; split; reflexivity|exact H].
  - intros d ts. rewrite parse_postfix_S. specialize (IHa d ts).
    destruct (parse_atom_gen ByDepth f d ts) as [p| | |]; cbn [obind]; try exact I.
    apply eat_q_inv. exact IHa.
  - intros d ts. destruct ts as [|k r]; [exact I|].
    destruct k; try exact I; try (split; [intros x Hx; injection Hx as <-; reflexivity|left; reflexivity]).
    + cbn [parse_atom_gen]. unfold atom_pow.
      destruct (u32_max <? y); [exact I|]. destruct (y =? 0); [split; [intros x Hx; injection Hx as <-; reflexivity|left; reflexivity]|].
      destruct (y =? 1); [split; [intros x Hx; injection Hx as <-; reflexivity|left; reflexivity]|].
      destruct (is_pow2 y); [split; [intros x Hx; injection Hx as <-; reflexivity|left; reflexivity]|exact I].
    + rewrite parse_atom_paren. specialize (IHt d r).
      destruct (parse_type_gen ByDepth f d r) as [p| | |]; cbn [obind]; try exact I.
      destruct (r_rest p) as [|[] r2]; try exact I. apply tinv_weaken. exact IHt.
    + split; [intros x Hx; discriminate|left; reflexivity].
Qed.

(* whatever parse_type_postfix builds at Parser::depth d: its depth is what last_type_depth says,
   and depth + d <= MAX_NESTING (unless it is a leaf) *)
Theorem parse_postfix_depth : forall fuel d ts p, parse_postfix fuel d ts = Ok p ->
  (forall a, r_ty p = Some a -> adepth a = r_dep p) /\ (r_dep p = 0 \/ d + r_dep p <= max_nesting).
Proof.
  intros fuel d ts p H. destruct (parse_inv_aux fuel) as (_ & _ & Hp & _). specialize (Hp d ts). rewrite H in Hp. exact Hp.
Qed.

(* every type the parser accepts in an arrow is nested less than MAX_NESTING deep: the recursion
   of Type::reify (and of the derived Drop / Clone) is bounded *)
Theorem parse_depth_bounded : forall ts a c r, parse_ty ts = Ok (Some a, c, r) -> adepth a = c /\ adepth a < max_nesting.
Proof.
  intros ts a c r H. unfold parse_ty, parse_ty_gen in H.
  destruct (parse_inv_aux (ty_fuel ts)) as (Ht & _). specialize (Ht 0 ts). unfold parse_type in Ht. rewrite H in Ht.
  destruct Ht as [H1 H2]. cbn [r_ty r_dep fst snd] in *. specialize (H1 a eq_refl). split; [exact H1|].
  rewrite H1. unfold max_nesting in *. lia.
Qed.

(* ------------------------------------------------------------------ outside `small`, and before the fixes *)
(* (a) F-C17k, printer before commit 2320110: 2^(2^31) was printed as `2^-2147483648`, for which
   the lexer fails.  (word_ty 31 is never evaluated.) *)
Theorem print_i32_refuted_w31 :
  exists t, print_ty_i32 t = [TBad] /\ (forall rest, parse_text (print_ty_i32 t ++ rest) = Err ELex) /\
            parse_text (print_ty_i32 t) <> Ok (Some (ast_of t)).
Proof.
  exists (word_ty 31).
  assert (E : as_word (word_ty 31) = Some 31%nat) by (apply as_word_word; lia).
  assert (P : print_ty_i32 (word_ty 31) = [TBad]) by exact (print_gen_word word_tokens_i32 true (word_ty 31) 31%nat E).
  split; [exact P|]. rewrite P. split; [intros rest; reflexivity|].
  intros H. change (parse_text [TBad]) with (@Err perr (option aty) ELex) in H. discriminate H.
Qed.

(* after the fix the largest word goes round *)
Example print_w31 : print_ty (word_ty 31) = [TPow 2147483648] /\ parse_ty [TPow 2147483648] = Ok (Some (APow 31), 0, []).
Proof.
  split; [|reflexivity].
  exact (print_gen_word word_tokens true (word_ty 31) 31%nat (as_word_word 31 ltac:(lia))).
Qed.

(* (b) the bound of `small` is exact: the left-nested product of 1000 factors (depth 999) is read
   back, that of 1001 factors (depth 1000) is refused (`type nested too deeply`).  Observation, not
   a finding: the limit is the design of the fixes F-C17i/j/l. *)
Fixpoint lprod (k : nat) : ty := match k with O => One | S k => Prod (lprod k) One end.

Theorem parse_print_ty_refuted_deep :
  exists t, tdepth t = max_nesting /\ parse_ty (print_ty t) = Err ENest.
Proof. exists (lprod 1000). vm_compute. split; reflexivity. Qed.

Example parse_print_ty_deep_ok :
  tdepth (lprod 999) = 999 /\ parse_ty (print_ty (lprod 999)) = Ok (Some (ast_of (lprod 999)), 999, []).
Proof. vm_compute. split; reflexivity. Qed.

(* (c) F-C17j, parser before commit 559e184: no bound at all on chains of `?` (nor of `+`/`*`):
   `1` followed by k `?` is accepted for every k and builds a type nested k deep, through which
   Type::reify recurses. *)
Fixpoint optn (k : nat) (a : aty) : aty := match k with O => a | S k => optn k (ASum AOne a) end.

Lemma eat_q_nobudget k : forall d n a,
  eat_q NoBudget d n (Some a) (repeat TQuestion k) = Ok (Some (optn k a), n + N.of_nat k, []).
Proof.
  induction k as [|k IH]; intros d n a; [cbn; f_equal; f_equal; f_equal; lia|].
  cbn [repeat eat_q checked andb option_map]. rewrite IH. cbn [optn]. f_equal. f_equal. f_equal. lia.
Qed.

Lemma adepth_optn k : forall a, adepth (optn k a) = N.of_nat k + adepth a.
Proof.
  induction k as [|k IH]; intros a; [cbn; lia|]. cbn [optn]. rewrite IH. cbn [adepth]. lia.
Qed.

Theorem parse_nobudget_depth_refuted :
  forall k, exists a c, parse_ty_nobudget (TOne :: repeat TQuestion k) = Ok (Some a, c, []) /\ adepth a = N.of_nat k.
Proof.
  intros k. exists (optn k AOne), 0. split; [|rewrite adepth_optn; cbn; lia].
  unfold parse_ty_nobudget, parse_ty_gen, ty_fuel. cbn [length].
  remember (4 * S (length (repeat TQuestion k)) + 4)%nat as fuel eqn:Hf.
  destruct fuel as [|[|[|[|f]]]]; try lia.
  rewrite parse_type_S. change (max_nesting <=? 0) with false.
  rewrite parse_postfix_S. cbn [parse_atom_gen obind r_ty r_dep r_rest fst snd start].
  rewrite eat_q_nobudget. cbn [obind r_ty r_dep r_rest fst snd start]. reflexivity.
Qed.

(* (d) F-C17l, parser of commit 559e184 (budget per loop): ((1 ?^997) ?^998) ?^999 was accepted and
   is nested 2994 deep; with 130 such levels Type::reify overflowed the stack of the implementation *)
Definition layered2 : list token :=
  [TLParen; TLParen; TOne] ++ repeat TQuestion 997 ++ [TRParen] ++ repeat TQuestion 998 ++ [TRParen] ++ repeat TQuestion 999.

Theorem parse_perloop_depth_refuted :
  exists ts a c, parse_ty_perloop ts = Ok (Some a, c, []) /\ max_nesting < adepth a.
Proof. exists layered2, (optn 2994 AOne), 0. vm_compute. split; reflexivity. Qed.

(* the code as it is refuses both, and accepts the chain of 999 *)
Example parse_budget_now :
  parse_ty layered2 = Err ENest /\
  parse_ty (TOne :: repeat TQuestion 999) = Ok (Some (optn 999 AOne), 999, []) /\
  parse_ty (TOne :: repeat TQuestion 1000) = Err ENest.
Proof. vm_compute. repeat split. Qed.

(* a sufficient condition that does not mention the printer: at most 1000 constructors *)
Fixpoint nsize (t : ty) : N :=
  match t with One => 1 | Sum a b | Prod a b => 1 + nsize a + nsize b end.

Lemma tdepth_lt_size t : tdepth t < nsize t.
Proof.
  induction t as [|a IHa b IHb|a IHa b IHb]; cbn [tdepth nsize].
  - cbn. lia.
  - destruct (as_word (Sum a b)); lia.
  - destruct (as_word (Prod a b)); lia.
Qed.

Theorem small_of_size t : nsize t <= 1000 -> small t.
Proof. intros H. unfold small, max_nesting. pose proof (tdepth_lt_size t). lia. Qed.

(* ------------------------------------------------------------------ totality *)
Definition okres (n : nat) (strict : bool) (r : outcome perr pres) : Prop :=
  match r with
  | Ok p => if strict then (length (r_rest p) < n)%nat else (length (r_rest p) <= n)%nat
  | Err _ => True
  | Panic _ => False
  | OutOfFuel => False
  end.

Lemma eat_q_res m d ts : forall n a, okres (length ts) false (eat_q m d n a ts).
Proof.
  induction ts as [|k r IH]; intros n a; [cbn; lia|].
  destruct k; try (cbn; lia).
  rewrite eat_q_question. destruct (checked m && over d (n + 1)); [exact I|].
  specialize (IH (n + 1) (option_map (ASum AOne) a)).
  destruct (eat_q m d (n + 1) (option_map (ASum AOne) a) r); cbn [okres length] in *; try assumption. lia.
Qed.

Lemma parse_total_aux m : forall fuel,
  (forall d ts, (3 * length ts + 3 <= fuel)%nat -> okres (length ts) true (parse_type_gen m fuel d ts)) /\
  (forall d n lhs ts, (3 * length ts + 3 <= fuel)%nat -> okres (length ts) false (parse_loop_gen m fuel d n lhs ts)) /\
  (forall d ts, (3 * length ts + 2 <= fuel)%nat -> okres (length ts) true (parse_postfix_gen m fuel d ts)) /\
  (forall d ts, (3 * length ts + 1 <= fuel)%nat -> okres (length ts) true (parse_atom_gen m fuel d ts)).
Proof.
  induction fuel as [|f (IHt & IHl & IHp & IHa)].
  { repeat split; intros; lia. }
  assert (Hstep : forall (mk : aty -> aty -> aty) (op : token) d n lhs r,
            ((op = TPlus /\ mk = ASum) \/ (op = TStar /\ mk = AProd)) ->
            (3 * length (op :: r) + 3 <= S f)%nat ->
            okres (length (op :: r)) false (parse_loop_gen m (S f) d n lhs (op :: r))).
  { intros mk op d n lhs r Hop H. cbn [length] in H.
    destruct (budget_eq_dec m ByDepth) as [->|Hm].
    - rewrite (parse_loop_op _ _ _ _ _ _ _ Hop). specialize (IHp d r ltac:(lia)).
      destruct (parse_postfix_gen ByDepth f d r) as [p| | |]; cbn [obind okres] in *; try assumption.
      destruct (over d (N.max n (r_dep p) + 1)); [exact I|].
      specialize (IHl d (N.max n (r_dep p) + 1) (zip2 mk lhs (r_ty p)) (r_rest p) ltac:(lia)).
      destruct (parse_loop_gen ByDepth f d (N.max n (r_dep p) + 1) (zip2 mk lhs (r_ty p)) (r_rest p)); cbn [okres length] in *; try assumption. lia.
    - rewrite (parse_loop_op_old _ _ _ _ _ _ _ _ Hm Hop). destruct (checked m && over d (n + 1)); [exact I|].
      specialize (IHp d r ltac:(lia)).
      destruct (parse_postfix_gen m f d r) as [p| | |]; cbn [obind okres] in *; try assumption.
      specialize (IHl d (n + 1) (zip2 mk lhs (r_ty p)) (r_rest p) ltac:(lia)).
      destruct (parse_loop_gen m f d (n + 1) (zip2 mk lhs (r_ty p)) (r_rest p)); cbn [okres length] in *; try assumption. lia. }
  repeat split.
  - intros d ts H. rewrite parse_type_S. destruct (max_nesting <=? d); [exact I|].
    specialize (IHp (d + 1) ts ltac:(lia)).
    destruct (parse_postfix_gen m f (d + 1) ts) as [p| | |]; cbn [obind okres] in *; try assumption.
    specialize (IHl (d + 1) (start m (r_dep p)) (r_ty p) (r_rest p) ltac:(lia)).
    destruct (parse_loop_gen m f (d + 1) (start m (r_dep p)) (r_ty p) (r_rest p)); cbn [okres] in *; try assumption. lia.
  - intros d n lhs ts H. destruct ts as [|k r]; [cbn; lia|].
    destruct k; try (cbn; lia).
    + apply (Hstep ASum TPlus); [left; split; reflexivity|exact H].
    + apply (Hstep AProd TStar); [right; split; reflexivity|exact H].
  - intros d ts H. rewrite parse_postfix_S. specialize (IHa d ts ltac:(lia)).
    destruct (parse_atom_gen m f d ts) as [p| | |]; cbn [obind okres] in *; try assumption.
    pose proof (eat_q_res m d (r_rest p) (start m (r_dep p)) (r_ty p)) as Hq.
    destruct (eat_q m d (start m (r_dep p)) (r_ty p) (r_rest p)); cbn [okres] in *; try assumption. lia.
  - intros d ts H. destruct ts as [|k r]; [exact I|].
    destruct k; try exact I; try (cbn; lia).
    + cbn [parse_atom_gen]. unfold atom_pow.
      destruct (u32_max <? y); [exact I|]. destruct (y =? 0); [cbn; lia|]. destruct (y =? 1); [cbn; lia|].
      destruct (is_pow2 y); [cbn; lia|exact I].
    + rewrite parse_atom_paren. cbn [length] in H. specialize (IHt d r ltac:(lia)).
      destruct (parse_type_gen m f d r) as [p| | |]; cbn [obind okres] in *; try assumption.
      destruct (r_rest p) as [|[] r2] eqn:Er; cbn [okres r_rest snd length] in *; try exact I. lia.
Qed.

(* parse_ty terminates within its fuel and does not panic, on every token list; and it consumes
   at least one token when it succeeds *)
Theorem parse_ty_total ts :
  match parse_ty ts with
  | Ok p => (length (r_rest p) < length ts)%nat
  | Err _ => True
  | Panic _ => False
  | OutOfFuel => False
  end.
Proof.
  unfold parse_ty, parse_ty_gen, ty_fuel.
  destruct (parse_total_aux ByDepth (4 * length ts + 4)) as [H _].
  specialize (H 0 ts ltac:(lia)). unfold okres in H. exact H.
Qed.

Corollary parse_text_total ts : exists r, parse_text ts = Ok r \/ exists e, parse_text ts = Err e.
Proof.
  unfold parse_text. destruct (existsb is_bad ts); [exists None; right; eexists; reflexivity|].
  pose proof (parse_ty_total ts) as H.
  destruct (parse_ty ts) as [p| | |]; cbn [obind]; try contradiction.
  - destruct (r_rest p); [exists (r_ty p); left; reflexivity|exists None; right; eexists; reflexivity].
  - exists None. right. eexists. reflexivity.
Qed.

(* ------------------------------------------------------------------ examples (non-vacuity) *)
(* (2? × 2^2) + 1, as printed by the implementation for `1 + 2 * 2^2 + 1` *)
Example ex_small1 : small (Sum (Prod (Sum One Bit) (word_ty 1)) One).
Proof. apply small_of_size. cbn. lia. Qed.

Example ex_print1 :
  print_ty (Sum (Prod (Sum One Bit) (word_ty 1)) One) =
  [TLParen; TTwo; TQuestion; TStar; TPow 2; TRParen; TPlus; TOne].
Proof. reflexivity. Qed.

(* an arrow target followed by the name of the next line *)
Example ex_follow : follow_ok [TSym 7; TOther 0] /\ follow_ok [] /\ ~ follow_ok [TQuestion].
Proof. cbn. tauto. Qed.

(* `+` and `*` have the same precedence and associate to the left: 1 + 2 * 2^4 + 1 *)
Example ex_precedence :
  parse_ty [TOne; TPlus; TTwo; TStar; TPow 4; TPlus; TOne] =
  Ok (Some (ASum (AProd (ASum AOne ATwo) (APow 2)) AOne), 3, []).
Proof. reflexivity. Qed.

(* nested options: 2^8?? is 1 + (1 + 2^8) *)
Example ex_options :
  print_ty (Sum One (Sum One (word_ty 3))) = [TPow 8; TQuestion; TQuestion] /\
  parse_ty [TPow 8; TQuestion; TQuestion] = Ok (Some (ASum AOne (ASum AOne (APow 3))), 2, []).
Proof. split; reflexivity. Qed.

(* the follow-set condition is needed: a `?` after the printed type would be read as part of it *)
Example ex_follow_needed :
  parse_ty (print_ty One ++ [TQuestion]) = Ok (Some (ASum AOne AOne), 1, []).
Proof. reflexivity. Qed.
