(* Standard arithmetic preamble: lia over N / nat / Z with boolean comparisons,
   division and modulo turned into equations. *)
From Coq Require Export List NArith ZArith Lia Bool ZifyBool ZifyNat ZifyN.
Ltac Zify.zify_post_hook ::= Z.div_mod_to_equations.
