(* C01 - types after re-inference on the shared DAG (was: "tested only", label C01_types_partial).

   The decoded program p' is a QUOTIENT of the original program p: a map phi from the nodes of p onto the
   nodes of p' with   p'[phi i] = p[i] with its children renamed by phi   (nodes with the same sharing id
   are merged; this is what "the same structure up to the sharing quotient" means, and what
   Codec/General.v + C18's po_children / po_covers_reachable give for congruent sharing ids).

   THEOREM reinfer_quotient: if the arrows tau of p are the principal ones (tau = infer p: the context
   holds only the program's own nodes - the property's quantifier) and merged nodes have equal arrows
   (the identity hash commits to source and target type), then inference on p' succeeds and gives
   every node phi i exactly the arrow of node i: a principally typed program is a fixed point of
   encode/decode w.r.t. types.  Proof: tau pushed forward along phi types p', the result of infer p'
   pulled back along phi types p; principality (C04 infer_least) on both sides and antisymmetry.

   Finding F-C01 is exactly the failure of the premise "p' is a quotient of p": two nodes with equal
   identity hash whose children have different identity hashes are merged by the encoder, so for the
   twin j of the kept node i, p'[phi j] = p'[phi i] has the children of i, not those of j
   (quotient_children_agree below shows that a quotient map never does that). *)
From RS Require Import Lib.Tac Lib.Outcome Ty.Ty Core.Prog
  Infer.Constraints Infer.Unify Infer.Infer Infer.Principal Infer.Gen Infer.Theorems Infer.Order.
Import ListNotations.

(* p' is the quotient of p by phi *)
Record quotient_of (phi : nat -> nat) (p p' : prog) : Prop := mk_quot {
  q_node : forall i, (i < length p)%nat ->
           (phi i < length p')%nat /\ nth (phi i) p' NIden = rename_node phi (nth i p NIden);
  q_onto : forall j, (j < length p')%nat -> exists i, (i < length p)%nat /\ phi i = j }.

Lemma children_rename f nd : children (rename_node f nd) = map f (children nd).
Proof. destruct nd; cbn; try reflexivity. destruct r; reflexivity. Qed.

(* merged nodes have pairwise merged children: what fails for the twins of finding F-C01 *)
Lemma quotient_children_agree phi p p' i j : quotient_of phi p p' ->
  (i < length p)%nat -> (j < length p)%nat -> phi i = phi j ->
  map phi (children (nth i p NIden)) = map phi (children (nth j p NIden)).
Proof.
  intros Q Hi Hj E. destruct (q_node _ _ _ Q i Hi) as [_ Ei]. destruct (q_node _ _ _ Q j Hj) as [_ Ej].
  rewrite <- !children_rename, <- Ei, <- Ej, E. reflexivity.
Qed.

(* a section of phi (first preimage) *)
Definition psi_of (phi : nat -> nat) (n : nat) (j : nat) : nat :=
  match List.find (fun i => Nat.eqb (phi i) j) (seq 0 n) with Some i => i | None => 0%nat end.

Lemma psi_of_spec phi n j : (exists i, (i < n)%nat /\ phi i = j) -> (psi_of phi n j < n)%nat /\ phi (psi_of phi n j) = j.
Proof.
  intros (i & Hi & E). unfold psi_of.
  destruct (List.find (fun i0 => Nat.eqb (phi i0) j) (seq 0 n)) as [i0|] eqn:F.
  - apply find_some in F. destruct F as [Hin Heq]. apply in_seq in Hin. apply Nat.eqb_eq in Heq. split; [lia|exact Heq].
  - exfalso. pose proof (find_none _ _ F i ltac:(apply in_seq; lia)) as X. cbv beta in X.
    rewrite E, Nat.eqb_refl in X. discriminate.
Qed.

Section Quot.
Variable jt : jet_table.
Variable phi : nat -> nat.
Variable p p' : prog.
Hypothesis Wp : wf_from 0 p = true.
Hypothesis Wp' : wf_from 0 p' = true.
Hypothesis Q : quotient_of phi p p'.

Let psi := psi_of phi (length p).

Lemma psi_lt j : (j < length p')%nat -> (psi j < length p)%nat /\ phi (psi j) = j.
Proof. intros Hj. apply psi_of_spec. exact (q_onto _ _ _ Q j Hj). Qed.

Lemma phi_child_lt i c : (i < length p)%nat -> In c (children (nth i p NIden)) -> (c < i)%nat /\ (phi c < phi i)%nat.
Proof.
  intros Hi Hc. pose proof (wf_prog_topo _ Wp i c Hi Hc) as Lc. split; [exact Lc|].
  destruct (q_node _ _ _ Q i Hi) as [Li Ei].
  apply (wf_prog_topo _ Wp' (phi i) (phi c) Li). rewrite Ei, children_rename. apply in_map. exact Hc.
Qed.

(* pushing a typing of p forward along phi *)
Lemma typing_push root tau :
  (forall r, root = Some r -> (r < length p)%nat) ->
  (forall i j, (i < length p)%nat -> (j < length p)%nat -> phi i = phi j -> nth i tau None = nth j tau None) ->
  check_typing jt root p tau = true ->
  check_typing jt (option_map phi root) p' (perm_typing (length p') psi tau) = true.
Proof.
  intros Hroot Hcls C. unfold check_typing in *.
  apply andb_true_iff in C. destruct C as [C Cr]. apply andb_true_iff in C. destruct C as [Cl Cn].
  apply Nat.eqb_eq in Cl. set (tau' := perm_typing (length p') psi tau).
  assert (Ln : length tau' = length p') by apply perm_typing_length.
  assert (Hval : forall c, (c < length p)%nat -> nth_error tau' (phi c) = Some (nth c tau None)).
  { intros c Hc. destruct (q_node _ _ _ Q c Hc) as [Lc _].
    rewrite (nth_error_nth_lt tau' (phi c) None) by (rewrite Ln; exact Lc).
    unfold tau'. rewrite perm_typing_nth by exact Lc. f_equal.
    destruct (psi_lt (phi c) Lc) as [L1 E1]. apply Hcls; assumption. }
  apply andb_true_iff. split; [apply andb_true_iff; split|].
  - rewrite Ln. apply Nat.eqb_refl.
  - apply check_nodes_forall. intros j Hj. cbn [Nat.add].
    destruct (psi_lt j Hj) as [Li Ej]. set (i := psi j) in *.
    rewrite check_nodes_forall in Cn. specialize (Cn i Li). cbn [Nat.add] in Cn.
    destruct (q_node _ _ _ Q i Li) as [_ En]. rewrite Ej in En. rewrite En.
    unfold tau' at 2. rewrite perm_typing_nth by exact Hj. fold i.
    rewrite <- Cn. symmetry. apply check_node_ext. intros c Hc.
    destruct (phi_child_lt i c Li Hc) as [Lc Lpc]. rewrite Ej in Lpc.
    rewrite !nth_error_firstn by assumption.
    rewrite (nth_error_nth_lt tau c None) by lia. symmetry. apply Hval. lia.
  - unfold check_root in *. destruct root as [r|]; [|reflexivity]. cbn [option_map].
    specialize (Hroot r eq_refl). unfold arr_of in *. rewrite (Hval r Hroot).
    rewrite (nth_error_nth_lt tau r None) in Cr by lia. exact Cr.
Qed.

(* pulling a typing of p' back along phi *)
Lemma typing_pull root tau' :
  (forall r, root = Some r -> (r < length p)%nat) ->
  check_typing jt (option_map phi root) p' tau' = true ->
  check_typing jt root p (perm_typing (length p) phi tau') = true.
Proof.
  intros Hroot C. unfold check_typing in *.
  apply andb_true_iff in C. destruct C as [C Cr]. apply andb_true_iff in C. destruct C as [Cl Cn].
  apply Nat.eqb_eq in Cl. set (tau := perm_typing (length p) phi tau').
  assert (Ln : length tau = length p) by apply perm_typing_length.
  apply andb_true_iff. split; [apply andb_true_iff; split|].
  - rewrite Ln. apply Nat.eqb_refl.
  - apply check_nodes_forall. intros i Hi. cbn [Nat.add].
    destruct (q_node _ _ _ Q i Hi) as [Lj En].
    rewrite check_nodes_forall in Cn. specialize (Cn (phi i) Lj). cbn [Nat.add] in Cn. rewrite En in Cn.
    unfold tau at 2. rewrite perm_typing_nth by exact Hi.
    rewrite <- Cn. apply check_node_ext. intros c Hc.
    destruct (phi_child_lt i c Hi Hc) as [Lc Lpc].
    rewrite !nth_error_firstn by assumption.
    rewrite (nth_error_nth_lt tau c None) by lia.
    unfold tau. rewrite perm_typing_nth by lia.
    destruct (q_node _ _ _ Q c ltac:(lia)) as [Lpc' _].
    rewrite (nth_error_nth_lt tau' (phi c) None) by lia. reflexivity.
  - unfold check_root in *. destruct root as [r|]; [|reflexivity]. cbn [option_map] in Cr.
    specialize (Hroot r eq_refl). unfold arr_of in *.
    rewrite (nth_error_nth_lt tau r None) by lia. unfold tau. rewrite perm_typing_nth by exact Hroot.
    destruct (q_node _ _ _ Q r Hroot) as [Lr _].
    rewrite (nth_error_nth_lt tau' (phi r) None) in Cr by lia. exact Cr.
Qed.

(* THEOREM: a principally typed program is a fixed point of encode/decode w.r.t. types *)
Theorem reinfer_quotient root tau :
  (forall r, root = Some r -> (r < length p)%nat) ->
  infer jt root p = Ok tau ->
  (forall i j, (i < length p)%nat -> (j < length p)%nat -> phi i = phi j -> nth i tau None = nth j tau None) ->
  exists tau', infer jt (option_map phi root) p' = Ok tau' /\
    forall i, (i < length p)%nat -> nth (phi i) tau' None = nth i tau None.
Proof.
  intros Hroot E Hcls.
  pose proof (infer_sound _ _ _ _ E) as C.
  pose proof (typing_push root tau Hroot Hcls C) as C'.
  destruct (infer_complete _ _ _ _ C') as (tau' & E'). exists tau'. split; [exact E'|].
  pose proof (infer_least _ _ _ _ _ E' C') as Le1.
  pose proof (infer_sound _ _ _ _ E') as C2.
  pose proof (typing_pull root tau' Hroot C2) as C3.
  pose proof (infer_least _ _ _ _ _ E C3) as Le2.
  destruct (typing_le_nth _ _ Le1) as [_ N1]. destruct (typing_le_nth _ _ Le2) as [_ N2].
  intros i Hi. destruct (q_node _ _ _ Q i Hi) as [Lj _].
  apply arrow_le_antisym.
  - specialize (N1 (phi i)). rewrite perm_typing_nth in N1 by exact Lj.
    destruct (psi_lt (phi i) Lj) as [L1 E1]. rewrite (Hcls _ _ L1 Hi E1) in N1. exact N1.
  - specialize (N2 i). rewrite perm_typing_nth in N2 by exact Hi. exact N2.
Qed.

(* ... and conversely inference on p fails whenever it fails on the quotient pulled back: if the decoder's
   inference succeeds, the original was typable with the pulled-back arrows (used by the decoder model) *)
Corollary reinfer_quotient_back root tau' :
  (forall r, root = Some r -> (r < length p)%nat) ->
  infer jt (option_map phi root) p' = Ok tau' ->
  exists tau, infer jt root p = Ok tau /\
    typing_le tau (perm_typing (length p) phi tau') = true.
Proof.
  intros Hroot E'. pose proof (infer_sound _ _ _ _ E') as C2.
  pose proof (typing_pull root tau' Hroot C2) as C3.
  destruct (infer_complete _ _ _ _ C3) as (tau & E). exists tau. split; [exact E|].
  exact (infer_least _ _ _ _ _ E C3).
Qed.

End Quot.

(* ------------------------------------------------------------------ the premises are satisfiable *)
(* two separate `unit` nodes of equal arrow merged, a third one (different source type) kept apart *)
Definition ex_q_p : prog := [NUnit; NUnit; NPair 0 1; NUnit; NComp 2 3].
Definition ex_q_p' : prog := [NUnit; NPair 0 0; NUnit; NComp 1 2].
Definition ex_q_phi (i : nat) : nat := nth i [0; 0; 1; 2; 3]%nat 0%nat.

Example ex_quotient : quotient_of ex_q_phi ex_q_p ex_q_p'.
Proof.
  constructor.
  - intros i Hi. cbn [ex_q_p length] in Hi.
    do 5 (destruct i as [|i]; [cbn; split; [lia|reflexivity]|]). lia.
  - intros j Hj. cbn [ex_q_p' length] in Hj.
    destruct j as [|[|[|[|j]]]]; [exists 0%nat|exists 2%nat|exists 3%nat|exists 4%nat|lia]; cbn; split; try lia; reflexivity.
Qed.

Example ex_quotient_premises :
  wf_from 0 ex_q_p = true /\ wf_from 0 ex_q_p' = true /\
  infer [] (Some 4%nat) ex_q_p =
    Ok [Some (One, One); Some (One, One); Some (One, Prod One One); Some (Prod One One, One); Some (One, One)] /\
  infer [] (Some (ex_q_phi 4)) ex_q_p' =
    Ok [Some (One, One); Some (One, Prod One One); Some (Prod One One, One); Some (One, One)].
Proof. vm_compute. auto. Qed.
