(* C05 - Bit Machine execution equals the denotational semantics.
   Only pinned statements (`Theorem name : statement. Proof. exact lemma. Qed.`) and
   `Print Assumptions`.  Models: Core/{Term,Typing,Sem,Machine}.v; proofs Core/MachineLemmas.v,
   Core/MachineCorrect.v, Core/MachineCorrect2.v, Core/ExecCorrect.v; examples Core/Examples.v;
   jets Jets/JetSpec.v, Jets/JetSpecSha.v, Jets/JetSpecAll.v; Values Core/ExecValue.v (over Value/*.v). *)
From RS Require Import Lib.Tac Lib.Outcome Lib.Bits Ty.Ty Core.Prog Core.Term Core.Typing Core.Sem
  Core.Bounds Core.Limits Core.Machine Core.MachineLemmas Core.MachineCorrect Core.MachineCorrect2
  Core.ExecCorrect Core.Examples Jets.JetSpec Jets.JetSpecSha Jets.JetSpecAll Core.ExecValue Jets.JetShaCorrect.
From RS Require Merkle.Sha256 Value.ValueModel Value.ValueRefine.
Import ListNotations.
Local Open Scope N_scope.

(* 1. the main lemma: for every build profile, every frame capacity, every jet semantics that
   respects the jets' types, every well-typed term whose type widths are not saturated:
   started on [Goto t] with an arbitrary remaining call stack k, in a state satisfying [pre]
   (arbitrary memory contents, arbitrary next_frame_start, arbitrary lower frames) whose active
   read frame holds some padded encoding of a, the machine reaches k - in at most [steps t]
   steps, without a panic - with a padded encoding of the result in the write window, the
   read cursor and all frames restored, every cell outside the write window and the fresh
   cells unchanged and the high-water marks within nfs + cells t / depth + frames t ([post]);
   or it returns the error matching the semantic failure, within the same marks *)
Theorem C05_machine_correct : forall prof cap jet_sem jet_ty t A B,
  jets_typed jet_ty jet_sem -> typed jet_ty t A B -> small t ->
  forall a st k, pre cap st A B t -> enc_at (mem st) (rcur st) A a ->
    match eval jet_sem t a with
    | ROk b => exists st' n, (n <= steps t)%nat /\
                 mstar prof cap jet_sem n (st, CGoto t :: k) (st', k) /\ post st st' B t b
    | RErr e => exists st' n, (n <= steps t)%nat /\
                 mfail prof cap jet_sem n (st, CGoto t :: k) (err_of e, st') /\ hw_ok st st' t
    | RStuck => False
    end.
Proof. exact machine_correct. Qed.
Print Assumptions C05_machine_correct.

(* 2. exec_correct: for_program + input + exec on an accepted well-typed program, for every
   input value a, every padded encoding pbits of it (any padding contents) and every initial
   content m0 of the data buffer: the value returned denotes eval t a, each error kind is
   returned exactly for the corresponding semantic failure *)
Theorem C05_exec_correct : forall prof jet_ty jet_cost jet_sem t A B,
  jets_typed jet_ty jet_sem -> typed jet_ty t A B ->
  check_program prof (bw A) (bw B) (bounds jet_cost t) = Ok tt ->
  forall a pbits m0, padded_of A a pbits -> length m0 = N.to_nat (machine_cells jet_cost t) ->
    match eval jet_sem t a with
    | ROk b => exists st bits,
        machine_exec prof jet_cost jet_sem t m0 (Some (A, pbits)) = Ok (st, bits) /\
        of_padded B bits = b /\ length bits = N.to_nat (width B) /\
        hwc st <= width A + width B + extra_cells (bounds jet_cost t) /\ hwc st <= msize m0 /\
        hwf st <= extra_frames (bounds jet_cost t) + IO_EXTRA_FRAMES
    | RErr e => exists st,
        machine_exec prof jet_cost jet_sem t m0 (Some (A, pbits)) = Err (err_of e, st) /\
        hwc st <= width A + width B + extra_cells (bounds jet_cost t) /\ hwc st <= msize m0 /\
        hwf st <= extra_frames (bounds jet_cost t) + IO_EXTRA_FRAMES
    | RStuck => False
    end.
Proof. exact exec_master. Qed.
Print Assumptions C05_exec_correct.

(* the same when `input` is not called (programs of empty source type) *)
Theorem C05_exec_correct_noinput : forall prof jet_ty jet_cost jet_sem t A B,
  jets_typed jet_ty jet_sem -> typed jet_ty t A B ->
  check_program prof (bw A) (bw B) (bounds jet_cost t) = Ok tt ->
  forall a m0, width A = 0 -> has_ty a A = true -> length m0 = N.to_nat (machine_cells jet_cost t) ->
    match eval jet_sem t a with
    | ROk b => exists st bits,
        machine_exec prof jet_cost jet_sem t m0 None = Ok (st, bits) /\
        of_padded B bits = b /\ length bits = N.to_nat (width B) /\
        hwc st <= width A + width B + extra_cells (bounds jet_cost t) /\ hwc st <= msize m0 /\
        hwf st <= extra_frames (bounds jet_cost t) + IO_EXTRA_FRAMES
    | RErr e => exists st,
        machine_exec prof jet_cost jet_sem t m0 None = Err (err_of e, st) /\
        hwc st <= width A + width B + extra_cells (bounds jet_cost t) /\ hwc st <= msize m0 /\
        hwf st <= extra_frames (bounds jet_cost t) + IO_EXTRA_FRAMES
    | RStuck => False
    end.
Proof. exact exec_master_noinput. Qed.
Print Assumptions C05_exec_correct_noinput.

(* 3. the converse directions *)
Theorem C05_exec_ok_inv : forall prof jet_ty jet_cost jet_sem t A B,
  jets_typed jet_ty jet_sem -> typed jet_ty t A B ->
  check_program prof (bw A) (bw B) (bounds jet_cost t) = Ok tt ->
  forall a pbits m0 st bits, padded_of A a pbits -> length m0 = N.to_nat (machine_cells jet_cost t) ->
    machine_exec prof jet_cost jet_sem t m0 (Some (A, pbits)) = Ok (st, bits) ->
    eval jet_sem t a = ROk (of_padded B bits).
Proof. exact exec_ok_inv. Qed.
Print Assumptions C05_exec_ok_inv.

Theorem C05_exec_err_inv : forall prof jet_ty jet_cost jet_sem t A B,
  jets_typed jet_ty jet_sem -> typed jet_ty t A B ->
  check_program prof (bw A) (bw B) (bounds jet_cost t) = Ok tt ->
  forall a pbits m0 e st, padded_of A a pbits -> length m0 = N.to_nat (machine_cells jet_cost t) ->
    machine_exec prof jet_cost jet_sem t m0 (Some (A, pbits)) = Err (e, st) ->
    exists se, eval jet_sem t a = RErr se /\ e = err_of se.
Proof. exact exec_err_inv. Qed.
Print Assumptions C05_exec_err_inv.

(* 4. independence of where values sit: initial buffer contents and input padding *)
Theorem C05_exec_independent : forall prof jet_ty jet_cost jet_sem t A B,
  jets_typed jet_ty jet_sem -> typed jet_ty t A B ->
  check_program prof (bw A) (bw B) (bounds jet_cost t) = Ok tt ->
  forall a pbits pbits' m0 m0', padded_of A a pbits -> padded_of A a pbits' ->
    length m0 = N.to_nat (machine_cells jet_cost t) -> length m0' = N.to_nat (machine_cells jet_cost t) ->
    match machine_exec prof jet_cost jet_sem t m0 (Some (A, pbits)),
          machine_exec prof jet_cost jet_sem t m0' (Some (A, pbits')) with
    | Ok (_, bits), Ok (_, bits') => of_padded B bits = of_padded B bits'
    | Err (e, _), Err (e', _) => e = e'
    | _, _ => False
    end.
Proof. exact exec_independent. Qed.
Print Assumptions C05_exec_independent.

(* 5. the semantics are type safe; the specified jets respect their types *)
Theorem C05_eval_typed : forall jet_ty jet_sem, jets_typed jet_ty jet_sem ->
  forall t A B, typed jet_ty t A B -> forall a, has_ty a A = true ->
    match eval jet_sem t a with
    | ROk b => has_ty b B = true
    | RErr _ => True
    | RStuck => False
    end.
Proof. exact eval_typed. Qed.
Print Assumptions C05_eval_typed.

Theorem C05_jet_spec_typed : jets_typed jet_spec_ty jet_spec.
Proof. exact jet_spec_typed. Qed.
Print Assumptions C05_jet_spec_typed.

Theorem C05_wt_iff : forall jet_ty t, wt jet_ty t = true <-> typed jet_ty t (src t) (tgt t).
Proof. exact wt_iff. Qed.
Print Assumptions C05_wt_iff.

(* 6. non-vacuity: a case through a padded sum, a comp, a disconnect, a failing assertion *)
Theorem C05_example_case :
  typed no_jet_ty ex_case (Prod (Sum One W1) One) Bit /\
  check_program Debug (bw (Prod (Sum One W1) One)) (bw Bit) (bounds no_jet_cost ex_case) = Ok tt /\
  eval no_jet_sem ex_case (SP (SL SU) SU) = ROk (SL SU) /\
  exists st, machine_exec Release no_jet_cost no_jet_sem ex_case (dirty ex_case)
               (Some (Prod (Sum One W1) One, [false; true; true])) = Ok (st, [false]).
Proof. exact (conj ex_case_typed (conj ex_case_accepted ex_case_left)). Qed.
Print Assumptions C05_example_case.

Theorem C05_example_comp :
  typed no_jet_ty ex_comp Bit Bit /\
  eval no_jet_sem ex_comp (SR SU) = ROk (SR SU) /\
  exists st, machine_exec Debug no_jet_cost no_jet_sem ex_comp (dirty ex_comp) (Some (Bit, [true])) = Ok (st, [true]) /\
             hwc st = 4 /\ hwf st = 3 /\ bounds no_jet_cost ex_comp = mkNB 2 1 605.
Proof. exact (conj ex_comp_typed ex_comp_run). Qed.
Print Assumptions C05_example_comp.

Theorem C05_example_disconnect :
  typed no_jet_ty ex_disc One (Prod W256 One) /\
  eval no_jet_sem ex_disc SU = ROk (SP (cmr_value ex_cmr) SU) /\
  exists st, machine_exec Debug no_jet_cost no_jet_sem ex_disc (dirty ex_disc) None
             = Ok (st, bits_of_bytes ex_cmr) /\ hwf st = 3 /\ hwc st = 768.
Proof. exact (conj ex_disc_typed ex_disc_run). Qed.
Print Assumptions C05_example_disconnect.

Theorem C05_example_assert :
  typed no_jet_ty ex_assert (Prod Bit One) One /\
  eval no_jet_sem ex_assert (SP (SR SU) SU) = RErr (Pruned (repeat 7 32)) /\
  exists st, machine_exec Debug no_jet_cost no_jet_sem ex_assert (dirty ex_assert) (Some (Prod Bit One, [true]))
             = Err (ReachedPrunedBranch (repeat 7 32), st).
Proof. exact ex_assert_run. Qed.
Print Assumptions C05_example_assert.

(* 7. the result as a `Value` (byte-level model of src/value.rs, C10): for every well-formed Value
   vin of the source type - whatever its buffer, offset and padding contents - for_program + input
   + exec returns a well-formed Value v of the target type that denotes eval t [[vin]]; with a
   zero-width target the code returns Value::unit().  Errors and marks as in C05_exec_correct. *)
Theorem C05_exec_correct_value : forall prof jet_ty jet_cost jet_sem t A B,
  jets_typed jet_ty jet_sem -> typed jet_ty t A B ->
  check_program prof (bw A) (bw B) (bounds jet_cost t) = Ok tt ->
  forall (vin : ValueModel.value) m0,
    ValueRefine.WF vin -> ValueModel.vty vin = A -> length m0 = N.to_nat (machine_cells jet_cost t) ->
    match eval jet_sem t (ValueRefine.absv vin) with
    | ROk b => exists st v,
        machine_exec_v prof jet_cost jet_sem t m0 (Some vin) = Ok (st, v) /\ ValueRefine.WF v /\
        (0 < width B -> ValueModel.vty v = B /\ ValueRefine.absv v = b) /\
        (width B = 0 -> v = ValueModel.v_unit /\ b = of_padded B []) /\
        hwc st <= width A + width B + extra_cells (bounds jet_cost t) /\ hwc st <= msize m0 /\
        hwf st <= extra_frames (bounds jet_cost t) + IO_EXTRA_FRAMES
    | RErr e => exists st,
        machine_exec_v prof jet_cost jet_sem t m0 (Some vin) = Err (err_of e, st) /\
        hwc st <= width A + width B + extra_cells (bounds jet_cost t) /\ hwc st <= msize m0 /\
        hwf st <= extra_frames (bounds jet_cost t) + IO_EXTRA_FRAMES
    | RStuck => False
    end.
Proof. exact exec_master_value. Qed.
Print Assumptions C05_exec_correct_value.

Theorem C05_exec_correct_value_noinput : forall prof jet_ty jet_cost jet_sem t A B,
  jets_typed jet_ty jet_sem -> typed jet_ty t A B ->
  check_program prof (bw A) (bw B) (bounds jet_cost t) = Ok tt ->
  forall a m0, width A = 0 -> has_ty a A = true -> length m0 = N.to_nat (machine_cells jet_cost t) ->
    match eval jet_sem t a with
    | ROk b => exists st v,
        machine_exec_v prof jet_cost jet_sem t m0 None = Ok (st, v) /\ ValueRefine.WF v /\
        (0 < width B -> ValueModel.vty v = B /\ ValueRefine.absv v = b) /\
        (width B = 0 -> v = ValueModel.v_unit /\ b = of_padded B []) /\
        hwc st <= width A + width B + extra_cells (bounds jet_cost t) /\ hwc st <= msize m0 /\
        hwf st <= extra_frames (bounds jet_cost t) + IO_EXTRA_FRAMES
    | RErr e => exists st,
        machine_exec_v prof jet_cost jet_sem t m0 None = Err (err_of e, st) /\
        hwc st <= width A + width B + extra_cells (bounds jet_cost t) /\ hwc st <= msize m0 /\
        hwf st <= extra_frames (bounds jet_cost t) + IO_EXTRA_FRAMES
    | RStuck => False
    end.
Proof. exact exec_master_value_noinput. Qed.
Print Assumptions C05_exec_correct_value_noinput.

(* the Value-level pipeline is the bit-level pipeline followed by the decoder of the window *)
Theorem C05_machine_exec_v_bits : forall prof jet_cost jet_sem t m0 v p,
  ValueModel.iter_padded v = Ok p -> ValueModel.vty v = src t ->
  machine_exec_v prof jet_cost jet_sem t m0 (Some v) =
  obind (machine_exec prof jet_cost jet_sem t m0 (Some (ValueModel.vty v, p)))
        (fun r => obind (output_value (fst r) (tgt t)) (fun x => Ok (fst r, x))).
Proof.
  intros. rewrite (machine_exec_v_some prof jet_cost jet_sem t m0 v p) by assumption.
  destruct (machine_exec prof jet_cost jet_sem t m0 (Some (ValueModel.vty v, p))) as [[st3 bits]| | |]; reflexivity.
Qed.
Print Assumptions C05_machine_exec_v_bits.

(* zero-width targets: the Value returned has type 1, not the target type (observation, cf. C10) *)
Theorem C05_output_value_zero_width : forall st,
  output_value st (Prod One One) = Ok ValueModel.v_unit /\ ValueModel.vty ValueModel.v_unit = One /\ One <> Prod One One.
Proof. exact output_value_zero_width. Qed.
Print Assumptions C05_output_value_zero_width.

(* 8. the extended jet dispatcher (SHA-256 family over Merkle/Sha256.v, parse_lock, parse_sequence,
   secp256k1 field and scalar arithmetic): respects the jets' types, changes nothing on the jets
   of the word-level table; the context jets compute SHA-256 (FIPS vectors through
   init / add / finalize), the counter limits are those of sha256.h *)
Theorem C05_jet_spec2_typed : jets_typed jet_spec2_ty jet_spec2.
Proof. exact jet_spec2_typed. Qed.
Print Assumptions C05_jet_spec2_typed.

Theorem C05_jet_spec2_conservative : forall j a, find_g gtable j = None ->
  jet_spec2 j a = jet_spec j a /\ jet_spec2_ty j = jet_spec_ty j.
Proof. exact jet_spec2_old. Qed.
Print Assumptions C05_jet_spec2_conservative.

Theorem C05_jet_tables_disjoint :
  forallb (fun s => match find_g gtable (j_id s) with None => true | Some _ => false end) jet_table = true.
Proof. exact tables_disjoint. Qed.
Print Assumptions C05_jet_tables_disjoint.

Theorem C05_sha_ctx_abc :
  match ctx_add (mkCtx [] 0 Sha256.sha_iv0) [97; 98; 99] with
  | Some c => Sha256.bytes_of_state (ctx_finalize c) = Sha256.sha256 [97; 98; 99]
  | None => False
  end.
Proof. exact ctx_abc. Qed.
Print Assumptions C05_sha_ctx_abc.

Theorem C05_sha_ctx_limits :
  read_ctx (write_ctx (mkCtx [] (2 ^ 55) Sha256.sha_iv0)) = None /\
  (exists c, read_ctx (write_ctx (mkCtx [] (2 ^ 55 - 1) Sha256.sha_iv0)) = Some c) /\
  ctx_add (mkCtx (repeat 0 62) (2 ^ 55 - 1) Sha256.sha_iv0) [1; 2] = None /\
  (exists c, ctx_add (mkCtx (repeat 0 62) (2 ^ 55 - 1) Sha256.sha_iv0) [1] = Some c).
Proof. exact ctx_too_many_blocks. Qed.
Print Assumptions C05_sha_ctx_limits.

(* 9. the SHA-256 context jets compute SHA-256: for every message below the counter limit, adding it
   to the initial context and finalising gives the digest of Merkle/Sha256.v (the hash of C09), and
   adding a message in two pieces gives the same context as adding it in one *)
Theorem C05_sha_ctx_correct : forall msg, N.of_nat (length msg) < MAX_COUNTER ->
  exists c, ctx_add ctx0 msg = Some c /\ Sha256.bytes_of_state (ctx_finalize c) = Sha256.sha256 msg.
Proof. exact sha_ctx_correct. Qed.
Print Assumptions C05_sha_ctx_correct.

Theorem C05_sha_ctx_add_app : forall m1 m2, N.of_nat (length (m1 ++ m2)) < MAX_COUNTER ->
  match ctx_add ctx0 m1 with
  | Some c1 => ctx_add c1 m2 = ctx_add ctx0 (m1 ++ m2)
  | None => False
  end.
Proof. exact ctx_add_app. Qed.
Print Assumptions C05_sha_ctx_add_app.
