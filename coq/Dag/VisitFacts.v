(* C18 - structural facts about the recursive specification `visit`: the tracker only grows,
   the look-ahead classification of the children is only an optimisation (`visit_unfold`),
   reachability, and where new tracker entries / yielded nodes come from. *)
From RS Require Import Lib.Tac Lib.Outcome Dag.DagModel Dag.PostOrderSpec.
Import ListNotations.
Local Open Scope N_scope.

Section Facts.
Variable children : nat -> dagnode.
Variable key : nat -> option N.
Hypothesis Hwf : wfc children.

Definition is_child (n c : nat) : Prop :=
  left_child_of (children n) = Some c \/ right_child_of (children n) = Some c.

Inductive reach : nat -> nat -> Prop :=
| reach_refl n : reach n n
| reach_step n c x : is_child n c -> reach c x -> reach n x.

Lemma is_child_lt n c : is_child n c -> (c < n)%nat.
Proof using Hwf.
  intros [H|H]; pose proof (Hwf n) as Hok; destruct (children n); cbn in H, Hok; try discriminate;
    injection H as <-; try exact Hok; destruct Hok; assumption.
Qed.

Lemma reach_le n x : reach n x -> (x <= n)%nat.
Proof using Hwf.
  induction 1 as [|n c x Hc _ IH]; [apply Nat.le_refl|]. apply is_child_lt in Hc.
  apply Nat.lt_le_incl. eapply Nat.le_lt_trans; eassumption.
Qed.

Lemma reach_trans a b c : reach a b -> reach b c -> reach a c.
Proof. induction 1; intros; [assumption|]. eapply reach_step; eauto. Qed.

Notation visit := (visit children key).
Notation finish := (finish key).

Definition tm_le (m m' : tmap) : Prop := forall k j, tm_get m k = Some j -> tm_get m' k = Some j.

Lemma tm_le_refl m : tm_le m m.
Proof. intros k j H. exact H. Qed.
Lemma tm_le_trans a b c : tm_le a b -> tm_le b c -> tm_le a c.
Proof. intros H1 H2 k j H. apply H2, H1, H. Qed.

Lemma finish_trk_le n li ri idx m : tm_le m (r_trk (finish n li ri idx m)).
Proof.
  unfold finish, record. destruct (key n) as [k|]; [|apply tm_le_refl].
  destruct (tm_get m k) as [i|] eqn:E; cbn [r_trk]; [apply tm_le_refl|].
  intros k' j H. cbn [tm_get]. destruct (k =? k') eqn:Ek; [|exact H].
  apply N.eqb_eq in Ek. subst k'. congruence.
Qed.

Lemma visit_trk_le : forall h n idx m, tm_le m (r_trk (visit h n idx m)).
Proof.
  induction h as [|h IH]; intros n idx m; [apply tm_le_refl|].
  cbn [PostOrderSpec.visit]. destruct (seen_before key m n); [apply tm_le_refl|].
  cbn [r_trk].
  assert (Hv : forall c i m0, tm_le m0 (c_trk (vchild (visit h) c i m0))).
  { intros [|i0|c0] i m0; cbn [vchild c_trk]; try apply tm_le_refl. apply IH. }
  eapply tm_le_trans; [apply Hv|]. eapply tm_le_trans; [apply Hv|]. apply finish_trk_le.
Qed.

(* a child slot without the look-ahead *)
Definition ochild (h : nat) (oc : option nat) (idx : N) (m : tmap) : cres :=
  match oc with
  | None => mk_cres None idx m []
  | Some c => let r := visit h c idx m in mk_cres (Some (r_ci r)) (r_index r) (r_trk r) (r_out r)
  end.

Lemma vchild_ochild h oc m0 idx m1 :
  tm_le m0 m1 -> (match oc with Some c => (c < h)%nat | None => True end) ->
  vchild (visit h) (classify key m0 oc) idx m1 = ochild h oc idx m1.
Proof.
  intros Hle Hc. destruct oc as [c|]; [|reflexivity]. cbn [classify ochild].
  destruct (seen_before key m0 c) as [i|] eqn:Hs; [|reflexivity].
  cbn [vchild]. destruct h as [|h]; [lia|]. cbn [PostOrderSpec.visit].
  assert (Hs1 : seen_before key m1 c = Some i).
  { unfold seen_before in *. destruct (key c); [apply Hle; exact Hs|discriminate]. }
  rewrite Hs1. reflexivity.
Qed.

Lemma ochild_trk_le h oc idx m : tm_le m (c_trk (ochild h oc idx m)).
Proof. destruct oc; cbn [ochild c_trk]; [apply visit_trk_le|apply tm_le_refl]. Qed.

(* the specification without look-ahead: skip a recorded node; otherwise left, right, self *)
Lemma visit_unfold h n idx m : (n < S h)%nat ->
  visit (S h) n idx m =
  match seen_before key m n with
  | Some i => mk_vres i idx m []
  | None =>
      let l := ochild h (left_child_of (children n)) idx m in
      let r := ochild h (right_child_of (children n)) (c_index l) (c_trk l) in
      let fr := finish n (c_i l) (c_i r) (c_index r) (c_trk r) in
      mk_vres (r_ci fr) (r_index fr) (r_trk fr) (c_out l ++ c_out r ++ r_out fr)
  end.
Proof.
  intros Hn. cbn [PostOrderSpec.visit]. destruct (seen_before key m n); [reflexivity|].
  pose proof (Hwf n) as Hok.
  assert (Hl : match left_child_of (children n) with Some c => (c < h)%nat | None => True end)
    by (destruct (children n); cbn in *; try exact I; lia).
  assert (Hr : match right_child_of (children n) with Some c => (c < h)%nat | None => True end)
    by (destruct (children n); cbn in *; try exact I; lia).
  rewrite (vchild_ochild h _ m idx m (tm_le_refl m) Hl).
  rewrite (vchild_ochild h _ m _ _ (ochild_trk_le h _ idx m) Hr). reflexivity.
Qed.

Lemma child_lt_left n c : left_child_of (children n) = Some c -> (c < n)%nat.
Proof. intros H. apply is_child_lt. left. exact H. Qed.
Lemma child_lt_right n c : right_child_of (children n) = Some c -> (c < n)%nat.
Proof. intros H. apply is_child_lt. right. exact H. Qed.

(* new tracker entries are ids of nodes reachable from the visited node *)
Lemma finish_trk_new n li ri idx m k :
  tm_get (r_trk (finish n li ri idx m)) k <> None -> tm_get m k <> None \/ key n = Some k.
Proof.
  unfold finish, record. destruct (key n) as [k0|]; [|left; assumption].
  destruct (tm_get m k0) eqn:E; cbn [r_trk]; [left; assumption|].
  cbn [tm_get]. destruct (k0 =? k) eqn:Ek; [|left; assumption].
  apply N.eqb_eq in Ek. subst. right. reflexivity.
Qed.

Lemma visit_trk_new : forall h n, (n < h)%nat -> forall idx m k,
  tm_get (r_trk (visit h n idx m)) k <> None ->
  tm_get m k <> None \/ exists x, reach n x /\ key x = Some k.
Proof.
  induction h as [|h IH]; intros n Hn idx m k; [lia|].
  rewrite visit_unfold by exact Hn. destruct (seen_before key m n); cbn [r_trk]; [left; assumption|].
  assert (Hoc : forall oc i m0, (match oc with Some c => is_child n c | None => True end) ->
            tm_get (c_trk (ochild h oc i m0)) k <> None ->
            tm_get m0 k <> None \/ exists x, reach n x /\ key x = Some k).
  { intros [c|] i m0 Hc H; cbn [ochild c_trk] in H; [|left; exact H].
    pose proof (is_child_lt _ _ Hc).
    destruct (IH c ltac:(lia) _ _ _ H) as [H1|(x & Hx & Hk)]; [left; exact H1|].
    right. exists x. split; [eapply reach_step; eauto|exact Hk]. }
  intros H. apply finish_trk_new in H. destruct H as [H|H].
  - apply Hoc in H.
    + destruct H as [H|H]; [|right; exact H]. apply Hoc in H; [exact H|].
      destruct (left_child_of (children n)) eqn:E; [left; exact E|exact I].
    + destruct (right_child_of (children n)) eqn:E; [right; exact E|exact I].
  - right. exists n. split; [apply reach_refl|exact H].
Qed.

(* only nodes reachable from the visited node are yielded; each one at most as large as it *)
Lemma visit_out_reach : forall h n, (n < h)%nat -> forall idx m it,
  In it (r_out (visit h n idx m)) -> reach n (it_node it).
Proof.
  induction h as [|h IH]; intros n Hn idx m it; [lia|].
  rewrite visit_unfold by exact Hn. destruct (seen_before key m n); cbn [r_out]; [intros []|].
  assert (Hoc : forall oc i m0, (match oc with Some c => is_child n c | None => True end) ->
            In it (c_out (ochild h oc i m0)) -> reach n (it_node it)).
  { intros [c|] i m0 Hc H; cbn [ochild c_out] in H; [|destruct H].
    pose proof (is_child_lt _ _ Hc). eapply reach_step; [exact Hc|]. apply (IH c ltac:(lia) _ _ _ H). }
  intros H. apply in_app_or in H. destruct H as [H|H].
  - apply Hoc in H; [exact H|]. destruct (left_child_of (children n)) eqn:E; [left; exact E|exact I].
  - apply in_app_or in H. destruct H as [H|H].
    + apply Hoc in H; [exact H|]. destruct (right_child_of (children n)) eqn:E; [right; exact E|exact I].
    + unfold finish in H. destruct (record key _ n _) as [[i|] m']; cbn [r_out] in H; [destruct H|].
      destruct H as [<-|[]]. apply reach_refl.
Qed.

(* THEOREM: only nodes reachable from the root are yielded *)
Theorem po_only_reachable : forall root it, In it (po_spec children key root) -> reach root (it_node it).
Proof. intros root it H. apply (visit_out_reach (S root) root ltac:(lia) 0 [] it H). Qed.

End Facts.
