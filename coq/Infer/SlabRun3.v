(* C04, phase 4 - coverage assembled: if the construction stage succeeds and the harness finalises every arrow, the
   reference accepts (finish_covers); hence the run-level refinement under the only hypothesis that the slab run does not
   end in Panic / OutOfFuel (run_refines_nopanic). *)
From RS Require Import Lib.Tac Lib.Outcome Lib.Sweep Ty.Ty Core.Prog Infer.Constraints Infer.Unify Infer.Infer Infer.Gen Infer.Theorems
  Infer.Principal Infer.Order Infer.Run Infer.Run2 Infer.UnionFind Infer.Slab Infer.RunSlab Infer.SlabProofs Infer.Rational Infer.ErrClass
  Infer.SlabSim Infer.SlabSimInst Infer.SlabPrims Infer.SlabNodes Infer.SlabNodes2 Infer.SlabNodes3 Infer.SlabNodes4 Infer.SlabNodes5
  Infer.SlabConstruct Infer.SlabResult Infer.SlabRun Infer.SlabFin Infer.SlabFinK Infer.SlabRun2 Infer.OrderRun Infer.SlabCov Infer.SlabWfd.
Import ListNotations.
Local Open Scope outcome_scope.

Theorem finish_covers (fuel : nat) (jt : jet_table) (program : bool) (p : prog) (root : nat) (g : gstate) rb re c ar fmode canon tau' :
  gen jt p = Some g -> root_tmpl g (if program then Some root else None) = Some (rb, re) ->
  r_construct fuel jt program p root = Ok (c, ar) ->
  r_finish fmode p canon root c ar = Ok tau' ->
  (forall i, (i < length ar)%nat -> In i canon) ->
  exists tau, infer jt (if program then Some root else None) p = Ok tau.
Proof.
  intros G R C F Hc.
  pose proof (construct_sim fuel jt program p root g rb re G R) as CS. rewrite C in CS.
  destruct CS as [(em & S0 & Ea & Ai) _].
  destruct S0 as [(CW & Ws & Ei & Rg) _ [_ M2]].
  destruct (infer_class_char jt (if program then Some root else None) p g rb re G R) as (_ & _ & _ & C3).
  apply C3.
  pose proof (r_finish_wfd fmode p canon root c ar CW Ai) as Wf. rewrite F in Wf.
  destruct (M2 (rwalk c) (rwalk_model c CW)) as (al & [Sa Eal] & Ag).
  pose proof CW as (W & _).
  (* every node arrow is a finite tree in al *)
  assert (Fa : forall i x y, arr_of (g_arr g) i = Some (x, y) -> tfin (al x) /\ tfin (al y)).
  { intros i x y E. rewrite Ea, arr_of_amap in E. destruct (arr_of ar i) as [[xs ys]|] eqn:Es; cbn [amap] in E; [|discriminate].
    injection E as <- <-. destruct (Ai i xs ys Es) as [Lx Ly].
    assert (Li : (i < length ar)%nat) by (apply (arr_of_some_lt _ _ _ Es)).
    destruct (Wf i xs ys (Hc i Li) ltac:(rewrite <- arr_of_nth; exact Es)) as [Wx Wy].
    split.
    - apply (tfin_teq _ _ (teq_sym _ _ (Ag xs Lx))). apply (tfin_teq _ _ (teq_sym _ _ (rwalk_rep c xs CW Lx))).
      apply rwalk_fin; [exact CW|exact Wx|apply rep_root; assumption].
    - apply (tfin_teq _ _ (teq_sym _ _ (Ag ys Ly))). apply (tfin_teq _ _ (teq_sym _ _ (rwalk_rep c ys CW Ly))).
      apply rwalk_fin; [exact CW|exact Wy|apply rep_root; assumption]. }
  apply (all_fin_model _ _ al Ws Ei Sa Eal).
  apply tsat_app in Sa. destruct Sa as [Sg Srb].
  assert (Eg : teqs_hold al (g_eqs g)) by (intros x y Hin; apply Eal; apply in_or_app; left; exact Hin).
  pose proof (gen_cov jt al p empty_g g ginv_empty G Sg Eg Fa ltac:(intros v Hv; cbn in Hv; lia)) as Fg.
  intros v Hv. rewrite app_length in Hv. destruct (Nat.lt_ge_cases v (length (g_store g))) as [L|Gv]; [apply Fg; exact L|].
  destruct program; cbn [root_tmpl] in R.
  - destruct (arr_of (g_arr g) root) as [[rs rt]|]; [|discriminate]. injection R as <- <-. cbn [length] in Hv.
    assert (v = length (g_store g)) by lia. subst v. apply tfrom_one in Srb. unfold th in Srb. cbn [dholds] in Srb.
    apply (tfin_teq tone); [apply teq_sym; exact Srb|apply tfin_one].
  - injection R as <- <-. cbn [length] in Hv. lia.
Qed.

Theorem run_refines_nopanic : forall (fmode : nat) (program : bool) (order : list nat)
    (jets : list (N * N * list N * list N)) (p : prog),
  let a := run_infer program order jets p in
  let b := run_rinfer fmode program order jets p in
  (forall k, b <> [9; k]%N) -> b <> [8]%N ->
  strip99 b = a.
Proof.
  intros fmode program order jets p a b NP NF. subst a b. unfold run_infer, run_rinfer in *.
  set (n := length p) in *.
  set (order' := match order with [] => seq 0 n | _ => order end) in *.
  destruct (valid_order n order') eqn:V; cbn [negb] in *; [|reflexivity].
  set (pos := pos_of order') in *. set (jt := jets_of jets) in *. set (p' := permute p order') in *.
  assert (Lp' : length p' = n).
  { unfold p', permute. rewrite map_length. unfold valid_order in V. apply andb_true_iff in V. destruct V as [VL _]. apply Nat.eqb_eq in VL. exact VL. }
  assert (Hd : match nth (n - 1) p NIden with NHidden _ => true | _ => false end = is_hidden (nth (n - 1) p NIden)) by reflexivity.
  rewrite Hd in *. clear Hd.
  destruct (gen jt p') as [g|] eqn:G.
  2:{ unfold infer. rewrite G. reflexivity. }
  destruct (gen_nodes_inv jt p' empty_g g ginv_empty G) as (Ig & _).
  set (rootopt := if program then Some (pos (n - 1)%nat) else None) in *.
  assert (Hroot : (0 < n)%nat -> (arr_of (g_arr g) (pos (n - 1)%nat) = None <-> is_hidden (nth (n - 1) p NIden) = true)).
  { intros Hn. destruct (pos_of_valid n order' (n - 1) V ltac:(lia)) as [Lpos _]. fold pos in Lpos.
    pose proof (gen_arr_hidden jt p' empty_g g ginv_empty G (pos (n - 1)%nat) ltac:(lia)) as HH. cbn [empty_g g_arr length Nat.add] in HH.
    rewrite HH. unfold p', pos. rewrite (permute_nth p order' n (n - 1) V ltac:(lia)), is_hidden_rename. tauto. }
  destruct (root_tmpl g rootopt) as [[rb re]|] eqn:R.
  - assert (Chk : (program && is_hidden (nth (n - 1) p NIden))%bool = false).
    { destruct program; [|reflexivity]. cbn [andb]. destruct (is_hidden (nth (n - 1) p NIden)) eqn:Hh; [|reflexivity]. exfalso.
      assert (Hn : (0 < n)%nat).
      { destruct p as [|x r]; [cbn in Hh; discriminate|cbn [length] in n; unfold n; lia]. }
      unfold rootopt in R. cbn [root_tmpl] in R. rewrite (proj2 (Hroot Hn) eq_refl) in R. discriminate. }
    rewrite Chk in *. rewrite r_infer_split in *.
    pose proof (construct_sim (model_fuel jt p) jt program p' (pos (n - 1)%nat) g rb re G R) as CS. fold rootopt in CS.
    pose proof (construct_result_spec (model_fuel jt p) jt program p' (pos (n - 1)%nat) g rb re) as RS.
    destruct (r_construct (model_fuel jt p) jt program p' (pos (n - 1)%nat)) as [[c ar]|[[|st ex nb|] ce]|k|] eqn:Ec; cbn [obind show_rresult] in *;
      try (destruct CS; fail).
    + (* construction succeeded *)
      specialize (RS c ar G R eq_refl). cbv zeta in RS. fold rootopt in RS. destruct RS as (CW & ROk & _ & _).
      destruct CS as [(em & S0 & Ea & Ai) Cls].
      destruct Cls as [(tau & Ht)|Ht].
      * (* the reference accepts: the slab model finalises to the least model *)
        destruct (ROk tau Ht) as (be & LM & Etau).
        assert (I0 : Inv be c) by (split; [exact CW|split; [apply LM|apply least_frees_one; assumption]]).
        pose proof (r_finish_spec be fmode p' (map pos (seq 0 n)) (pos (n - 1)%nat) c ar I0 Ai) as F.
        rewrite Ht. cbn [show_result].
        destruct (r_finish fmode p' (map pos (seq 0 n)) (pos (n - 1)%nat) c ar) as [tau'|e|k|]; cbn [show_rresult] in *.
        -- rewrite F. cbn [app]. destruct (strip99_ok_head (flat_map show_arrow (map (fun i => img be (nth i ar None)) (map pos (seq 0 n))) ++ [99; 0]%N)) as (r0 & Er0).
           assert (Es : strip99 (0%N :: flat_map show_arrow (map (fun i => img be (nth i ar None)) (map pos (seq 0 n))) ++ [99; 0]%N) =
                        0%N :: flat_map show_arrow (map (fun i => img be (nth i ar None)) (map pos (seq 0 n)))).
           { set (X := flat_map show_arrow (map (fun i => img be (nth i ar None)) (map pos (seq 0 n)))).
             destruct X as [|x X'] eqn:EX; [reflexivity|].
             change (0%N :: (x :: X') ++ [99; 0]%N) with (0%N :: x :: X' ++ [99; 0]%N).
             destruct (X' ++ [99%N; 0%N]) as [|y l] eqn:E2; [destruct X'; discriminate|].
             rewrite strip99_step. f_equal. rewrite <- E2. change (x :: X' ++ [99; 0]%N) with ((x :: X') ++ [99; 0]%N). apply strip99_app. }
           rewrite Es. f_equal. rewrite !flat_map_map. apply flat_map_ext. intros i. f_equal.
           rewrite Etau. change (@None tarrow) with (img be None). rewrite map_nth. reflexivity.
        -- destruct F.
        -- exfalso. apply (NP k). reflexivity.
        -- exfalso. apply NF. reflexivity.
      * (* the reference reports the occurs check *)
        rewrite Ht. cbn [show_result].
        destruct (r_finish fmode p' (map pos (seq 0 n)) (pos (n - 1)%nat) c ar) as [tau'|[x cx]|k|] eqn:F; cbn [show_rresult] in *.
        -- exfalso. (* coverage: the slab model cannot finalise every arrow *)
           assert (Hc : forall i, (i < length ar)%nat -> In i (map pos (seq 0 n))).
           { intros i Hi. assert (La : length ar = n).
             { pose proof (f_equal (@length _) Ea) as E0. rewrite map_length in E0.
               destruct (gen_nodes_inv jt p' empty_g g ginv_empty G) as (_ & s2 & e2 & a2 & _ & _ & E3 & L3). cbn [empty_g g_arr app] in E3. rewrite E3 in E0. lia. }
             rewrite La in Hi. pose proof (valid_order_perm n order' V) as Pp.
             apply in_map_iff. exists (nth i order' 0%nat). split; [apply (pi_pinv _ _ _ Pp i Hi)|]. apply in_seq. pose proof (pinv_lt _ _ _ Pp i Hi). lia. }
           destruct (finish_covers (model_fuel jt p) jt program p' (pos (n - 1)%nat) g rb re c ar fmode (map pos (seq 0 n)) tau' G R
                       ltac:(exact Ec) F Hc) as (tau & Ht'). fold rootopt in Ht'. congruence.
        -- rewrite (r_finish_err _ _ _ _ _ _ _ _ F). reflexivity.
        -- exfalso. apply (NP k). reflexivity.
        -- exfalso. apply NF. reflexivity.
    + rewrite CS. cbn [show_result]. apply strip99_bind.
    + exfalso. apply (NP k). reflexivity.
    + exfalso. apply NF. reflexivity.
  - assert (Ea0 : infer jt rootopt p' = Err EShape) by (unfold infer; rewrite G, R; reflexivity).
    rewrite Ea0. cbn [show_result].
    destruct program; [|discriminate R]. cbn [andb] in *. unfold rootopt in R. cbn [root_tmpl] in R.
    destruct (arr_of (g_arr g) (pos (n - 1)%nat)) as [[rs rt]|] eqn:Ar; [discriminate|].
    destruct (Nat.eq_dec n 0) as [N0|N0].
    + assert (Ep : p = []) by (destruct p; [reflexivity|cbn in n; unfold n in N0; lia]).
      assert (Eo : order' = []).
      { unfold valid_order in V. apply andb_true_iff in V. destruct V as [VL _]. apply Nat.eqb_eq in VL.
        destruct order'; [reflexivity|cbn in VL; lia]. }
      unfold p', pos, n in *. rewrite Eo. rewrite Ep. vm_compute. reflexivity.
    + rewrite (proj1 (Hroot ltac:(lia)) eq_refl). reflexivity.
Qed.
