(* C11 - Value equality, ordering and hashing are semantic.
   Only pinned statements and `Print Assumptions`.  Model: Value/ValueModel.v (v_eq / v_cmp /
   v_hash over iter_compact, as the code stands after the fix of F-C11); proofs: Value/ValueEq.v.
   The order / equality of types is structural in the model (the code compares TMR hashes);
   the order on types is a premise of the cmp theorems: any total order whose Eq is equality. *)
From RS Require Import Lib.Tac Lib.Outcome Lib.Bits Ty.Ty
  Value.ValueModel Value.ValueBits Value.ValueRefine Value.ValueCons Value.ValueEq Value.ValueWords Value.ValueWord.
Import ListNotations.
Local Open Scope N_scope.

(* == always answers, and answers true exactly for the same type and the same denoted element,
   whatever buffers, offsets and padding contents the two values have *)
Theorem C11_eq_semantic : forall a b, WF a -> WF b ->
  exists r, v_eq a b = Ok r /\ (r = true <-> vty a = vty b /\ absv a = absv b).
Proof. exact v_eq_spec. Qed.
Print Assumptions C11_eq_semantic.

Theorem C11_eq_true_iff : forall a b, WF a -> WF b ->
  (v_eq a b = Ok true <-> vty a = vty b /\ absv a = absv b).
Proof. exact v_eq_true_iff. Qed.
Print Assumptions C11_eq_true_iff.

(* equal values feed the same stream to the hasher (type, then the compact bits) *)
Theorem C11_hash_eq : forall a b, WF a -> WF b -> v_eq a b = Ok true -> v_hash a = v_hash b.
Proof. exact v_hash_eq. Qed.
Print Assumptions C11_hash_eq.

Theorem C11_hash_stream : forall v, WF v -> v_hash v = Ok (vty v, compact_enc (absv v)).
Proof. exact v_hash_spec. Qed.
Print Assumptions C11_hash_stream.

Theorem C11_hash_inj : forall a b, WF a -> WF b -> v_hash a = v_hash b -> v_eq a b = Ok true.
Proof. exact v_hash_inj. Qed.
Print Assumptions C11_hash_inj.

(* cmp: for any total order on types whose Eq case is equality *)
Theorem C11_cmp_eq_iff : forall tcmp : ty -> ty -> comparison,
  (forall a b, tcmp a b = Eq <-> a = b) ->
  forall a b, WF a -> WF b -> (v_cmp tcmp a b = Ok Eq <-> v_eq a b = Ok true).
Proof. exact v_cmp_eq_iff. Qed.
Print Assumptions C11_cmp_eq_iff.

Theorem C11_cmp_total_order : forall tcmp : ty -> ty -> comparison,
  (forall a b, tcmp a b = Eq <-> a = b) ->
  (forall a b, tcmp b a = CompOpp (tcmp a b)) ->
  (forall a b c, tcmp a b = Lt -> tcmp b c = Lt -> tcmp a c = Lt) ->
  forall a b c, WF a -> WF b -> WF c ->
    (exists o, v_cmp tcmp a b = Ok o) /\
    (forall o, v_cmp tcmp a b = Ok o -> v_cmp tcmp b a = Ok (CompOpp o)) /\
    (v_cmp tcmp a b = Ok Lt -> v_cmp tcmp b c = Ok Lt -> v_cmp tcmp a c = Ok Lt).
Proof. exact v_cmp_total_order. Qed.
Print Assumptions C11_cmp_total_order.

(* what cmp computes: the type order first, then the lexicographic order of the compact encodings *)
Theorem C11_cmp_spec : forall (tcmp : ty -> ty -> comparison) a b, WF a -> WF b ->
  v_cmp tcmp a b = Ok (scmp tcmp a b).
Proof. exact v_cmp_spec. Qed.
Print Assumptions C11_cmp_spec.

(* the premises on the type order are satisfiable: the structural order used by Value/Run.v *)
Theorem C11_ty_cmp_is_order :
  (forall a b, ty_cmp a b = Eq <-> a = b) /\
  (forall a b, ty_cmp b a = CompOpp (ty_cmp a b)) /\
  (forall a b c, ty_cmp a b = Lt -> ty_cmp b c = Lt -> ty_cmp a c = Lt).
Proof. exact (conj ty_cmp_eq (conj (fun a b => ty_cmp_antisym a b) ty_cmp_trans)). Qed.
Print Assumptions C11_ty_cmp_is_order.

(* The comparison of the code BEFORE the fix (raw bytes of the padded form) was not semantic:
   product(u4 0xA, u4 0xB).as_product().0.to_value() vs Value::u4(0xA).  Finding F-C11, fixed
   in /repo by "fix: Value equality, ordering and hash compare the compact encoding". *)
Theorem C11_eq_raw_not_semantic : exists v1 v2,
  WF v1 /\ WF v2 /\ absv v1 = absv v2 /\ vty v1 = vty v2 /\ eq_raw v1 v2 = Ok false.
Proof. exact eq_raw_not_semantic. Qed.
Print Assumptions C11_eq_raw_not_semantic.

(* the witnesses are what the model operations produce, and the fixed == gets them right *)
Example C11_witness_history :
  (obind (v_word_int 2 10) (fun a => obind (v_word_int 2 11) (fun b =>
   obind (v_product a b) (fun p => Ok (option_map fst (as_product p)))))) = Ok (Some witness_sub) /\
  v_word_int 2 10 = Ok witness_direct /\
  v_eq witness_sub witness_direct = Ok true.
Proof. exact (conj witness_sub_history (conj witness_direct_history eq_fixed_on_witness)). Qed.

Example C11_dirty_padding_witness :
  from_padded_bits [false; true; true; true; true; false; false; false] (Sum One (word_ty 2))
    = Ok (witness_dirty, [false; false; false]) /\
  v_none (word_ty 2) = Ok witness_clean /\
  absv witness_dirty = absv witness_clean /\
  eq_raw witness_dirty witness_clean = Ok false /\
  v_eq witness_dirty witness_clean = Ok true.
Proof. exact eq_raw_dirty_padding. Qed.

(* ---- Word {value, n} with derived PartialEq / Ord / Hash (phase 2; model Value/ValueWord.v) ----
   WFW w := WF (w_value w) /\ vty (w_value w) = word_ty (w_n w) /\ w_n w < 32 *)

(* the derived == of Word is the == of the underlying Value, hence semantic: true exactly for the
   same n and the same denoted word *)
Theorem C11_word_eq_iff : forall a b, WFW a -> WFW b ->
  (w_eq a b = Ok true <-> v_eq (w_value a) (w_value b) = Ok true) /\
  (w_eq a b = Ok true <-> w_n a = w_n b /\ absv (w_value a) = absv (w_value b)).
Proof. exact word_eq_iff. Qed.
Print Assumptions C11_word_eq_iff.

(* the derived order is the order of the values (the second key n never decides) *)
Theorem C11_word_cmp_delegates : forall (tcmp : ty -> ty -> comparison) a b,
  (forall x y, tcmp x y = Eq <-> x = y) -> WFW a -> WFW b ->
  w_cmp tcmp a b = v_cmp tcmp (w_value a) (w_value b).
Proof. exact word_cmp_delegates. Qed.
Print Assumptions C11_word_cmp_delegates.

Theorem C11_word_hash_eq : forall a b, WFW a -> WFW b -> (w_eq a b = Ok true <-> w_hash a = w_hash b).
Proof. exact word_hash_eq. Qed.
Print Assumptions C11_word_hash_eq.

(* where Words come from: Value::to_word, the integer constructors, Word::product *)
Theorem C11_to_word_spec : forall v, WF v ->
  match to_word v with
  | Some w => w_value w = v /\ WFW w
  | None => forall k, (k < 32)%nat -> vty v <> word_ty k
  end.
Proof. exact to_word_spec. Qed.
Print Assumptions C11_to_word_spec.

Theorem C11_word_int_WFW : forall k n v, (k <= 7)%nat -> v_word_int k n = Ok v ->
  WFW (mkW v (N.of_nat k)) /\ absv v = word_sval k (bits_be (2 ^ k) n).
Proof. exact word_int_WFW. Qed.
Print Assumptions C11_word_int_WFW.

Theorem C11_word_product : forall a b, WFW a -> WFW b ->
  match w_product a b with
  | Ok (Some w) => WFW w /\ w_n w = w_n a + 1 /\ w_n a = w_n b /\
                   vbits (w_value w) = vbits (w_value a) ++ vbits (w_value b)
  | Ok None => w_n a <> w_n b \/ 30 <= w_n a
  | _ => False
  end.
Proof. exact w_product_spec. Qed.
Print Assumptions C11_word_product.
