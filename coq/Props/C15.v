(* C15 - The Elements environment shown to jets is the supplied transaction.
   Level "other": the theorems below are about the model Env/TxSpec.v (an abstract transaction
   and the specified result of 63 introspection jets).  The tie to /repo is the correspondence
   check of tools/props/c15.py (specification vs one-jet programs on ElementsEnv, and jets vs an
   oracle reading the elements structures); SHA-256, the C code and pointer lifetimes are not
   modelled.  Only pinned statements, `exact lemma` and `Print Assumptions`. *)
From RS Require Import Lib.Tac Lib.Bits Ty.Ty Env.TxSpec.
Import ListNotations.
Local Open Scope N_scope.

(* 1. for every transaction, every jet and every input word (indices in and out of range alike):
   the specified result, when the jet does not fail, is a value of the jet's target type *)
Theorem C15_spec_typed : forall j t arg v, jet_spec j t arg = Some v -> has_ty v (jet_target j) = true.
Proof. exact spec_typed. Qed.
Print Assumptions C15_spec_typed.

(* 2. words are encoded big-endian, most significant bit first *)
Theorem C15_word_encoding : forall n v, compact_enc (wordN n v) = bits_be (Nat.pow 2 n) v.
Proof. exact wordN_compact. Qed.
Print Assumptions C15_word_encoding.

(* 3. indexed jets: the documented absent value for every out-of-range index, the selected field otherwise *)
Theorem C15_input_out_of_range : forall f t i, N.of_nat (length (tx_inputs t)) <= i ->
  jet_spec (J_input f) t i = Some (SL SU) /\ forall g, jet_spec (J_input_ix g) t i = Some (SL SU).
Proof. exact input_out_of_range. Qed.
Print Assumptions C15_input_out_of_range.

Theorem C15_input_in_range : forall f t i, i < N.of_nat (length (tx_inputs t)) ->
  exists inp, nthN (tx_inputs t) i = Some inp /\ jet_spec (J_input f) t i = Some (SR (in_field_val f inp)).
Proof. exact input_in_range. Qed.
Print Assumptions C15_input_in_range.

Theorem C15_output_out_of_range : forall f t i, N.of_nat (length (tx_outputs t)) <= i ->
  jet_spec (J_output f) t i = Some (SL SU).
Proof. exact output_out_of_range. Qed.
Print Assumptions C15_output_out_of_range.

Theorem C15_output_in_range : forall f t i, i < N.of_nat (length (tx_outputs t)) ->
  exists o, nthN (tx_outputs t) i = Some o /\ jet_spec (J_output f) t i = Some (SR (out_field_val f o)).
Proof. exact output_in_range. Qed.
Print Assumptions C15_output_in_range.

(* 4. current_X is input_X at the current index; it fails exactly when that index selects no input *)
Theorem C15_current_agrees_with_indexed : forall f t,
  match jet_spec (J_current f) t 0 with
  | Some v => jet_spec (J_input f) t (tx_ix t) = Some (SR v)
  | None => jet_spec (J_input f) t (tx_ix t) = Some (SL SU) /\ N.of_nat (length (tx_inputs t)) <= tx_ix t
  end.
Proof. exact current_agrees_with_indexed. Qed.
Print Assumptions C15_current_agrees_with_indexed.

(* 5. the annex is the last witness element when it starts with 0x50, without that byte *)
Theorem C15_annex_spec : forall i,
  annex_of i = match in_wit_last i with
               | Some (80, h) => Some h
               | _ => None
               end.
Proof. exact annex_spec. Qed.
Print Assumptions C15_annex_spec.

(* 6. the views of an issuance are mutually consistent *)
Theorem C15_issuance_views : forall i,
  match iss_kind_of i with
  | NoIss => in_field_ix_val G_issuance i = SL SU /\ in_field_val F_issuance_asset_amount i = SL SU /\
             in_field_val F_new_issuance_contract i = SL SU /\ in_field_val F_reissuance_entropy i = SL SU /\
             iss_asset_proof i = empty_hash /\ iss_token_proof i = empty_hash
  | NewIss => in_field_ix_val G_issuance i = SR (SL SU) /\
              in_field_val F_new_issuance_contract i = SR (wordN 8 (in_entropy i)) /\
              in_field_val F_reissuance_entropy i = SL SU /\ in_field_val F_reissuance_blinding i = SL SU
  | ReIss => in_field_ix_val G_issuance i = SR (SR SU) /\
             in_field_val F_new_issuance_contract i = SL SU /\
             in_field_val F_reissuance_entropy i = SR (wordN 8 (in_entropy i)) /\
             in_field_val F_reissuance_blinding i = SR (wordN 8 (in_blinding_nonce i)) /\
             in_field_val F_issuance_token_amount i = SR (SR (wordN 6 0)) /\ iss_token_proof i = empty_hash
  end.
Proof. exact issuance_views. Qed.
Print Assumptions C15_issuance_views.

(* 7. an input whose is_pegin flag is clear is reported as not a pegin (code after /repo commit 06fd3e7) *)
Theorem C15_pegin_follows_flag : forall t i inp, nthN (tx_inputs t) i = Some inp -> in_is_pegin inp = false ->
  jet_spec (J_input F_pegin) t i = Some (SR (SL SU)).
Proof. exact pegin_follows_flag. Qed.
Print Assumptions C15_pegin_follows_flag.

(* 8. the marshalling as it was before that commit (pegin witness alone decides) violated it: fixed finding *)
Theorem C15_pegin_follows_flag_before_fix_refuted :
  ~ (forall inp, in_is_pegin inp = false -> pegin_of_before_fix inp = None).
Proof. exact pegin_follows_flag_before_fix_refuted. Qed.
Print Assumptions C15_pegin_follows_flag_before_fix_refuted.
