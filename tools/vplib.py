#!/usr/bin/env python3
"""Shared machinery of the /verif checks: Coq build + assumption scan, harness build/run,
model evaluation inside Coq (vm_compute), comparison, known findings, evidence."""
import concurrent.futures
import fcntl
import hashlib
import json
import os
import re
import subprocess
import shutil
import sys
import time

VERIF = os.path.dirname(os.path.dirname(os.path.abspath(__file__)))
REPO = os.environ.get("VERIF_REPO", "/repo")
COQ = os.path.join(VERIF, "coq")
HARNESS = os.path.join(VERIF, "harness")
WORK = os.path.join(VERIF, "work")
EVID = os.path.join(VERIF, "evidence")
NCPU = 16

FORBIDDEN = re.compile(
    r"\b(Admitted|admit|Axiom|Axioms|Parameter|Parameters|Conjecture|Conjectures|Hypothesis|Hypotheses|Variable|Variables)\b"
    r"|Unset\s+Guard|bypass_check|type-in-type|impredicative-set|Admit\s+Obligations|Unset\s+Positivity|Unset\s+Universe")

# standard-library axioms that may appear in Print Assumptions output (name -> why)
ALLOWED_AXIOMS = {
    # primitive integers: primitives, not axioms (Print Assumptions lists them)
}

# `coqchk -o` (thorough tier) lists every primitive and every axiom of the standard library's Coq.Numbers.Cyclic.Int63
# that is in the closure of the checked library, used by a theorem or not (the executable SHA-256 of Merkle/Sha256.v
# imports Uint63).  They are declared by the standard library, accepted in the coqchk stage for every check and
# reported in the evidence; what each theorem really depends on is pinned separately by Print Assumptions.
COQCHK_INT63 = {"Coq.Numbers.Cyclic.Int63." + x for x in """PrimInt63.compares Uint63.mod_spec Uint63.addcarryc_def_spec
PrimInt63.diveucl_21 Uint63.subc_def_spec Uint63.addmuldiv_def_spec Uint63.tail0_spec Uint63.leb_spec Uint63.head0_spec
PrimInt63.addmuldiv PrimInt63.addcarryc Uint63.mulc_spec Uint63.diveucl_def_spec Uint63.add_spec PrimInt63.tail0 PrimInt63.head0
PrimInt63.subc PrimInt63.mulc PrimInt63.mods PrimInt63.lxor PrimInt63.ltsb PrimInt63.lesb PrimInt63.land PrimInt63.divs
PrimInt63.addc PrimInt63.sub PrimInt63.mul PrimInt63.mod PrimInt63.ltb PrimInt63.lsr PrimInt63.lsl PrimInt63.lor PrimInt63.leb
PrimInt63.int PrimInt63.eqb PrimInt63.div PrimInt63.asr PrimInt63.add Uint63.eqb_correct Uint63.lxor_spec Uint63.eqb_refl
PrimInt63.subcarryc Uint63.ltb_spec Uint63.lsr_spec Uint63.lsl_spec Uint63.subcarryc_def_spec Uint63.compare_def_spec
Uint63.div_spec Uint63.mul_spec Uint63.of_to_Z Uint63.sub_spec Uint63.land_spec Uint63.lor_spec PrimInt63.diveucl
Uint63.diveucl_21_spec PrimInt63.compare Uint63.addc_def_spec""".split()}


class Infra(Exception):
    """tooling failure (not a verdict about the property)"""


# --------------------------------------------------------------------------- PRNG
class Rng:
    """SplitMix64; every random choice of a run derives from VERIF_SEED."""

    def __init__(self, seed):
        self.s = seed & 0xFFFFFFFFFFFFFFFF

    def next(self):
        self.s = (self.s + 0x9E3779B97F4A7C15) & 0xFFFFFFFFFFFFFFFF
        z = self.s
        z = ((z ^ (z >> 30)) * 0xBF58476D1CE4E5B9) & 0xFFFFFFFFFFFFFFFF
        z = ((z ^ (z >> 27)) * 0x94D049BB133111EB) & 0xFFFFFFFFFFFFFFFF
        return z ^ (z >> 31)

    def below(self, n):
        return self.next() % n if n > 0 else 0

    def range(self, lo, hi):
        return lo + self.below(hi - lo + 1)

    def choice(self, xs):
        return xs[self.below(len(xs))]

    def chance(self, num, den):
        return self.below(den) < num

    def bits(self, n):
        return [self.next() & 1 for _ in range(n)]

    def bytes(self, n):
        return [self.next() & 0xFF for _ in range(n)]

    def shuffle(self, xs):
        xs = list(xs)
        for i in range(len(xs) - 1, 0, -1):
            j = self.below(i + 1)
            xs[i], xs[j] = xs[j], xs[i]
        return xs

    def fork(self, tag):
        h = hashlib.sha256(("%d/%s" % (self.s, tag)).encode()).digest()
        return Rng(int.from_bytes(h[:8], "big"))


def seed_from_env():
    try:
        return int(os.environ.get("VERIF_SEED", "1"))
    except ValueError:
        return 1


# --------------------------------------------------------------------------- locks
class Lock:
    def __init__(self, name):
        os.makedirs(WORK, exist_ok=True)
        self.path = os.path.join(WORK, name + ".lock")

    def __enter__(self):
        self.f = open(self.path, "w")
        fcntl.flock(self.f, fcntl.LOCK_EX)
        return self

    def __exit__(self, *a):
        fcntl.flock(self.f, fcntl.LOCK_UN)
        self.f.close()


def sh(cmd, cwd=None, timeout=None, env=None):
    e = dict(os.environ)
    e.update({"CARGO_NET_OFFLINE": "true"})
    if env:
        e.update(env)
    try:
        p = subprocess.run(cmd, cwd=cwd, shell=isinstance(cmd, str), stdout=subprocess.PIPE,
                           stderr=subprocess.STDOUT, timeout=timeout, env=e)
        return p.returncode, p.stdout.decode("utf-8", "replace")
    except subprocess.TimeoutExpired as ex:
        out = ex.stdout.decode("utf-8", "replace") if ex.stdout else ""
        return 124, out + "\n[timeout after %ss]" % timeout


# --------------------------------------------------------------------------- translators
# translator -> file under coq/Generated/ for which tools/snapshots/ holds the output at the pinned commit
SNAPSHOTS = {"xlate_consts.py": "Consts.v"}
FALLBACKS = {}


def regenerate(translators=None):
    """Run the named translators (default: every committed xlate_*.py); returns list of error
    strings (empty = ok)."""
    errs = []
    os.makedirs(os.path.join(COQ, "Generated"), exist_ok=True)
    tdir = os.path.join(VERIF, "tools")
    names = sorted(n for n in os.listdir(tdir) if re.fullmatch(r"xlate_[a-z0-9]+\.py", n))
    if translators is not None:
        names = [n for n in names if n in translators]
    with Lock("xlate"):
      for name in names:
        if True:
            rc, out = sh([sys.executable, os.path.join(tdir, name)], timeout=300)
            if rc == 3 and name in SNAPSHOTS and os.path.exists(os.path.join(tdir, "snapshots", SNAPSHOTS[name])):
                # the translator cannot read the source any more (a pinned shape changed: exit 3 = TranslateError).
                # Fall back to the second tie: the model the translator produced from the pinned commit (committed
                # snapshot), tied to the current source by the correspondence check alone.  Recorded in the evidence.
                shutil.copy(os.path.join(tdir, "snapshots", SNAPSHOTS[name]), os.path.join(COQ, "Generated", SNAPSHOTS[name]))
                FALLBACKS[name] = out.strip()[-600:]
                continue
            FALLBACKS.pop(name, None)
            if rc != 0:
                errs.append("%s: %s" % (name, out.strip()[-2000:]))
    return errs


# --------------------------------------------------------------------------- Coq
def dep_cone(files):
    """Transitive closure of `From RS Require ... ` dependencies of the given .v files (paths relative to coq/)."""
    seen = set()
    todo = [f for f in files]
    while todo:
        f = todo.pop()
        if f in seen:
            continue
        p = os.path.join(COQ, f)
        if not os.path.exists(p):
            continue
        seen.add(f)
        txt = open(p, errors="replace").read()
        for m in re.finditer(r"From\s+RS\s+Require\s+(?:Import\s+|Export\s+)?(.*?)\.(?=\s)", txt, re.S):
            for mod in m.group(1).split():
                mod = mod.strip()
                if re.fullmatch(r"[A-Za-z_]\w*(\.[A-Za-z_]\w*)*", mod):
                    todo.append(mod.replace(".", "/") + ".v")
        for m in re.finditer(r"Require\s+(?:Import\s+|Export\s+)?((?:RS\.[\w.]+\s*)+)\.(?=\s)", txt):
            for mod in m.group(1).split():
                todo.append(mod[3:].replace(".", "/") + ".v")
    return sorted(seen)


def scan_forbidden(files=None):
    """grep the development (or the given files, relative to coq/) for forbidden vernacular;
    returns list of 'file:line: text'."""
    bad = []
    paths = []
    if files is None:
        for root, _d, fs in os.walk(COQ):
            for fn in fs:
                if fn.endswith(".v"):
                    paths.append(os.path.join(root, fn))
    else:
        paths = [os.path.join(COQ, f) for f in files]
    for p in sorted(paths):
        if True:
            if not os.path.exists(p):
                continue
            txt = open(p, errors="replace").read()
            # strip comments (nested)
            out = []
            depth = 0
            i = 0
            while i < len(txt):
                if txt.startswith("(*", i):
                    depth += 1
                    i += 2
                elif txt.startswith("*)", i) and depth > 0:
                    depth -= 1
                    i += 2
                else:
                    if depth == 0:
                        out.append(txt[i])
                    elif txt[i] == "\n":
                        out.append("\n")
                    i += 1
            code = "".join(out)
            for ln, line in enumerate(code.split("\n"), 1):
                m = FORBIDDEN.search(line)
                if m:
                    # Section-local Variable/Hypothesis are allowed only inside a Section
                    if m.group(0) in ("Variable", "Variables", "Hypothesis", "Hypotheses") and _in_section(code, ln):
                        continue
                    bad.append("%s:%d: %s" % (os.path.relpath(p, COQ), ln, line.strip()[:120]))
    return bad


def _in_section(code, ln):
    depth = 0
    for i, line in enumerate(code.split("\n"), 1):
        if i >= ln:
            break
        s = line.strip()
        if re.match(r"Section\s+\w+\s*\.", s):
            depth += 1
        elif re.match(r"End\s+\w+\s*\.", s) and depth > 0:
            depth -= 1
    return depth > 0


def gen_coqproject():
    """_CoqProject lists every .v file under coq/ (sorted); rewritten only when the set changes."""
    files = []
    for root, dirs, fs in os.walk(COQ):
        dirs.sort()
        for fn in sorted(fs):
            if fn.endswith(".v"):
                files.append(os.path.relpath(os.path.join(root, fn), COQ))
    txt = "-Q . RS\n" + "\n".join(sorted(files)) + "\n"
    proj = os.path.join(COQ, "_CoqProject")
    if (not os.path.exists(proj)) or open(proj).read() != txt:
        open(proj, "w").write(txt)


def coq_makefile():
    gen_coqproject()
    proj = os.path.join(COQ, "_CoqProject")
    mk = os.path.join(COQ, "Makefile")
    if (not os.path.exists(mk)) or os.path.getmtime(mk) < os.path.getmtime(proj):
        rc, out = sh("coq_makefile -f _CoqProject -o Makefile", cwd=COQ, timeout=120)
        if rc != 0:
            raise Infra("coq_makefile failed: " + out)


def coq_build(targets, force=(), timeout=3000):
    """make the given .vo targets (forcing re-compilation of `force`).  Returns (ok, log)."""
    with Lock("coq"):
        coq_makefile()
        for f in force:
            for ext in (".vo", ".vok", ".vos", ".glob"):
                p = os.path.join(COQ, f[:-3] + ext if f.endswith(".vo") else f + ext)
                if os.path.exists(p):
                    os.remove(p)
        rc, out = sh(["make", "-j%d" % NCPU] + list(targets), cwd=COQ, timeout=timeout)
        return rc == 0, out


def props_obligations(prop_file):
    """Names of the theorems followed by Print Assumptions in Props/<id>.v, in order."""
    txt = open(os.path.join(COQ, prop_file)).read()
    return re.findall(r"^Print Assumptions (\w+)\.", txt, re.M)


def theorem_names(prop_file):
    txt = open(os.path.join(COQ, prop_file)).read()
    return re.findall(r"^(?:Theorem|Corollary|Lemma) (\w+)\b", txt, re.M)


def parse_assumptions(log, names):
    """Match the Print Assumptions blocks of a compile log with theorem names.
    Returns dict name -> 'closed' | [axiom names]"""
    blocks = []
    lines = log.split("\n")
    i = 0
    while i < len(lines):
        l = lines[i]
        if l.startswith("Closed under the global context"):
            blocks.append("closed")
        elif l.startswith("Axioms:"):
            ax = []
            i += 1
            while i < len(lines) and not lines[i].startswith("Axioms:") and not lines[i].startswith("Closed under") and \
                    (lines[i].startswith(" ") or re.match(r"^[\w.']+\s*:", lines[i])):
                m = re.match(r"^([\w.']+)\s*:", lines[i])
                if m:
                    ax.append(m.group(1))
                i += 1
            blocks.append(ax)
            continue
        i += 1
    res = {}
    for k, n in enumerate(names):
        res[n] = blocks[k] if k < len(blocks) else None
    return res


# --------------------------------------------------------------------------- harness
def harness_build(profile="debug", crate=None):
    """Build the harness against the working tree of REPO (default /repo; VERIF_REPO overrides, used for
    mutation testing against a scratch worktree).  Returns (path of the binary | None, build log)."""
    hdir = os.path.join(VERIF, crate) if crate else HARNESS
    name = "verif-harness" if not crate else "verif-" + crate.replace("_", "-")
    with Lock("cargo"):
        if os.path.realpath(REPO) != "/repo":
            # scratch copy of the crate whose path dependencies point at the alternative tree
            tag = hashlib.md5(os.path.realpath(REPO).encode()).hexdigest()[:8]
            alt = os.path.join(WORK, "alt", "%s-%s" % (os.path.basename(hdir), tag))
            os.makedirs(os.path.join(alt, "src"), exist_ok=True)
            os.makedirs(os.path.join(alt, ".cargo"), exist_ok=True)
            for fn in os.listdir(os.path.join(hdir, "src")):
                src = open(os.path.join(hdir, "src", fn)).read()
                dst = os.path.join(alt, "src", fn)
                if (not os.path.exists(dst)) or open(dst).read() != src:
                    open(dst, "w").write(src)
            ct = open(os.path.join(hdir, "Cargo.toml")).read().replace('"/repo', '"' + os.path.realpath(REPO))
            ct = ct.replace('name = "%s"' % name, 'name = "%s-%s"' % (name, tag))
            if (not os.path.exists(os.path.join(alt, "Cargo.toml"))) or open(os.path.join(alt, "Cargo.toml")).read() != ct:
                open(os.path.join(alt, "Cargo.toml"), "w").write(ct)
            open(os.path.join(alt, ".cargo", "config.toml"), "w").write("[net]\noffline = true\n")
            hdir = alt
            name = "%s-%s" % (name, tag)
        lock_src = os.path.join(REPO, "Cargo.lock")
        lock_dst = os.path.join(hdir, "Cargo.lock")
        if os.path.exists(lock_src):
            src = open(lock_src).read()
            if (not os.path.exists(lock_dst)) or _strip_pkg(open(lock_dst).read()) != _strip_pkg(src):
                open(lock_dst, "w").write(src)
        cmd = ["cargo", "build", "--offline", "--quiet"]
        if profile == "release":
            cmd.append("--release")
        rc, out = sh(cmd, cwd=hdir, timeout=3000, env={"CARGO_TARGET_DIR": os.path.join(HARNESS, "target")})
        if rc != 0:
            return None, out
        return os.path.join(HARNESS, "target", profile, name), out


def _strip_pkg(s):
    return re.sub(r'\[\[package\]\]\nname = "verif-harness[^"]*".*?\n\n', "", s, flags=re.S)


def run_harness(binary, command, lines, shards=NCPU, timeout=600, workdir=None):
    """lines: list of 'id args...' strings.  Returns dict id -> list[int] | 'CRASH' | 'TIMEOUT'."""
    workdir = workdir or os.path.join(WORK, "tmp")
    os.makedirs(workdir, exist_ok=True)
    n = max(1, min(shards, (len(lines) + 49) // 50))
    parts = [lines[i::n] for i in range(n)]

    def one(k):
        path = os.path.join(workdir, "%s_cases_%d.txt" % (command, k))
        open(path, "w").write("\n".join(parts[k]) + "\n")
        res = {}
        todo = parts[k]
        # a crash (abort/stack overflow) kills the shard: re-run the rest case by case
        rc, out = sh([binary, command, path], timeout=timeout)
        for l in out.split("\n"):
            t = l.split()
            if t:
                res[t[0]] = _ints(t[1:])
        if rc != 0 or len(res) < len(todo):
            for l in todo:
                cid = l.split()[0]
                if cid in res:
                    continue
                p1 = path + ".one"
                open(p1, "w").write(l + "\n")
                rc1, out1 = sh([binary, command, p1], timeout=60)
                got = None
                for ol in out1.split("\n"):
                    t = ol.split()
                    if t and t[0] == cid:
                        got = _ints(t[1:])
                res[cid] = got if got is not None else ("TIMEOUT" if rc1 == 124 else "CRASH")
        return res

    allres = {}
    with concurrent.futures.ThreadPoolExecutor(max_workers=n) as ex:
        for r in ex.map(one, range(n)):
            allres.update(r)
    return allres


def _ints(toks):
    try:
        return [int(x) for x in toks]
    except ValueError:
        return toks


# --------------------------------------------------------------------------- model evaluation
def coq_eval(imports, exprs, batch=250, timeout=1200, workdir=None, tag="ev"):
    """Evaluate Gallina expressions of type `list N` with vm_compute; returns list of list[int]
    (or None for a batch that failed, with the log in the second component)."""
    workdir = workdir or os.path.join(WORK, "tmp")
    os.makedirs(workdir, exist_ok=True)
    batches = [exprs[i:i + batch] for i in range(0, len(exprs), batch)]

    def one(k):
        name = "%s_%d" % (tag, k)
        path = os.path.join(workdir, name + ".v")
        with open(path, "w") as f:
            f.write("From Coq Require Import List NArith ZArith String.\n")
            f.write("From RS Require Import %s.\n" % " ".join(imports))
            f.write("Import ListNotations.\nLocal Open Scope N_scope.\n")
            f.write("Set Printing Width 2000000000.\nSet Printing Depth 2000000000.\n")
            f.write("Definition cases : list (list N) :=\n [ ")
            f.write(";\n   ".join("(" + e + ")" for e in batches[k]))
            f.write(" ].\nEval vm_compute in cases.\n")
        rc, out = sh(["coqc", "-noglob", "-Q", COQ, "RS", "-o", os.path.join(workdir, name + ".vo"), path],
                     timeout=timeout, cwd=workdir)
        if rc != 0:
            return None, out
        m = re.search(r"^\s*= (\[.*\])\s*$", out, re.M)
        if not m:
            return None, out
        txt = m.group(1).replace("%N", "").replace(";", ",")
        try:
            vals = json.loads(txt)
        except Exception:
            return None, out
        if len(vals) != len(batches[k]):
            return None, out
        return vals, out

    results = []
    logs = []
    with concurrent.futures.ThreadPoolExecutor(max_workers=NCPU) as ex:
        for vals, out in ex.map(one, range(len(batches))):
            if vals is None:
                results.extend([None] * len(batches[len(logs)]))
                logs.append(out)
            else:
                results.extend(vals)
                logs.append("")
    return results, logs


def coq_list(xs):
    return "[" + "; ".join(str(x) for x in xs) + "]"


def coq_opt(x):
    return "None" if x is None else "(Some %d)" % x


# --------------------------------------------------------------------------- findings
def load_findings():
    p = os.path.join(VERIF, "known_findings.json")
    if not os.path.exists(p):
        return []
    return json.load(open(p)).get("findings", [])


def open_findings(prop):
    return [f for f in load_findings() if f.get("property") == prop and f.get("status") == "open"]


# --------------------------------------------------------------------------- evidence / verdict
class Report:
    def __init__(self, prop, tier, seed, level="proof"):
        self.prop = prop
        self.tier = tier
        self.seed = seed
        self.level = level
        self.t0 = time.time()
        self.coverage = {}
        self.assumptions = []
        self.violations = []   # (replay_path, no_input_found:bool, text)
        self.known = []        # text
        self.notes = []
        os.makedirs(os.path.join(WORK, prop), exist_ok=True)

    def workdir(self):
        return os.path.join(WORK, self.prop)

    def violation(self, what, replay_obj, found_input):
        k = len(self.violations)
        path = os.path.join(self.workdir(), "replay_%s_%d_%d.json" % (self.tier, self.seed, k))
        obj = {"property": self.prop, "what": what, "failing_input_found": bool(found_input)}
        obj.update(replay_obj)
        json.dump(obj, open(path, "w"), indent=1, default=str)
        self.violations.append((path, not found_input, what))

    def known_finding(self, text):
        if text not in self.known:
            self.known.append(text)

    def finish(self):
        evid = EVID if os.path.realpath(REPO) == "/repo" else os.path.join(WORK, "evidence_alt")
        os.makedirs(evid, exist_ok=True)
        ev = {
            "property_id": self.prop,
            "tier": self.tier,
            "seed": self.seed,
            "level": self.level,
            "coverage": self.coverage,
            "assumptions": self.assumptions,
            "wall_s": round(time.time() - self.t0, 2),
            "violations": len(self.violations),
        }
        _check_evidence_shape(ev)
        if self.known:
            ev["coverage"]["known_findings_reported"] = self.known
        if self.notes:
            ev["coverage"]["notes"] = self.notes
        json.dump(ev, open(os.path.join(evid, self.prop + ".json"), "w"), indent=1, default=str)
        for t in self.known:
            print("KNOWN-FINDING: property=%s %s" % (self.prop, t))
        for path, noinput, what in self.violations:
            print("# %s" % what)
            print("VIOLATION property=%s replay=%s%s" % (self.prop, path, " no-failing-input-found" if noinput else ""))
        sys.stdout.flush()
        return 1 if self.violations else 0


def _check_evidence_shape(ev):
    """the typed keys of /root/.vp/EVIDENCE.schema.json (a wrong shape makes the evidence worthless)"""
    cov = ev["coverage"]
    for k in ("evaluations", "distinct_nontrivial", "states", "transitions", "traces_validated_against_impl",
              "obligations", "discharged", "programs", "disagreements_checked"):
        if k in cov and not (isinstance(cov[k], int) and not isinstance(cov[k], bool) and cov[k] >= 0):
            raise Infra("evidence key coverage.%s must be a non-negative integer, got %r" % (k, cov[k]))
    for k in ("checker_cmd", "explanation", "rule"):
        if k in cov and not isinstance(cov[k], str):
            raise Infra("evidence key coverage.%s must be a string" % k)
    if "samples" in cov and not isinstance(cov["samples"], list):
        raise Infra("evidence key coverage.samples must be a list")
    if "trusted_base" in cov and not (isinstance(cov["trusted_base"], list) and all(isinstance(x, str) for x in cov["trusted_base"])):
        raise Infra("evidence key coverage.trusted_base must be a list of strings")
    if "exhaustive" in cov and not isinstance(cov["exhaustive"], bool):
        raise Infra("evidence key coverage.exhaustive must be a boolean")
    if not all(isinstance(x, str) for x in ev.get("assumptions", [])):
        raise Infra("evidence key assumptions must be a list of strings")


GENERIC_TRUSTED = [
    "Coq 8.16.1 kernel (coqc), vm_compute for finite sweeps and model evaluation; no native_compute",
    "hand-written Gallina models (modelled, not verified, code) tied to /repo by the correspondence check",
    "Rust harness /verif/harness, python driver/generators/translators in /verif/tools, cargo/rustc",
]


def proof_stage(rep, prop_file, extra_targets=(), allowed_axioms=(), translators=("xlate_consts.py",)):
    """Regenerate, scan, build Props/<id>.vo (forced), check Print Assumptions.
    Fills the proof part of the evidence; returns True when every obligation is discharged."""
    errs = regenerate(translators)
    names = props_obligations(prop_file)
    thms = theorem_names(prop_file)
    rep.coverage["obligations"] = len(names)
    rep.coverage["obligation_names"] = names
    target = prop_file[:-2] + ".vo"
    rep.coverage["checker_cmd"] = "cd /verif/coq && coq_makefile -f _CoqProject -o Makefile && make -j16 %s  (full .vo build; Print Assumptions scanned)" % target
    ok_all = True
    if errs:
        rep.violation("translator failed (tie to source broken): " + "; ".join(errs), {"translator_errors": errs}, False)
        ok_all = False
    used = {n: FALLBACKS[n] for n in (translators or ()) if n in FALLBACKS}
    if used:
        rep.coverage["translator_fallback"] = {
            "what": "the translator could not read the current source (a pinned shape changed); the theorems were checked on the "
                    "model translated from the pinned commit (tools/snapshots/) and that model is tied to the current source by "
                    "the correspondence check of this run alone",
            "translators": used}
        rep.assumptions.append("model not regenerated from the source in this run (%s); tie = correspondence only"
                               % ", ".join(sorted(used)))
    cone = dep_cone([prop_file] + [t[:-1] if t.endswith(".vo") else t for t in extra_targets])
    rep.coverage["coq_files_in_cone"] = len(cone)
    bad = scan_forbidden(cone)
    if bad:
        rep.violation("forbidden vernacular in the Coq development: " + "; ".join(bad[:5]), {"forbidden": bad}, False)
        ok_all = False
    if set(thms) - set(names):
        rep.violation("theorems without Print Assumptions in %s: %s" % (prop_file, sorted(set(thms) - set(names))), {}, False)
        ok_all = False
    ok, log = coq_build([target] + list(extra_targets), force=[target])
    open(os.path.join(rep.workdir(), "coq_build.log"), "w").write(log)
    discharged = 0
    failed = []
    if not ok:
        m = re.search(r'File "\./([^"]+)", line (\d+).*?\n(Error:.*?)(?:\n\n|\nmake)', log, re.S)
        where = ("%s:%s %s" % (m.group(1), m.group(2), m.group(3).replace("\n", " ")[:300])) if m else log[-600:]
        rep.coverage["discharged"] = 0
        rep.coverage["proof_failure"] = where
        rep.proof_broken = where
        return False
    asm = parse_assumptions(log, names)
    for n in names:
        a = asm.get(n)
        if a == "closed":
            discharged += 1
        elif isinstance(a, list) and all(x in allowed_axioms or x in ALLOWED_AXIOMS for x in a):
            discharged += 1
            rep.assumptions.append("%s depends on: %s" % (n, ", ".join(a)))
        else:
            failed.append((n, a))
    rep.coverage["discharged"] = discharged
    if rep.tier == "thorough" and not failed:
        # independent re-check of the compiled theorems and everything they depend on
        mod = "RS." + prop_file[:-2].replace("/", ".")
        rc, out = sh(["coqchk", "-silent", "-o", "-Q", COQ, "RS", mod], cwd=COQ, timeout=3600)
        m = re.search(r"\* Axioms:(.*?)\n\s*\n\* Constants", out, re.S)
        axioms = m.group(1).strip() if m else "?"
        rep.coverage["coqchk"] = {"cmd": "coqchk -silent -o -Q . RS %s" % mod, "exit": rc, "axioms": axioms}
        listed = [a for a in re.findall(r"^\s*([\w.']+)", axioms, re.M) if a not in ("<none>",)]
        bad_ax = [a for a in listed if a not in allowed_axioms and a not in ALLOWED_AXIOMS and a not in COQCHK_INT63]
        if any(a in COQCHK_INT63 for a in listed):
            rep.assumptions.append("coqchk -o lists %d primitives/axioms of the standard library's Coq.Numbers.Cyclic.Int63 "
                                   "(loaded by the executable SHA-256), whether a theorem uses them or not"
                                   % sum(1 for a in listed if a in COQCHK_INT63))
        if rc != 0 or "<none>" not in axioms and bad_ax:
            rep.violation("coqchk does not accept %s (exit %d, axioms: %s)" % (mod, rc, axioms[:300]), {"coqchk": out[-2000:]}, False)
            ok_all = False
    if failed:
        rep.violation("theorems with unexpected assumptions: %s" % failed, {"assumptions": failed}, False)
        ok_all = False
    rep.proof_broken = None
    return ok_all


# --------------------------------------------------------------------------- deciding
class Case:
    __slots__ = ("cid", "kind", "line", "expr", "meta")

    def __init__(self, cid, kind, line, expr, meta=None):
        self.cid = cid      # string id
        self.kind = kind
        self.line = line    # harness arguments (without id)
        self.expr = expr    # Gallina expression : list N   (None = not evaluated in the model)
        self.meta = meta or {}


def decide(rep, cases, impl, model, prop_check, finding_match=None, nontrivial=None, what="correspondence"):
    """Common verdict logic.
    impl: dict cid -> result; model: dict cid -> result (only for cases with expr).
    prop_check(case, impl_result) -> None | (class, text)   -- the property itself, on the implementation
    finding_match(case, impl_result, cls) -> finding id | None
    """
    mism = []
    pfail = []
    known_hits = {}
    distinct = set()
    kinds = {}
    for c in cases:
        r = impl.get(c.cid)
        kinds[c.kind] = kinds.get(c.kind, 0) + 1
        if nontrivial is not None:
            key = nontrivial(c, r)
            if key is not None:
                distinct.add(key)
        pc = prop_check(c, r) if prop_check else None
        if pc is not None:
            fid = finding_match(c, r, pc[0]) if finding_match else None
            if fid:
                known_hits.setdefault(fid, []).append(c)
            else:
                pfail.append((c, r, pc))
        if c.expr is not None and c.cid in model:
            if model[c.cid] != r:
                mism.append((c, r, model[c.cid]))
    cov = rep.coverage
    cov["evaluations"] = cov.get("evaluations", 0) + len(cases)
    cov["distinct_nontrivial"] = cov.get("distinct_nontrivial", 0) + len(distinct)
    cor = cov.setdefault("correspondence", {})
    cor["cases_impl"] = cor.get("cases_impl", 0) + len(cases)
    cor["cases_model"] = cor.get("cases_model", 0) + len([c for c in cases if c.expr is not None and c.cid in model])
    cor["disagreements"] = cor.get("disagreements", 0) + len(mism)
    h = cor.setdefault("kind_histogram", {})
    for k, v in kinds.items():
        h[k] = h.get(k, 0) + v
    srch = cov.setdefault("search", {})
    srch["evaluations"] = srch.get("evaluations", 0) + (len(cases) if prop_check else 0)
    srch["failures"] = srch.get("failures", 0) + len(pfail)
    srch["known_finding_hits"] = srch.get("known_finding_hits", 0) + sum(len(v) for v in known_hits.values())

    for fid, cs in known_hits.items():
        f = [x for x in load_findings() if x["id"] == fid][0]
        smallest = min(cs, key=lambda c: len(c.line))
        rep.known_finding("%s %s (e.g. `%s %s`; %d cases this run)" % (fid, f["what"], smallest.kind, smallest.line, len(cs)))

    def pack(c, r, extra):
        o = {"case": {"id": c.cid, "kind": c.kind, "harness_args": c.line, "model_expr": c.expr, "meta": c.meta},
             "implementation_result": r}
        o.update(extra)
        return o

    if pfail:
        c, r, pc = min(pfail, key=lambda x: len(x[0].line))
        m = model.get(c.cid)
        rep.violation("%s: property fails on the implementation: %s [%s] (%d failing cases)" % (what, pc[1], pc[0], len(pfail)),
                      pack(c, r, {"model_result": m, "failure_class": pc[0], "failing_cases": len(pfail)}), True)
    elif mism:
        c, r, m = min(mism, key=lambda x: len(x[0].line))
        rep.violation("%s broken: model and implementation disagree on %d cases; the property's direct test found no failing input"
                      % (what, len(mism)), pack(c, r, {"model_result": m, "broken": what, "disagreements": len(mism)}), False)
    return pfail, mism


def eval_cases(rep, binary, command, cases, imports, tag=None, batch=250, harness_timeout=600):
    """Run harness and Coq model on the cases."""
    t0 = time.time()
    impl = run_harness(binary, command, ["%s %s %s" % (c.cid, c.kind, c.line) for c in cases],
                       workdir=rep.workdir(), timeout=harness_timeout)
    t1 = time.time()
    mc = [c for c in cases if c.expr is not None]
    vals, logs = coq_eval(imports, [c.expr for c in mc], workdir=rep.workdir(), tag=tag or command, batch=batch)
    t2 = time.time()
    model = {}
    bad = [l for l in logs if l]
    for c, v in zip(mc, vals):
        if v is not None:
            model[c.cid] = v
    cor = rep.coverage.setdefault("correspondence", {})
    cor["impl_eval_s"] = round(cor.get("impl_eval_s", 0) + t1 - t0, 2)
    cor["model_eval_s"] = round(cor.get("model_eval_s", 0) + t2 - t1, 2)
    if bad:
        raise Infra("model evaluation failed in Coq:\n" + bad[0][-3000:])
    return impl, model


def finish_proof_verdict(rep, pfail_total):
    """If the proof stage broke and no concrete failing input was found, report it."""
    if getattr(rep, "proof_broken", None):
        if not pfail_total:
            rep.violation("proof obligation no longer checks: %s; search found no failing input" % rep.proof_broken,
                          {"broken": rep.proof_broken}, False)
