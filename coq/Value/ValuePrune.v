(* Value::prune (explicit task and output stacks) computes the projection [sprune] of the
   denoted element, never panics on well-formed input and never yields a malformed value. *)
From RS Require Import Lib.Tac Lib.Outcome Lib.Bits Lib.Sweep Lib.ListExtra Ty.Ty
  Value.ValueModel Value.ValueBits Value.ValueRefine Value.ValueCons.
Import ListNotations.
Local Open Scope N_scope.

Lemma sprune_refl : forall s t, has_ty s t = true -> sprune s t = Some s.
Proof.
  induction s as [|s IH|s IH|s1 IH1 s2 IH2]; intros t H; destruct t as [|a b|a b]; cbn in H; try discriminate.
  - reflexivity.
  - cbn. rewrite (IH _ H). reflexivity.
  - cbn. rewrite (IH _ H). reflexivity.
  - apply andb_true_iff in H. destruct H as [H1 H2]. cbn. rewrite (IH1 _ H1), (IH2 _ H2). reflexivity.
Qed.

Lemma sprune_one s : sprune s One = Some SU.
Proof. destruct s; reflexivity. Qed.

Lemma ty_le_width : forall s t, ty_le s t = true -> width s <= width t.
Proof.
  induction s as [|s1 IH1 s2 IH2|s1 IH1 s2 IH2]; intros t H; destruct t as [|t1 t2|t1 t2];
    cbn in H; try discriminate; cbn [width]; try lia;
    apply andb_true_iff in H; destruct H as [Ha Hb];
    specialize (IH1 _ Ha); specialize (IH2 _ Hb); lia.
Qed.

Lemma ty_le_small s t : ty_le s t = true -> small t -> small s.
Proof. intros H Hs. unfold small in *. pose proof (ty_le_width _ _ H). lia. Qed.

(* the head constructor of the abstraction follows the type *)
Lemma absv_one v : vty v = One -> absv v = SU.
Proof. intros E. unfold absv. rewrite E. reflexivity. Qed.

Lemma absv_sum v a b : vty v = Sum a b -> exists x, absv v = SL x \/ absv v = SR x.
Proof.
  intros E. unfold absv. rewrite E. cbn [of_padded].
  destruct (vbits v) as [|[|] r]; eexists; eauto.
Qed.

Lemma absv_prod v a b : vty v = Prod a b -> exists x y, absv v = SP x y.
Proof. intros E. unfold absv. rewrite E. cbn [of_padded]. eauto. Qed.

Lemma sprune_not_sum s a b : (forall x, s <> SL x) -> (forall x, s <> SR x) -> sprune s (Sum a b) = None.
Proof. intros H1 H2. destruct s; try reflexivity; [exfalso; eapply H1|exfalso; eapply H2]; reflexivity. Qed.

Lemma sprune_not_prod s a b : (forall x y, s <> SP x y) -> sprune s (Prod a b) = None.
Proof. intros H. destruct s; try reflexivity. exfalso; eapply H; reflexivity. Qed.

Definition prune_ok (v : value) (t : ty) : Prop :=
  match sprune (absv v) t with
  | Some s' =>
      exists v' used, (used <= 2 * tnodes t)%nat /\ WF v' /\ vty v' = t /\ absv v' = s' /\
        forall f st out, prune_run (used + f) (TPrune v t :: st) out = prune_run f st (v' :: out)
  | None =>
      forall n st out, (2 * tnodes t <= n)%nat -> prune_run n (TPrune v t :: st) out = Ok None
  end.

Lemma tnodes_pos t : (1 <= tnodes t)%nat.
Proof. destruct t; cbn; lia. Qed.

(* the case where the types are equal: the value itself is pushed *)
Lemma prune_ok_same v t : WF v -> ty_eqb (vty v) t = true -> prune_ok v t.
Proof.
  intros HW E. pose proof E as Eb. apply ty_eqb_eq in E. unfold prune_ok. subst t.
  rewrite sprune_refl by apply absv_has_ty.
  exists v, 1%nat. split; [pose proof (tnodes_pos (vty v)); lia|]. ssplit; auto.
  intros f st out. change (1 + f)%nat with (S f). cbn [prune_run]. rewrite Eb. reflexivity.
Qed.

Lemma prune_run_value : forall t v, WF v -> small t -> prune_ok v t.
Proof.
  induction t as [|lt IHl rt IHr|lt IHl rt IHr]; intros v HW Hs;
    (match goal with |- prune_ok _ ?t => destruct (ty_eqb (vty v) t) eqn:Eeq end;
     [apply prune_ok_same; assumption|]).
  - (* target unit *)
    unfold prune_ok. rewrite sprune_one. destruct WF_unit as [HWu HAu].
    exists v_unit, 1%nat. split; [cbn; lia|]. ssplit; auto.
    intros f st out. change (1 + f)%nat with (S f). cbn [prune_run]. rewrite Eeq. reflexivity.
  - (* target sum *)
    destruct (small_sum _ _ Hs) as [Hsl Hsr].
    destruct (vty v) as [|a b|a b] eqn:Ev.
    + (* value of unit type *)
      unfold prune_ok. rewrite (absv_one v Ev). cbn [sprune].
      intros n st out Hn. destruct n as [|n]; [cbn in Hn; lia|].
      cbn [prune_run]. rewrite Ev, Eeq.
      destruct (as_left_not_sum v) as [-> ->]; [intros ? ?; rewrite Ev; discriminate|]. reflexivity.
    + pose proof (as_left_spec v a b HW Ev) as HL. pose proof (as_right_spec v a b HW Ev) as HR.
      destruct (getbit (buf v) (off v)).
      * (* right *)
        cbv zeta in HR. destruct HR as (ER & HWr & Habs).
        set (r := mkV (buf v) (off v + 1 + pad_right a b) b) in *.
        specialize (IHr r HWr Hsr). unfold prune_ok in *. rewrite Habs. cbn [sprune].
        destruct (sprune (absv r) rt) as [s1|].
        -- destruct IHr as (v1 & u1 & Hu1 & HW1 & Ht1 & Ha1 & Hrun1).
           destruct (v_right_spec lt v1 HW1 ltac:(rewrite Ht1; exact Hs)) as (x & Ex & HWx & Htx & _ & Hax).
           cbn [option_map].
           exists x, (S (S u1)). split; [cbn [tnodes]; lia|].
           rewrite Ht1 in Htx. rewrite Ha1 in Hax. ssplit; auto.
           intros f st out.
           replace (S (S u1) + f)%nat with (S (u1 + S f)) by lia.
           cbn [prune_run]. rewrite Ev, Eeq, HL, ER.
           rewrite Hrun1. cbn [prune_run]. rewrite Ex. reflexivity.
        -- cbn [option_map]. intros n st out Hn.
           destruct n as [|n]; [cbn [tnodes] in Hn; lia|].
           cbn [prune_run]. rewrite Ev, Eeq, HL, ER.
           apply IHr. cbn [tnodes] in Hn. lia.
      * (* left *)
        cbv zeta in HL. destruct HL as (EL & HWl & Habs).
        set (l := mkV (buf v) (off v + 1 + pad_left a b) a) in *.
        specialize (IHl l HWl Hsl). unfold prune_ok in *. rewrite Habs. cbn [sprune].
        destruct (sprune (absv l) lt) as [s1|].
        -- destruct IHl as (v1 & u1 & Hu1 & HW1 & Ht1 & Ha1 & Hrun1).
           destruct (v_left_spec v1 rt HW1 ltac:(rewrite Ht1; exact Hs)) as (x & Ex & HWx & Htx & _ & Hax).
           cbn [option_map].
           exists x, (S (S u1)). split; [cbn [tnodes]; lia|].
           rewrite Ht1 in Htx. rewrite Ha1 in Hax. ssplit; auto.
           intros f st out.
           replace (S (S u1) + f)%nat with (S (u1 + S f)) by lia.
           cbn [prune_run]. rewrite Ev, Eeq, EL.
           rewrite Hrun1. cbn [prune_run]. rewrite Ex. reflexivity.
        -- cbn [option_map]. intros n st out Hn.
           destruct n as [|n]; [cbn [tnodes] in Hn; lia|].
           cbn [prune_run]. rewrite Ev, Eeq, EL.
           apply IHl. cbn [tnodes] in Hn. lia.
    + (* value of product type *)
      unfold prune_ok. destruct (absv_prod v a b Ev) as (x & y & ->). cbn [sprune].
      intros n st out Hn. destruct n as [|n]; [cbn in Hn; lia|].
      cbn [prune_run]. rewrite Ev, Eeq.
      destruct (as_left_not_sum v) as [-> ->]; [intros ? ?; rewrite Ev; discriminate|]. reflexivity.
  - (* target product *)
    destruct (small_prod _ _ Hs) as [Hsl Hsr].
    destruct (vty v) as [|a b|a b] eqn:Ev.
    + unfold prune_ok. rewrite (absv_one v Ev). cbn [sprune].
      intros n st out Hn. destruct n as [|n]; [cbn in Hn; lia|].
      cbn [prune_run]. rewrite Ev, Eeq.
      rewrite as_product_not_prod by (intros ? ?; rewrite Ev; discriminate). reflexivity.
    + unfold prune_ok. destruct (absv_sum v a b Ev) as (x & [-> | ->]); cbn [sprune];
        intros n st out Hn; (destruct n as [|n]; [cbn in Hn; lia|]);
        cbn [prune_run]; rewrite Ev, Eeq;
        rewrite as_product_not_prod by (intros ? ?; rewrite Ev; discriminate); reflexivity.
    + destruct (as_product_spec v a b HW Ev) as (EP & HWl & HWr & Habs). cbv zeta in *.
      set (l := mkV (buf v) (off v) a) in *. set (r := mkV (buf v) (off v + width a) b) in *.
      specialize (IHl l HWl Hsl). specialize (IHr r HWr Hsr).
      unfold prune_ok in *. rewrite Habs. cbn [sprune].
      destruct (sprune (absv l) lt) as [s1|].
      * destruct IHl as (v1 & u1 & Hu1 & HW1 & Ht1 & Ha1 & Hrun1).
        destruct (sprune (absv r) rt) as [s2|].
        -- destruct IHr as (v2 & u2 & Hu2 & HW2 & Ht2 & Ha2 & Hrun2).
           destruct (v_product_spec v1 v2 HW1 HW2 ltac:(rewrite Ht1, Ht2; exact Hs)) as (x & Ex & HWx & Htx & _ & Hax).
           exists x, (S (S (u1 + u2))). split; [cbn [tnodes]; lia|].
           rewrite Ht1, Ht2 in Htx. rewrite Ha1, Ha2 in Hax. ssplit; auto.
           intros f st out.
           replace (S (S (u1 + u2)) + f)%nat with (S (u1 + (u2 + S f))) by lia.
           cbn [prune_run]. rewrite Ev, Eeq, EP.
           rewrite Hrun1, Hrun2. cbn [prune_run]. rewrite Ex. reflexivity.
        -- intros n st out Hn. cbn [tnodes] in Hn.
           replace n with (S (u1 + (n - S u1)))%nat by lia.
           cbn [prune_run]. rewrite Ev, Eeq, EP. rewrite Hrun1.
           apply IHr. lia.
      * intros n st out Hn. destruct n as [|n]; [cbn [tnodes] in Hn; lia|].
        cbn [prune_run]. rewrite Ev, Eeq, EP.
        apply IHl. cbn [tnodes] in Hn. lia.
Qed.

(* prune is exactly the projection of the denoted element *)
Theorem prune_spec v t : WF v -> small t ->
  match sprune (absv v) t with
  | Some s' => exists v', prune v t = Ok (Some v') /\ WF v' /\ vty v' = t /\ absv v' = s'
  | None => prune v t = Ok None
  end.
Proof.
  intros HW Hs. pose proof (prune_run_value t v HW Hs) as H. unfold prune_ok, prune in *.
  destruct (sprune (absv v) t) as [s'|].
  - destruct H as (v' & used & Hu & HW' & Ht & Ha & Hrun).
    exists v'. ssplit; auto.
    replace (S (2 * tnodes t)) with (used + S (2 * tnodes t - used))%nat by lia.
    rewrite Hrun. reflexivity.
  - rewrite H by lia. reflexivity.
Qed.

Theorem prune_le v t : WF v -> ty_le t (vty v) = true ->
  exists v' s', prune v t = Ok (Some v') /\ WF v' /\ vty v' = t /\
                sprune (absv v) t = Some s' /\ absv v' = s'.
Proof.
  intros HW Hle.
  assert (Hs : small t) by (eapply ty_le_small; [exact Hle|apply HW]).
  destruct (sprune_typed (absv v) (vty v) t (absv_has_ty v) Hle) as (s' & Es & _).
  pose proof (prune_spec v t HW Hs) as H. rewrite Es in H.
  destruct H as (v' & E & HW' & Ht & Ha). exists v', s'. ssplit; auto.
Qed.

(* for every target: no panic, and a value that comes out is well formed at the target type *)
Theorem prune_total v t : WF v -> small t ->
  (exists r, prune v t = Ok r) /\
  (forall v', prune v t = Ok (Some v') -> WF v' /\ vty v' = t /\ sprune (absv v) t = Some (absv v')).
Proof.
  intros HW Hs. pose proof (prune_spec v t HW Hs) as H.
  destruct (sprune (absv v) t) as [s'|].
  - destruct H as (v' & E & HW' & Ht & Ha). split; [eauto|].
    intros v'' E'. rewrite E in E'. injection E' as <-. ssplit; auto. congruence.
  - split; [eauto|]. intros v' E. rewrite H in E. discriminate.
Qed.

(* pruning in two steps equals pruning in one *)
Theorem prune_prune v t1 t2 v1 : WF v -> small t1 -> ty_le t2 t1 = true ->
  prune v t1 = Ok (Some v1) ->
  exists x y, prune v1 t2 = Ok (Some x) /\ prune v t2 = Ok (Some y) /\
              WF x /\ WF y /\ vty x = t2 /\ vty y = t2 /\ absv x = absv y.
Proof.
  intros HW Hs1 Hle E1.
  assert (Hs2 : small t2) by (eapply ty_le_small; eassumption).
  destruct (prune_total v t1 HW Hs1) as [_ H1]. destruct (H1 v1 E1) as (HW1 & Ht1 & Hsp1).
  pose proof (sprune_sprune (absv v) t1 t2 (absv v1) Hle Hsp1) as Hss.
  destruct (sprune_typed (absv v1) t1 t2 ltac:(rewrite <- Ht1; apply absv_has_ty) Hle) as (s2 & Es2 & _).
  pose proof (prune_spec v1 t2 HW1 Hs2) as Hx. rewrite Es2 in Hx.
  pose proof (prune_spec v t2 HW Hs2) as Hy. rewrite <- Hss, Es2 in Hy.
  destruct Hx as (x & Ex & HWx & Htx & Hax). destruct Hy as (y & Ey & HWy & Hty & Hay).
  exists x, y. ssplit; auto. congruence.
Qed.
