(* C02 - decode_expression after the node loop, without typing; ConstructNode::decode's close.
     src/bit_encoding/decode.rs    decode_expression: `for data in (len-1, &nodes).post_order_iter::<InternalSharing>()`
                                   { canonical-order test; conversion with `converted[i].get()?`, hidden_set }
                                   then `converted[len - 1].get()`
     src/node/construct.rs         ConstructNode::decode: decode_expression, then bits.close()
   Type errors raised by the constructors (comp, case, pair, disconnect, assertl/r) are outside this model:
   the correspondence check compares up to this layer when the implementation reports a type error.
   Panic codes: 35 = `converted[i]` out of range, 36 = `converted[len - 1]` / `nodes.len() - 1`. *)
From RS Require Import Lib.Tac Lib.Outcome Lib.Bits Lib.ListExtra Lib.Sweep Bits.Natural Bits.BitIter
  Codec.NodeCodec Codec.Linearise.
Import ListNotations.
Local Open Scope N_scope.

Section Dec.
Variable jet : Type.
Notation dnode := (dnode jet).

(* Converted::{Node, Hidden}: true = Node *)
Definition conv_get (converted : list bool) (i : N) : outcome dec_err unit :=
  match nth_error converted (N.to_nat i) with
  | None => Panic 35
  | Some true => Ok tt
  | Some false => Err EHiddenNode
  end.

Definition cmr_eqb (a b : list N) : bool := list_beq N.eqb a b.
Definition cmr_mem (h : list N) (s : list (list N)) : bool := existsb (cmr_eqb h) s.

(* the `match &nodes[data.node.0]` of the conversion loop: new entry of `converted`, new hidden_set *)
Definition conv_node (d : dnode) (converted : list bool) (hidden : list (list N))
  : outcome dec_err (bool * list (list N)) :=
  match d with
  | DInjL i | DInjR i | DTake i | DDrop i | DDisconnect1 i =>
      match conv_get converted i with
      | Ok _ => Ok (true, hidden)
      | Err e => Err e | Panic c => Panic c | OutOfFuel => OutOfFuel
      end
  | DComp i j | DPair i j | DDisconnect i j =>
      match conv_get converted i with
      | Ok _ =>
          match conv_get converted j with
          | Ok _ => Ok (true, hidden)
          | Err e => Err e | Panic c => Panic c | OutOfFuel => OutOfFuel
          end
      | Err e => Err e | Panic c => Panic c | OutOfFuel => OutOfFuel
      end
  | DCase i j =>
      match nth_error converted (N.to_nat i), nth_error converted (N.to_nat j) with
      | Some a, Some b => if negb a && negb b then Err EBothChildrenHidden else Ok (true, hidden)
      | _, _ => Panic 35
      end
  | DHidden h => if cmr_mem h hidden then Err ESharingNotMaximal else Ok (false, h :: hidden)
  | _ => Ok (true, hidden)
  end.

(* the loop over the yielded items: [k] = data.index, [n] = data.node.0 *)
Fixpoint conv_loop (ns : list dnode) (items : list N) (k : N) (converted : list bool) (hidden : list (list N))
  : outcome dec_err (list bool) :=
  match items with
  | [] => Ok converted
  | n :: rest =>
      if negb (k =? n) then Err ENotInCanonicalOrder else
      match conv_node (node_at ns n) converted hidden with
      | Ok (c, hidden') => conv_loop ns rest (k + 1) (converted ++ [c]) hidden'
      | Err e => Err e | Panic c => Panic c | OutOfFuel => OutOfFuel
      end
  end.

(* decode_expression, second part.  The node loop guarantees len >= 1. *)
Definition dec_struct (ns : list dnode) : outcome dec_err unit :=
  if Nat.eqb (length ns) 0 then Panic 36 else
  match conv_loop ns (order_of ns key_ptr) 0 [] [] with
  | Ok converted => conv_get converted (N.of_nat (length ns) - 1)
  | Err e => Err e | Panic c => Panic c | OutOfFuel => OutOfFuel
  end.

(* the canonical-order test on its own *)
Definition order_ok (ns : list dnode) : bool :=
  list_beq N.eqb (order_of ns key_ptr) (upto (length ns)).

End Dec.

Arguments conv_node {jet} d converted hidden.
Arguments conv_loop {jet} ns items k converted hidden.
Arguments dec_struct {jet} ns.
Arguments order_ok {jet} ns.

(* ------------------------------------------------------------------ closing the stream *)
(* `bits.close()`: the state of the cached-byte reader (Bits/BitIter.v) after [pos] bits of [bytes] have been
   read - ceil(pos / 8) bytes pulled, the last of them cached, read_bits = pos mod 8 (8 when aligned; also
   the initial state) - and bi_close on it.  A further byte is TrailingBytes, non-zero unread bits of the
   cached byte are IllegalPadding. *)
Definition reader_after (bytes : list N) (pos : N) : biter :=
  let pulled := (pos + 7) / 8 in
  mkBiter (skipn (N.to_nat pulled) bytes)
          (if pulled =? 0 then 0 else nth (N.to_nat (pulled - 1)) bytes 0)
          (if pos mod 8 =? 0 then 8 else pos mod 8)
          pos.

Definition close_after (bytes : list N) (pos : N) : outcome close_err unit :=
  bi_close (reader_after bytes pos).
