"""C07 - Static resource bounds cover every execution."""
import json
import os

import proggen as pg
import vplib
from vplib import Case
from props import core_common as cc

PROP = "C07"
LEVEL = "proof"
IMPORTS = cc.IMPORTS


# ------------------------------------------------------------------ programs over a shared type table
class TyTab:
    """types with sharing: entry i = ('u',) | ('s', i, j) | ('p', i, j); widths saturate like Final::sum/product"""

    def __init__(self):
        self.tab = [("u",)]
        self.w = [0]
        self.memo = {("u",): 0}

    def _add(self, e):
        if e in self.memo:
            return self.memo[e]
        if e[0] == "s":
            w = cc.sat(max(self.w[e[1]], self.w[e[2]]) + 1)
        else:
            w = cc.sat(self.w[e[1]] + self.w[e[2]])
        self.tab.append(e)
        self.w.append(w)
        self.memo[e] = len(self.tab) - 1
        return len(self.tab) - 1

    def sum(self, i, j):
        return self._add(("s", i, j))

    def prod(self, i, j):
        return self._add(("p", i, j))

    def word(self, n):
        t = self.sum(0, 0)
        for _ in range(n):
            t = self.prod(t, t)
        return t

    def coq(self):
        return "[" + "; ".join("TyU" if e[0] == "u" else "Ty%s %d %d" % ("S" if e[0] == "s" else "P", e[1], e[2])
                               for e in self.tab) + "]"


class TabProg:
    """node table whose arrows are indices into a TyTab (assigned by construction)"""

    def __init__(self):
        self.tt = TyTab()
        self.nodes = []
        self.ar = []

    def add(self, node, s, t):
        self.nodes.append(node)
        self.ar.append((s, t))
        return len(self.nodes) - 1

    def word(self, n):
        return self.add(("word", n, [0] * (2 ** n)), 0, self.tt.word(n))

    def unit(self, s):
        return self.add(("unit",), s, 0)

    def iden(self, s):
        return self.add(("iden",), s, s)

    def pair(self, i, j):
        assert self.ar[i][0] == self.ar[j][0]
        return self.add(("pair", i, j), self.ar[i][0], self.tt.prod(self.ar[i][1], self.ar[j][1]))

    def comp(self, i, j):
        assert self.ar[i][1] == self.ar[j][0], (self.ar[i], self.ar[j])
        return self.add(("comp", i, j), self.ar[i][0], self.ar[j][1])

    def injl(self, i, other):
        return self.add(("injl", i), self.ar[i][0], self.tt.sum(self.ar[i][1], other))

    def jet(self, name, s, t):
        return self.add(("jet", "c", name), s, t)

    def big(self, w):
        """index of a term 1 -> T with bit width exactly w (sum of doubled words), O(log w) nodes"""
        parts = []
        for k in range(0, 3):
            if (w >> k) & 1:
                parts.append(self.word(k))
        rest = w >> 3
        d = None
        k = 0
        while rest:
            d = self.word(3) if d is None else self.pair(d, d)
            if rest & 1:
                parts.append(d)
            rest >>= 1
            k += 1
        if not parts:
            return self.unit(0)
        t = parts[0]
        for p in parts[1:]:
            t = self.pair(p, t)
        return t

    def widths(self):
        return [(self.tt.w[s], self.tt.w[t]) for s, t in self.ar]

    def coq_nodes(self, jet_ids):
        return "[" + "; ".join("(%s, (%d%%nat, %d%%nat))" % (cc.node_coq(n, jet_ids), s, t)
                               for n, (s, t) in zip(self.nodes, self.ar)) + "]"


def fam_target(w):
    """1 -> T_w: target width w"""
    p = TabProg()
    p.big(w)
    return p


def fam_mid(w):
    """comp big(w) unit : 1 -> 1, extra cells w"""
    p = TabProg()
    b = p.big(w)
    u = p.unit(p.ar[b][1])
    p.comp(b, u)
    return p


def fam_bomb(depth):
    """the F-C07 witness: `depth` nested pairs of a byte, composed with comp (injl unit) unit"""
    p = TabProg()
    b = p.word(3)
    for _ in range(depth):
        b = p.pair(b, b)
    T = p.ar[b][1]
    u1 = p.unit(T)
    inj = p.injl(u1, 0)
    u2 = p.unit(p.ar[inj][1])
    inner = p.comp(inj, u2)
    p.comp(b, inner)
    return p


def fam_io(w1, w2):
    """2^8 -> T2 with extra cells 8 + w1, target width w2; exec without input stops at once"""
    p = TabProg()
    w8 = p.tt.word(3)
    j = p.jet("complement_8", w8, w8)
    u = p.unit(w8)
    b1 = p.big(w1)
    c1 = p.comp(u, b1)
    P = p.pair(j, c1)
    u2 = p.unit(p.ar[P][1])
    b2 = p.big(w2)
    Q = p.comp(u2, b2)
    p.comp(P, Q)
    return p


# ------------------------------------------------------------------ generators
def gen_cases(rng, tier, binary, workdir):
    jl, costs = cc.jet_tables(binary, workdir)
    spec = cc.specified_jets(workdir)
    jet_ids = {("c", j[1]): j[0] for j in jl}
    sjets = [j for j in jl if j[0] in spec]
    exec_cases = []
    lim_cases = []
    k = [0]

    # ---- 1. the limits families (table model; harness kind `limits`, both profiles)
    def lim(p, meta):
        k[0] += 1
        line = "0 %s" % pg.prog_pdl(p.nodes)
        for prof in (0, 1):
            expr = "run_limits %d %s %s %s" % (prof, p.tt.coq(), p.coq_nodes(jet_ids), cc.coq_costs(p.nodes, jet_ids, costs))
            m = {"tabprog": p, "prof": prof}
            m.update(meta)
            lim_cases.append(Case("l%d_%d" % (k[0], prof), "limits", line, expr, m))

    M = cc.MAX_CELLS
    ws = [0, 1, 7, 8, 9, 255, 4096, 2**20 + 3, M - 9, M - 8, M - 1, M, M + 1, M + 2, 2**32 - 1, 2**32, 2**40 + 5,
          2**63, 2**64 - 9, 2**64 - 8, 2**64 - 2, 2**64 - 1, 2**64, 2**64 + 8, 2**65, 2**70]
    r1 = rng.fork("limits")
    for _ in range(6 if tier == "quick" else 60):
        ws.append(r1.range(0, 2 ** r1.range(1, 66)))
        ws.append(M + r1.range(-40, 40))
    for w in ws:
        if w < 0:
            continue
        lim(fam_target(w), {"fam": "target", "w": w})
        lim(fam_mid(w), {"fam": "mid", "w": w})
    for d in list(range(0, 8)) + [20, 27, 28, 29, 40, 59, 60, 61, 62, 63, 64, 69, 70, 71, 75, 90]:
        lim(fam_bomb(d), {"fam": "bomb", "depth": d})
    pairs = [(0, 0), (M - 16, 0), (M - 15, 0), (0, M - 8), (0, M - 7), (M - 8, M - 8), (1000, M - 1008 - 8), (1000, M - 1008 - 7),
             (M // 2, M // 2 - 8), (M // 2, M // 2 - 7), (M - 16, 1), (2**64 - 9, 5), (2**64 - 8, 0), (2**64, 2**64)]
    for _ in range(6 if tier == "quick" else 60):
        a = r1.range(0, M)
        pairs.append((a, max(0, M - a - 16 + r1.range(-3, 3))))
    for w1, w2 in pairs:
        lim(fam_io(w1, w2), {"fam": "io", "w1": w1, "w2": w2})

    # ---- 2. executions of moderately wide table programs (search only): the frames really get that big
    def ex_tab(p, meta):
        k[0] += 1
        m = {"tabprog": p, "gen": "wide"}
        m.update(meta)
        exec_cases.append(Case("w%d" % k[0], "exec", "0 %s -" % pg.prog_pdl(p.nodes), None, m))

    for w in [0, 1, 9, 257, 5000, 2**16 + 5] + ([2**20 + 1] if tier != "quick" else []):
        ex_tab(fam_target(w), {"fam": "target", "w": w})
        ex_tab(fam_mid(w), {"fam": "mid", "w": w})
    for d in (0, 1, 5, 10):
        ex_tab(fam_bomb(d), {"fam": "bomb", "depth": d})

    # ---- 3. type-directed programs with nested comp / disconnect, wide types, unequal case branches
    nstruct = 700 if tier == "quick" else 4500
    opts = {"comp": 55, "disconnect": 25, "witness": 18, "share": 30, "hidden": 8, "fail": 1}
    r2 = rng.fork("structs")
    structs = cc.gen_structures(r2, nstruct, opts=opts, depth=7, jets=sjets)
    # comp chains through wide middle types
    for _ in range(nstruct // 8):
        a = cc.gen_types(r2, True)
        tys = [pg.word(r2.range(0, 6)) if r2.chance(1, 2) else pg.rand_ty(r2, 3) for _i in range(r2.range(2, 6))]
        bld2 = pg.Builder(r2, opts)
        prev_t = a
        node = None
        for t in tys:
            nxt = bld2.gen(prev_t, t, r2.range(1, 3))
            node = nxt if node is None else bld2.add(("comp", node, nxt))
            prev_t = t
        structs.append(pg.compact_prog(bld2.nodes))
    structs += cc.template_programs(rng.fork("templates"), 6 if tier == "quick" else 40)[:: (3 if tier == "quick" else 1)]
    infos = cc.harness_info(binary, structs, workdir)
    r3 = rng.fork("fill")
    rejected = 0
    for s, inf in zip(structs, infos):
        if inf[0] == "err":
            rejected += 1
            continue
        arrows, cmrs = inf
        prog = pg.fill_witnesses(r3, s, arrows)
        st = arrows[-1][0]
        for _ in range(1 if tier == "quick" else 2):
            v = pg.rand_value(r3, st)
            inp = (st, cc.rand_padded(r3, st, v))
            if pg.width(st) == 0 and r3.chance(1, 2):
                inp = None
            k[0] += 1
            for prof in ((0,) if r3.chance(3, 4) else (0, 1)):
                exec_cases.append(cc.make_exec_case("e%d_%d" % (k[0], prof), prog, arrows, cmrs, inp, jet_ids, costs, prof=prof,
                                                    meta={"value": v, "gen": "random", "prof": prof}))
    return lim_cases, exec_cases, {"structures": len(structs), "rejected_by_inference": rejected}


# ------------------------------------------------------------------ the property, on the implementation
def case_widths(c):
    m = c.meta
    if "tabprog" in m:
        p = m["tabprog"]
        return p.widths(), p.nodes
    if "arrows" in m:
        return [None if a is None else (pg.width(a[0]), pg.width(a[1])) for a in m["arrows"]], m["prog"]
    return None, None


def formula_check(c, r, jet_ids, costs):
    """second tie (not the property): NodeBounds reported = the formulas written independently in python"""
    d = cc.split_exec(r)
    widths, nodes = case_widths(c)
    if widths is None or "ec" not in d:
        return None
    pb = cc.py_bounds(nodes, widths, costs, jet_ids)[-1]
    if (d["ec"], d["ef"], d["cost"]) != pb:
        return "NodeBounds %s differ from the reference formulas %s on %s" % ((d["ec"], d["ef"], d["cost"]), pb, c.line[:200])
    return None


def prop_check(c, r, jet_ids, costs):
    m = c.meta
    d = cc.split_exec(r)
    # never a panic: bounds computation, for_program, execution
    if d["tag"] in ("crash", "panic-early", "panic"):
        return ("panic", "panic or crash (bounds computation, for_program or execution) on %s %s" % (c.kind, c.line[:200]))
    if "corpus" in m:
        if m.get("expect") == "refused" and d["tag"] != "limit":
            return ("accepted-over-limit", "the F-C07 witness was not refused by for_program: %s" % (r[:12],))
        return None
    if d["tag"] == "build":
        return ("build", "generated program rejected when building (code %s): %s" % (d.get("code"), c.line[:200]))
    widths, _nodes = case_widths(c)
    if widths is not None and (d["sw"], d["tw"]) != widths[-1]:
        return ("widths", "root arrow widths %s differ from the type structure %s" % ((d["sw"], d["tw"]), widths[-1]))
    # the machine refuses exactly the programs whose sums exceed the limits
    exp = cc.py_limit(d["sw"], d["tw"], d["ec"], d["ef"])
    if exp is None and d["tag"] == "limit":
        return ("refused-within-limits", "for_program refused a program within the limits: %s" % (d["limit"],))
    if exp is not None:
        if d["tag"] != "limit":
            return ("accepted-over-limit", "for_program accepted a program over the limits (%s): sw=%d tw=%d cells=%d frames=%d"
                    % (exp, d["sw"], d["tw"], d["ec"], d["ef"]))
        if (d["limit"][0], d["limit"][1], d["limit"][3]) != exp:
            return ("limit-error", "LimitError %s, expected %s" % (d["limit"], exp))
        return None
    # sized from the bounds
    need = d["sw"] + d["tw"] + d["ec"]
    if d["capc"] < need or d["capc"] != 8 * ((need + 7) // 8) or d["capf"] != d["ef"] + 2:
        return ("allocation", "machine sized %d cells / %d frames for io+extra = %d cells, %d+2 frames" % (d["capc"], d["capf"], need, d["ef"]))
    if d["tag"] == "accepted":
        return None
    # executed: the high-water marks stay within the static bounds and the allocation, on failing paths too
    if d["hwc"] > need:
        return ("cells-exceed-bound", "used %d cells, bound io %d + extra %d on %s" % (d["hwc"], d["sw"] + d["tw"], d["ec"], c.line[:300]))
    if d["hwf"] > d["ef"] + 2:
        return ("frames-exceed-bound", "used %d frames, bound %d + 2 on %s" % (d["hwf"], d["ef"], c.line[:300]))
    return None


def nontrivial(c, r):
    m = c.meta
    if c.kind == "limits":
        return ("limits", m.get("fam"), m.get("w"), m.get("depth"), m.get("w1"), m.get("w2"))
    if "prog" in m and cc.interesting(m["prog"], m["arrows"]):
        d = cc.split_exec(r)
        return (hash(cc.shape_key(m["prog"])), tuple(m["inp"][1]) if m["inp"] else (), d.get("ec"), d.get("ef"))
    return None


def corpus_cases():
    out = []
    for i, (fn, ln, kind, rest) in enumerate(cc.load_corpus(PROP)):
        meta = {"corpus": "%s:%d" % (fn, ln)}
        if fn.startswith("refused"):
            meta["expect"] = "refused"
        out.append(Case("k%d" % i, kind, rest, None, meta))
    return out


def run(rep, tier, rng):
    vplib.proof_stage(rep, "Props/C07.v", extra_targets=cc.EXTRA_TARGETS)
    rep.coverage["trusted_base"] = vplib.GENERIC_TRUSTED + [
        "models Core/{Bounds,Limits,Machine}.v written by hand from analysis.rs (NodeBounds), node/redeem.rs (RedeemData::new), "
        "bit_machine/{mod,limits}.rs; MAX_CELLS / MAX_FRAMES / OVERHEAD regenerated (Generated/Consts.v)",
        "high-water marks are those of the `verif-hooks` feature (max next_frame_start, max read+write stack depth, updated in new_write_frame)",
        "usize is 64 bits (the harness platform); widths saturate as Final::sum/product do",
        "the frame-count limits (comparisons 5 and 6 of check_program) are covered by proof and reading only: a program with 2^20 nested "
        "comp cannot be built without overflowing the native stack in type inference (finding F-C02)",
    ]
    rep.coverage["refuted_lemmas"] = ["bounds_old_refuted (the formula before commit 5363d4e; fixed finding F-C07)"]
    bdebug = cc.build("debug")
    brelease = cc.build("release")
    jl, costs = cc.jet_tables(bdebug, rep.workdir())
    jet_ids = {("c", j[1]): j[0] for j in jl}

    formula_bad = []

    def pc(c, r):
        res = prop_check(c, r, jet_ids, costs)
        if res is None and "corpus" not in c.meta:
            f = formula_check(c, r, jet_ids, costs)
            if f:
                formula_bad.append((c, r, f))
        return res

    total_fail = []
    # corpus first, in both build profiles
    corp = corpus_cases()
    for prof, binary in (("debug", bdebug), ("release", brelease)):
        if not corp:
            break
        cs = [Case(c.cid + prof[0], c.kind, c.line, None, dict(c.meta, profile=prof)) for c in corp]
        impl = vplib.run_harness(binary, "core", ["%s %s %s" % (c.cid, c.kind, c.line) for c in cs], workdir=rep.workdir())
        pf, _ = vplib.decide(rep, cs, impl, {}, pc, None, None, what="corpus (%s build)" % prof)
        total_fail += pf
    lim_cases, exec_cases, notes = gen_cases(rng, tier, bdebug, rep.workdir())
    # limits: debug results for profile 0 cases, release results for profile 1 cases
    for prof, binary in ((0, bdebug), (1, brelease)):
        cs = [c for c in lim_cases if c.meta["prof"] == prof]
        impl, model = vplib.eval_cases(rep, binary, "core", cs, IMPORTS, tag="c07lim%d" % prof, batch=40)
        pf, _ = vplib.decide(rep, cs, impl, model, pc, None, nontrivial,
                             what="correspondence Core/Run.v (run_limits) vs for_program, %s build" % ("debug" if prof == 0 else "release"))
        total_fail += pf
    tags = {}
    for prof, binary in ((0, bdebug), (1, brelease)):
        cs = [c for c in exec_cases if c.meta.get("prof", 0) == prof]
        if not cs:
            continue
        impl, model = vplib.eval_cases(rep, binary, "core", cs, IMPORTS, tag="c07ex%d" % prof, batch=60)
        pf, _ = vplib.decide(rep, cs, impl, model, pc, None, nontrivial,
                             what="correspondence Core/Run2.v (run_exec3) vs BitMachine, %s build" % ("debug" if prof == 0 else "release"))
        total_fail += pf
        for c in cs:
            t = cc.split_exec(impl.get(c.cid))["tag"]
            tags[t] = tags.get(t, 0) + 1
        if prof == 0:
            rep.coverage["samples"] = [{"args": c.line[:300], "impl": impl.get(c.cid)} for c in cs[:: max(1, len(cs) // 5)][:6]]
    rep.coverage["verdict_histogram"] = tags
    rep.coverage["generation"] = notes
    rep.coverage["rule"] = ("(a) programs over huge shared types (exact widths around MAX_CELLS, 2^32, 2^64 and beyond, the F-C07 bomb at depths "
                            "0..90, io + extra sums straddling the limit) compared on bounds, refusal and allocation in debug and release builds; "
                            "(b) type-directed programs rich in nested comp/disconnect, wide middle types, witnesses and unequal case branches, "
                            "executed: high-water marks <= static bounds <= allocation, never a panic, all compared with the machine model. "
                            "Distinct non-trivial = limits case by parameters; executed program containing a case or a comp through a padded "
                            "type by (shape, input, bounds)")
    rep.coverage["reference_formulas"] = {"disagreements": len(formula_bad)}
    if formula_bad and not total_fail:
        c, r, f = min(formula_bad, key=lambda x: len(x[0].line))
        rep.violation("second tie broken: %s (%d cases); the property's direct test found no failing input" % (f, len(formula_bad)),
                      {"case": {"kind": c.kind, "harness_args": c.line}, "implementation_result": r}, False)
    vplib.finish_proof_verdict(rep, total_fail)


def replay(obj):
    print(json.dumps(obj, indent=1)[:6000])
    c = obj.get("case")
    if not c or "id" not in c:
        return 0
    case = Case(c["id"], c["kind"], c["harness_args"], c["model_expr"], {})
    rep = vplib.Report(PROP, "quick", 0)
    for prof in ("debug", "release"):
        binary = cc.build(prof)
        impl, model = vplib.eval_cases(rep, binary, "core", [case], IMPORTS, tag="replay")
        print("implementation (%s):" % prof, impl.get(case.cid))
        print("model               :", model.get(case.cid))
    return 0
