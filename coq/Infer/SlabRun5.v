(* C04, phase 4 - the construction stage is total up to the assertion of reassign_non_complete, for tables of fewer than 2^32
   nodes (construct_total), hence the run-level refinement with an explicit size bound and that single hypothesis. *)
From RS Require Import Lib.Tac Lib.Outcome Lib.Sweep Ty.Ty Core.Prog Infer.Constraints Infer.Unify Infer.Infer Infer.Gen Infer.Theorems
  Infer.Principal Infer.Order Infer.Run Infer.Run2 Infer.UnionFind Infer.Slab Infer.RunSlab Infer.SlabProofs Infer.Rational Infer.ErrClass
  Infer.SlabSim Infer.SlabSimInst Infer.SlabPrims Infer.SlabNodes Infer.SlabNodes2 Infer.SlabNodes3 Infer.SlabNodes4 Infer.SlabNodes5
  Infer.SlabConstruct Infer.SlabResult Infer.SlabRun Infer.SlabFin Infer.SlabFinK Infer.SlabRun2 Infer.OrderRun Infer.SlabCov Infer.SlabWfd
  Infer.SlabRun3 Infer.SlabTotal Infer.SlabRun4 Infer.SlabNoP10 Infer.SlabTotalBind Infer.SlabTotalNodes.
Import ListNotations.
Local Open Scope outcome_scope.

Lemma tdepth_le_nums t : (tdepth t <= length (nums_of_ty t))%nat.
Proof. induction t as [|a IHa b IHb|a IHa b IHb]; cbn [tdepth nums_of_ty length]; rewrite ?app_length; lia. Qed.

Lemma tdb_ge jt : forall fam id gs gt, jet_lookup jt fam id = Some (gs, gt) ->
  (length (nums_of_ty (gty_ty gs)) <= ty_depth_bound jt)%nat /\ (length (nums_of_ty (gty_ty gt)) <= ty_depth_bound jt)%nat.
Proof.
  induction jt as [|[[[f i] s] t] r IH]; intros fam id gs gt H; cbn [jet_lookup] in H; [discriminate|].
  cbn [ty_depth_bound fold_right]. destruct (N.eqb f fam && N.eqb i id)%bool.
  - injection H as <- <-. fold (ty_depth_bound r). lia.
  - destruct (IH fam id gs gt H). fold (ty_depth_bound r). lia.
Qed.

Lemma Inv3_empty L : Inv3 L empty_ctx L 0.
Proof.
  destruct Sim_empty as [(CW & _) _ _]. split; [exact CW|]. split; [unfold RKI; cbn; lia|]. split; [cbn; lia|cbn; lia].
Qed.

Theorem construct_total jt program p root g : gen jt p = Some g -> (N.of_nat (length p) < 2 ^ 32)%N ->
  okr (r_construct (model_fuel jt p) jt program p root) (fun _ => True).
Proof.
  intros G Hsz. set (L := (33 + ty_depth_bound jt)%nat). set (F := model_fuel jt p).
  assert (HL : (33 <= L)%nat) by (unfold L; lia).
  assert (Hjet : forall fam id gs gt, jet_lookup jt fam id = Some (gs, gt) -> (tdepth (gty_ty gs) <= L)%nat /\ (tdepth (gty_ty gt) <= L)%nat).
  { intros fam id gs gt H. destruct (tdb_ge jt fam id gs gt H). pose proof (tdepth_le_nums (gty_ty gs)). pose proof (tdepth_le_nums (gty_ty gt)). unfold L. lia. }
  assert (HU : (usize_max = 18446744073709551615)%N) by reflexivity.
  unfold r_construct.
  pose proof (r_nodes_sim F jt p empty_ctx [] [] (fun e => e) [] g Sim_empty ltac:(intros ch x y E; destruct ch; discriminate) G) as Ns.
  pose proof (r_nodes_total L F jt HL Hjet p empty_ctx [] [] (fun e => e) [] g L 0 Sim_empty (Inv3_empty L)
                ltac:(intros ch x y E; destruct ch; discriminate) G ltac:(unfold F, model_fuel, L; lia) ltac:(lia)) as Nt.
  destruct (r_nodes F jt empty_ctx [] p) as [[c ar]|[[|st ex nb|] ce]|k|]; cbn [obind okr] in *; auto.
  destruct Ns as (em & S0 & Ea & Ai).
  destruct program; [|exact I].
  destruct (nth root ar None) as [[x y]|] eqn:Er; [|exact I].
  destruct (Ai root x y ltac:(rewrite arr_of_nth; exact Er)) as [Lx Ly].
  pose proof (set_program_total L F HL c _ _ x y Nt Lx Ly ltac:(unfold F, model_fuel, L; lia) ltac:(lia)) as Sp.
  destruct (r_set_program F c (x, y)) as [c'|e|k|]; cbn [obind okr] in *; auto.
Qed.

Theorem run_refines_bounded : forall (fmode : nat) (program : bool) (order : list nat)
    (jets : list (N * N * list N * list N)) (p : prog),
  (N.of_nat (length p) < 2 ^ 32)%N ->
  run_construct program order jets p <> Panic 10%N ->
  strip99 (run_rinfer fmode program order jets p) = run_infer program order jets p.
Proof.
  intros fmode program order jets p Hsz Tc.
  apply run_refines_nopanic.
  - (* not a panic *)
    intros k Hb. unfold run_rinfer, run_construct in *.
    set (n := length p) in *. set (order' := match order with [] => seq 0 n | _ => order end) in *.
    destruct (valid_order n order') eqn:V; cbn [negb] in Hb; [|discriminate].
    set (pos := pos_of order') in *. set (jt := jets_of jets) in *. set (p' := permute p order') in *.
    destruct (gen jt p') as [g|] eqn:G; [|discriminate].
    destruct (program && match nth (n - 1) p NIden with NHidden _ => true | _ => false end)%bool eqn:Chk; [discriminate|].
    rewrite r_infer_split in Hb.
    assert (Lp' : length p' = n).
    { unfold p', permute. rewrite map_length. unfold valid_order in V. apply andb_true_iff in V. destruct V as [VL _]. apply Nat.eqb_eq in VL. exact VL. }
    pose proof (construct_total jt program p' (pos (n - 1)%nat) g G ltac:(rewrite Lp'; exact Hsz)) as CT.
    assert (Ef : model_fuel jt p' = model_fuel jt p) by (unfold model_fuel; rewrite Lp'; reflexivity). rewrite Ef in CT.
    destruct (r_construct (model_fuel jt p) jt program p' (pos (n - 1)%nat)) as [[c ar]|[[|st ex nb|] ce]|k0|] eqn:Ec; cbn [obind show_rresult okr] in Hb, CT;
      try discriminate; try (exact CT); try (subst k0; exact (Tc eq_refl)).
    assert (CA : cwf c /\ arr_in (length (c_uf c)) ar).
    { destruct (root_tmpl g (if program then Some (pos (n - 1)%nat) else None)) as [[rb re]|] eqn:R.
      - pose proof (construct_sim (model_fuel jt p) jt program p' (pos (n - 1)%nat) g rb re G R) as CS. rewrite Ec in CS.
        destruct CS as [(em & S0 & _ & Ai) _]. destruct S0 as [(CW & _) _ _]. split; assumption.
      - (* no constraints for the root: the construction stage cannot succeed *)
        exfalso. destruct program; [|discriminate R].
        unfold r_construct in Ec.
        pose proof (r_nodes_sim (model_fuel jt p) jt p' empty_ctx [] [] (fun e => e) [] g Sim_empty ltac:(intros ch x y E; destruct ch; discriminate) G) as Ns.
        destruct (r_nodes (model_fuel jt p) jt empty_ctx [] p') as [[c0 ar0]|e0| |]; cbn [obind] in Ec; try discriminate.
        destruct Ns as (em & _ & Ea & _). cbn [root_tmpl] in R. rewrite Ea, arr_of_amap, arr_of_nth in R.
        destruct (nth (pos (n - 1)%nat) ar0 None) as [[x y]|]; [discriminate R|]. discriminate Ec. }
    destruct CA as [CW Ai].
    pose proof (r_finish_total fmode p' (map pos (seq 0 n)) (pos (n - 1)%nat) c ar CW Ai) as Tf.
    destruct (r_finish fmode p' (map pos (seq 0 n)) (pos (n - 1)%nat) c ar) as [tau|[[|st ex nb|] cx]|k1|]; cbn [show_rresult] in Hb; try discriminate; exact Tf.
  - intros Hb. unfold run_rinfer, run_construct in *.
    set (n := length p) in *. set (order' := match order with [] => seq 0 n | _ => order end) in *.
    destruct (valid_order n order') eqn:V; cbn [negb] in Hb; [|discriminate].
    set (pos := pos_of order') in *. set (jt := jets_of jets) in *. set (p' := permute p order') in *.
    destruct (gen jt p') as [g|] eqn:G; [|discriminate].
    destruct (program && match nth (n - 1) p NIden with NHidden _ => true | _ => false end)%bool eqn:Chk; [discriminate|].
    rewrite r_infer_split in Hb.
    assert (Lp' : length p' = n).
    { unfold p', permute. rewrite map_length. unfold valid_order in V. apply andb_true_iff in V. destruct V as [VL _]. apply Nat.eqb_eq in VL. exact VL. }
    pose proof (construct_total jt program p' (pos (n - 1)%nat) g G ltac:(rewrite Lp'; exact Hsz)) as CT.
    assert (Ef : model_fuel jt p' = model_fuel jt p) by (unfold model_fuel; rewrite Lp'; reflexivity). rewrite Ef in CT.
    destruct (r_construct (model_fuel jt p) jt program p' (pos (n - 1)%nat)) as [[c ar]|[[|st ex nb|] ce]|k0|] eqn:Ec; cbn [obind show_rresult okr] in Hb, CT;
      try discriminate; try (exact CT); try (subst k0; exact (Tc eq_refl)).
    assert (CA : cwf c /\ arr_in (length (c_uf c)) ar).
    { destruct (root_tmpl g (if program then Some (pos (n - 1)%nat) else None)) as [[rb re]|] eqn:R.
      - pose proof (construct_sim (model_fuel jt p) jt program p' (pos (n - 1)%nat) g rb re G R) as CS. rewrite Ec in CS.
        destruct CS as [(em & S0 & _ & Ai) _]. destruct S0 as [(CW & _) _ _]. split; assumption.
      - exfalso. destruct program; [|discriminate R].
        unfold r_construct in Ec.
        pose proof (r_nodes_sim (model_fuel jt p) jt p' empty_ctx [] [] (fun e => e) [] g Sim_empty ltac:(intros ch x y E; destruct ch; discriminate) G) as Ns.
        destruct (r_nodes (model_fuel jt p) jt empty_ctx [] p') as [[c0 ar0]|e0| |]; cbn [obind] in Ec; try discriminate.
        destruct Ns as (em & _ & Ea & _). cbn [root_tmpl] in R. rewrite Ea, arr_of_amap, arr_of_nth in R.
        destruct (nth (pos (n - 1)%nat) ar0 None) as [[x y]|]; [discriminate R|]. discriminate Ec. }
    destruct CA as [CW Ai].
    pose proof (r_finish_total fmode p' (map pos (seq 0 n)) (pos (n - 1)%nat) c ar CW Ai) as Tf.
    destruct (r_finish fmode p' (map pos (seq 0 n)) (pos (n - 1)%nat) c ar) as [tau|[[|st ex nb|] cx]|k1|]; cbn [show_rresult] in Hb; try discriminate; exact Tf.
Qed.

(* with the assertion of reassign_non_complete excluded (SlabNoP10), the construction stage of a table of fewer than 2^32
   nodes terminates normally, and the refinement statement holds with the size bound as its only hypothesis *)
Theorem construct_terminates jt program p root g : gen jt p = Some g -> (N.of_nat (length p) < 2 ^ 32)%N ->
  terminated (r_construct (model_fuel jt p) jt program p root).
Proof.
  intros G Hsz. pose proof (construct_total jt program p root g G Hsz) as CT.
  destruct (r_construct (model_fuel jt p) jt program p root) as [a|e|k|]; cbn [okr terminated] in *; auto.
Qed.

Theorem run_refines_final : forall (fmode : nat) (program : bool) (order : list nat)
    (jets : list (N * N * list N * list N)) (p : prog),
  (N.of_nat (length p) < 2 ^ 32)%N ->
  strip99 (run_rinfer fmode program order jets p) = run_infer program order jets p.
Proof.
  intros fmode program order jets p Hsz.
  apply run_refines_nopanic.
  - (* not a panic *)
    intros k Hb. unfold run_rinfer, run_construct in *.
    set (n := length p) in *. set (order' := match order with [] => seq 0 n | _ => order end) in *.
    destruct (valid_order n order') eqn:V; cbn [negb] in Hb; [|discriminate].
    set (pos := pos_of order') in *. set (jt := jets_of jets) in *. set (p' := permute p order') in *.
    destruct (gen jt p') as [g|] eqn:G; [|discriminate].
    destruct (program && match nth (n - 1) p NIden with NHidden _ => true | _ => false end)%bool eqn:Chk; [discriminate|].
    rewrite r_infer_split in Hb.
    assert (Lp' : length p' = n).
    { unfold p', permute. rewrite map_length. unfold valid_order in V. apply andb_true_iff in V. destruct V as [VL _]. apply Nat.eqb_eq in VL. exact VL. }
    pose proof (construct_total jt program p' (pos (n - 1)%nat) g G ltac:(rewrite Lp'; exact Hsz)) as CT.
    assert (Ef : model_fuel jt p' = model_fuel jt p) by (unfold model_fuel; rewrite Lp'; reflexivity). rewrite Ef in CT.
    destruct (r_construct (model_fuel jt p) jt program p' (pos (n - 1)%nat)) as [[c ar]|[[|st ex nb|] ce]|k0|] eqn:Ec; cbn [obind show_rresult okr] in Hb, CT;
      try discriminate; try (exact CT); try (subst k0; exact (Tc eq_refl)).
    assert (CA : cwf c /\ arr_in (length (c_uf c)) ar).
    { destruct (root_tmpl g (if program then Some (pos (n - 1)%nat) else None)) as [[rb re]|] eqn:R.
      - pose proof (construct_sim (model_fuel jt p) jt program p' (pos (n - 1)%nat) g rb re G R) as CS. rewrite Ec in CS.
        destruct CS as [(em & S0 & _ & Ai) _]. destruct S0 as [(CW & _) _ _]. split; assumption.
      - (* no constraints for the root: the construction stage cannot succeed *)
        exfalso. destruct program; [|discriminate R].
        unfold r_construct in Ec.
        pose proof (r_nodes_sim (model_fuel jt p) jt p' empty_ctx [] [] (fun e => e) [] g Sim_empty ltac:(intros ch x y E; destruct ch; discriminate) G) as Ns.
        destruct (r_nodes (model_fuel jt p) jt empty_ctx [] p') as [[c0 ar0]|e0| |]; cbn [obind] in Ec; try discriminate.
        destruct Ns as (em & _ & Ea & _). cbn [root_tmpl] in R. rewrite Ea, arr_of_amap, arr_of_nth in R.
        destruct (nth (pos (n - 1)%nat) ar0 None) as [[x y]|]; [discriminate R|]. discriminate Ec. }
    destruct CA as [CW Ai].
    pose proof (r_finish_total fmode p' (map pos (seq 0 n)) (pos (n - 1)%nat) c ar CW Ai) as Tf.
    destruct (r_finish fmode p' (map pos (seq 0 n)) (pos (n - 1)%nat) c ar) as [tau|[[|st ex nb|] cx]|k1|]; cbn [show_rresult] in Hb; try discriminate; exact Tf.
  - intros Hb. unfold run_rinfer, run_construct in *.
    set (n := length p) in *. set (order' := match order with [] => seq 0 n | _ => order end) in *.
    destruct (valid_order n order') eqn:V; cbn [negb] in Hb; [|discriminate].
    set (pos := pos_of order') in *. set (jt := jets_of jets) in *. set (p' := permute p order') in *.
    destruct (gen jt p') as [g|] eqn:G; [|discriminate].
    destruct (program && match nth (n - 1) p NIden with NHidden _ => true | _ => false end)%bool eqn:Chk; [discriminate|].
    rewrite r_infer_split in Hb.
    assert (Lp' : length p' = n).
    { unfold p', permute. rewrite map_length. unfold valid_order in V. apply andb_true_iff in V. destruct V as [VL _]. apply Nat.eqb_eq in VL. exact VL. }
    pose proof (construct_total jt program p' (pos (n - 1)%nat) g G ltac:(rewrite Lp'; exact Hsz)) as CT.
    assert (Ef : model_fuel jt p' = model_fuel jt p) by (unfold model_fuel; rewrite Lp'; reflexivity). rewrite Ef in CT.
    destruct (r_construct (model_fuel jt p) jt program p' (pos (n - 1)%nat)) as [[c ar]|[[|st ex nb|] ce]|k0|] eqn:Ec; cbn [obind show_rresult okr] in Hb, CT;
      try discriminate; try (exact CT); try (subst k0; exact (Tc eq_refl)).
    assert (CA : cwf c /\ arr_in (length (c_uf c)) ar).
    { destruct (root_tmpl g (if program then Some (pos (n - 1)%nat) else None)) as [[rb re]|] eqn:R.
      - pose proof (construct_sim (model_fuel jt p) jt program p' (pos (n - 1)%nat) g rb re G R) as CS. rewrite Ec in CS.
        destruct CS as [(em & S0 & _ & Ai) _]. destruct S0 as [(CW & _) _ _]. split; assumption.
      - exfalso. destruct program; [|discriminate R].
        unfold r_construct in Ec.
        pose proof (r_nodes_sim (model_fuel jt p) jt p' empty_ctx [] [] (fun e => e) [] g Sim_empty ltac:(intros ch x y E; destruct ch; discriminate) G) as Ns.
        destruct (r_nodes (model_fuel jt p) jt empty_ctx [] p') as [[c0 ar0]|e0| |]; cbn [obind] in Ec; try discriminate.
        destruct Ns as (em & _ & Ea & _). cbn [root_tmpl] in R. rewrite Ea, arr_of_amap, arr_of_nth in R.
        destruct (nth (pos (n - 1)%nat) ar0 None) as [[x y]|]; [discriminate R|]. discriminate Ec. }
    destruct CA as [CW Ai].
    pose proof (r_finish_total fmode p' (map pos (seq 0 n)) (pos (n - 1)%nat) c ar CW Ai) as Tf.
    destruct (r_finish fmode p' (map pos (seq 0 n)) (pos (n - 1)%nat) c ar) as [tau|[[|st ex nb|] cx]|k1|]; cbn [show_rresult] in Hb; try discriminate; exact Tf.
Qed.

