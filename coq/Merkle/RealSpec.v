(* The side conditions of the abstract theorems discharged by computation for the SHA-256
   instance of Merkle/Real.v:
     - every IV constant is the SHA-256 tagged-hash midstate of its tag string,
     - the IVs a commitment root uses are pairwise different,
     - Cmr::BITS are the roots of injl(unit) / injr(unit), Tmr::TWO_TWO_N the type roots of
       the word types hashed from scratch, Tmr::unit the unit IV,
   and the abstract theorems instantiated: what remains as a premise is exactly the
   collision-freeness idealisation. *)
From Coq Require Import Uint63.
From RS Require Import Lib.Tac Lib.Outcome Lib.Sweep Core.Prog Merkle.Sha256 Merkle.Tagged Merkle.Cmr
  Merkle.CmrStructure Merkle.CmrInjective Merkle.Real Generated.Ivs.
Import ListNotations.
Local Open Scope N_scope.

(* ---------------------------------------------------------------- side conditions by computation *)

(* every regenerated IV constant is the tagged-hash midstate of its tag string *)
Definition iv_table_ok : bool :=
  forallb (fun p => bytes_eqb (bytes_of_state (sha_hash_tag (fst p))) (snd p)) all_ivs.

Lemma iv_table_checked : iv_table_ok = true.
Proof. vm_compute. reflexivity. Qed.

Lemma iv_is_tag_hash_all : forall t, r_iv t = sha_hash_tag (r_tag_string t).
Proof. intros []; vm_compute; reflexivity. Qed.

(* SHA-256's initial hash value is not one of the IVs, and the IVs are the image of the one
   fixed state under one compression of the tag block *)
Lemma iv_unfold : forall t, r_iv t = sha_compress sha_iv0 (sha_tag_block (r_tag_string t)).
Proof. intro t. rewrite iv_is_tag_hash_all. reflexivity. Qed.

Definition tags_distinct_on (l : list tag) : bool :=
  forallb (fun a => forallb (fun b =>
    implb (bytes_eqb (bytes_of_state (r_iv a)) (bytes_of_state (r_iv b))) (tag_eqb a b)) l) l.

Lemma cmr_ivs_distinct_checked : tags_distinct_on (cmr_tags ++ [TtUnit; TtSum; TtProd]) = true.
Proof. vm_compute. reflexivity. Qed.

Lemma bytes_eqb_refl l : bytes_eqb l l = true.
Proof. induction l as [|a l IH]; cbn; [reflexivity|]. rewrite N.eqb_refl. exact IH. Qed.

Lemma real_iv_inj : forall a b,
  In a (cmr_tags ++ [TtUnit; TtSum; TtProd]) -> In b (cmr_tags ++ [TtUnit; TtSum; TtProd]) ->
  r_iv a = r_iv b -> a = b.
Proof.
  intros a b Ha Hb E.
  pose proof cmr_ivs_distinct_checked as C. unfold tags_distinct_on in C.
  rewrite forallb_forall in C. specialize (C a Ha). rewrite forallb_forall in C. specialize (C b Hb).
  rewrite E, bytes_eqb_refl in C. cbn in C. apply tag_eqb_eq. exact C.
Qed.

(* the constant tables of the code agree with hashing from scratch *)
Lemma real_bits_ok : forall b,
  r_bit_cmr b = cmr_bit rH r_compress r_iv r_zero b.
Proof. intros []; vm_compute; reflexivity. Qed.

Lemma real_tmr_unit_ok : r_tmr_unit = r_iv TtUnit.
Proof. vm_compute. reflexivity. Qed.

Definition two_two_n_ok : bool :=
  forallb (fun n => match nth_error r_two_two_n n with
                    | Some h => bytes_eqb (bytes_of_state h) (bytes_of_state (tmr_pow rH r_compress r_iv n))
                    | None => false
                    end) (seq 0 32).

Lemma two_two_n_checked : two_two_n_ok = true /\ length r_two_two_n = 32%nat.
Proof. split; vm_compute; reflexivity. Qed.

(* distinct jets have distinct roots *)
Definition nodup_N (l : list N) : bool :=
  (fix go (l : list N) := match l with [] => true | x :: r => negb (existsb (N.eqb x) r) && go r end) l.
Lemma jet_cmrs_distinct : nodup_N core_jet_cmrs = true /\ nodup_N elements_jet_cmrs = true.
Proof. split; vm_compute; reflexivity. Qed.

Example compact_value_empty : bytes_of_state (r_compact_value []) = sha256 [].
Proof. vm_compute. reflexivity. Qed.
Example compact_value_byte : bytes_of_state (r_compact_value [false; true; true; false; false; false; false; true]) = sha256 [97].
Proof. vm_compute. reflexivity. Qed.

Lemma real_two_two_n_ok : forall n, (n < 32)%nat ->
  nth_error r_two_two_n n = Some (tmr_pow rH r_compress r_iv n).
Proof.
  intros n Hn.
  do 32 (destruct n as [|n]; [vm_compute; reflexivity|]). lia.
Qed.

Lemma real_tables_ok : tables_ok rH r_compress r_iv r_zero r_bit_cmr r_tmr_unit r_two_two_n.
Proof. exact (conj real_bits_ok (conj real_tmr_unit_ok real_two_two_n_ok)). Qed.

Theorem real_node_cmr_spec : forall p t,
  r_construct p = Ok t -> map (val_cmr rH r_node_alg) t = map r_cmr_spec (r_erase p).
Proof.
  exact (@node_cmr_spec rH r_compress r_iv r_zero r_of_weight r_bit_cmr r_tmr_unit r_two_two_n r_jet_cmr
           r_h_of_bytes real_bits_ok real_tmr_unit_ok real_two_two_n_ok unit (fun _ => tt)).
Qed.

(* the tag block: SHA256(tag) || SHA256(tag) as two halves *)
Definition r_tag_block (t : tag) : rH * rH :=
  let d := sha256 (r_tag_string t) in (state_of_bytes d, state_of_bytes d).

Lemma real_iv_unfold : forall t, r_iv t = r_compress sha_iv0 (r_tag_block t).
Proof. intros []; vm_compute; reflexivity. Qed.

Theorem real_cmr_injective :
  (forall s b s' b', r_compress s b = r_compress s' b' -> s = s' /\ b = b') ->
  (forall s b, r_compress s b <> sha_iv0) ->
  forall s1 s2, cwf rH s1 -> cwf rH s2 -> r_cmr_spec s1 = r_cmr_spec s2 ->
  heq rH r_compress r_iv r_zero r_of_weight r_jet_cmr s1 s2.
Proof.
  intros CI NP. apply cmr_injective.
  - exact CI.
  - intros a b Ha Hb. apply real_iv_inj; apply in_or_app; left; assumption.
  - intros a b x _ _. exact (iv_leaf_from_free rH r_compress r_iv sha_iv0 r_tag_block CI real_iv_unfold NP a b x).
Qed.
