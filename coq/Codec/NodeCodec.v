(* C01 / C02 - syntax layer of the program encoding: one node, then the node list.
     src/bit_encoding/encode.rs   encode_node, encode_program (the part after linearisation), encode_hash
     src/bit_encoding/decode.rs   decode_node, the node loop of decode_expression
     src/bit_encoding/bititer.rs  read_bit, read_u2, read_u8, read_cmr, read_fail_entropy (on the abstract
                                  bit queue: Bits/BitIter.v proves that the cached-byte reader refines it)
     src/value.rs                 Word::from_bits
   Nodes are `DecodeNode`s: children are absolute positions in the list.  Positions and counts are N
   (they are read from naturals of up to 32 bits); nat is used for fuel only.
   Jets are abstract: a type [jet] with an encoder and a decoder on bit lists (Section variables);
   Codec/JetTab.v gives the instance used for evaluation (a code table). *)
From RS Require Import Lib.Tac Lib.Outcome Lib.Bits Lib.ListExtra Bits.Natural Bits.BitIter.
Import ListNotations.
Local Open Scope N_scope.

Inductive dec_err :=
| EEndOfStream                    (* decode::Error::EndOfStream *)
| EInvalidJet
| ENatural (e : nat_err)          (* decode::Error::Natural *)
| EBothChildrenHidden
| EHiddenNode
| ENotInCanonicalOrder
| ESharingNotMaximal
| EClose (e : close_err).         (* decode::Error::BitIter *)

Definition u32_max : N := 4294967295.
Definition usize_max : N := 18446744073709551615.

(* [n] bits from the front of the queue (n may be as large as 2^31: recursion is on the list) *)
Fixpoint take_n (l : list bool) (n : N) : option (list bool * list bool) :=
  if n =? 0 then Some ([], l) else
  match l with
  | [] => None
  | b :: r => match take_n r (n - 1) with
              | Some (a, rest) => Some (b :: a, rest)
              | None => None
              end
  end.

(* read_u8 repeated k times (read_cmr: 32, read_fail_entropy: 64) *)
Fixpoint read_bytes (k : nat) (l : list bool) : option (list N * list bool) :=
  match k with
  | O => Some ([], l)
  | S k' =>
      match l with
      | b7 :: b6 :: b5 :: b4 :: b3 :: b2 :: b1 :: b0 :: r =>
          match read_bytes k' r with
          | Some (bs, rest) => Some (val_be [b7; b6; b5; b4; b3; b2; b1; b0] :: bs, rest)
          | None => None
          end
      | _ => None
      end
  end.

Definition bytes_wf (k : nat) (bs : list N) : Prop := length bs = k /\ Forall (fun b => b < 256) bs.
Definition bytes_wfb (k : nat) (bs : list N) : bool := Nat.eqb (length bs) k && forallb (fun b => b <? 256) bs.

Section Jets.
Variable jet : Type.
Variable jet_okb : jet -> bool.       (* the jets that exist (all of them when [jet] is the enum itself) *)
Variable jet_enc : jet -> list bool.
Variable jet_dec : list bool -> outcome dec_err (jet * list bool).

Inductive dnode :=
| DIden
| DUnit
| DInjL (i : N)
| DInjR (i : N)
| DTake (i : N)
| DDrop (i : N)
| DComp (i j : N)
| DCase (i j : N)
| DPair (i j : N)
| DDisconnect1 (i : N)
| DDisconnect (i j : N)
| DWitness
| DFail (entropy : list N)        (* 64 bytes *)
| DHidden (cmr : list N)          (* 32 bytes *)
| DJet (j : jet)
| DWord (n : N) (bits : list bool).   (* 2^(2^n): 2^n bits *)

(* ------------------------------------------------------------------ encoder *)
(* encode_node; the relative index is `data.index - i_abs` (for a well-formed node: 1 <= . <= index) *)
Definition enc_node (index : N) (d : dnode) : list bool :=
  match d with
  | DComp i j => bits_be 5 0 ++ encode_nat (index - i) ++ encode_nat (index - j)
  | DCase i j => bits_be 5 1 ++ encode_nat (index - i) ++ encode_nat (index - j)
  | DPair i j => bits_be 5 2 ++ encode_nat (index - i) ++ encode_nat (index - j)
  | DDisconnect i j => bits_be 5 3 ++ encode_nat (index - i) ++ encode_nat (index - j)
  | DInjL i => bits_be 5 4 ++ encode_nat (index - i)
  | DInjR i => bits_be 5 5 ++ encode_nat (index - i)
  | DTake i => bits_be 5 6 ++ encode_nat (index - i)
  | DDrop i => bits_be 5 7 ++ encode_nat (index - i)
  | DIden => bits_be 5 8
  | DUnit => bits_be 5 9
  | DFail e => bits_be 5 10 ++ bits_of_bytes e
  | DDisconnect1 i => bits_be 5 11 ++ encode_nat (index - i)
  | DHidden h => bits_be 4 6 ++ bits_of_bytes h
  | DWitness => bits_be 4 7
  | DJet j => true :: true :: jet_enc j
  | DWord n w => true :: false :: encode_nat (1 + n) ++ w
  end.

(* children point backwards; payloads have their fixed sizes.  These are the conditions under which
   encode_node neither underflows `data.index - i_abs` nor hits `assert!(n > 0)` of encode_natural. *)
Definition wf_node (index : N) (d : dnode) : Prop :=
  match d with
  | DInjL i | DInjR i | DTake i | DDrop i | DDisconnect1 i => i < index
  | DComp i j | DCase i j | DPair i j | DDisconnect i j => i < index /\ j < index
  | DFail e => bytes_wf 64 e
  | DHidden h => bytes_wf 32 h
  | DWord n w => n <= 31 /\ N.of_nat (length w) = 2 ^ n
  | DJet j => jet_okb j = true
  | _ => True
  end.

Definition wf_nodeb (index : N) (d : dnode) : bool :=
  match d with
  | DInjL i | DInjR i | DTake i | DDrop i | DDisconnect1 i => i <? index
  | DComp i j | DCase i j | DPair i j | DDisconnect i j => (i <? index) && (j <? index)
  | DFail e => bytes_wfb 64 e
  | DHidden h => bytes_wfb 32 h
  | DWord n w => (n <=? 31) && (N.of_nat (length w) =? 2 ^ n)
  | DJet j => jet_okb j
  | _ => true
  end.

(* the encoder as the code runs it: Panic 30 = `data.index - i_abs` / debug_assert!(i_abs < data.index),
   i.e. also encode_natural's assert!(n > 0) *)
Definition enc_node_checked (index : N) (d : dnode) : outcome dec_err (list bool) :=
  let chk i := i <? index in
  match d with
  | DInjL i | DInjR i | DTake i | DDrop i | DDisconnect1 i =>
      if chk i then Ok (enc_node index d) else Panic 30
  | DComp i j | DCase i j | DPair i j | DDisconnect i j =>
      if chk i && chk j then Ok (enc_node index d) else Panic 30
  | _ => Ok (enc_node index d)
  end.

Fixpoint enc_nodes (index : N) (ns : list dnode) : list bool :=
  match ns with
  | [] => []
  | d :: r => enc_node index d ++ enc_nodes (index + 1) r
  end.

Fixpoint wf_nodes (index : N) (ns : list dnode) : Prop :=
  match ns with
  | [] => True
  | d :: r => wf_node index d /\ wf_nodes (index + 1) r
  end.

Fixpoint wf_nodesb (index : N) (ns : list dnode) : bool :=
  match ns with
  | [] => true
  | d :: r => wf_nodeb index d && wf_nodesb (index + 1) r
  end.

(* encode_program after linearisation: `encode_natural(len)` then every node *)
Definition enc_prog (ns : list dnode) : list bool :=
  encode_nat (N.of_nat (length ns)) ++ enc_nodes 0 ns.

Definition wf_prog (ns : list dnode) : Prop :=
  ns <> [] /\ N.of_nat (length ns) < 2 ^ 32 /\ wf_nodes 0 ns.

(* ------------------------------------------------------------------ decoder *)
Definition lift_nat {A} (x : outcome nat_err A) : outcome dec_err A :=
  match x with
  | Ok a => Ok a
  | Err e => Err (ENatural e)
  | Panic c => Panic c
  | OutOfFuel => OutOfFuel
  end.

(* `index - bits.read_natural(Some(index))?`; Panic 31 = usize subtraction underflow *)
Definition read_backref (index : N) (l : list bool) : outcome dec_err (N * list bool) :=
  match lift_nat (read_nat usize_max (Some index) l) with
  | Ok (n, r) => if index <? n then Panic 31 else Ok (index - n, r)
  | Err e => Err e
  | Panic c => Panic c
  | OutOfFuel => OutOfFuel
  end.

Definition read_hash (k : nat) (l : list bool) : outcome dec_err (list N * list bool) :=
  match read_bytes k l with
  | Some x => Ok x
  | None => Err EEndOfStream
  end.

(* decode_node.  Panic 32 = `n - 1` on u32, Panic 33 = Word::from_bits "not supported as a word type" *)
Definition dec_node (index : N) (l : list bool) : outcome dec_err (dnode * list bool) :=
  match l with
  | [] => Err EEndOfStream
  | true :: l1 =>
      match l1 with
      | [] => Err EEndOfStream
      | true :: l2 =>
          match jet_dec l2 with
          | Ok (j, r) => Ok (DJet j, r)
          | Err e => Err e
          | Panic c => Panic c
          | OutOfFuel => OutOfFuel
          end
      | false :: l2 =>
          match lift_nat (read_nat u32_max (Some 32) l2) with
          | Ok (n, l3) =>
              if n =? 0 then Panic 32 else
              if 31 <? n - 1 then Panic 33 else
              match take_n l3 (2 ^ (n - 1)) with
              | Some (w, r) => Ok (DWord (n - 1) w, r)
              | None => Err EEndOfStream
              end
          | Err e => Err e
          | Panic c => Panic c
          | OutOfFuel => OutOfFuel
          end
      end
  | false :: l1 =>
      match l1 with
      | c1 :: c0 :: l2 =>
          match c1, c0 with
          | false, false =>
              (* two children *)
              match l2 with
              | s1 :: s0 :: l3 =>
                  match read_backref index l3 with
                  | Ok (i, l4) =>
                      match read_backref index l4 with
                      | Ok (j, r) =>
                          Ok (match s1, s0 with
                              | false, false => DComp i j
                              | false, true => DCase i j
                              | true, false => DPair i j
                              | true, true => DDisconnect i j
                              end, r)
                      | Err e => Err e
                      | Panic c => Panic c
                      | OutOfFuel => OutOfFuel
                      end
                  | Err e => Err e
                  | Panic c => Panic c
                  | OutOfFuel => OutOfFuel
                  end
              | _ => Err EEndOfStream
              end
          | false, true =>
              match l2 with
              | s1 :: s0 :: l3 =>
                  match read_backref index l3 with
                  | Ok (i, r) =>
                      Ok (match s1, s0 with
                          | false, false => DInjL i
                          | false, true => DInjR i
                          | true, false => DTake i
                          | true, true => DDrop i
                          end, r)
                  | Err e => Err e
                  | Panic c => Panic c
                  | OutOfFuel => OutOfFuel
                  end
              | _ => Err EEndOfStream
              end
          | true, false =>
              match l2 with
              | s1 :: s0 :: l3 =>
                  match s1, s0 with
                  | false, false => Ok (DIden, l3)
                  | false, true => Ok (DUnit, l3)
                  | true, false =>
                      match read_hash 64 l3 with
                      | Ok (e, r) => Ok (DFail e, r)
                      | Err e => Err e
                      | Panic c => Panic c
                      | OutOfFuel => OutOfFuel
                      end
                  | true, true =>
                      match read_backref index l3 with
                      | Ok (i, r) => Ok (DDisconnect1 i, r)
                      | Err e => Err e
                      | Panic c => Panic c
                      | OutOfFuel => OutOfFuel
                      end
                  end
              | _ => Err EEndOfStream
              end
          | true, true =>
              match l2 with
              | [] => Err EEndOfStream
              | true :: l3 => Ok (DWitness, l3)
              | false :: l3 =>
                  match read_hash 32 l3 with
                  | Ok (h, r) => Ok (DHidden h, r)
                  | Err e => Err e
                  | Panic c => Panic c
                  | OutOfFuel => OutOfFuel
                  end
              end
          end
      | _ => Err EEndOfStream
      end
  end.

(* `for _ in 0..len { nodes.push(decode_node(bits, nodes.len())?) }`; [count] nodes are still to come,
   [index] = nodes.len().  Every node consumes at least one bit, so fuel = remaining bits + 1 suffices. *)
Fixpoint dec_nodes (fuel : nat) (count index : N) (l : list bool)
  : outcome dec_err (list dnode * list bool) :=
  if count =? 0 then Ok ([], l) else
  match fuel with
  | O => OutOfFuel
  | S f =>
      match dec_node index l with
      | Ok (d, r) =>
          match dec_nodes f (count - 1) (index + 1) r with
          | Ok (ds, r') => Ok (d :: ds, r')
          | Err e => Err e
          | Panic c => Panic c
          | OutOfFuel => OutOfFuel
          end
      | Err e => Err e
      | Panic c => Panic c
      | OutOfFuel => OutOfFuel
      end
  end.

(* decode_expression up to the end of the node loop.  Panic 34 = assert_ne!(len, 0) *)
Definition dec_prog (l : list bool) : outcome dec_err (list dnode * list bool) :=
  match lift_nat (read_nat usize_max None l) with
  | Ok (len, r) =>
      if len =? 0 then Panic 34 else dec_nodes (S (length r)) len 0 r
  | Err e => Err e
  | Panic c => Panic c
  | OutOfFuel => OutOfFuel
  end.

End Jets.

Arguments DIden {jet}.
Arguments DUnit {jet}.
Arguments DInjL {jet} i.
Arguments DInjR {jet} i.
Arguments DTake {jet} i.
Arguments DDrop {jet} i.
Arguments DComp {jet} i j.
Arguments DCase {jet} i j.
Arguments DPair {jet} i j.
Arguments DDisconnect1 {jet} i.
Arguments DDisconnect {jet} i j.
Arguments DWitness {jet}.
Arguments DFail {jet} entropy.
Arguments DHidden {jet} cmr.
Arguments DJet {jet} j.
Arguments DWord {jet} n bits.
