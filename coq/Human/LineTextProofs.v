(* C17 - the token-level line parser reads back what the renderer writes, and is total. *)
From RS Require Import Lib.Tac Lib.Outcome Ty.Ty Human.Namer Human.Render Human.Resolve Human.TypeText
  Human.TypeTextProofs Human.LineText.
Import ListNotations.
Local Open Scope N_scope.
Local Open Scope outcome_scope.

(* ------------------------------------------------------------------ types *)
Lemma map_to_ty_LTy l : map to_ty (map LTy l) = l.
Proof. rewrite map_map. cbn [to_ty]. apply map_id. Qed.

Definition lfollow_ok (rest : list ltok) : Prop := follow_ok (map to_ty rest).

Lemma ptype_print t rest : small t -> lfollow_ok rest ->
  ptype (map LTy (print_ty t) ++ rest) = Ok (Some (ast_of t), rest).
Proof.
  intros Hs Hf. unfold ptype. rewrite map_app, map_to_ty_LTy.
  rewrite (parse_print_ty t (map to_ty rest) Hs Hf). cbn [r_ty r_rest fst snd].
  f_equal. f_equal. rewrite app_length, !map_length.
  replace (length (print_ty t) + length rest - length rest)%nat with (length (map LTy (print_ty t)))
    by (rewrite map_length; lia).
  rewrite skipn_app, skipn_all, Nat.sub_diag. reflexivity.
Qed.

Lemma parrow_print s t rest : small s -> small t -> lfollow_ok rest ->
  parrow (map LTy (print_ty s) ++ [LArrow] ++ map LTy (print_ty t) ++ rest) =
  Ok ((Some (ast_of s), Some (ast_of t)), rest).
Proof.
  intros Hs Ht Hf. unfold parrow.
  rewrite (ptype_print s _ Hs) by exact I. cbn [obind fst snd app].
  rewrite (ptype_print t rest Ht Hf). reflexivity.
Qed.

(* ------------------------------------------------------------------ expressions *)
Lemma pexpr_sym f n rest : pexpr (S f) 1 (LSym n :: rest) = Ok (ERef n, rest).
Proof. reflexivity. Qed.

Lemma is_pow2_pow n : is_pow2 (2 ^ n) = true.
Proof.
  unfold is_pow2. rewrite N.log2_pow2 by lia. rewrite N.eqb_refl.
  assert (0 < 2 ^ n) by (apply N.neq_0_lt_0; apply N.pow_nonzero; lia).
  apply N.ltb_lt in H. rewrite H. reflexivity.
Qed.

Lemma length1 {A} (l : list A) (d : A) : length l = 1%nat -> l = [hd d l].
Proof. destruct l as [|x [|y r]]; cbn; intros H; try discriminate H. reflexivity. Qed.

Lemma length0 {A} (l : list A) : (length l =? 0)%nat = true -> l = [].
Proof. destruct l; [reflexivity | discriminate]. Qed.

Lemma pad_full l : length l = 64%nat -> pad_to 64 l = l.
Proof. intros H. unfold pad_to. rewrite H. cbn. apply app_nil_r. Qed.

Ltac split_ands :=
  repeat match goal with
         | H : _ && _ = true |- _ => apply andb_true_iff in H; destruct H
         end.

Theorem pexpr_line l f rest : line_ok l = true ->
  pexpr (S (S f)) 0 (expr_tokens l ++ rest) = Ok (expr_of_defline l, rest).
Proof.
  destruct l as [nm k pay ol or oh]. unfold line_ok, expr_tokens, kw_tokens, expr_of_defline, no_ops, pay_nil.
  cbn [dl_kind dl_pay dl_l dl_r dl_hole dl_name].
  intros H.
  destruct k; split_ands; destruct ol as [a|], or as [b|]; cbn [opt_some negb] in *; try discriminate;
    try (match goal with H : (length pay =? 0)%nat = true |- _ => apply length0 in H; subst pay end; reflexivity);
    try reflexivity.
  - (* disconnect *)
    destruct oh as [h|]; [|cbn in *; discriminate].
    match goal with H : (length pay =? 0)%nat = true |- _ => apply length0 in H; subst pay end. reflexivity.
  - (* fail *)
    match goal with H : (length pay =? 64)%nat = true |- _ => apply Nat.eqb_eq in H; rename H into H64 end.
    cbn [osym app]. cbn [pexpr]. cbn.
    rewrite (pad_full pay H64). reflexivity.
  - (* jet *)
    match goal with H : (length pay =? 1)%nat = true |- _ => apply Nat.eqb_eq in H; rename H into Hlen1 end.
    rewrite (length1 pay 0 Hlen1) at 2. reflexivity.
  - (* word *)
    destruct pay as [|n bytes]; [discriminate|]. cbn [hd tl] in *.
    match goal with H : (n <=? 31) = true |- _ => apply N.leb_le in H; rename H into Hn end.
    cbn [osym app pexpr plit obind].
    change (max_nesting <=? 0) with false. cbv iota.
    rewrite is_pow2_pow. cbn [negb orb].
    assert (E : (2 ^ 31 <? 2 ^ n) = false).
    { apply N.ltb_ge. apply N.pow_le_mono_r; lia. }
    rewrite E. rewrite N.log2_pow2 by lia. reflexivity.
Qed.

(* ------------------------------------------------------------------ one line *)
Lemma expr_tokens_nonempty l : (1 <= length (expr_tokens l))%nat.
Proof.
  unfold expr_tokens, kw_tokens. rewrite app_length. destruct (dl_kind l); cbn [length]; lia.
Qed.

Definition parsed_line (l : defline) (src tgt : ty) : pline_t :=
  mk_pl (mk_line (dl_name l) (Some (expr_of_defline l))) (Some (ast_of src), Some (ast_of tgt)).

Theorem pline_print l src tgt rest :
  line_ok l = true -> small src -> small tgt -> lfollow_ok rest ->
  pline (line_tokens l src tgt ++ rest) = Ok (parsed_line l src tgt, rest).
Proof.
  intros Hl Hs Ht Hf.
  set (tail := LColon :: (map LTy (print_ty src) ++ [LArrow] ++ map LTy (print_ty tgt) ++ rest)).
  assert (E : line_tokens l src tgt ++ rest = LSym (dl_name l) :: LAssign :: expr_tokens l ++ tail).
  { unfold line_tokens, tail. cbn [app]. rewrite <- !app_assoc. cbn [app]. rewrite <- !app_assoc. reflexivity. }
  rewrite E. unfold pline. cbn [psym obind fst snd].
  assert (Hfuel : exists f, expr_fuel (expr_tokens l ++ tail) = S (S f)).
  { unfold expr_fuel. rewrite app_length. pose proof (expr_tokens_nonempty l).
    unfold tail. cbn [length]. eexists. rewrite Nat.add_succ_r. reflexivity. }
  destruct Hfuel as [f Ef]. rewrite Ef.
  rewrite (pexpr_line l f tail Hl). cbn [obind fst snd]. unfold tail.
  rewrite (parrow_print src tgt rest Hs Ht Hf). reflexivity.
Qed.

(* ------------------------------------------------------------------ a rendered text *)
Definition tline := (defline * (ty * ty))%type.
Definition tline_tokens (x : tline) : list ltok := line_tokens (fst x) (fst (snd x)) (snd (snd x)).
Definition text_tokens (xs : list tline) : list ltok := flat_map tline_tokens xs.
Definition tline_ok (x : tline) : Prop := line_ok (fst x) = true /\ small (fst (snd x)) /\ small (snd (snd x)).

Lemma text_follow xs : lfollow_ok (text_tokens xs).
Proof. destruct xs as [|x r]; exact I. Qed.

Lemma tline_tokens_len x : (1 <= length (tline_tokens x))%nat.
Proof. unfold tline_tokens, line_tokens. cbn [length]. lia. Qed.

Lemma plines_go_text : forall xs fuel, Forall tline_ok xs -> (length xs <= fuel)%nat ->
  plines_go fuel (text_tokens xs) =
  Ok (map (fun x => parsed_line (fst x) (fst (snd x)) (snd (snd x))) xs).
Proof.
  induction xs as [|x r IH]; intros fuel Hok Hf; [destruct fuel; reflexivity|].
  inversion Hok as [|? ? [Hl [Hs Ht]] Hr]; subst.
  cbn [text_tokens flat_map]. fold (text_tokens r).
  destruct (tline_tokens x ++ text_tokens r) as [|t0 ts0] eqn:E.
  { pose proof (tline_tokens_len x). apply (f_equal (@length ltok)) in E. rewrite app_length in E. cbn in E. lia. }
  rewrite <- E. clear E. destruct fuel as [|fuel]; [cbn in Hf; lia|].
  assert (G : plines_go (S fuel) (tline_tokens x ++ text_tokens r) =
              (y <- pline (tline_tokens x ++ text_tokens r) ;; rest <- plines_go fuel (snd y) ;; Ok (fst y :: rest))).
  { destruct (tline_tokens x ++ text_tokens r) eqn:E'; [|reflexivity].
    pose proof (tline_tokens_len x). apply (f_equal (@length ltok)) in E'. rewrite app_length in E'. cbn in E'. lia. }
  rewrite G. unfold tline_tokens at 1.
  rewrite (pline_print (fst x) (fst (snd x)) (snd (snd x)) (text_tokens r) Hl Hs Ht (text_follow r)).
  cbn [obind fst snd]. rewrite (IH fuel Hr) by (cbn in Hf; lia). reflexivity.
Qed.

Lemma no_bad_print t : existsb is_lbad (map LTy (print_ty t)) = false.
Proof.
  pose proof (print_tokens_ok t true) as H. unfold print_ty.
  induction H as [|k l Hk Hl IH]; [reflexivity|]. cbn [map existsb]. rewrite IH.
  destruct k; cbn in *; try contradiction; reflexivity.
Qed.

Lemma no_bad_text xs : existsb is_lbad (text_tokens xs) = false.
Proof.
  induction xs as [|x r IH]; [reflexivity|]. cbn [text_tokens flat_map]. fold (text_tokens r).
  rewrite existsb_app, IH. unfold tline_tokens, line_tokens, expr_tokens, kw_tokens.
  cbn [existsb is_lbad]. rewrite !existsb_app, !no_bad_print. cbn [existsb is_lbad orb].
  rewrite !orb_false_r.
  destruct (dl_kind (fst x)), (dl_l (fst x)), (dl_r (fst x)), (dl_hole (fst x)); reflexivity.
Qed.

(* parse_line_vector on the token rendering of any list of well-formed definition lines gives exactly
   those definitions back: name, expression (Resolve.expr_of_defline: what the definition-level model
   assumed of "parse_line on the text of a rendered definition") and the arrow *)
Theorem plines_text xs : Forall tline_ok xs ->
  plines (text_tokens xs) = Ok (map (fun x => parsed_line (fst x) (fst (snd x)) (snd (snd x))) xs).
Proof.
  intros H. unfold plines. rewrite no_bad_text. apply plines_go_text; [exact H|].
  clear H. induction xs as [|x r IH]; [cbn; lia|]. cbn [text_tokens flat_map length]. rewrite app_length.
  pose proof (tline_tokens_len x). fold (text_tokens r). lia.
Qed.

(* the lines that Resolve.resolve_lines starts from *)
Corollary plines_text_lines xs : Forall tline_ok xs ->
  match plines (text_tokens xs) with
  | Ok ps => map pl_line ps = parse_lines (map fst xs)
  | _ => False
  end.
Proof.
  intros H. rewrite (plines_text xs H). unfold parse_lines. rewrite !map_map. reflexivity.
Qed.

(* ------------------------------------------------------------------ totality *)
Definition shorter {A} (ts : list ltok) (o : outcome lerr (A * list ltok)) : Prop :=
  match o with
  | Ok x => (length (snd x) < length ts)%nat
  | Err _ => True
  | _ => False
  end.

Lemma psym_shorter ts : shorter ts (psym ts).
Proof. destruct ts as [|[| | | | | | | | |n|[]] r]; cbn; try exact I; lia. Qed.

Lemma plit_shorter ts : match plit ts with Ok x => (length (snd x) < length ts)%nat | Err _ => True | _ => False end.
Proof. destruct ts as [|[| | | | | | |dd nb| | |[]] r]; cbn; try exact I; lia. Qed.

Ltac use_ih IH f d r :=
  let H := fresh "Hs" in
  pose proof (IH d r) as H;
  destruct (pexpr f d r) as [[? ?]|?|?|]; cbn [obind fst snd shorter] in *;
  [ | exact I | (exfalso; apply H; cbn in *; lia) | (exfalso; apply H; cbn in *; lia) ].

Lemma pexpr_total : forall fuel d ts, (length ts < fuel)%nat -> shorter ts (pexpr fuel d ts).
Proof.
  induction fuel as [|f IH]; intros d ts Hlen; [lia|].
  cbn [pexpr]. destruct (max_nesting <=? d); [exact I|].
  assert (IH' : forall d' r, (length r < f)%nat ->
            match pexpr f d' r with
            | Ok x => (length (snd x) < length r)%nat
            | Err _ => True
            | _ => False
            end) by (intros d' r Hr; exact (IH d' r Hr)).
  clear IH.
  (* parse_cmr *)
  assert (Hcmr : forall r, (length r < f)%nat ->
            match (match r with
                   | LHashBrace :: r0 => x <- pexpr f (d + 1) r0 ;;
                                          match snd x with LRBrace :: r2 => Ok (inr (fst x), r2) | _ => Err PParse end
                   | LCmr bytes :: r0 => Ok (inl bytes, r0)
                   | _ => Err PParse
                   end : outcome lerr ((list N + expr) * list ltok)) with
            | Ok x => (length (snd x) < length r)%nat
            | Err _ => True
            | _ => False
            end).
  { intros r Hr. destruct r as [|t r0]; [exact I|]. destruct t; try exact I; cbn [length] in *.
    - pose proof (IH' (d + 1) r0 ltac:(lia)) as H. destruct (pexpr f (d + 1) r0) as [[e r1]|?|?|]; cbn [obind fst snd] in *; try exact I; try contradiction.
      destruct r1 as [|t1 r2]; [exact I|]. destruct t1; try exact I. cbn [snd length] in *. lia.
    - cbn. lia. }
  destruct ts as [|t r]; [exact I|]. cbn [length] in Hlen.
  destruct t as [| | | | |k|j|dd nb|bytes|n|ty]; try exact I.
  - (* keyword *)
    destruct k; cbn [is_nullary_kw is_unary is_binary]; try exact I;
      try (cbn [shorter snd length]; lia).
    + (* injl *) pose proof (IH' (d + 1) r ltac:(lia)) as H.
      destruct (pexpr f (d + 1) r) as [[e r1]|?|?|]; cbn [obind fst snd shorter length] in *; try exact I; try contradiction; lia.
    + pose proof (IH' (d + 1) r ltac:(lia)) as H.
      destruct (pexpr f (d + 1) r) as [[e r1]|?|?|]; cbn [obind fst snd shorter length] in *; try exact I; try contradiction; lia.
    + pose proof (IH' (d + 1) r ltac:(lia)) as H.
      destruct (pexpr f (d + 1) r) as [[e r1]|?|?|]; cbn [obind fst snd shorter length] in *; try exact I; try contradiction; lia.
    + pose proof (IH' (d + 1) r ltac:(lia)) as H.
      destruct (pexpr f (d + 1) r) as [[e r1]|?|?|]; cbn [obind fst snd shorter length] in *; try exact I; try contradiction; lia.
    + (* comp *) pose proof (IH' (d + 1) r ltac:(lia)) as H.
      destruct (pexpr f (d + 1) r) as [[e r1]|?|?|]; cbn [obind fst snd shorter length] in *; try exact I; try contradiction.
      pose proof (IH' (d + 1) r1 ltac:(lia)) as H2.
      destruct (pexpr f (d + 1) r1) as [[e2 r2]|?|?|]; cbn [obind fst snd shorter length] in *; try exact I; try contradiction; lia.
    + pose proof (IH' (d + 1) r ltac:(lia)) as H.
      destruct (pexpr f (d + 1) r) as [[e r1]|?|?|]; cbn [obind fst snd shorter length] in *; try exact I; try contradiction.
      pose proof (IH' (d + 1) r1 ltac:(lia)) as H2.
      destruct (pexpr f (d + 1) r1) as [[e2 r2]|?|?|]; cbn [obind fst snd shorter length] in *; try exact I; try contradiction; lia.
    + pose proof (IH' (d + 1) r ltac:(lia)) as H.
      destruct (pexpr f (d + 1) r) as [[e r1]|?|?|]; cbn [obind fst snd shorter length] in *; try exact I; try contradiction.
      pose proof (IH' (d + 1) r1 ltac:(lia)) as H2.
      destruct (pexpr f (d + 1) r1) as [[e2 r2]|?|?|]; cbn [obind fst snd shorter length] in *; try exact I; try contradiction; lia.
    + (* assertl *) pose proof (IH' (d + 1) r ltac:(lia)) as H.
      destruct (pexpr f (d + 1) r) as [[e r1]|?|?|]; cbn [obind fst snd shorter length] in *; try exact I; try contradiction.
      pose proof (Hcmr r1 ltac:(lia)) as H2.
      match goal with |- context [obind ?X _] => destruct X as [[h r2]|?|?|] end;
        cbn [obind fst snd shorter length] in *; try exact I; try contradiction; lia.
    + (* assertr *) pose proof (Hcmr r ltac:(lia)) as H.
      match goal with |- context [obind ?X _] => destruct X as [[h r1]|?|?|] end;
        cbn [obind fst snd shorter length] in *; try exact I; try contradiction.
      pose proof (IH' (d + 1) r1 ltac:(lia)) as H2.
      destruct (pexpr f (d + 1) r1) as [[e2 r2]|?|?|]; cbn [obind fst snd shorter length] in *; try exact I; try contradiction; lia.
    + (* disconnect *) pose proof (IH' (d + 1) r ltac:(lia)) as H.
      destruct (pexpr f (d + 1) r) as [[e r1]|?|?|]; cbn [obind fst snd shorter length] in *; try exact I; try contradiction.
      pose proof (IH' (d + 1) r1 ltac:(lia)) as H2.
      destruct (pexpr f (d + 1) r1) as [[e2 r2]|?|?|]; cbn [obind fst snd shorter length] in *; try exact I; try contradiction; lia.
    + (* fail *) pose proof (plit_shorter r) as H.
      destruct (plit r) as [[[dd nb] r1]|?|?|]; cbn [obind fst snd shorter length] in *; try exact I; try contradiction.
      destruct (nb <? 128); [exact I|]. destruct (512 <? nb); [exact I|]. cbn [shorter snd length]. lia.
    + (* const *) pose proof (plit_shorter r) as H.
      destruct (plit r) as [[[dd nb] r1]|?|?|]; cbn [obind fst snd shorter length] in *; try exact I; try contradiction.
      destruct (negb (is_pow2 nb) || (2 ^ 31 <? nb)); [exact I|]. cbn [shorter snd length]. lia.
  - destruct j; [cbn; lia | exact I].
  - cbn. lia.
  - destruct ty; try exact I.
    + (* ? name *) pose proof (psym_shorter r) as H.
      destruct (psym r) as [[n r1]|?|?|]; cbn [obind fst snd shorter length] in *; try exact I; try contradiction; lia.
    + (* ( expr ) *) pose proof (IH' (d + 1) r ltac:(lia)) as H.
      destruct (pexpr f (d + 1) r) as [[e r1]|?|?|]; cbn [obind fst snd shorter length] in *; try exact I; try contradiction.
      destruct r1 as [|t1 r2]; [exact I|]. destruct t1 as [| | | | | | | | | |ty1]; try exact I. destruct ty1; try exact I.
      cbn [shorter snd length] in *. lia.
    + cbn. lia.
Qed.

Lemma ptype_total ts : shorter ts (ptype ts).
Proof.
  unfold ptype. pose proof (parse_ty_total (map to_ty ts)) as H.
  destruct (parse_ty (map to_ty ts)) as [p|e|c|]; cbn [shorter snd]; try exact I; try contradiction.
  rewrite map_length in H. rewrite skipn_length. lia.
Qed.

Lemma parrow_total ts : shorter ts (parrow ts).
Proof.
  unfold parrow. pose proof (ptype_total ts) as H.
  destruct (ptype ts) as [[a r]|?|?|]; cbn [obind fst snd shorter] in *; try exact I; try contradiction.
  destruct r as [|t r1]; [exact I|]. destruct t; try exact I.
  pose proof (ptype_total r1) as H2.
  destruct (ptype r1) as [[b r2]|?|?|]; cbn [obind fst snd shorter length] in *; try exact I; try contradiction. lia.
Qed.

Theorem pline_total ts : shorter ts (pline ts).
Proof.
  unfold pline. pose proof (psym_shorter ts) as H.
  destruct (psym ts) as [[n r]|?|?|]; cbn [obind fst snd shorter] in *; try exact I; try contradiction.
  destruct r as [|t r1]; [exact I|]. destruct t; try exact I; cbn [length] in H.
  - (* := *)
    pose proof (pexpr_total (expr_fuel r1) 0 r1 ltac:(unfold expr_fuel; lia)) as H2.
    destruct (pexpr (expr_fuel r1) 0 r1) as [[e r2]|?|?|]; cbn [obind fst snd shorter] in *; try exact I; try contradiction.
    assert (D : shorter ts (Ok (mk_pl (mk_line n (Some e)) (None, None), r2) : outcome lerr (pline_t * list ltok)))
      by (cbn [shorter snd]; lia).
    destruct r2 as [|t2 r3]; [exact D|]. destruct t2; try exact D.
    pose proof (parrow_total r3) as H3.
    destruct (parrow r3) as [[a r4]|?|?|]; cbn [obind fst snd shorter length] in *; try exact I; try contradiction. lia.
  - (* : *)
    pose proof (parrow_total r1) as H3.
    destruct (parrow r1) as [[a r4]|?|?|]; cbn [obind fst snd shorter length] in *; try exact I; try contradiction. lia.
Qed.

Lemma plines_go_total : forall fuel ts, (length ts <= fuel)%nat ->
  match plines_go fuel ts with Ok _ | Err _ => True | _ => False end.
Proof.
  induction fuel as [|f IH]; intros ts Hl.
  - destruct ts; [exact I | cbn in Hl; lia].
  - destruct ts as [|t r]; [exact I|]. cbn [plines_go].
    pose proof (pline_total (t :: r)) as H.
    destruct (pline (t :: r)) as [[x r1]|?|?|]; cbn [obind fst snd shorter] in *; try exact I; try contradiction.
    specialize (IH r1 ltac:(cbn [length] in *; lia)).
    destruct (plines_go f r1); cbn [obind]; try exact I; contradiction.
Qed.

(* parse_line_vector terminates with a line vector or an error on every token vector *)
Theorem plines_total ts : match plines ts with Ok _ | Err _ => True | _ => False end.
Proof.
  unfold plines. destruct (existsb is_lbad ts); [exact I|]. apply plines_go_total. lia.
Qed.

(* examples: the hypotheses are satisfiable *)
Example ex_line_ok :
  line_ok (mk_dl NMain KComp [] (Some (NGen PPr 1)) (Some (NGen PUt 2)) None) = true /\
  line_ok (mk_dl (NGen PConst 1) KWord [3; 255] None None None) = true /\
  line_ok (mk_dl (NGen PDisc 4) KDisconnect [] (Some (NGen PId 1)) None (Some (NHole 3))) = true.
Proof. repeat split. Qed.
