(* C17 - Human-readable encoding round-trips.
   Only pinned statements (`Theorem .. exact lemma`), `Print Assumptions`, and examples showing
   that the hypotheses are satisfiable.  Models: Human/Namer.v (names, Namer, from_program),
   Human/Render.v (string_serialize), Human/Resolve.v (the parser from the line list on).
   The model is at the level of definitions; characters, the lexer, the line grammar, type
   ascriptions / type inference and number formats are outside it (tested on the implementation
   by tools/props/c17.py only). *)
From RS Require Import Lib.Tac Lib.Outcome Core.Prog Human.Namer Human.Render Human.Resolve
  Human.RenderProofs Human.ResolveProofs Human.ConvProofs Human.FinProofs Human.RoundTrip Human.Run
  Ty.Ty Human.TypeText Human.TypeTextProofs Human.TypeRun Human.PathCount Human.PathSat Human.FromProgram Human.PathRun
  Human.LineText Human.LineTextProofs Human.LineRun Human.PathOverflow Human.TokenRoundTrip.
Import ListNotations.
Local Open Scope N_scope.

(* 1. the walk of the renderer (post order by node object) visits the root, is closed under
   children, visits nothing twice and nothing that is not reachable from the root *)
Theorem C17_post_order : forall d, wf_ndag d = true -> po_facts d (post_order d).
Proof. exact post_order_facts. Qed.
Print Assumptions C17_post_order.

(* 2. render_defined: when distinct node objects carry distinct names, every name a rendered
   line refers to is the name of exactly one rendered line (the section split only reorders) *)
Theorem C17_render_defined : forall d,
  wf_ndag d = true -> NoDup (map (nname d) (post_order d)) -> all_defined (render d).
Proof. exact render_defined. Qed.
Print Assumptions C17_render_defined.

(* 3. resolve_render: the parser applied to the rendering of a named DAG (distinct names, every
   witness / disconnect name on one path only - the parser's own acceptance rule) succeeds with
   exactly one root, under the root's name, and the DAG it builds is the rendered one up to
   renumbering: same kinds, payloads, names, hole names, same sharing *)
Theorem C17_resolve_render : forall d cmr_of,
  wf_ndag d = true -> NoDup (map (nname d) (post_order d)) -> path_errs d = [] ->
  exists d', resolve_lines cmr_of (render d) = Ok [(nname d (root_of d), d')] /\
             iso d d' /\ wf_ndag d' = true.
Proof. exact resolve_render_thm. Qed.
Print Assumptions C17_resolve_render.

(* 4. what a copy up to renumbering preserves: every value computed bottom-up from kind,
   payload and the values of the children - in particular a commitment root, for ANY hash
   function `step` (the structural theorems of C09 / C01 then give the real root and encoding) *)
Theorem C17_iso_cmr : forall (C : Type) (c0 : C) (step : kind -> list N -> option C -> option C -> C) d d',
  wf_ndag d = true -> wf_ndag d' = true -> iso d d' -> cmr_root c0 step d' = cmr_root c0 step d.
Proof. exact @iso_cmr_thm. Qed.
Print Assumptions C17_iso_cmr.

Theorem C17_roundtrip_cmr : forall (C : Type) (c0 : C) (step : kind -> list N -> option C -> option C -> C) d cmr_of,
  wf_ndag d = true -> NoDup (map (nname d) (post_order d)) -> path_errs d = [] ->
  exists d', resolve_lines cmr_of (render d) = Ok [(nname d (root_of d), d')] /\
             cmr_root c0 step d' = cmr_root c0 step d.
Proof. exact @roundtrip_cmr. Qed.
Print Assumptions C17_roundtrip_cmr.

(* 5. Namer: a generated name is new (not below the counters before, below them after, never
   `main`); from_program gives distinct node objects distinct names when no proper
   sub-expression has the commitment root of the whole program *)
Theorem C17_assign_name_fresh : forall nm k n nm',
  assign_name nm k = (n, nm') ->
  ~ name_below nm n /\ name_below nm' n /\ n <> NMain /\
  const_idx nm <= const_idx nm' /\ wit_idx nm <= wit_idx nm' /\ other_idx nm <= other_idx nm'.
Proof. exact assign_name_fresh. Qed.
Print Assumptions C17_assign_name_fresh.

Theorem C17_from_program_names : forall p ihr cmr,
  wf_prog p = true ->
  (forall j, (j < pred (length p))%nat -> nth j cmr 0 <> nth (pred (length p)) cmr 0) ->
  NoDup (map nn_name (name_program p ihr cmr)).
Proof. exact name_program_names_distinct. Qed.
Print Assumptions C17_from_program_names.

(* 6. the renderer before commit 5461b0f (one line per identity hash class, operands named per
   object) is refuted: a well-formed DAG with distinct names whose old rendering refers to `ut2`
   and defines it nowhere *)
Theorem C17_render_old_refuted :
  exists d ihr, wf_ndag d = true /\ NoDup (map (nname d) (post_order d)) /\
    ~ all_defined (render_old d ihr) /\
    (exists l, In l (render_old d ihr) /\ In (NGen PUt 2) (dl_refs l) /\
               count_name (NGen PUt 2) (map dl_name (render_old d ihr)) = 0%nat).
Proof. exact render_old_refuted. Qed.
Print Assumptions C17_render_old_refuted.

(* ------------------------------------------------------------------ the hypotheses are satisfiable *)
(* `main := comp (pair unit unit) unit` as parsed: theorem 3 applies and the model computes the
   same DAG again *)
Example C17_ex_hyps :
  wf_ndag old_witness = true /\ NoDup (map (nname old_witness) (post_order old_witness)) /\
  path_errs old_witness = [].
Proof.
  split; [reflexivity|]. split; [|reflexivity].
  vm_compute. repeat constructor; cbn; intuition discriminate.
Qed.

Example C17_ex_roundtrip :
  resolve_lines no_cmr (render old_witness) = Ok [(NMain, old_witness)].
Proof. vm_compute. reflexivity. Qed.

(* a disconnect with its hole, an assertion with its hidden root, a witness: all go round *)
Definition ex_special : ndag :=
  [ mk_nn KIden [] None None (NGen PId 1) None;
    mk_nn KDisconnect [] (Some 0%nat) None (NGen PDisc 3) (Some (NHole 1));
    mk_nn KWitness [] None None (NGen PWit 1) None;
    mk_nn KAssertL [1; 2; 3] (Some 2%nat) None (NGen PAsstl 4) None;
    mk_nn KPair [] (Some 1%nat) (Some 3%nat) (NGen PPr 5) None;
    mk_nn KUnit [] None None (NGen PUt 6) None;
    mk_nn KComp [] (Some 4%nat) (Some 5%nat) NMain None ].

Example C17_ex_special :
  wf_ndag ex_special = true /\ path_errs ex_special = [] /\
  exists d', resolve_lines no_cmr (render ex_special) = Ok [(NMain, d')] /\
             show_lines (render d') = show_lines (render ex_special).
Proof.
  split; [reflexivity|]. split; [reflexivity|].
  eexists. split; [vm_compute; reflexivity | reflexivity].
Qed.

(* Full statement for committed programs, of which 3 + 5 prove the part about names: the named
   DAG that from_program builds satisfies all hypotheses of theorem 3.  Not proved: that it is
   well formed as a table and that every witness is on one path only (the copies made for nodes
   without identity hash); both are evaluated on every generated case by the check. *)
Definition C17_from_program_statement : Prop :=
  forall p ihr cmr,
    wf_prog p = true ->
    (forall j, (j < pred (length p))%nat -> nth j cmr 0 <> nth (pred (length p)) cmr 0) ->
    (forall i, nth i ihr None <> None -> shape_of p i <> None) ->
    let d := name_program p ihr cmr in
    wf_ndag d = true /\ NoDup (map (nname d) (post_order d)) /\ path_errs d = [].


(* ================================================================== types, token level (phase 2)
   Models: Human/TypeText.v (Final's Display as the loop over iterator items with its `skipping`
   state; parse_type / parse_type_postfix / parse_type_atom with Parser::depth and the nesting
   budget), following /repo at commit c4e3694. *)

(* 7. which types are abbreviated as words: exactly 2^(2^n), n <= 31 (TMR table of 32 entries) *)
Theorem C17_as_word_spec : forall t n, as_word t = Some n <-> t = word_ty n /\ (n <= 31)%nat.
Proof. exact as_word_spec. Qed.
Print Assumptions C17_as_word_spec.

(* 8. the Display loop as written (three items per binary node, indices, skipping over words and
   over the unit of an option) prints the recursive form print_ty: `2`, `2^(2^n)`, `A?`,
   parentheses around every sum / product except at the root *)
Theorem C17_display_eq_print : forall t, display t = print_ty t.
Proof. exact display_eq_print. Qed.
Print Assumptions C17_display_eq_print.

(* 9. every printed type is read back by the parser as the same type (and Parser::last_type_depth is
   its depth), consuming exactly the printed tokens, whatever follows except `?` `+` `*` (follow_ok),
   provided the type is nested less than MAX_NESTING = 1000 deep, words counting as leaves (small;
   sufficient: at most 1000 constructors, theorem 12) *)
Theorem C17_parse_print_ty : forall t rest,
  small t -> follow_ok rest -> parse_ty (print_ty t ++ rest) = Ok (Some (ast_of t), tdepth t, rest).
Proof. exact parse_print_ty. Qed.
Print Assumptions C17_parse_print_ty.

Theorem C17_reify_ast_of : forall t, reify (ast_of t) = t /\ closed (ast_of t) = true.
Proof. exact reify_ast_of. Qed.
Print Assumptions C17_reify_ast_of.

(* 10. as the check runs it: the printed type alone in target position *)
Theorem C17_parse_text_print : forall t, small t -> parse_text (print_ty t) = Ok (Some (ast_of t)).
Proof. exact parse_text_print. Qed.
Print Assumptions C17_parse_text_print.

(* 11. print_ty never emits a token outside the type grammar *)
Theorem C17_print_tokens_ok : forall t top, Forall type_token (print_sub top t).
Proof. exact print_tokens_ok. Qed.
Print Assumptions C17_print_tokens_ok.

(* 12. a sufficient condition for `small` *)
Theorem C17_small_of_size : forall t, nsize t <= 1000 -> small t.
Proof. exact small_of_size. Qed.
Print Assumptions C17_small_of_size.

(* 13. the type parser terminates within its fuel on every token list, does not panic, and consumes
   at least one token when it succeeds *)
Theorem C17_parse_ty_total : forall ts,
  match parse_ty ts with
  | Ok p => (length (r_rest p) < length ts)%nat
  | Err _ => True
  | Panic _ => False
  | OutOfFuel => False
  end.
Proof. exact parse_ty_total. Qed.
Print Assumptions C17_parse_ty_total.

(* 13b. the depth invariant of the parser (commit c4e3694, fix of F-C17l): whatever
   parse_type_postfix builds at Parser::depth d has the depth Parser::last_type_depth says, and
   depth + d <= MAX_NESTING unless it is a leaf; hence every type accepted in an arrow is nested
   less than MAX_NESTING deep, which bounds the recursion of Type::reify / Drop / Clone *)
Theorem C17_parse_postfix_depth : forall fuel d ts p, parse_postfix fuel d ts = Ok p ->
  (forall a, r_ty p = Some a -> adepth a = r_dep p) /\ (r_dep p = 0 \/ d + r_dep p <= max_nesting).
Proof. exact parse_postfix_depth. Qed.
Print Assumptions C17_parse_postfix_depth.

Theorem C17_parse_depth_bounded : forall ts a c r,
  parse_ty ts = Ok (Some a, c, r) -> adepth a = c /\ adepth a < max_nesting.
Proof. exact parse_depth_bounded. Qed.
Print Assumptions C17_parse_depth_bounded.

(* 14. the bound of `small` is exact (observation, not a finding: the limit is the design of the
   fixes F-C17i/j/l): the left-nested product of 1001 factors (depth 1000) is refused (`nested too
   deeply`); with 1000 factors (depth 999) it is read back *)
Theorem C17_parse_print_ty_refuted_deep :
  exists t, tdepth t = max_nesting /\ parse_ty (print_ty t) = Err ENest.
Proof. exact parse_print_ty_refuted_deep. Qed.
Print Assumptions C17_parse_print_ty_refuted_deep.

(* 15. F-C17k (fixed, 2320110): the printer with `1 << n` on an i32 printed 2^(2^31) as a text the
   lexer rejects *)
Theorem C17_print_i32_refuted_w31 :
  exists t, print_ty_i32 t = [TBad] /\ (forall rest, parse_text (print_ty_i32 t ++ rest) = Err ELex) /\
            parse_text (print_ty_i32 t) <> Ok (Some (ast_of t)).
Proof. exact print_i32_refuted_w31. Qed.
Print Assumptions C17_print_i32_refuted_w31.

(* 16. F-C17j (fixed, 559e184): the parser without a budget on its two loops accepted `1` followed
   by k `?` for every k and built a type nested k deep (Type::reify recursed through it) *)
Theorem C17_parse_nobudget_depth_refuted :
  forall k, exists a c, parse_ty_nobudget (TOne :: repeat TQuestion k) = Ok (Some a, c, []) /\ adepth a = N.of_nat k.
Proof. exact parse_nobudget_depth_refuted. Qed.
Print Assumptions C17_parse_nobudget_depth_refuted.

(* 17. F-C17l (fixed, c4e3694): the budget of 559e184 was per loop; the depth of the built type was
   not bounded by MAX_NESTING (witness of depth 2994; 130 layers overflowed the stack) *)
Theorem C17_parse_perloop_depth_refuted :
  exists ts a c, parse_ty_perloop ts = Ok (Some a, c, []) /\ max_nesting < adepth a.
Proof. exact parse_perloop_depth_refuted. Qed.
Print Assumptions C17_parse_perloop_depth_refuted.

(* 18. the compressed evaluation used by the correspondence check (words as one node) computes
   the model *)
Theorem C17_print_a_reify : forall a top, pow_ok a = true -> print_a top a = print_sub top (reify a).
Proof. exact print_a_reify. Qed.
Print Assumptions C17_print_a_reify.

Theorem C17_show_a_reify : forall a, pow_ok a = true -> show_a a = show_ty (reify a).
Proof. exact show_a_reify. Qed.
Print Assumptions C17_show_a_reify.

(* the hypotheses are satisfiable *)
Example C17_ex_small : small (Sum (Prod (Sum One Bit) (word_ty 1)) One) /\ follow_ok [TSym 7; TOther 0].
Proof. split; [apply small_of_size; cbn; lia|exact I]. Qed.


(* ================================================================== phase 3: from_program and the path count
   Models: Human/PathCount.v (the last loop of parse_inner as written: one HashMap per yielded node of
   post_order_iter::<InternalSharing>, usize counts), Human/FromProgram.v (invariant of the MaxSharing
   conversion of Namer). *)

(* 19. C17_from_program_statement proved, with the hypothesis on the identity hashes that the code
   guarantees (CommitData::imr: a node has an identity hash iff it is neither witness nor disconnect and
   all its operands have one) and that operands of nodes are nodes, both as the executable test from_ok
   (evaluated on every generated program by the check, kind fromok): the named DAG of
   Forest::from_program is a well-formed table, distinct node objects carry distinct names, every
   witness / disconnect name is on one path only *)
Theorem C17_from_program : forall p ihr cmr,
  wf_prog p = true ->
  (forall j, (j < pred (length p))%nat -> nth j cmr 0 <> nth (pred (length p)) cmr 0) ->
  from_ok p ihr = true ->
  let d := name_program p ihr cmr in
  wf_ndag d = true /\ NoDup (map (nname d) (post_order d)) /\ path_errs d = [].
Proof. exact from_program_ok. Qed.
Print Assumptions C17_from_program.

(* 20. hence (theorem 3): the rendering of a committed program parses back to the same named DAG *)
Theorem C17_from_program_roundtrip : forall p ihr cmr cmr_of,
  wf_prog p = true ->
  (forall j, (j < pred (length p))%nat -> nth j cmr 0 <> nth (pred (length p)) cmr 0) ->
  from_ok p ihr = true ->
  let d := name_program p ihr cmr in
  exists d', resolve_lines cmr_of (render d) = Ok [(nname d (root_of d), d')] /\ iso d d' /\ wf_ndag d' = true.
Proof. exact from_program_roundtrip. Qed.
Print Assumptions C17_from_program_roundtrip.

(* 21. the statement as first written (identity hashes arbitrary class numbers) does not hold of the
   model: an identity hash on the injl above a witness.  Not a finding - CommitData::imr never produces
   such a table (from_ok = false); it shows that the hypothesis of 19 is needed *)
Theorem C17_from_program_statement_refuted_weak_hyp : ~ C17_from_program_statement.
Proof.
  intros H. destruct from_program_needs_ihr_closed as [W [C [I [_ P]]]].
  apply P. exact (proj2 (proj2 (H unreal_p unreal_ihr unreal_cmr W C I))).
Qed.
Print Assumptions C17_from_program_statement_refuted_weak_hyp.

(* 22. the path-count loop as written and the tidier path_counts of Human/Resolve.v compute the same
   function: for every name, the number of pairs (path from the root, witness / disconnect node of that
   name at its end) *)
Theorem C17_path_counts_agree : forall d n, wf_ndag d = true ->
  cnt_get (last (pc_all d) []) n = name_paths d (root_of d) n /\
  cnt_get (path_counts d) n = name_paths d (root_of d) n.
Proof. exact pc_agree_thm. Qed.
Print Assumptions C17_path_counts_agree.

(* 23. what is reported (unbounded counts): exactly the names reached by more than one path, each
   once, with the number of paths *)
Theorem C17_wd_errors_spec : forall d n c, wf_ndag d = true ->
  (In (n, c) (wd_errors d) <-> c = name_paths d (root_of d) n /\ 1 < c).
Proof. exact wd_errors_spec_thm. Qed.
Print Assumptions C17_wd_errors_spec.

Theorem C17_wd_errors_names : forall d, wf_ndag d = true -> NoDup (map fst (wd_errors d)).
Proof. exact wd_errors_names. Qed.
Print Assumptions C17_wd_errors_names.

(* 24. no error <-> the tidy version reports none <-> every name is reached by at most one path *)
Theorem C17_no_error_iff : forall d, wf_ndag d = true ->
  (wd_errors d = [] <-> path_errs d = []) /\
  (wd_errors d = [] <-> forall n, name_paths d (root_of d) n <= 1).
Proof. exact no_error_iff. Qed.
Print Assumptions C17_no_error_iff.

(* 25. [about the code BEFORE commit c273481, plain `+=` on usize; kept as the record of F-C17m; the code as it
   is: theorems 35-37] with overflow checks the loop either panics (an addition left usize) or reports the
   unbounded result; it never fails otherwise *)
Theorem C17_wd_check_old_ok : forall d, wf_ndag d = true ->
  existsb over (pc_all d) = false -> wd_check_old d = Ok (wd_errors d).
Proof. exact wd_check_old_ok. Qed.
Print Assumptions C17_wd_check_old_ok.

Theorem C17_wd_check_old_total : forall d, wf_ndag d = true ->
  match wd_check_old d with Ok _ => True | Panic c => c = 1 | _ => False end.
Proof. exact wd_check_old_total. Qed.
Print Assumptions C17_wd_check_old_total.

(* 26. F-C17m (fixed, c273481) - the code BEFORE the fix: `w := witness  x0 := comp w unit  x_{k+1} := comp (pair x_k x_k) unit`,
   main := x64: the witness is reached by 2^64 paths; the addition 2^63 + 2^63 leaves usize: with
   overflow checks Forest::parse panics, without them the count wraps to 0 and the text is accepted
   (nothing is reported); with 63 levels the error is reported with count 2^63 *)
Theorem C17_path_count_overflow_old_refuted :
  wf_ndag (ovf_dag 64) = true /\ wd_check_old (ovf_dag 64) = Panic 1 /\
  wd_errors (ovf_dag 64) = [(NUser 0, 2 ^ 64)] /\
  wd_of (wrap (last (pc_all (ovf_dag 64)) [])) = [].
Proof. exact ovf_64. Qed.
Print Assumptions C17_path_count_overflow_old_refuted.

Theorem C17_path_count_old_63 : wf_ndag (ovf_dag 63) = true /\ wd_check_old (ovf_dag 63) = Ok [(NUser 0, 2 ^ 63)].
Proof. exact ovf_63. Qed.
Print Assumptions C17_path_count_old_63.

(* the hypotheses of 19 are satisfiable: `comp (pair witness witness) unit` with the witness object shared *)
Example C17_ex_from_ok :
  let p := [NWitness WNone; NPair 0 0; NUnit; NComp 1 2] in
  wf_prog p = true /\ from_ok p [None; None; Some 1; None] = true /\
  map nn_name (name_program p [None; None; Some 1; None] [1; 2; 3; 4]) =
    [NGen PWit 1; NGen PWit 2; NGen PPr 1; NGen PUt 2; NMain].
Proof. repeat split; vm_compute; reflexivity. Qed.


(* ================================================================== definition lines, token level
   Models: Human/LineText.v (string_serialize pass 1 as a token list `name := expr operands : A -> B`;
   parse_line_vector / parse_line / parse_expr with Parser::depth / parse_cmr / parse_literal /
   parse_arrow / parse_symbol_value over the lexer's token classes; the arrow through the type parser
   of Human/TypeText.v). *)

(* 27. the expression of every rendered definition is read back as the expression that the
   definition-level model (Human/Resolve.v expr_of_defline) assumed, consuming exactly its tokens *)
Theorem C17_pexpr_line : forall l f rest, line_ok l = true ->
  pexpr (S (S f)) 0 (expr_tokens l ++ rest) = Ok (expr_of_defline l, rest).
Proof. exact pexpr_line. Qed.
Print Assumptions C17_pexpr_line.

(* 28. a whole line with its arrow (types nested less than 1000 deep), whatever follows except ? + * *)
Theorem C17_pline_print : forall l src tgt rest,
  line_ok l = true -> small src -> small tgt -> lfollow_ok rest ->
  pline (line_tokens l src tgt ++ rest) = Ok (parsed_line l src tgt, rest).
Proof. exact pline_print. Qed.
Print Assumptions C17_pline_print.

(* 29. parse_line_vector on the token rendering of any list of definitions gives those definitions back,
   and their line parts are the input of Resolve.resolve_lines (theorems 3, 20) *)
Theorem C17_plines_text : forall xs, Forall tline_ok xs ->
  plines (text_tokens xs) = Ok (map (fun x => parsed_line (fst x) (fst (snd x)) (snd (snd x))) xs).
Proof. exact plines_text. Qed.
Print Assumptions C17_plines_text.

Theorem C17_plines_text_lines : forall xs, Forall tline_ok xs ->
  match plines (text_tokens xs) with
  | Ok ps => map pl_line ps = parse_lines (map fst xs)
  | _ => False
  end.
Proof. exact plines_text_lines. Qed.
Print Assumptions C17_plines_text_lines.

(* 30. the line parser terminates on every token vector with lines or an error (no panic, fuel
   suffices), and a line consumes at least one token *)
Theorem C17_pline_total : forall ts, shorter ts (pline ts).
Proof. exact pline_total. Qed.
Print Assumptions C17_pline_total.

Theorem C17_plines_total : forall ts, match plines ts with Ok _ | Err _ => True | _ => False end.
Proof. exact plines_total. Qed.
Print Assumptions C17_plines_total.

(* 31. the compressed rendering used by the correspondence check computes the model *)
Theorem C17_line_tokens_a_eq : forall l a b, pow_ok a = true -> pow_ok b = true ->
  line_tokens_a l a b = line_tokens l (reify a) (reify b).
Proof. exact line_tokens_a_eq. Qed.
Print Assumptions C17_line_tokens_a_eq.

Example C17_ex_line_ok :
  line_ok (mk_dl NMain KComp [] (Some (NGen PPr 1)) (Some (NGen PUt 2)) None) = true /\
  line_ok (mk_dl (NGen PConst 1) KWord [3; 255] None None None) = true /\
  line_ok (mk_dl (NGen PDisc 4) KDisconnect [] (Some (NGen PId 1)) None (Some (NHole 3))) = true.
Proof. exact ex_line_ok. Qed.


(* 32. [code BEFORE c273481] when the plain path count leaves usize (panic with overflow checks): exactly when some witness /
   disconnect name is reached from the root by more than usize::MAX paths *)
Theorem C17_wd_check_old_panic_iff : forall d, wf_ndag d = true ->
  (wd_check_old d = Panic 1 <-> exists n, usize_max < name_paths d (root_of d) n).
Proof. exact wd_check_old_panic_iff. Qed.
Print Assumptions C17_wd_check_old_panic_iff.

(* 33. rendered lines of a well-formed table have the form that theorems 27-29 ask for, given the
   payload sizes of the kinds (jet: one index, fail: 64 bytes, word: n <= 31 and bytes) *)
Theorem C17_render_lines_ok : forall d, wf_ndag d = true ->
  (forall i, (i < length d)%nat -> pay_ok (nget d i) = true) ->
  Forall (fun l => line_ok l = true) (render d).
Proof. exact render_lines_ok. Qed.
Print Assumptions C17_render_lines_ok.

(* 34. the round trip at the level of tokens, for a committed program: the token rendering of
   Forest::from_program (every line with an arrow of types nested less than 1000 deep) is read by the
   token-level line parser, and resolving the lines it returns gives the named DAG back up to renumbering *)
Theorem C17_from_program_token_roundtrip : forall p ihr cmr cmr_of (arrows : list (ty * ty)),
  wf_prog p = true ->
  (forall j, (j < pred (length p))%nat -> nth j cmr 0 <> nth (pred (length p)) cmr 0) ->
  from_ok p ihr = true ->
  let d := name_program p ihr cmr in
  (forall i, (i < length d)%nat -> pay_ok (nget d i) = true) ->
  length arrows = length (render d) ->
  Forall (fun a => small (fst a) /\ small (snd a)) arrows ->
  exists ps d',
    plines (text_tokens (combine (render d) arrows)) = Ok ps /\
    resolve cmr_of (map pl_line ps) = Ok [(nname d (root_of d), d')] /\
    iso d d' /\ wf_ndag d' = true.
Proof. exact from_program_token_roundtrip'. Qed.
Print Assumptions C17_from_program_token_roundtrip.


(* ================================================================== the path count as it is (commit c273481)
   Model: Human/PathSat.v - the loop of Human/PathCount.v with every addition `saturating_add` on usize. *)

(* 35. the check never panics (no overflow; `counts.last().unwrap()` is safe): it returns the report of the
   map of the root *)
Theorem C17_wd_check_sat_ok : forall d, wf_ndag d = true -> wd_check_sat d = Ok (wd_sat d).
Proof. exact wd_check_sat_ok. Qed.
Print Assumptions C17_wd_check_sat_ok.

(* 36. what is reported: exactly the names reached from the root by more than one path, each once, with the
   count min (paths, usize::MAX) *)
Theorem C17_wd_sat_spec : forall d n c, wf_ndag d = true ->
  (In (n, c) (wd_sat d) <-> c = N.min (name_paths d (root_of d) n) usize_max /\ 1 < name_paths d (root_of d) n).
Proof. exact wd_sat_spec_thm. Qed.
Print Assumptions C17_wd_sat_spec.

Theorem C17_wd_sat_names : forall d, wf_ndag d = true -> NoDup (map fst (wd_sat d)).
Proof. exact wd_sat_names. Qed.
Print Assumptions C17_wd_sat_names.

(* 37. the same names as the unbounded report (theorem 23), and no error exactly when the definition-level
   model reports none (path_errs, the hypothesis of theorems 3, 19, 20, 34) *)
Theorem C17_wd_sat_same_names : forall d n, wf_ndag d = true ->
  (In n (map fst (wd_sat d)) <-> In n (map fst (wd_errors d))).
Proof. exact wd_sat_same_names_thm. Qed.
Print Assumptions C17_wd_sat_same_names.

Theorem C17_wd_sat_nil_iff : forall d, wf_ndag d = true -> (wd_sat d = [] <-> path_errs d = []).
Proof. exact wd_sat_nil_iff. Qed.
Print Assumptions C17_wd_sat_nil_iff.

(* 38. the regression of F-C17m: 2^63 paths are reported as such, 2^64 and 2^65 paths with usize::MAX *)
Theorem C17_path_count_saturates :
  wd_check_sat (ovf_dag 63) = Ok [(NUser 0, 2 ^ 63)] /\
  wd_check_sat (ovf_dag 64) = Ok [(NUser 0, 2 ^ 64 - 1)] /\
  wd_check_sat (ovf_dag 65) = Ok [(NUser 0, 2 ^ 64 - 1)].
Proof. exact ovf_sat. Qed.
Print Assumptions C17_path_count_saturates.
