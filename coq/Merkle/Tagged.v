(* Tagged hashes as src/merkle/midstate.rs and src/merkle/cmr.rs build them, over an
   ARBITRARY compression function (Section Hash): nothing here or in Cmr.v /
   CmrStructure.v depends on SHA-256.  The executable instance is in Merkle/Run.v.

     H            256-bit values: midstates, Merkle roots, halves of a 512-bit block
     compress     one application of the compression function: state -> block -> state
     iv           the midstate a tag starts from (`const X_IV: Midstate`, `bip340_iv(tag)`)
     zero         `[0u8; 32]`
     of_weight    24 zero bytes followed by a big-endian u64 (`update_weight_then_32`)    *)
From RS Require Import Lib.Tac Lib.Outcome.
Import ListNotations.
Local Open Scope N_scope.

(* every tag of src/merkle: "Simplicity\x1fCommitment\x1f<c>", "Simplicity\x1fIdentity",
   "Simplicity\x1fJet", "Simplicity\x1fIdentity\x1f<c>", "Simplicity\x1fAnnotated\x1f<c>",
   "Simplicity\x1fType\x1f<c>" *)
Inductive tag :=
| TcUnit | TcIden | TcInjL | TcInjR | TcTake | TcDrop | TcComp | TcCase | TcPair
| TcDisconnect | TcWitness | TcFail
| TIdentity                      (* Cmr::CONST_WORD_IV and the run-time IV of Ihr::from_imr *)
| TJet                           (* run-time IV of Cmr::const_word *)
| TiDisconnect | TiWitness       (* Imr: the two that differ from the commitment tags *)
| TaIden | TaUnit | TaInjL | TaInjR | TaTake | TaDrop | TaComp | TaCase | TaAssertL | TaAssertR
| TaPair | TaDisconnect | TaWitness | TaFail
| TtUnit | TtSum | TtProd.

Definition all_tags : list tag :=
  [TcUnit; TcIden; TcInjL; TcInjR; TcTake; TcDrop; TcComp; TcCase; TcPair; TcDisconnect; TcWitness;
   TcFail; TIdentity; TJet; TiDisconnect; TiWitness;
   TaIden; TaUnit; TaInjL; TaInjR; TaTake; TaDrop; TaComp; TaCase; TaAssertL; TaAssertR; TaPair;
   TaDisconnect; TaWitness; TaFail; TtUnit; TtSum; TtProd].

(* the tags a commitment root is built from *)
Definition cmr_tags : list tag :=
  [TcUnit; TcIden; TcInjL; TcInjR; TcTake; TcDrop; TcComp; TcCase; TcPair; TcDisconnect; TcWitness;
   TcFail; TIdentity; TJet].

Definition tag_code (t : tag) : N :=
  match t with
  | TcUnit => 0 | TcIden => 1 | TcInjL => 2 | TcInjR => 3 | TcTake => 4 | TcDrop => 5 | TcComp => 6
  | TcCase => 7 | TcPair => 8 | TcDisconnect => 9 | TcWitness => 10 | TcFail => 11
  | TIdentity => 12 | TJet => 13 | TiDisconnect => 14 | TiWitness => 15
  | TaIden => 16 | TaUnit => 17 | TaInjL => 18 | TaInjR => 19 | TaTake => 20 | TaDrop => 21
  | TaComp => 22 | TaCase => 23 | TaAssertL => 24 | TaAssertR => 25 | TaPair => 26
  | TaDisconnect => 27 | TaWitness => 28 | TaFail => 29 | TtUnit => 30 | TtSum => 31 | TtProd => 32
  end.

Lemma tag_code_inj a b : tag_code a = tag_code b -> a = b.
Proof.
  intros E.
  assert (R : forall t, nth_error all_tags (N.to_nat (tag_code t)) = Some t) by (intros []; reflexivity).
  pose proof (R a) as Ra. rewrite E, R in Ra. congruence.
Qed.

Definition tag_eqb (a b : tag) : bool := tag_code a =? tag_code b.
Lemma tag_eqb_eq a b : tag_eqb a b = true <-> a = b.
Proof.
  unfold tag_eqb. rewrite N.eqb_eq. split; [apply tag_code_inj | congruence].
Qed.

Lemma all_tags_complete t : In t all_tags.
Proof. destruct t; cbn; repeat (first [left; reflexivity | right]). Qed.

(* panic codes of the model of Cmr::const_word *)
Definition P_POP : N := 1.          (* cmr_stack.pop().unwrap() on an empty stack *)
Definition P_STACK_LEN : N := 2.    (* assert_eq!(cmr_stack.len(), 1) *)
Definition P_TWO_TWO_N : N := 3.    (* Tmr::TWO_TWO_N[w - 1] out of range *)

Section Hash.
  Variable H : Type.
  Variable compress : H -> H * H -> H.
  Variable iv : tag -> H.
  Variable zero : H.
  Variable of_weight : N -> H.

  (* ---------------------------------------------------------------- midstate.rs *)
  Definition update_2x32 (s l r : H) : H := compress s (l, r).
  Definition update_64 (s : H) (e : H * H) : H := compress s e.
  Definition update_0_then_32 (s x : H) : H := update_2x32 s zero x.
  Definition update_weight_then_32 (s : H) (w : N) (x : H) : H := update_2x32 s (of_weight w) x.
  (* into_merkle_root / to_parts().0 / from_byte_array are the identity on H *)

  (* ---------------------------------------------------------------- cmr.rs: impl Cmr *)
  Definition cmr_iden : H := iv TcIden.
  Definition cmr_unit : H := iv TcUnit.
  Definition cmr_injl (c : H) : H := update_0_then_32 (iv TcInjL) c.
  Definition cmr_injr (c : H) : H := update_0_then_32 (iv TcInjR) c.
  Definition cmr_take (c : H) : H := update_0_then_32 (iv TcTake) c.
  Definition cmr_drop (c : H) : H := update_0_then_32 (iv TcDrop) c.
  Definition cmr_comp (l r : H) : H := update_2x32 (iv TcComp) l r.
  Definition cmr_case (l r : H) : H := update_2x32 (iv TcCase) l r.
  Definition cmr_pair (l r : H) : H := update_2x32 (iv TcPair) l r.
  Definition cmr_disconnect (l : H) : H := update_0_then_32 (iv TcDisconnect) l.
  Definition cmr_witness : H := iv TcWitness.
  Definition cmr_fail (e : H * H) : H := update_64 (iv TcFail) e.

  (* ---------------------------------------------------------------- tmr.rs: impl Tmr *)
  Definition tmr_unit_iv : H := iv TtUnit.                               (* Tmr::unit *)
  Definition tmr_sum (a b : H) : H := update_2x32 (iv TtSum) a b.        (* Tmr::sum = update_64(concat) *)
  Definition tmr_product (a b : H) : H := update_2x32 (iv TtProd) a b.
  (* the root of TWO^(2^n) hashed from scratch *)
  Fixpoint tmr_pow (n : nat) : H :=
    match n with
    | O => tmr_sum tmr_unit_iv tmr_unit_iv
    | S k => let x := tmr_pow k in tmr_product x x
    end.

  (* Cmr::BITS and Tmr::TWO_TWO_N are constant tables of the code; Tmr::unit() reads UNIT_IV *)
  Variable bit_cmr : bool -> H.
  Variable tmr_unit : H.
  Variable tmr_two_two_n : list H.        (* 32 entries in the code *)

  (* Cmr::const_word: the stack algorithm, as written.
       for (bit_idx, bit) in word.iter().enumerate() {
           cmr_stack.push(Cmr::BITS[bit]);
           let mut j = bit_idx;
           while j & 1 == 1 { right = pop().unwrap(); left = pop().unwrap();
                              push(Cmr::pair(left, right)); j >>= 1; } }
     The stack is a list with its top at the head.  `j` is a binary number; the loop is
     structural on it. *)
  Definition pop2_pair (st : list H) : outcome N (list H) :=
    match st with
    | r :: l :: rest => Ok (cmr_pair l r :: rest)     (* right is popped first *)
    | _ => Panic P_POP
    end.

  Fixpoint merge_pos (j : positive) (st : list H) : outcome N (list H) :=
    match j with
    | xI q => obind (pop2_pair st) (merge_pos q)       (* odd, j >> 1 = q > 0 *)
    | xH => pop2_pair st                               (* j = 1: one merge, then j = 0 *)
    | xO _ => Ok st                                    (* even: loop exits *)
    end.

  Definition merge (j : N) (st : list H) : outcome N (list H) :=
    match j with N0 => Ok st | Npos p => merge_pos p st end.

  Fixpoint word_loop (bit_idx : N) (bits : list bool) (st : list H) : outcome N (list H) :=
    match bits with
    | [] => Ok st
    | b :: rest => obind (merge bit_idx (bit_cmr b :: st)) (word_loop (bit_idx + 1) rest)
    end.

  (* pass one / pass two of the identity root and the jet tagging, given the scribe's root *)
  Definition word_root (n : nat) (weight : N) (scribe_cmr tmr_w : H) : H :=
    let ihr_pass1 := update_0_then_32 (iv TIdentity) scribe_cmr in
    let ihr_pass2 := update_2x32 ihr_pass1 tmr_unit tmr_w in
    update_weight_then_32 (iv TJet) weight ihr_pass2.

  (* `word.n()` = n, `word.iter()` = bits, `word.len()` = 2^n (a usize: a `Word` has n < 32) *)
  Definition cmr_const_word (n : nat) (bits : list bool) : outcome N H :=
    obind (word_loop 0 bits []) (fun st =>
      match st with
      | [top] =>
          match nth_error tmr_two_two_n n with       (* w - 1 = n *)
          | Some tw => Ok (word_root n (2 ^ N.of_nat n) top tw)
          | None => Panic P_TWO_TWO_N
          end
      | _ => Panic P_STACK_LEN
      end).

End Hash.
