(* C05 at the level of `Value`: the result of BitMachine::exec as the byte-level value the code
   builds, and BitMachine::input fed from a byte-level value.
     src/bit_machine/mod.rs   exec_with_tracker, the end:
                                 let out_frame = self.write.last_mut().unwrap(); out_frame.reset_cursor();
                                 Value::from_padded_bits(&mut out_frame.as_bit_iter_from_cursor(&self.data), target)
                                 (and Value::unit() when the target width is 0)
                              input / write_value: the bits of Value::iter_padded are written
     src/bit_encoding/bititer.rs  BitIter::byte_slice_window(data, start, end): yields the cells from
                                 `start` up to the next byte boundary at or after `end`
   Core/Machine.v reads the output frame as a list of cells; here the same cells are handed to the
   byte-level decoder of the Value family (Value/ValueModel.v, C10) and the refinement theorems
   of that family give: the value returned is well formed, has the target type and denotes
   exactly [eval t a].  When the target width is 0 the code returns `Value::unit()` whatever the
   target type is (type `1`, not B). *)
From RS Require Import Lib.Tac Lib.Outcome Lib.Bits Ty.Ty Core.Prog Core.Term Core.Typing Core.Sem
  Core.Bounds Core.Limits Core.Machine Core.MachineLemmas Core.MachineCorrect Core.MachineCorrect2
  Core.ExecCorrect Generated.Consts.
From RS Require Value.ValueModel Value.ValueBits Value.ValueRefine Value.ValueCons.
Import ListNotations.
Local Open Scope N_scope.
Local Open Scope outcome_scope.

Notation value := ValueModel.value.
Notation WF := ValueRefine.WF.
Notation absv := ValueRefine.absv.
Notation vty := ValueModel.vty.
Notation v_unit := ValueModel.v_unit.

(* the bits yielded by as_bit_iter_from_cursor after reset_cursor, for the active write frame *)
Definition out_window (st : mstate) : list bool :=
  match wr st with
  | f :: _ => mslice (mem st) (fstart f) (N.to_nat (8 * ((fstart f + flen f + 7) / 8) - fstart f))
  | [] => []
  end.

(* the last lines of exec_with_tracker *)
Definition output_value (st : mstate) (B : ty) : M value :=
  if 0 <? bw B then
    match ValueModel.from_padded_bits (out_window st) B with
    | Ok (v, _) => Ok v
    | _ => Panic 8
    end
  else Ok v_unit.

Section MachineV.
  Variable prof : profile.
  Variable cap : N.
  Variable jet_sem : N -> sval -> option sval.

  (* BitMachine::exec returning the Value *)
  Definition exec_v (st : mstate) (t : term) (fuel : nat) : M (mstate * value) :=
    '(st3, _) <- exec prof cap jet_sem st t fuel ;;
    v <- output_value st3 (tgt t) ;;
    Ok (st3, v).

  (* BitMachine::input on a Value: is_of_type, is_empty, write_value(iter_padded) *)
  Definition input_v (st : mstate) (source_ty : ty) (v : value) : M mstate :=
    if negb (ty_eqb (vty v) source_ty) then Err (InputWrongType, st)
    else match ValueModel.iter_padded v with
         | Ok p => input prof cap st source_ty (vty v) p
         | Panic c => Panic c
         | _ => Panic 1
         end.
End MachineV.

Definition machine_exec_v (prof : profile) (jet_cost : N -> N) (jet_sem : N -> sval -> option sval)
    (t : term) (m0 : list bool) (inp : option value) : M (mstate * value) :=
  match for_program_with prof jet_cost t m0 with
  | Err e => Err (LimitExceeded e, mkSt [] 0 [] [] 0 0)
  | Panic c => Panic c
  | OutOfFuel => OutOfFuel
  | Ok st0 =>
      let cap := machine_cap jet_cost t in
      st1 <- match inp with
             | None => Ok st0
             | Some v => input_v prof cap st0 (src t) v
             end ;;
      exec_v prof cap jet_sem st1 t (default_fuel t)
  end.

(* ------------------------------------------------------------------ the link to the bit-level pipeline *)
Lemma machine_exec_v_some prof jet_cost jet_sem t m0 v p :
  ValueModel.iter_padded v = Ok p -> vty v = src t ->
  machine_exec_v prof jet_cost jet_sem t m0 (Some v) =
  ('(st3, _) <- machine_exec prof jet_cost jet_sem t m0 (Some (vty v, p)) ;;
   x <- output_value st3 (tgt t) ;; Ok (st3, x)).
Proof.
  intros Hp Hty. unfold machine_exec_v, machine_exec.
  destruct (for_program_with prof jet_cost t m0) as [st0|e|c|]; try reflexivity.
  cbv zeta. unfold input_v. rewrite Hty, ty_eqb_refl. cbn [negb]. rewrite Hp.
  destruct (input prof (machine_cap jet_cost t) st0 (src t) (src t) p) as [st1|e|c|]; try reflexivity.
Qed.

Lemma machine_exec_v_none prof jet_cost jet_sem t m0 :
  machine_exec_v prof jet_cost jet_sem t m0 None =
  ('(st3, _) <- machine_exec prof jet_cost jet_sem t m0 None ;;
   x <- output_value st3 (tgt t) ;; Ok (st3, x)).
Proof.
  unfold machine_exec_v, machine_exec.
  destruct (for_program_with prof jet_cost t m0) as [st0|e|c|]; reflexivity.
Qed.

(* what `exec` returns is a prefix of the window the decoder is given *)
Lemma exec_ok_window prof cap jet_sem st t fuel st3 bits :
  exec prof cap jet_sem st t fuel = Ok (st3, bits) -> 0 < bw (tgt t) ->
  exists rest, out_window st3 = bits ++ rest.
Proof.
  unfold exec. intros H Hpos.
  destruct (negb (Bool.eqb match rd st with [] => true | _ :: _ => false end (bw (src t) =? 0))); [discriminate|].
  apply N.ltb_lt in Hpos. rewrite Hpos in H.
  destruct (new_write_frame prof cap st (bw (tgt t))) as [st1|e|c|]; cbn [obind] in H; try discriminate.
  destruct (run prof cap jet_sem fuel st1 [CGoto t]) as [st2|e|c|]; cbn [obind] in H; try discriminate.
  destruct (wr st2) as [|f ws]; [discriminate|].
  destruct (window_check _ _) as [[]|e|c|]; cbn [obind] in H; try discriminate.
  destruct (N.leb_spec (fstart f + bw (tgt t)) (8 * ((fstart f + flen f + 7) / 8))) as [Hle|]; [|discriminate].
  injection H as <- <-. unfold out_window. cbn [wr set_wr fstart flen mem].
  set (ow := bw (tgt t)) in *. set (stop := 8 * ((fstart f + flen f + 7) / 8)) in *.
  replace (N.to_nat (stop - fstart f)) with (N.to_nat ow + N.to_nat (stop - fstart f - ow))%nat by lia.
  rewrite mslice_app. eexists. reflexivity.
Qed.

Lemma small_of_width B : width B <= MAX_CELLS -> ValueRefine.small B.
Proof. unfold ValueRefine.small, MAX_CELLS, c_max_cells, usize_max. lia. Qed.

(* decoding the window: C10's theorem about Value::from_padded_bits *)
Lemma output_value_spec st3 B bits rest b :
  ValueRefine.small B -> out_window st3 = bits ++ rest ->
  length bits = N.to_nat (width B) -> of_padded B bits = b ->
  exists v, output_value st3 B = Ok v /\ WF v /\
            (0 < width B -> vty v = B /\ absv v = b) /\
            (width B = 0 -> v = v_unit /\ b = of_padded B []).
Proof.
  intros Hs Hw Hl Hb. unfold output_value. rewrite (bw_eq B Hs).
  destruct (N.ltb_spec 0 (width B)) as [Hpos|Hz].
  - assert (Hp : padded_of B b bits) by (rewrite <- Hb; apply of_padded_total; exact Hl).
    destruct (ValueCons.from_padded_bits_spec B b bits rest Hs Hp) as (v & E & HW & Hty & Ha).
    rewrite Hw, E. exists v. split; [reflexivity|]. split; [exact HW|]. split; [auto|]. intros E0. lia.
  - exists v_unit. split; [reflexivity|]. split.
    + unfold ValueRefine.WF, ValueRefine.small. cbn. unfold ValueBits.blen, usize_max. cbn. repeat split; try lia. constructor.
    + split; [lia|]. intros _. split; [reflexivity|].
      assert (E0 : width B = 0) by lia. rewrite E0 in Hl. destruct bits; [|discriminate]. auto.
Qed.

Lemma machine_exec_ok_window prof jet_cost jet_sem t m0 inp st bits :
  machine_exec prof jet_cost jet_sem t m0 inp = Ok (st, bits) -> 0 < bw (tgt t) ->
  exists rest, out_window st = bits ++ rest.
Proof.
  unfold machine_exec. intros H Hpos.
  destruct (for_program_with prof jet_cost t m0) as [st0|e|c|]; try discriminate.
  cbv zeta in H.
  assert (Hex : exists st1, exec prof (machine_cap jet_cost t) jet_sem st1 t (default_fuel t) = Ok (st, bits)).
  { destruct inp as [[vt pb]|].
    - destruct (input prof (machine_cap jet_cost t) st0 (src t) vt pb) as [st1|e|c|]; cbn [obind] in H; try discriminate.
      eauto.
    - cbn [obind] in H. eauto. }
  destruct Hex as (st1 & Hex).
  eapply exec_ok_window; eauto.
Qed.

Section ExecValue.
  Variable prof : profile.
  Variable jet_ty : N -> option arrow.
  Variable jet_cost : N -> N.
  Variable jet_sem : N -> sval -> option sval.
  Variable t : term.
  Variable A B : ty.
  Hypothesis Hjets : jets_typed jet_ty jet_sem.
  Hypothesis Ht : typed jet_ty t A B.
  Hypothesis Hcheck : check_program prof (bw A) (bw B) (bounds jet_cost t) = Ok tt.

  Lemma small_B : ValueRefine.small B.
  Proof using Ht Hcheck.
    destruct (accepted_exact _ _ _ _ _ _ Ht Hcheck) as (_ & _ & _ & _ & _ & L). apply small_of_width. lia.
  Qed.

  Lemma tgt_t : tgt t = B.
  Proof using Ht. unfold tgt. rewrite (typed_arrow _ _ _ _ Ht). reflexivity. Qed.
  Lemma src_t : src t = A.
  Proof using Ht. unfold src. rewrite (typed_arrow _ _ _ _ Ht). reflexivity. Qed.

  (* the value-level result, stated once for both ways of starting the machine *)
  Definition value_result (r : M (mstate * value)) (m0 : list bool) (res : result) : Prop :=
    match res with
    | ROk b => exists st v, r = Ok (st, v) /\ WF v /\
        (0 < width B -> vty v = B /\ absv v = b) /\
        (width B = 0 -> v = v_unit /\ b = of_padded B []) /\
        hwc st <= width A + width B + extra_cells (bounds jet_cost t) /\ hwc st <= msize m0 /\
        hwf st <= extra_frames (bounds jet_cost t) + IO_EXTRA_FRAMES
    | RErr e => exists st, r = Err (err_of e, st) /\
        hwc st <= width A + width B + extra_cells (bounds jet_cost t) /\ hwc st <= msize m0 /\
        hwf st <= extra_frames (bounds jet_cost t) + IO_EXTRA_FRAMES
    | RStuck => False
    end.

  Lemma lift_bits inp m0 res :
    match res with
    | ROk b => exists st bits,
        machine_exec prof jet_cost jet_sem t m0 inp = Ok (st, bits) /\
        of_padded B bits = b /\ length bits = N.to_nat (width B) /\
        hwc st <= width A + width B + extra_cells (bounds jet_cost t) /\ hwc st <= msize m0 /\
        hwf st <= extra_frames (bounds jet_cost t) + IO_EXTRA_FRAMES
    | RErr e => exists st,
        machine_exec prof jet_cost jet_sem t m0 inp = Err (err_of e, st) /\
        hwc st <= width A + width B + extra_cells (bounds jet_cost t) /\ hwc st <= msize m0 /\
        hwf st <= extra_frames (bounds jet_cost t) + IO_EXTRA_FRAMES
    | RStuck => False
    end ->
    value_result ('(st3, _) <- machine_exec prof jet_cost jet_sem t m0 inp ;;
                  x <- output_value st3 (tgt t) ;; Ok (st3, x)) m0 res.
  Proof using Ht Hcheck.
    destruct res as [b|e|]; cbn [value_result]; auto.
    - intros (st & bits & E & Hb & Hl & H1 & H2 & H3). rewrite E. cbn [obind].
      rewrite tgt_t.
      assert (Hwin : exists rest, out_window st = bits ++ rest).
      { destruct (N.ltb_spec 0 (width B)) as [Hpos|Hz].
        - eapply machine_exec_ok_window; [exact E|]. rewrite tgt_t, (bw_eq B small_B). exact Hpos.
        - assert (E0 : width B = 0) by lia. rewrite E0 in Hl. destruct bits; [|discriminate].
          exists (out_window st). reflexivity. }
      destruct Hwin as (rest & Hw).
      destruct (output_value_spec st B bits rest b small_B Hw Hl Hb) as (v & Ev & HW & Hp & Hz).
      rewrite Ev. cbn [obind]. exists st, v. split; [reflexivity|]. split; [exact HW|]. auto 8.
    - intros (st & E & H). rewrite E. cbn [obind]. exists st. split; [reflexivity|exact H].
  Qed.

  (* C05 exec_correct with Values on both sides: the input is any well-formed Value of the source
     type (its buffer, offset and padding contents are arbitrary), the result is the Value that
     BitMachine::exec returns *)
  Theorem exec_master_value (vin : value) m0 :
    WF vin -> vty vin = A -> length m0 = N.to_nat (machine_cells jet_cost t) ->
    value_result (machine_exec_v prof jet_cost jet_sem t m0 (Some vin)) m0 (eval jet_sem t (absv vin)).
  Proof using Hjets Ht Hcheck.
    intros HW Hty Hl.
    pose proof (ValueRefine.iter_padded_spec vin HW) as Hip.
    pose proof (ValueRefine.vbits_padded_of vin) as Hpad. rewrite Hty in Hpad.
    rewrite (machine_exec_v_some prof jet_cost jet_sem t m0 vin _ Hip) by (rewrite src_t; exact Hty).
    rewrite Hty. apply lift_bits.
    exact (exec_master prof jet_ty jet_cost jet_sem t A B Hjets Ht Hcheck (absv vin) (ValueRefine.vbits vin) m0 Hpad Hl).
  Qed.

  Theorem exec_master_value_noinput a m0 :
    width A = 0 -> has_ty a A = true -> length m0 = N.to_nat (machine_cells jet_cost t) ->
    value_result (machine_exec_v prof jet_cost jet_sem t m0 None) m0 (eval jet_sem t a).
  Proof using Hjets Ht Hcheck.
    intros E0 Ha Hl. rewrite machine_exec_v_none. apply lift_bits.
    exact (exec_master_noinput prof jet_ty jet_cost jet_sem t A B Hjets Ht Hcheck a m0 E0 Ha Hl).
  Qed.
End ExecValue.

(* `Value::unit()` for every zero-width target: the returned Value has type 1 even when the target
   type is 1 * 1 (observation recorded by C10; the denoted element is still the only one) *)
Example output_value_zero_width st :
  output_value st (Prod One One) = Ok v_unit /\ vty v_unit = One /\ One <> Prod One One.
Proof. repeat split. discriminate. Qed.
