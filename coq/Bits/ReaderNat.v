(* read_natural on the cached-byte reader = read_nat on the bits still to come.
   Connects the byte-level reader model (BitIter.v) with the natural-number code
   (Natural.v), and specifies collect_bits / pack. *)
From RS Require Import Lib.Tac Lib.Outcome Lib.ListExtra Lib.Bits Lib.Sweep Lib.ByteSweep
  Bits.Natural Bits.BitIter.
Import ListNotations.
Local Open Scope N_scope.

Lemma bi_remaining_length it : bi_inv it ->
  length (bi_remaining it) = bi_remaining_len it.
Proof.
  intros (Hrb & _ & _). unfold bi_remaining, bi_remaining_len.
  rewrite app_length, bits_be_length, bits_of_bytes_length. reflexivity.
Qed.

Lemma bi_take_spec n : forall it, bi_inv it -> bi_take n it = firstn n (bi_remaining it).
Proof.
  induction n as [|n IH]; intros it Hinv; [reflexivity|].
  cbn [bi_take]. pose proof (bi_next_spec it Hinv) as H.
  destruct (bi_remaining it) as [|b tl] eqn:E.
  - rewrite H. reflexivity.
  - destruct H as (it' & Hn & Hr & Hi & _). rewrite Hn. cbn [firstn]. f_equal.
    rewrite IH by exact Hi. rewrite Hr. reflexivity.
Qed.

Lemma bi_all_bits_spec it : bi_inv it -> bi_all_bits it = bi_remaining it.
Proof.
  intros H. unfold bi_all_bits. rewrite bi_take_spec by exact H.
  rewrite <- bi_remaining_length by exact H. apply firstn_all.
Qed.

Lemma bi_skip_spec n : forall it, bi_inv it -> (n <= length (bi_remaining it))%nat ->
  exists it', bi_skip n it = Some it' /\ bi_remaining it' = skipn n (bi_remaining it) /\
              bi_inv it' /\ bi_total it' = bi_total it + N.of_nat n.
Proof.
  induction n as [|n IH]; intros it Hinv Hlen.
  - exists it. cbn [bi_skip skipn]. split; [reflexivity|]. split; [reflexivity|]. split; [assumption|]. change (N.of_nat 0) with 0. lia.
  - cbn [bi_skip]. pose proof (bi_next_spec it Hinv) as H.
    destruct (bi_remaining it) as [|b tl] eqn:E; [cbn in Hlen; lia|].
    destruct H as (it1 & Hn & Hr & Hi & Ht). rewrite Hn.
    cbn [length] in Hlen.
    destruct (IH it1 Hi ltac:(rewrite Hr; lia)) as (it' & Hs & Hr' & Hi' & Ht').
    exists it'. split; [exact Hs|]. split; [rewrite Hr', Hr; reflexivity|].
    split; [exact Hi'|]. rewrite Ht', Ht. lia.
Qed.

(* read_natural on the reader: the result and the reader's new position are those of
   the abstract decoder on the remaining bits *)
Theorem bi_read_natural_spec ty_max bound it : bi_inv it ->
  match read_nat ty_max bound (bi_remaining it) with
  | Ok (n, rest) =>
      exists it', bi_read_natural ty_max bound it = Ok (n, it') /\
                  bi_remaining it' = rest /\ bi_inv it' /\
                  bi_total it' = bi_total it + N.of_nat (length (encode_nat n))
  | Err e => bi_read_natural ty_max bound it = Err e
  | Panic c => False
  | OutOfFuel => False
  end.
Proof.
  intros Hinv. unfold bi_read_natural. rewrite bi_all_bits_spec by exact Hinv.
  pose proof (read_nat_total ty_max bound (bi_remaining it)) as Htot.
  destruct (read_nat ty_max bound (bi_remaining it)) as [[n rest]|e|c|] eqn:E; try exact Htot.
  - apply encode_read in E. destruct E as (Hl & _).
    assert (Hlen : (length (bi_remaining it) - length rest = length (encode_nat n))%nat).
    { rewrite Hl, app_length. lia. }
    rewrite Hlen.
    destruct (bi_skip_spec (length (encode_nat n)) it Hinv
                ltac:(rewrite Hl, app_length; lia)) as (it' & Hs & Hr & Hi & Ht).
    exists it'. rewrite Hs. split; [reflexivity|]. split; [|split; [exact Hi|exact Ht]].
    rewrite Hr, Hl, skipn_app, skipn_all, Nat.sub_diag. reflexivity.
  - reflexivity.
Qed.

(* ------------------------------------------------------------ collect_bits *)

Lemma val_be_lt_256 l : (length l <= 8)%nat -> val_be l < 256.
Proof.
  intros H. unfold val_be. pose proof (val_be_acc_bound l 0) as Hb.
  assert (2 ^ N.of_nat (length l) <= 2 ^ 8) by (apply N.pow_le_mono_r; lia).
  change (2 ^ 8) with 256 in *. lia.
Qed.

Lemma bits_be_8_val_be l : length l = 8%nat -> bits_be 8 (val_be l) = l.
Proof. intros H. unfold val_be. rewrite <- H. apply bits_be_val_be. Qed.

(* invariant of the fold: finished bytes are the packed full chunks *)
Lemma collect_fold_spec l : forall bytes cur,
  (length cur < 8)%nat -> bytes_ok bytes ->
  let '(bytes', cur') := fold_left collect_step l (bytes, cur) in
  (length cur' < 8)%nat /\ bytes_ok bytes' /\
  bits_of_bytes (rev bytes') ++ cur' = bits_of_bytes (rev bytes) ++ cur ++ l.
Proof.
  induction l as [|b r IH]; intros bytes cur Hc Hb.
  - cbn. rewrite app_nil_r. auto.
  - cbn [fold_left collect_step].
    destruct (Nat.eqb (length (cur ++ [b])) 8) eqn:E.
    + apply Nat.eqb_eq in E.
      specialize (IH (val_be (cur ++ [b]) :: bytes) [] ltac:(cbn; lia)
                     ltac:(constructor; [apply val_be_lt_256; lia|exact Hb])).
      destruct (fold_left collect_step r (val_be (cur ++ [b]) :: bytes, [])) as [bytes' cur'].
      destruct IH as (H1 & H2 & H3). split; [exact H1|]. split; [exact H2|].
      rewrite H3. cbn [rev]. rewrite bits_of_bytes_app. cbn [bits_of_bytes flat_map].
      unfold bits_of_byte. rewrite bits_be_8_val_be by exact E.
      rewrite app_nil_r, <- !app_assoc. reflexivity.
    + apply Nat.eqb_neq in E. rewrite app_length in *. cbn [length] in *.
      specialize (IH bytes (cur ++ [b]) ltac:(rewrite app_length; cbn [length]; lia) Hb).
      destruct (fold_left collect_step r (bytes, cur ++ [b])) as [bytes' cur'].
      destruct IH as (H1 & H2 & H3). split; [exact H1|]. split; [exact H2|].
      rewrite H3, <- !app_assoc. reflexivity.
Qed.

(* collect_bits: the bytes hold the bits followed by fewer than 8 zeros; the length
   reported is the number of bits *)
Theorem collect_bits_spec l :
  let '(bytes, n) := collect_bits l in
  bytes_ok bytes /\ n = N.of_nat (length l) /\
  exists pad, (pad < 8)%nat /\ bits_of_bytes bytes = l ++ repeat false pad /\
              (length bytes * 8 = length l + pad)%nat.
Proof.
  unfold collect_bits.
  pose proof (collect_fold_spec l [] [] ltac:(cbn; lia) ltac:(constructor)) as H.
  destruct (fold_left collect_step l ([], [])) as [bytes cur].
  destruct H as (Hc & Hb & Heq). cbn [rev bits_of_bytes flat_map app] in Heq.
  assert (Hlen : (8 * length bytes + length cur = length l)%nat).
  { pose proof (f_equal (@length bool) Heq) as HL.
    rewrite app_length, bits_of_bytes_length, rev_length in HL. exact HL. }
  destruct cur as [|c0 cr].
  - rewrite app_nil_r in Heq. split; [|split].
    + unfold bytes_ok in *. apply Forall_rev. exact Hb.
    + cbn [length] in *. lia.
    + exists O. split; [lia|]. cbn [repeat]. rewrite app_nil_r. split; [exact Heq|].
      rewrite rev_length. cbn [length] in Hlen. lia.
  - set (cur := c0 :: cr) in *.
    assert (Hcl : (1 <= length cur)%nat) by (unfold cur; cbn [length]; lia).
    clearbody cur.
    assert (Hpadlen : length (cur ++ repeat false (8 - length cur)) = 8%nat).
    { rewrite app_length, repeat_length. lia. }
    split; [|split].
    + unfold bytes_ok in *. cbn [rev]. apply Forall_app. split; [apply Forall_rev; exact Hb|].
      constructor; [apply val_be_lt_256; lia|constructor].
    + lia.
    + exists (8 - length cur)%nat. split; [lia|]. split.
      * cbn [rev]. rewrite bits_of_bytes_app. cbn [bits_of_bytes flat_map].
        unfold bits_of_byte. rewrite bits_be_8_val_be by exact Hpadlen.
        rewrite app_nil_r, app_assoc, Heq. reflexivity.
      * cbn [rev]. rewrite app_length, rev_length. cbn [length]. lia.
Qed.
