(* C04 - Type inference is sound, principal and order-independent.
   Only pinned statements (`Theorem .. exact lemma`) and `Print Assumptions`, plus Examples
   showing that the hypotheses are satisfiable.
   Models: Infer/Constraints.v (the constraints of every combinator, from types/arrow.rs),
   Infer/Unify.v (reference unification, occurs check deferred), Infer/Infer.v (infer and the
   typing rules check_typing), Infer/Display.v (printers).  Proofs: Infer/Unify.v,
   Infer/Principal.v, Infer/Gen.v, Infer/Theorems.v, Infer/Order.v.
   The Rust union-bound algorithm itself is tied to `infer` by the correspondence check. *)
From RS Require Import Lib.Tac Lib.Outcome Ty.Ty Core.Prog Generated.Consts
  Infer.Constraints Infer.Unify Infer.Infer Infer.Principal Infer.Gen Infer.Theorems Infer.Order
  Infer.Display Infer.DisplayBound
  Infer.Run Infer.Run2 Infer.UnionFind Infer.Slab Infer.RunSlab Infer.Rational Infer.ErrClass Infer.ErrDisplay Infer.SlabProofs.
Import ListNotations.

(* ------------------------------------------------------------------ inference *)

(* infer_sound: a finalised program satisfies the typing rule of every combinator (and a
   program root is 1 -> 1) *)
Theorem C04_infer_sound : forall (jt : jet_table) (root : option nat) (p : prog) tau,
  infer jt root p = Ok tau -> check_typing jt root p tau = true.
Proof. exact infer_sound. Qed.
Print Assumptions C04_infer_sound.

(* infer_complete: a program finalises EXACTLY when its typing rules have a finite (ground)
   solution ... *)
Theorem C04_infer_complete : forall (jt : jet_table) (root : option nat) (p : prog),
  (exists tau, check_typing jt root p tau = true) <-> (exists tau0, infer jt root p = Ok tau0).
Proof. exact infer_complete_iff. Qed.
Print Assumptions C04_infer_complete.

(* ... and otherwise returns an error: never a panic, never out of fuel (the fuel
   S (nroots s) of unify and S (length s) of the occurs check are sufficient) *)
Theorem C04_infer_total : forall (jt : jet_table) (root : option nat) (p : prog),
  match infer jt root p with Ok _ | Err _ => True | Panic _ | OutOfFuel => False end.
Proof. exact infer_total_outcome. Qed.
Print Assumptions C04_infer_total.

Theorem C04_infer_rejects : forall (jt : jet_table) (root : option nat) (p : prog),
  (forall tau, check_typing jt root p tau = false) -> exists e, infer jt root p = Err e.
Proof. exact infer_rejects. Qed.
Print Assumptions C04_infer_rejects.

(* infer_least (principal types): the result is the most general solution with all remaining
   variables set to unit: it is below EVERY typing of the program in the pointwise ty_le order
   (unit below everything, Ty.v) - hence the unique least typing *)
Theorem C04_infer_least : forall (jt : jet_table) (root : option nat) (p : prog) tau0 tau,
  infer jt root p = Ok tau0 -> check_typing jt root p tau = true -> typing_le tau0 tau = true.
Proof. exact infer_least. Qed.
Print Assumptions C04_infer_least.

(* infer_order: any two topological construction orders of the same DAG (p' = p renumbered
   by the bijection pi, children before parents in both) give node by node the same arrows,
   or both fail *)
Theorem C04_infer_order : forall (jt : jet_table) (root : option nat) (p p' : prog) (pi pinv : nat -> nat),
  perm_of (length p) pi pinv -> permuted pi p p' ->
  wf_from 0 p = true -> wf_from 0 p' = true ->
  (forall r, root = Some r -> (r < length p)%nat) ->
  match infer jt root p, infer jt (option_map pi root) p' with
  | Ok tau, Ok tau' => forall i, (i < length p)%nat -> nth (pi i) tau' None = nth i tau None
  | Err _, Err _ => True
  | _, _ => False
  end.
Proof. exact infer_order. Qed.
Print Assumptions C04_infer_order.

(* error classes: inference never reports CompleteTypeMismatch (the Rust code reports every
   unification failure as Error::Bind and cycles as Error::OccursCheck) *)
Theorem C04_infer_never_complete_mismatch : forall (jt : jet_table) (root : option nat) (p : prog),
  infer jt root p <> Err ECompleteMismatch.
Proof. exact infer_never_complete_mismatch. Qed.
Print Assumptions C04_infer_never_complete_mismatch.

(* ------------------------------------------------------------------ the pieces *)

(* unification computes exactly the models of the store that satisfy the equations (most
   general unifier, semantically), for cyclic stores as well *)
Theorem C04_solve_exact : forall (s s' : store) (eqs : list (nat * nat)),
  wf s -> eqs_in (length s) eqs -> solve s eqs = Ok s' ->
  forall al, sat al s' <-> (sat al s /\ eqs_hold al eqs).
Proof. exact solve_exact. Qed.
Print Assumptions C04_solve_exact.

Theorem C04_solve_fails_only_without_model : forall (s : store) (eqs : list (nat * nat)),
  wf s -> eqs_in (length s) eqs ->
  match solve s eqs with
  | Ok _ => True
  | Err _ => forall al, ~ (sat al s /\ eqs_hold al eqs)
  | _ => False
  end.
Proof. exact solve_fails_only_without_model. Qed.
Print Assumptions C04_solve_fails_only_without_model.

(* the occurs check at the end is exact: it passes iff the solved store has a finite model *)
Theorem C04_occurs_check_exact : forall s : store, wf s ->
  (occurs_ok s = true <-> exists al, sat al s).
Proof. exact occurs_check_exact. Qed.
Print Assumptions C04_occurs_check_exact.

(* the constraints generated for one node are exactly its typing rule *)
Theorem C04_constraints_sound : forall jt n ar nd nb ne a al,
  node_tmpl jt n ar nd = Some (nb, ne, a) -> sat_list al n nb -> eqs_hold al ne ->
  check_node jt (map (img al) ar) nd (img al a) = true.
Proof. exact node_tmpl_sound. Qed.
Print Assumptions C04_constraints_sound.

Theorem C04_constraints_complete : forall jt n ar nd al own,
  arr_in n ar -> check_node jt (map (img al) ar) nd own = true ->
  exists nb ne a al', node_tmpl jt n ar nd = Some (nb, ne, a) /\
    (forall v, (v < n)%nat -> al' v = al v) /\ sat_list al' n nb /\ eqs_hold al' ne /\ img al' a = own.
Proof. exact node_tmpl_complete. Qed.
Print Assumptions C04_constraints_complete.

(* ------------------------------------------------------------------ display *)

(* display_bounded: the printer of incomplete bounds (verbose pre-order walk with
   MAX_DISPLAY_DEPTH / MAX_DISPLAY_LENGTH) terminates and emits at most 3 (LENGTH + 1) + 1
   <= 3 (LENGTH + DEPTH) tokens on any bound graph, cyclic or not; a complete type embedded in
   the bound counts as one token here (see the refuted clause below) *)
Theorem C04_display_bounded : forall (g : igraph) (root : nat),
  exists out, print_inc g root (N.to_nat c_max_display_depth) (N.to_nat c_max_display_length) = Ok out /\
    (length out <= 3 * (N.to_nat c_max_display_length + N.to_nat c_max_display_depth))%nat.
Proof. exact display_bounded. Qed.
Print Assumptions C04_display_bounded.

(* space: the iterator's stack never holds more than DEPTH + 1 items *)
Theorem C04_display_space : forall (g : igraph) (root D L : nat) (st : pstate),
  reach g D L (mk_pstate [mk_item root 0 0 0] 0 false []) st -> (length (st_stack st) <= D + 1)%nat.
Proof. exact print_inc_space. Qed.
Print Assumptions C04_display_space.

(* display_final_size: Final's Display writes at least one token per node of the TREE
   expansion of a (product-only) complete type: no depth or length limit, no sharing *)
Theorem C04_display_final_size : forall t, prod_only t = true ->
  (ty_size t <= length (display_final t))%nat.
Proof. exact display_final_size. Qed.
Print Assumptions C04_display_final_size.

(* F-C04: the boundedness clause is refuted for errors that embed complete types: the
   complete type of n nested `pair x x` over `pair unit (word u8)` (a DAG of n + 7 nodes) is
   printed with at least 2^n tokens; no bound of the form c (LENGTH + DEPTH) holds *)
Theorem C04_display_final_unbounded_refuted : forall B : nat, exists t : ty,
  (B < length (display_final t))%nat.
Proof. exact display_final_unbounded_refuted. Qed.
Print Assumptions C04_display_final_unbounded_refuted.

Theorem C04_display_final_bomb : forall n, (2 ^ n <= length (display_final (bomb_ty n)))%nat.
Proof. exact display_final_bomb. Qed.
Print Assumptions C04_display_final_bomb.

(* ------------------------------------------------------------------ the hypotheses are satisfiable *)

(* pair iden unit, take of it; constructed in the order 0 1 2 3 and in the order 1 0 2 3 *)
Example C04_ex_infer :
  infer [] None [NIden; NUnit; NPair 0 1; NTake 2] =
  Ok [Some (One, One); Some (One, One); Some (One, Prod One One); Some (Prod One One, Prod One One)].
Proof. vm_compute. reflexivity. Qed.

Example C04_ex_order :
  let p := [NIden; NUnit; NPair 0 1; NTake 2] in
  let p' := [NUnit; NIden; NPair 1 0; NTake 2] in
  let pi := fun i => match i with 0 => 1 | 1 => 0 | k => k end%nat in
  perm_of (length p) pi pi /\ permuted pi p p' /\ wf_from 0 p = true /\ wf_from 0 p' = true /\
  infer [] None p' = Ok [Some (One, One); Some (One, One); Some (One, Prod One One); Some (Prod One One, Prod One One)].
Proof.
  cbn zeta. split; [|split; [|split; [reflexivity|split; [reflexivity|vm_compute; reflexivity]]]].
  - constructor; intros [|[|[|[|k]]]] H; cbn in *; lia.
  - split; [reflexivity|]. intros [|[|[|[|k]]]] H; cbn in *; try reflexivity; lia.
Qed.

(* an occurs-check cycle (disconnect iden iden), an ill-typed program, a program root *)
Example C04_ex_occurs : infer [] None [NIden; NDisconnect 0 (Some 0%nat)] = Err EOccurs.
Proof. vm_compute. reflexivity. Qed.

Example C04_ex_bind : infer [] None [NUnit; NCase 0 0; NDisconnect 1 (Some 0%nat)] = Err (EBind 0).
Proof. vm_compute. reflexivity. Qed.

Example C04_ex_root : infer [] (Some 2%nat) [NIden; NDrop 0; NCase 1 0] = Err (EBind 1).
Proof. vm_compute. reflexivity. Qed.

Example C04_ex_solve :
  let s := [BFree; BFree; BSum 0 1; BOne; BSum 3 3] in
  wf s /\ eqs_in (length s) [(2, 4)]%nat /\ exists s', solve s [(2, 4)]%nat = Ok s'.
Proof.
  cbn zeta. split; [|split].
  - intros [|[|[|[|[|v]]]]] H; cbn in *; lia.
  - intros x y [E|[]]. injection E as <- <-. cbn. lia.
  - eexists. vm_compute. reflexivity.
Qed.

(* ================================================================== phase 2 *)

(* ------------------------------------------------------------------ the Rust union-bound heap (union_bound.rs as written) *)

(* UbElement::root_element (path halving): under the rank invariant it returns the representative
   within the fuel 1 + largest rank, keeps the invariant, the ranks, the roots' data, and the
   represented partition: every element has the same representative before and after *)
Theorem C04_uf_root_element : forall (u : uf) (x : nat), uf_wf u -> (x < length u)%nat ->
  exists u', root_element (uf_fuel u) u x = Ok (u', rep u x) /\ uf_wf u' /\ length u' = length u /\
    max_rank u' = max_rank u /\
    (forall e, ub_rank (ufget u' e) = ub_rank (ufget u e)) /\
    (forall e, (e < length u)%nat -> rep u' e = rep u e) /\
    (forall e, is_uroot u e -> ufget u' e = ufget u e) /\
    (forall e, is_uroot u' e -> is_uroot u e).
Proof. exact root_element_ok. Qed.
Print Assumptions C04_uf_root_element.

(* the linking step of UbElement::unify (rank increment on equal ranks, then y.data := EqualTo(x)):
   keeps the rank invariant and merges exactly the classes of the two roots *)
Theorem C04_uf_link : forall (u : uf) (x y : nat), uf_wf u -> (x < length u)%nat -> (y < length u)%nat ->
  is_uroot u x -> is_uroot u y -> x <> y -> (ub_rank (ufget u y) <= ub_rank (ufget u x))%N ->
  uf_wf (ub_link u x y) /\ length (ub_link u x y) = length u /\
  forall e, (e < length u)%nat -> rep (ub_link u x y) e = if Nat.eqb (rep u e) y then x else rep u e.
Proof. exact ub_link_spec. Qed.
Print Assumptions C04_uf_link.

(* the full refinement (the slab model of Infer/Slab.v computes, on every construction, what the
   reference computes) is compared case by case (RunSlab.run_both) and stated here *)
Definition C04_slab_refines_reference_statement : Prop :=
  forall (fmode : nat) (program : bool) (order : list nat) (jets : list (N * N * list N * list N)) (p : prog),
    strip99 (run_rinfer fmode program order jets p) = run_infer program order jets p.

(* ------------------------------------------------------------------ what is independent of the order, error class included *)

(* solve succeeds exactly when store and equations have a model in possibly infinite trees; it
   reports a clash exactly when they have none *)
Theorem C04_solve_ok_iff : forall (s : store) (eqs : list (nat * nat)), wf s -> eqs_in (length s) eqs ->
  ((exists s', solve s eqs = Ok s') <-> consistent s eqs).
Proof. exact solve_ok_iff. Qed.
Print Assumptions C04_solve_ok_iff.

Theorem C04_solve_err_iff : forall (s : store) (eqs : list (nat * nat)), wf s -> eqs_in (length s) eqs ->
  (solve s eqs = Err tt <-> ~ consistent s eqs).
Proof. exact solve_err_iff. Qed.
Print Assumptions C04_solve_err_iff.

(* any reordering (any list with the same members) of the equations gives the same outcome class:
   clash / solved store failing the occurs check / solved store passing it, and then the same
   resolved type of every variable *)
Theorem C04_solve_perm_class : forall (s : store) (eqs eqs' : list (nat * nat)),
  wf s -> eqs_in (length s) eqs -> same_members eqs eqs' ->
  match solve s eqs, solve s eqs' with
  | Ok s1, Ok s2 =>
      occurs_ok s1 = occurs_ok s2 /\
      (occurs_ok s1 = true -> forall v, (v < length s)%nat -> res s1 v = res s2 v)
  | Err _, Err _ => True
  | _, _ => False
  end.
Proof. exact solve_perm_class. Qed.
Print Assumptions C04_solve_perm_class.

(* what does depend on the order: the failing equation is the last one of the shortest inconsistent prefix *)
Theorem C04_solve_first_failure : forall (s : store) (eqs : list (nat * nat)), wf s -> eqs_in (length s) eqs ->
  (solve s eqs = Err tt <->
   exists k x y, nth_error eqs k = Some (x, y) /\ consistent s (firstn k eqs) /\ ~ consistent s (firstn (S k) eqs)).
Proof. exact solve_first_failure. Qed.
Print Assumptions C04_solve_first_failure.

(* the error class of infer in terms of the constraint SET *)
Theorem C04_infer_class_char : forall jt root p g rb re, gen jt p = Some g -> root_tmpl g root = Some (rb, re) ->
  let c0 := consistent (g_store g) (g_eqs g) in
  let c1 := consistent (g_store g ++ rb) (g_eqs g ++ re) in
  let fin := finite_model (g_store g ++ rb) (g_eqs g ++ re) in
  (infer jt root p = Err (EBind 0) <-> ~ c0) /\
  (infer jt root p = Err (EBind 1) <-> c0 /\ ~ c1) /\
  (infer jt root p = Err EOccurs <-> c1 /\ ~ fin) /\
  ((exists tau, infer jt root p = Ok tau) <-> fin).
Proof. exact infer_class_char. Qed.
Print Assumptions C04_infer_class_char.

(* construction orders: the class is the same for every valid order - full statement, and its proof by
   computation for all 1565 programs of <= 3 nodes over 5 leaves + 7 combinators x all orders x program flag *)
Definition C04_class_order_statement : Prop := class_order_statement.

Theorem C04_class_order_partial :
  forallb check_table (all_tables 1 ++ all_tables 2 ++ all_tables 3) = true.
Proof. exact class_order_small. Qed.
Print Assumptions C04_class_order_partial.

(* Type::to_incomplete reports <self-reference> exactly when the reference occurs check fails on that variable *)
Theorem C04_to_incomplete_cycle : forall (s : store) (v : nat), show_inc s v = [8%N] <-> res s v = None.
Proof. exact show_inc_cycle. Qed.
Print Assumptions C04_to_incomplete_cycle.

Example C04_ex_consistent_cyclic :
  (* iden; disconnect iden iden: the constraints are consistent in infinite trees (solve succeeds) but have no finite model *)
  exists g s', gen [] [NIden; NDisconnect 0 (Some 0%nat)] = Some g /\ solve (g_store g) (g_eqs g) = Ok s' /\ occurs_ok s' = false.
Proof. eexists. eexists. split; [reflexivity|]. split; vm_compute; reflexivity. Qed.

Example C04_ex_uf :
  let u := [mk_ub (UEq 1) 0; mk_ub (UEq 2) 1; mk_ub (URoot 7) 2] in
  uf_wf u /\ root_element (uf_fuel u) u 0 = Ok ([mk_ub (UEq 2) 0; mk_ub (UEq 2) 1; mk_ub (URoot 7) 2], 2%nat).
Proof.
  cbn zeta. split; [|vm_compute; reflexivity].
  intros [|[|[|e]]] H; cbn in *; try lia; auto; split; lia.
Qed.

(* ------------------------------------------------------------------ Display of types::Error on the slab model *)

(* a Bind error whose existing bound is a complete type t prints Final's whole Display of t *)
Theorem C04_error_display_embeds : forall (c : ctx) st ex nb t,
  (ex < length (c_slab c))%nat -> slab_get c ex = RComplete t ->
  forall n x, err_display (RBind st ex nb) c = Ok (n, x) ->
  x = [TFinal t] /\ (length (display_final t) <= length (expand n ++ expand x))%nat.
Proof. exact err_display_embeds. Qed.
Print Assumptions C04_error_display_embeds.

(* F-C04 on the model of the error path: no bound on the text of a type error *)
Theorem C04_error_display_unbounded_refuted : forall B : nat, exists c e n x,
  err_display e c = Ok (n, x) /\ (B < length (expand n ++ expand x))%nat.
Proof. exact err_display_unbounded_refuted. Qed.
Print Assumptions C04_error_display_unbounded_refuted.

(* apart from embedded complete types the message is bounded: each of the two bounds takes at most
   3 (MAX_DISPLAY_LENGTH + 1) + 1 tokens, one token per embedded complete type *)
Theorem C04_error_display_bounded : forall (c : ctx) e n x, err_display e c = Ok (n, x) ->
  (length n <= 3 * (disp_length + 1) + 1)%nat /\ (length x <= 3 * (disp_length + 1) + 1)%nat.
Proof. exact err_display_bounded. Qed.
Print Assumptions C04_error_display_bounded.

(* ------------------------------------------------------------------ the slab model against valuations (first part of the refinement) *)

(* bound.root(): returns the BoundRef of the representative; partition, representatives' data and models unchanged *)
Theorem C04_slab_root : forall (c : ctx) (e : nat), cwf c -> (e < length (c_uf c))%nat ->
  exists u', c_root c e = Ok (put_uf c u', bref_of (c_uf c) (rep (c_uf c) e)) /\ same_part (c_uf c) u' /\
             (forall al, rsat al (put_uf c u') <-> rsat al c).
Proof.
  intros c e CW He. destruct (c_root_spec c e CW He) as (u' & E & P).
  exists u'. split; [exact E|]. split; [exact P|]. intros al. apply rsat_same_part. exact P.
Qed.
Print Assumptions C04_slab_root.

(* bind(existing, Complete t) - the Complete-vs-Incomplete arms of context.rs as written, recursing on the
   roots of both children - is sound: every model of the state it returns is a model of the state before
   in which the class of `existing` has type t; no class is merged *)
Theorem C04_slab_bind_complete_sound : forall fuel (c : ctx) b t c' eb,
  cwf c -> holds_ref c eb b ->
  bind fuel c b (RComplete t) = Ok c' ->
  cwf c' /\ keeps_part c c' /\ length (c_slab c') = length (c_slab c) /\
  (forall al, rsat al c' -> rsat al c /\ al eb = t).
Proof. exact bind_complete_sound. Qed.
Print Assumptions C04_slab_bind_complete_sound.

(* A x A against the complete asymmetric 2 x 2^8: the hypotheses hold and the model rejects *)
Example C04_ex_slab_bind_asym :
  let c := mk_ctx [RFree; RProd 0 0] [mk_ub (URoot 0) 0; mk_ub (URoot 1) 0] in
  cwf c /\ holds_ref c 1 1 /\ exists e, bind 10 c 1 (RComplete (Prod Bit (word_ty 3))) = Err e.
Proof.
  cbn zeta. split; [|split].
  - unfold cwf. cbn [c_uf c_slab]. split; [|split; [|split]].
    + intros [|[|e]] H; cbn in *; try lia; exact I.
    + intros [|[|b]] x y [H|H]; cbn in H; try discriminate; try (injection H as <- <-; cbn; lia);
        destruct b; discriminate.
    + intros [|[|e]] [|[|e']] H H' R R' E; cbn in *; try lia; try reflexivity; discriminate.
    + intros [|[|e]] H R; cbn in *; lia.
  - unfold holds_ref. cbn. repeat split; lia.
  - eexists. vm_compute. reflexivity.
Qed.

(* ================================================================== phase 3: the refinement of the slab model, layers (a) - (c) *)
From RS Require Import Infer.SlabSim Infer.SlabSimInst Infer.SlabPrims Infer.SlabNodes Infer.SlabNodes2 Infer.SlabNodes3
  Infer.SlabNodes4 Infer.SlabNodes5 Infer.SlabConstruct.

(* (a) abstraction: a slab state denotes constraints on its UbElements (every element equals its representative,
   the representative satisfies the bound of its BoundRef); `drsat` is satisfaction in ANY domain with one / sum /
   product that are injective, distinct and congruent; invariant `cwf`.
   (b) unify on the slab, in any such domain: a result Ok c' has EXACTLY the models of c in which x and y are equal,
   keeps the invariant and only coarsens the partition; a result Err means that c has no such model *)
Theorem C04_slab_unify_generic : forall (D : Type) (deq : D -> D -> Prop) (done : D) (dsum dprod : D -> D -> D),
  (forall a, deq a a) -> (forall a b, deq a b -> deq b a) -> (forall a b c, deq a b -> deq b c -> deq a c) ->
  (forall a b c d, deq a c -> deq b d -> deq (dsum a b) (dsum c d)) ->
  (forall a b c d, deq a c -> deq b d -> deq (dprod a b) (dprod c d)) ->
  (forall a b c d, deq (dsum a b) (dsum c d) -> deq a c /\ deq b d) ->
  (forall a b c d, deq (dprod a b) (dprod c d) -> deq a c /\ deq b d) ->
  (forall a b, ~ deq done (dsum a b)) -> (forall a b, ~ deq done (dprod a b)) ->
  (forall a b c d, ~ deq (dsum a b) (dprod c d)) ->
  forall (f : nat) (c : ctx) (x y : nat), cwf c -> (x < length (c_uf c))%nat -> (y < length (c_uf c))%nat ->
    match ctx_unify f c x y with
    | Ok c' => post c c' /\ rep (c_uf c') x = rep (c_uf c') y /\
               (forall al, drsat D deq done dsum dprod al c' <-> drsat D deq done dsum dprod al c /\ deq (al x) (al y))
    | Err _ => forall al, ~ (drsat D deq done dsum dprod al c /\ deq (al x) (al y))
    | _ => True
    end.
Proof. exact unify_spec_all. Qed.
Print Assumptions C04_slab_unify_generic.

(* ... and bind: the six arms in their order, recursion on both children, eager completion *)
Theorem C04_slab_bind_generic : forall (D : Type) (deq : D -> D -> Prop) (done : D) (dsum dprod : D -> D -> D),
  (forall a, deq a a) -> (forall a b, deq a b -> deq b a) -> (forall a b c, deq a b -> deq b c -> deq a c) ->
  (forall a b c d, deq a c -> deq b d -> deq (dsum a b) (dsum c d)) ->
  (forall a b c d, deq a c -> deq b d -> deq (dprod a b) (dprod c d)) ->
  (forall a b c d, deq (dsum a b) (dsum c d) -> deq a c /\ deq b d) ->
  (forall a b c d, deq (dprod a b) (dprod c d) -> deq a c /\ deq b d) ->
  (forall a b, ~ deq done (dsum a b)) -> (forall a b, ~ deq done (dprod a b)) ->
  (forall a b c d, ~ deq (dsum a b) (dprod c d)) ->
  forall (f : nat) (c : ctx) (b : nat) (new : rbound) (eb : nat), cwf c -> holds_ref c eb b -> bound_in (length (c_uf c)) new ->
    match bind f c b new with
    | Ok c' => post c c' /\
               (forall al, drsat D deq done dsum dprod al c' <-> drsat D deq done dsum dprod al c /\ dholds_r D deq done dsum dprod al eb new)
    | Err _ => forall al, ~ (drsat D deq done dsum dprod al c /\ dholds_r D deq done dsum dprod al eb new)
    | _ => True
    end.
Proof. exact bind_spec_all. Qed.
Print Assumptions C04_slab_bind_generic.

(* in finite types (the semantics of Unify.sat / Infer.res) *)
Theorem C04_slab_unify_exact : forall fuel c x y, cwf c -> (x < length (c_uf c))%nat -> (y < length (c_uf c))%nat ->
  match ctx_unify fuel c x y with
  | Ok c' => cwf c' /\ length (c_uf c') = length (c_uf c) /\ (forall al, rsat al c' <-> rsat al c /\ al x = al y)
  | Err _ => forall al, ~ (rsat al c /\ al x = al y)
  | _ => True
  end.
Proof. exact fin_unify_exact. Qed.
Print Assumptions C04_slab_unify_exact.

Theorem C04_slab_bind_exact : forall fuel c b new eb, cwf c -> holds_ref c eb b -> bound_in (length (c_uf c)) new ->
  match bind fuel c b new with
  | Ok c' => cwf c' /\ length (c_uf c') = length (c_uf c) /\ (forall al, rsat al c' <-> rsat al c /\ holds_r al eb new)
  | Err _ => forall al, ~ (rsat al c /\ holds_r al eb new)
  | _ => True
  end.
Proof. exact fin_bind_exact. Qed.
Print Assumptions C04_slab_bind_exact.

(* in possibly infinite trees: every well-formed slab state has a model, so unify succeeds exactly when the state
   has a tree model with x = y - the slab-side analogue of C04_solve_ok_iff / C04_solve_err_iff *)
Theorem C04_slab_tree_model : forall c, cwf c -> tsat_r (rwalk c) c.
Proof. exact rwalk_model. Qed.
Print Assumptions C04_slab_tree_model.

Theorem C04_slab_unify_class : forall fuel c x y, cwf c -> (x < length (c_uf c))%nat -> (y < length (c_uf c))%nat ->
  match ctx_unify fuel c x y with
  | Ok c' => cwf c' /\ slab_consistent c x y
  | Err _ => ~ slab_consistent c x y
  | _ => True
  end.
Proof. exact slab_unify_class. Qed.
Print Assumptions C04_slab_unify_class.

(* the simulation step: a slab state and a reference store with the same models (finite and tree) through an
   embedding em: unify on the slab and the reference unify both succeed or both fail, and the simulation is kept *)
Theorem C04_slab_unify_simulates : forall fuel c s em x y, cwf c -> wf s -> msim c s em ->
  (x < length (c_uf c))%nat -> (y < length (c_uf c))%nat ->
  match ctx_unify fuel c x y, unify_top s (em x) (em y) with
  | Ok c', Ok s' => cwf c' /\ wf s' /\ msim c' s' em
  | Err _, Err _ => True
  | Ok _, _ | Err _, _ => False
  | _, _ => True
  end.
Proof. exact unify_simulates. Qed.
Print Assumptions C04_slab_unify_simulates.

(* (c) every arrow constructor (Slab.r_node: iden unit injl injr take drop comp case/assertl/assertr pair
   disconnect(with/without right child) hidden fail witness word jet) simulates what Constraints.node_tmpl appends
   to the reference constraint set: on success the new state has exactly the models of the extended set (finite and
   tree) through an extended embedding and the arrows correspond; Error::Bind (stage 0) only when the extended set has
   no model in trees; never a shape or occurs error *)
Theorem C04_slab_node_simulates : forall (fuel : nat) (jt : jet_table) (nd : node) c s eqs em ar_s nb ne a_r,
  Sim c s eqs em -> arr_in (length (c_uf c)) ar_s ->
  node_tmpl jt (length s) (map (amap em) ar_s) nd = Some (nb, ne, a_r) -> node_post fuel jt c s eqs em ar_s nd nb ne a_r.
Proof. exact r_node_sim. Qed.
Print Assumptions C04_slab_node_simulates.

Theorem C04_slab_nodes_simulate : forall (fuel : nat) (jt : jet_table) p c s eqs em ar_s g',
  Sim c s eqs em -> arr_in (length (c_uf c)) ar_s ->
  gen_nodes jt p (mk_gstate s eqs (map (amap em) ar_s)) = Some g' ->
  match r_nodes fuel jt c ar_s p with
  | Ok (c', ar') => exists em', Sim c' (g_store g') (g_eqs g') em' /\ g_arr g' = map (amap em') ar' /\
                                arr_in (length (c_uf c')) ar'
  | Err (RBind 0 _ _, _) => ~ consistent (g_store g') (g_eqs g')
  | Err _ => False
  | _ => True
  end.
Proof. exact r_nodes_sim. Qed.
Print Assumptions C04_slab_nodes_simulate.

Theorem C04_slab_sim_empty : Sim empty_ctx [] [] (fun e => e).
Proof. exact Sim_empty. Qed.
Print Assumptions C04_slab_sim_empty.

(* the construction stage of RunSlab.r_infer (all nodes, then set_arrow_to_program) against the reference `infer`:
   Error::Bind with the same stage, never shape / occurs; on success the reference passes both unification stages and
   the slab state has exactly the models of all generated constraints *)
Theorem C04_slab_construct_refines : forall (fuel : nat) (jt : jet_table) (program : bool) (p : prog) (root : nat) (g : gstate) rb re,
  gen jt p = Some g -> root_tmpl g (if program then Some root else None) = Some (rb, re) ->
  match r_construct fuel jt program p root with
  | Ok (c, ar) =>
      (exists em, Sim c (g_store g ++ rb) (g_eqs g ++ re) em /\ g_arr g = map (amap em) ar /\ arr_in (length (c_uf c)) ar) /\
      ((exists tau, infer jt (if program then Some root else None) p = Ok tau) \/
       infer jt (if program then Some root else None) p = Err EOccurs)
  | Err (RBind st _ _, _) => infer jt (if program then Some root else None) p = Err (EBind st)
  | Err _ => False
  | _ => True
  end.
Proof. exact construct_sim. Qed.
Print Assumptions C04_slab_construct_refines.

(* the statements are not vacuous: a clash at the program root, reported at stage 1 by both *)
Example C04_ex_construct :
  (exists c ar, r_construct 100 [] false [NIden; NUnit; NPair 0 1; NTake 2] 3 = Ok (c, ar)) /\
  (exists ex nb c, r_construct 100 [] true [NIden; NDrop 0; NCase 1 0] 2 = Err (RBind 1 ex nb, c)) /\
  infer [] (Some 2%nat) [NIden; NDrop 0; NCase 1 0] = Err (EBind 1).
Proof. split; [|split]; [eexists; eexists; vm_compute; reflexivity|eexists; eexists; eexists; vm_compute; reflexivity|vm_compute; reflexivity]. Qed.

(* ------------------------------------------------------------------ phase 3: layer (e) for the outcomes decided at construction time *)
From RS Require Import Infer.SlabRun Infer.SlabResult.

(* C04_slab_refines_reference_statement restricted to shape / Bind outcomes: for EVERY input, whenever the slab run
   does not end in Panic / OutOfFuel and either model reports a shape error or Error::Bind, the two canonical outputs
   are equal (the stage of the Bind error included) *)
Theorem C04_slab_run_refines_bind_shape : forall (fmode : nat) (program : bool) (order : list nat)
    (jets : list (N * N * list N * list N)) (p : prog),
  let a := run_infer program order jets p in
  let b := run_rinfer fmode program order jets p in
  (forall k, b <> [9; k]%N) -> b <> [8]%N ->
  bind_or_shape a \/ bind_or_shape (strip99 b) -> strip99 b = a.
Proof. exact run_refines_bind_shape. Qed.
Print Assumptions C04_slab_run_refines_bind_shape.

(* what finalisation has to decide, on the slab alone: after a successful construction the reference accepts exactly
   when the slab state has a finite model, reports OccursCheck exactly when it has none, and its arrows are the values
   of the LEAST finite model of the slab state *)
Theorem C04_slab_construct_result_spec : forall (fuel : nat) (jt : jet_table) (program : bool) (p : prog) (root : nat)
    (g : gstate) rb re c ar,
  gen jt p = Some g -> root_tmpl g (if program then Some root else None) = Some (rb, re) ->
  r_construct fuel jt program p root = Ok (c, ar) ->
  let r := infer jt (if program then Some root else None) p in
  cwf c /\
  (forall tau, r = Ok tau -> exists be, least_model be c /\ tau = map (img be) ar) /\
  ((exists tau, r = Ok tau) <-> exists be, rsat be c) /\
  (r = Err EOccurs <-> ~ exists be, rsat be c).
Proof. exact construct_result_spec. Qed.
Print Assumptions C04_slab_construct_result_spec.

(* the finalisation stage of the slab model only ever reports the occurs check *)
Theorem C04_slab_finish_errors : forall fmode p canon root c ar x cx,
  r_finish fmode p canon root c ar = Err (x, cx) -> x = ROccurs.
Proof. exact r_finish_err. Qed.
Print Assumptions C04_slab_finish_errors.

Theorem C04_slab_infer_split : forall fuel jt fmode program p canon root,
  r_infer fuel jt fmode program p canon root =
  Outcome.obind (r_construct fuel jt program p root) (fun '(c, ar) => r_finish fmode p canon root c ar).
Proof. exact r_infer_split. Qed.
Print Assumptions C04_slab_infer_split.

Example C04_ex_run_bind :
  run_infer true [] [] [NIden; NDrop 0; NCase 1 0] = [1; 20; 1]%N /\
  strip99 (run_rinfer 0 true [] [] [NIden; NDrop 0; NCase 1 0]) = [1; 20; 1]%N.
Proof. split; vm_compute; reflexivity. Qed.

(* ------------------------------------------------------------------ phase 3: layer (d) and the run-level statement *)
From RS Require Import Infer.SlabFin Infer.SlabFinK Infer.SlabRun2.

(* (d) Type::finalize on the slab model, when the state has a finite model be giving One to its free classes (the least
   model does: C04_slab_least_frees_one): the occurs check (explicit stack, in_progress / completed sets) does not fire,
   the completion loop returns the value of be, memoises it in the slab and keeps the partition *)
Theorem C04_slab_finalize : forall be c e, Inv be c -> (e < length (c_uf c))%nat ->
  match finalize c e with
  | Ok (c', Some t) => Inv be c' /\ keeps_part c c' /\ t = be e
  | Ok (_, None) => False
  | _ => True
  end.
Proof. exact finalize_spec. Qed.
Print Assumptions C04_slab_finalize.

Theorem C04_slab_least_frees_one : forall be c, cwf c -> least_model be c -> frees_one be c.
Proof. exact least_frees_one. Qed.
Print Assumptions C04_slab_least_frees_one.

(* every finalisation order of the harness (fmode 0..3) reads the values of that model on every node arrow *)
Theorem C04_slab_finish : forall be fmode p canon root c ar, Inv be c -> arr_in (length (c_uf c)) ar ->
  match r_finish fmode p canon root c ar with
  | Ok tau => tau = map (fun i => img be (nth i ar None)) canon
  | Err _ => False
  | _ => True
  end.
Proof. exact r_finish_spec. Qed.
Print Assumptions C04_slab_finish.

(* (e) C04_slab_refines_reference_statement for EVERY input, under "the slab run does not end in Panic / OutOfFuel",
   with one case left open (reference: OccursCheck, slab model: every arrow finalised) *)
Theorem C04_slab_refines_reference_partial : forall (fmode : nat) (program : bool) (order : list nat)
    (jets : list (N * N * list N * list N)) (p : prog),
  let a := run_infer program order jets p in
  let b := run_rinfer fmode program order jets p in
  (forall k, b <> [9; k]%N) -> b <> [8]%N ->
  strip99 b = a \/ (a = [1; 22; 2]%N /\ exists l, b = 0%N :: l).
Proof. exact run_refines_partial. Qed.
Print Assumptions C04_slab_refines_reference_partial.

(* ------------------------------------------------------------------ phase 3: construction orders given as lists *)
From RS Require Import Infer.OrderRun.

(* a valid order (Run.valid_order) is a permutation and Run.permute is the renumbering of Order.v *)
Theorem C04_valid_order_perm : forall n order, valid_order n order = true ->
  perm_of n (pos_of order) (fun k => nth k order 0%nat).
Proof. exact valid_order_perm. Qed.
Print Assumptions C04_valid_order_perm.

Theorem C04_permute_permuted : forall p order, valid_order (length p) order = true ->
  permuted (pos_of order) p (permute p order).
Proof. exact permute_permuted. Qed.
Print Assumptions C04_permute_permuted.

(* C04_class_order_statement for the class "accepted": for EVERY table and EVERY valid construction order the reference
   accepts both or rejects both, and on acceptance every node has the same arrow; which error class is reported
   (Bind stage 0 / 1, OccursCheck, shape) remains C04_class_order_statement *)
Theorem C04_class_order_ok : forall (jt : jet_table) (program : bool) (p : prog) (order : list nat),
  valid_order (length p) order = true -> wf_from 0 p = true -> wf_from 0 (permute p order) = true ->
  match infer jt (root_of program p (fun i => i)) p, infer jt (root_of program p (pos_of order)) (permute p order) with
  | Ok tau, Ok tau' => forall i, (i < length p)%nat -> nth (pos_of order i) tau' None = nth i tau None
  | Err _, Err _ => True
  | _, _ => False
  end.
Proof. exact class_order_ok. Qed.
Print Assumptions C04_class_order_ok.

Theorem C04_class_order_zero : forall (jt : jet_table) (program : bool) (p : prog) (order : list nat),
  valid_order (length p) order = true -> wf_from 0 p = true -> wf_from 0 (permute p order) = true ->
  (class_of (infer jt (root_of program p (pos_of order)) (permute p order)) = 0%N <->
   class_of (infer jt (root_of program p (fun i => i)) p) = 0%N).
Proof. exact class_order_zero. Qed.
Print Assumptions C04_class_order_zero.

From RS Require Import Infer.OrderShape.

(* if the reference generates constraints for a table, it does so for every renumbering of it *)
Theorem C04_gen_permuted : forall jt p p' pi pinv g, perm_of (length p) pi pinv -> permuted pi p p' -> topo p -> topo p' ->
  gen jt p = Some g -> exists g', gen jt p' = Some g'.
Proof. exact gen_permuted. Qed.
Print Assumptions C04_gen_permuted.

(* C04_class_order_statement for the class "shape error" ... *)
Theorem C04_class_order_shape : forall (jt : jet_table) (program : bool) (p : prog) (order : list nat),
  valid_order (length p) order = true -> wf_from 0 p = true -> wf_from 0 (permute p order) = true ->
  (class_of (infer jt (root_of program p (pos_of order)) (permute p order)) = 1%N <->
   class_of (infer jt (root_of program p (fun i => i)) p) = 1%N).
Proof. exact class_order_shape. Qed.
Print Assumptions C04_class_order_shape.

(* ... hence the three-way class accepted / not a construction / type error is the same for every valid construction
   order of every table; what C04_class_order_statement adds is the distinction Bind 0 / Bind 1 / OccursCheck *)
Theorem C04_class_order_coarse : forall (jt : jet_table) (program : bool) (p : prog) (order : list nat),
  valid_order (length p) order = true -> wf_from 0 p = true -> wf_from 0 (permute p order) = true ->
  coarse_class (class_of (infer jt (root_of program p (pos_of order)) (permute p order))) =
  coarse_class (class_of (infer jt (root_of program p (fun i => i)) p)).
Proof. exact class_order_coarse. Qed.
Print Assumptions C04_class_order_coarse.

(* ------------------------------------------------------------------ phase 3: C04_class_order_statement, proved *)
From RS Require Import Infer.OrderModels.

(* the two instances of a node's constraint template under two numberings are related variable by variable *)
Theorem C04_tmpl_related : forall jt n n' ar ar' f nd nb ne a nb' ne' a',
  child_ok ar ar' f nd -> node_tmpl jt n ar nd = Some (nb, ne, a) ->
  node_tmpl jt n' ar' (rename_node f nd) = Some (nb', ne', a') ->
  Forall2 (brel (R n n' ar ar' f nd)) nb nb' /\ Forall2 (erel (R n n' ar ar' f nd)) ne ne' /\ arel (R n n' ar ar' f nd) a a'.
Proof. exact tmpl_related. Qed.
Print Assumptions C04_tmpl_related.

(* hence the constraints of two renumberings of a table have the same models with the same values on every node arrow
   (finite types or infinite trees, with and without the program-root constraints) ... *)
Theorem C04_constraints_permuted : forall jt p p' pi pinv g g' (root : option nat) rb re rb' re',
  perm_of (length p) pi pinv -> permuted pi p p' -> topo p -> topo p' ->
  gen jt p = Some g -> gen jt p' = Some g' -> (forall r, root = Some r -> (r < length p)%nat) ->
  root_tmpl g root = Some (rb, re) -> root_tmpl g' (option_map pi root) = Some (rb', re') ->
  (consistent (g_store g ++ rb) (g_eqs g ++ re) -> consistent (g_store g' ++ rb') (g_eqs g' ++ re')) /\
  (finite_model (g_store g ++ rb) (g_eqs g ++ re) -> finite_model (g_store g' ++ rb') (g_eqs g' ++ re')).
Proof.
  intros jt p p' pi pinv g g' root rb re rb' re' P Pm T T' G G' Hr R0 R1. split; intros M.
  - apply cons_iff. apply cons_iff in M.
    eapply (cons_transfer itree teq tone tsum tprod); try eassumption; dom_hyps.
  - apply fm_iff. apply fm_iff in M.
    eapply (cons_transfer ty eq One Sum Prod); try eassumption; SlabSimInst.fin_hyps.
Qed.
Print Assumptions C04_constraints_permuted.

(* ... and the error CLASS of the reference inference (accepted / shape / Bind stage 0 / Bind stage 1 / OccursCheck) is
   the same for every valid construction order of every table: C04_class_order_statement holds *)
Theorem C04_class_order : C04_class_order_statement.
Proof. exact class_order. Qed.
Print Assumptions C04_class_order.

(* ------------------------------------------------------------------ phase 4: coverage; the refinement under "no Panic / OutOfFuel" only *)
From RS Require Import Infer.SlabCov Infer.SlabWfd Infer.SlabRun3.

(* in a tree model of the generated constraints in which every node arrow is a finite tree, every variable is *)
Theorem C04_constraints_covered : forall jt al p g0 g, ginv g0 -> gen_nodes jt p g0 = Some g ->
  tsat al (g_store g) -> teqs_hold al (g_eqs g) ->
  (forall c x y, arr_of (g_arr g) c = Some (x, y) -> tfin (al x) /\ tfin (al y)) ->
  (forall v, (v < length (g_store g0))%nat -> tfin (al v)) ->
  forall v, (v < length (g_store g))%nat -> tfin (al v).
Proof. exact gen_cov. Qed.
Print Assumptions C04_constraints_covered.

(* a tree model that is finite everywhere gives a finite model *)
Theorem C04_all_finite_model : forall s eqs al, wf s -> eqs_in (length s) eqs -> tsat al s -> teqs_hold al eqs ->
  (forall v, (v < length s)%nat -> tfin (al v)) -> finite_model s eqs.
Proof. exact all_fin_model. Qed.
Print Assumptions C04_all_finite_model.

(* a successful Type::finalize, anywhere in a sequence of finalisations started in c0, means that the class is well
   founded in c0 (no occurs-check reasoning, no models) *)
Theorem C04_slab_finalize_wfd : forall c0 c e, FinInv c0 c -> (e < length (c_uf c))%nat ->
  match finalize c e with
  | Ok (c', Some t) => FinInv c0 c' /\ length (c_uf c') = length (c_uf c) /\ wfd c0 (rep (c_uf c0) e)
  | _ => True
  end.
Proof. exact finalize_wfd. Qed.
Print Assumptions C04_slab_finalize_wfd.

(* coverage: if the construction succeeds and the harness finalises every arrow, the reference accepts - so
   reference = OccursCheck implies that the slab finalisation hits the occurs check (or Panic / OutOfFuel) *)
Theorem C04_slab_finish_covers : forall (fuel : nat) (jt : jet_table) (program : bool) (p : prog) (root : nat) (g : gstate)
    rb re c ar fmode canon tau',
  gen jt p = Some g -> root_tmpl g (if program then Some root else None) = Some (rb, re) ->
  r_construct fuel jt program p root = Ok (c, ar) ->
  r_finish fmode p canon root c ar = Ok tau' ->
  (forall i, (i < length ar)%nat -> In i canon) ->
  exists tau, infer jt (if program then Some root else None) p = Ok tau.
Proof. exact finish_covers. Qed.
Print Assumptions C04_slab_finish_covers.

(* C04_slab_refines_reference_statement for EVERY input under the only hypothesis that the slab run does not end in
   Panic / OutOfFuel *)
Theorem C04_slab_refines_reference_nopanic : forall (fmode : nat) (program : bool) (order : list nat)
    (jets : list (N * N * list N * list N)) (p : prog),
  let a := run_infer program order jets p in
  let b := run_rinfer fmode program order jets p in
  (forall k, b <> [9; k]%N) -> b <> [8]%N -> strip99 b = a.
Proof. exact run_refines_nopanic. Qed.
Print Assumptions C04_slab_refines_reference_nopanic.

(* ------------------------------------------------------------------ phase 4: totality of the finalisation stage *)
From RS Require Import Infer.SlabTotal Infer.SlabRun4.

(* Incomplete::occurs_check: the fuel 4 |slab| + 4 of the model suffices and nothing can panic *)
Theorem C04_slab_occurs_check_total : forall c b, cwf c -> (b < length (c_slab c))%nat ->
  exists c' cyc, occurs_check c b = Ok (c', cyc).
Proof. exact occurs_check_total. Qed.
Print Assumptions C04_slab_occurs_check_total.

(* ... and it is complete: when it reports no cycle, everything below the bound is well founded, with height <= |slab| *)
Theorem C04_slab_occurs_loop_complete : forall c0 b0, cwf c0 -> forall fuel c st ip comp c',
  keeps_part c0 c -> c_slab c = c_slab c0 ->
  NoDup (comp ++ dones st) -> (forall d, In d (dones st) -> mem d ip = true) ->
  (forall d, In d (comp ++ dones st) -> (d < length (c_slab c0))%nat) ->
  (forall d, In d comp -> wfbh c0 (length comp) d) ->
  pending c0 comp st ->
  (In b0 comp \/ exists o, In o st /\ oid o = b0) ->
  (forall o, In o st -> (oid o < length (c_slab c0))%nat) ->
  occurs_loop fuel c st ip comp = Ok (c', false) ->
  exists h, (h <= length (c_slab c0))%nat /\ wfbh c0 h b0.
Proof. exact occurs_loop_complete. Qed.
Print Assumptions C04_slab_occurs_loop_complete.

(* so the completion loop, run with fuel S |slab| after a negative occurs check, terminates: Type::finalize is total *)
Theorem C04_slab_finalize_total : forall c e, cwf c -> (e < length (c_uf c))%nat -> exists c' o, finalize c e = Ok (c', o).
Proof. exact finalize_total. Qed.
Print Assumptions C04_slab_finalize_total.

Theorem C04_slab_finish_total : forall fmode p canon root c ar, cwf c -> arr_in (length (c_uf c)) ar ->
  terminated (r_finish fmode p canon root c ar).
Proof. exact r_finish_total. Qed.
Print Assumptions C04_slab_finish_total.

(* the refinement, for EVERY input, under the only hypothesis that the CONSTRUCTION stage of the slab run (arrow
   constructors and set_arrow_to_program: unify / bind with the fuel model_fuel) does not end in Panic / OutOfFuel *)
Theorem C04_slab_refines_reference_construct : forall (fmode : nat) (program : bool) (order : list nat)
    (jets : list (N * N * list N * list N)) (p : prog),
  terminated (run_construct program order jets p) ->
  strip99 (run_rinfer fmode program order jets p) = run_infer program order jets p.
Proof. exact run_refines_construct. Qed.
Print Assumptions C04_slab_refines_reference_construct.

(* ------------------------------------------------------------------ phase 4: totality of bind / unify *)
From RS Require Import Infer.SlabNoP10 Infer.SlabTotalBind.

(* bind against a complete type of depth < fuel: Ok or Err, never Panic / OutOfFuel *)
Theorem C04_slab_bind_complete_total : forall fuel c b t eb, cwf c -> holds_ref c eb b -> (tdepth t < fuel)%nat ->
  oe (bind fuel c b (RComplete t)).
Proof. exact bind_complete_total. Qed.
Print Assumptions C04_slab_bind_complete_total.

(* unify with the fuel `pot c` = representatives + deepest complete type + incomplete sum/product bounds, on a state
   with fewer than 2^64 elements whose ranks satisfy RKI (max rank + representatives <= elements): the result is Ok or
   Err, or the panic 10 of reassign_non_complete; never OutOfFuel, never the rank assertion (Panic 3), no other panic;
   the potential does not increase and RKI is kept *)
Theorem C04_slab_unify_total : forall (f : nat) c x y, TI c -> (x < length (c_uf c))%nat -> (y < length (c_uf c))%nat ->
  (pot c <= f)%nat -> tb_post c 0 (ctx_unify f c x y).
Proof. exact TU_all. Qed.
Print Assumptions C04_slab_unify_total.

Theorem C04_slab_bind_total : forall (f : nat) c b new eb, TI c -> holds_ref c eb b -> bound_in (length (c_uf c)) new ->
  (cdb new <= mcd c)%nat -> fuel_ok f c new -> tb_post c (if pairb new then 1 else 0)%nat (bind f c b new).
Proof. exact TB_all. Qed.
Print Assumptions C04_slab_bind_total.

(* ------------------------------------------------------------------ phase 4: the construction stage is total up to one assertion *)
From RS Require Import Infer.SlabTotalNodes Infer.SlabRun5.

(* every arrow constructor keeps the invariant Inv3 (well formed, rank invariant, potential <= P, elements <= N) with the
   potential growing by at most 12 and the elements by at most 6, and returns Ok, Err or the panic 10 of
   reassign_non_complete; in particular the `.unwrap()` of Arrow::for_case (Panic 20) cannot fail *)
Theorem C04_slab_node_total : forall (L F : nat) (jt : jet_table), (33 <= L)%nat ->
  (forall fam id gs gt, jet_lookup jt fam id = Some (gs, gt) -> (tdepth (gty_ty gs) <= L)%nat /\ (tdepth (gty_ty gt) <= L)%nat) ->
  forall nd c s eqs em ar P N, Sim c s eqs em -> Inv3 L c P N -> arr_in (length (c_uf c)) ar ->
  (P + 12 <= F)%nat -> (N.of_nat (N + 6) <= usize_max)%N ->
  okr (r_node F jt c ar nd) (fun '(c', _) => Inv3 L c' (P + 12) (N + 6)).
Proof. exact node_total. Qed.
Print Assumptions C04_slab_node_total.

(* with the fuel RunSlab.model_fuel and fewer than 2^32 nodes the whole construction stage returns Ok, Err or Panic 10:
   no OutOfFuel in bind / unify, no rank assertion (Panic 3), no other panic *)
Theorem C04_slab_construct_total : forall jt program p root g, gen jt p = Some g -> (N.of_nat (length p) < 2 ^ 32)%N ->
  okr (r_construct (model_fuel jt p) jt program p root) (fun _ => True).
Proof. exact construct_total. Qed.
Print Assumptions C04_slab_construct_total.

(* C04_slab_refines_reference_statement with the size bound: for every input of fewer than 2^32 nodes the slab model
   prints what the reference prints, unless its construction stage hits the assertion of reassign_non_complete (Panic 10:
   "tried to modify finalized type").  The unbounded statement above cannot be proved as it stands: the rank assertion of
   UbElement::unify (rank <> usize::MAX) is only unreachable below 2^64 elements. *)
Theorem C04_slab_refines_reference_bounded : forall (fmode : nat) (program : bool) (order : list nat)
    (jets : list (N * N * list N * list N)) (p : prog),
  (N.of_nat (length p) < 2 ^ 32)%N ->
  run_construct program order jets p <> Panic 10%N ->
  strip99 (run_rinfer fmode program order jets p) = run_infer program order jets p.
Proof. exact run_refines_bounded. Qed.
Print Assumptions C04_slab_refines_reference_bounded.

(* ------------------------------------------------------------------ phase 4: the assertion of reassign_non_complete; the refinement theorem *)
From RS Require Import Infer.SlabNoP10.

(* bind / unify only touch bounds of classes whose value is a subtree of the value of their arguments, in every tree
   model of the result (M: any set of such models) *)
Theorem C04_slab_unify_frame : forall (f : nat) c x y c' (M : (nat -> itree) -> Prop), cwf c ->
  (x < length (c_uf c))%nat -> (y < length (c_uf c))%nat -> ctx_unify f c x y = Ok c' -> (forall be, M be -> tsat_r be c') ->
  frame M c c' [x; y].
Proof. exact FLU_all. Qed.
Print Assumptions C04_slab_unify_frame.

(* hence the bound a Sum/Sum | Product/Product arm is working on cannot have been completed by a nested call when both
   children are complete: the value of its class would be a finite tree and a proper subtree of itself.  (tb_post and okr
   in the totality theorems above now say `Panic _ => False`: the earlier "or Panic 10" alternative is excluded.) *)
Theorem C04_slab_no_panic10 : forall f c b0 eb s x1 x2 y1 y2 c1 c2 ub t d1 d2, cwf c -> holds_ref c eb b0 ->
  slab_get c b0 = rpair s x1 x2 -> (y1 < length (c_uf c))%nat -> (y2 < length (c_uf c))%nat ->
  ctx_unify f c x1 y1 = Ok c1 -> ctx_unify f c1 x2 y2 = Ok c2 -> same_part (c_uf c2) ub ->
  (forall be, tsat_r be (mk_ctx (c_slab c2) ub) -> teq (be y1) (tof d1) /\ teq (be y2) (tof d2)) ->
  slab_get c2 b0 = RComplete t -> False.
Proof. exact no_panic10. Qed.
Print Assumptions C04_slab_no_panic10.

(* the construction stage of a table of fewer than 2^32 nodes, with the fuel RunSlab.model_fuel, returns Ok or Err *)
Theorem C04_slab_construct_terminates : forall jt program p root g, gen jt p = Some g -> (N.of_nat (length p) < 2 ^ 32)%N ->
  terminated (r_construct (model_fuel jt p) jt program p root).
Proof. exact construct_terminates. Qed.
Print Assumptions C04_slab_construct_terminates.

(* THE REFINEMENT THEOREM: C04_slab_refines_reference_statement with the size bound as its only hypothesis.  For every
   finalisation mode, program flag, construction order (valid or not), jet list and node table of fewer than 2^32 nodes,
   the model of the Rust union-bound / slab algorithm prints exactly what the reference inference prints: the same shape
   error, the same Error::Bind with the same stage, Error::OccursCheck, or the same arrow for every node.
   The bound is needed because the rank assertion of UbElement::unify (`assert_ne!(rank, usize::MAX)`, Panic 3 of the
   model) is only unreachable while the context holds fewer than 2^64 elements; the unbounded
   C04_slab_refines_reference_statement is therefore kept as a Definition. *)
Theorem C04_slab_refines_reference : forall (fmode : nat) (program : bool) (order : list nat)
    (jets : list (N * N * list N * list N)) (p : prog),
  (N.of_nat (length p) < 2 ^ 32)%N ->
  strip99 (run_rinfer fmode program order jets p) = run_infer program order jets p.
Proof. exact run_refines_final. Qed.
Print Assumptions C04_slab_refines_reference.
