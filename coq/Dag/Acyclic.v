(* C18 - consequences of keys that never give a node the sharing id of one of its own proper
   descendants (`key_acyclic`: true of NoSharing, of pointer sharing, and of every id that is
   a hash of the structure below the node): the root is yielded last, no yielded item is
   unreferenced, and pre-order yields exactly the nodes of the post-order. *)
From Coq Require Import Permutation.
From RS Require Import Lib.Tac Lib.Outcome Dag.DagModel Dag.PostOrderSpec Dag.VisitFacts Dag.PreOrder.
Import ListNotations.
Local Open Scope N_scope.

Section Acyclic.
Variable children : nat -> dagnode.
Variable key : nat -> option N.
Hypothesis Hwf : wfc children.

Notation is_child := (is_child children).
Notation reach := (reach children).
Notation visit := (visit children key).
Notation ochild := (ochild children key).
Notation finish := (finish key).

Definition key_acyclic : Prop :=
  forall n c x k, is_child n c -> reach c x -> key n = Some k -> key x <> Some k.

Hypothesis Hac : key_acyclic.

Lemma ochild_trk_new h oc idx m k :
  (match oc with Some c => (c < h)%nat | None => True end) ->
  tm_get (c_trk (ochild h oc idx m)) k <> None ->
  tm_get m k <> None \/ exists c x, oc = Some c /\ reach c x /\ key x = Some k.
Proof.
  destruct oc as [c|]; cbn [VisitFacts.ochild c_trk]; intros Hc H; [|left; exact H].
  destruct (visit_trk_new children key Hwf h c Hc _ _ _ H) as [H1|(x & Hx & Hk)]; [left; exact H1|].
  right. exists c, x. repeat split; assumption.
Qed.

Lemma child_bounds h n : (n < S h)%nat ->
  (match left_child_of (children n) with Some c => (c < h)%nat | None => True end) /\
  (match right_child_of (children n) with Some c => (c < h)%nat | None => True end).
Proof.
  intros Hn. pose proof (Hwf n) as Hok.
  destruct (children n); cbn in Hok |- *; repeat split; lia.
Qed.

(* after the children of a fresh node, the node's own id is still unrecorded *)
Lemma fresh_after_children h n idx m : (n < S h)%nat -> seen_before key m n = None ->
  let l := ochild h (left_child_of (children n)) idx m in
  let r := ochild h (right_child_of (children n)) (c_index l) (c_trk l) in
  forall k, key n = Some k -> tm_get (c_trk r) k = None.
Proof.
  intros Hn Hs l r k Hk. destruct (child_bounds h n Hn) as [Hl Hr].
  destruct (tm_get (c_trk r) k) as [j|] eqn:E; [exfalso|reflexivity].
  assert (E' : tm_get (c_trk r) k <> None) by congruence.
  apply ochild_trk_new in E'; [|exact Hr]. destruct E' as [E'|(c & x & Hc & Hx & Hkx)].
  - apply ochild_trk_new in E'; [|exact Hl]. destruct E' as [E'|(c & x & Hc & Hx & Hkx)].
    + unfold seen_before in Hs. rewrite Hk in Hs. congruence.
    + apply (Hac n c x k); [left; exact Hc|exact Hx|exact Hk|exact Hkx].
  - apply (Hac n c x k); [right; exact Hc|exact Hx|exact Hk|exact Hkx].
Qed.

Lemma finish_fresh n li ri idx m : (forall k, key n = Some k -> tm_get m k = None) ->
  finish n li ri idx m =
  mk_vres idx (idx + 1) (match key n with Some k => (k, idx) :: m | None => m end) [mk_item n idx li ri].
Proof.
  intros H. unfold PostOrderSpec.finish, record. destruct (key n) as [k|]; [|reflexivity].
  rewrite (H k eq_refl). reflexivity.
Qed.

Definition refs (it' it : po_item) : Prop :=
  it_left it' = Some (it_index it) \/ it_right it' = Some (it_index it).

(* shape of a visit: nothing for a recorded node; otherwise the node itself comes last, after
   items of smaller nodes each of which is the child of some item of the visit *)
Lemma visit_shape : forall h n, (n < h)%nat -> forall idx m,
  let R := visit h n idx m in
  (seen_before key m n <> None /\ r_out R = []) \/
  (seen_before key m n = None /\ exists o li ri,
     r_out R = o ++ [mk_item n (r_ci R) li ri] /\
     (forall it, In it o -> (it_node it < n)%nat) /\
     (forall it, In it o -> exists it', In it' (r_out R) /\ refs it' it)).
Proof.
  induction h as [|h IH]; intros n Hn idx m; [lia|].
  cbv zeta. rewrite (visit_unfold children key Hwf) by exact Hn.
  destruct (seen_before key m n) as [si|] eqn:Hs; [left; split; [discriminate|reflexivity]|].
  right. split; [reflexivity|]. cbv zeta.
  pose proof (fresh_after_children h n idx m Hn Hs) as Hfresh. cbv zeta in Hfresh.
  destruct (child_bounds h n Hn) as [Hlb Hrb].
  set (l := ochild h (left_child_of (children n)) idx m) in *.
  set (r := ochild h (right_child_of (children n)) (c_index l) (c_trk l)) in *.
  rewrite (finish_fresh n (c_i l) (c_i r) (c_index r) (c_trk r) Hfresh).
  cbn [r_ci r_index r_trk r_out].
  assert (Hoc : forall oc i m0, (match oc with Some c => is_child n c | None => True end) ->
            (forall it, In it (c_out (ochild h oc i m0)) -> (it_node it < n)%nat) /\
            (forall it, In it (c_out (ochild h oc i m0)) ->
               (exists it', In it' (c_out (ochild h oc i m0)) /\ refs it' it) \/
               c_i (ochild h oc i m0) = Some (it_index it))).
  { intros [c|] i m0 Hc; cbn [VisitFacts.ochild c_out c_i]; [|split; intros it []].
    pose proof (is_child_lt children Hwf _ _ Hc) as Hlt.
    destruct (IH c ltac:(lia) i m0) as [[_ ->]|(_ & o & li & ri & -> & Hn1 & Hr1)]; [split; intros it []|].
    split; intros it Hin; apply in_app_or in Hin; destruct Hin as [Hin|[<-|[]]].
    - specialize (Hn1 _ Hin). lia.
    - cbn. exact Hlt.
    - left. apply Hr1. exact Hin.
    - right. reflexivity. }
  assert (Hcl : match left_child_of (children n) with Some c => is_child n c | None => True end)
    by (destruct (left_child_of (children n)) eqn:E; [left; exact E|exact I]).
  assert (Hcr : match right_child_of (children n) with Some c => is_child n c | None => True end)
    by (destruct (right_child_of (children n)) eqn:E; [right; exact E|exact I]).
  destruct (Hoc _ idx m Hcl) as [Hln Hlr]. destruct (Hoc _ (c_index l) (c_trk l) Hcr) as [Hrn Hrr].
  fold l in Hln, Hlr. fold r in Hrn, Hrr.
  exists (c_out l ++ c_out r), (c_i l), (c_i r). split; [rewrite app_assoc; reflexivity|]. split.
  - intros it Hin. apply in_app_or in Hin. destruct Hin; auto.
  - intros it Hin. apply in_app_or in Hin. destruct Hin as [Hin|Hin].
    + destruct (Hlr _ Hin) as [(it' & Hi' & Hr')|Hi].
      * exists it'. split; [apply in_or_app; left; exact Hi'|exact Hr'].
      * eexists. split; [apply in_or_app; right; apply in_or_app; right; left; reflexivity|].
        left. exact Hi.
    + destruct (Hrr _ Hin) as [(it' & Hi' & Hr')|Hi].
      * exists it'. split; [apply in_or_app; right; apply in_or_app; left; exact Hi'|exact Hr'].
      * eexists. split; [apply in_or_app; right; apply in_or_app; right; left; reflexivity|].
        right. exact Hi.
Qed.

(* THEOREM: the root is the last item, everything before it is a smaller node, and every item
   except the root is the left or right child of some yielded item (no unreferenced items) *)
Theorem po_root_last_no_orphans : forall root,
  exists o it, po_spec children key root = o ++ [it] /\ it_node it = root /\
    (forall x, In x o -> (it_node x < root)%nat) /\
    (forall x, In x o -> exists it', In it' (po_spec children key root) /\ refs it' x).
Proof.
  intros root. unfold po_spec.
  destruct (visit_shape (S root) root ltac:(lia) 0 []) as [[H _]|(_ & o & li & ri & Ho & Hn & Hr)].
  - exfalso. apply H. unfold seen_before. destruct (key root); reflexivity.
  - exists o. eexists. split; [exact Ho|]. split; [reflexivity|]. split; assumption.
Qed.

(* ------------------------------------------------------------------ pre-order = post-order as sets *)
Notation previsit := (previsit children key).

Lemma pre_post_perm : forall h n, (n < h)%nat -> forall idx mpo mpr A,
  (forall k, tm_get mpr k <> None <-> (tm_get mpo k <> None \/ In k A)) ->
  (forall x k, reach n x -> key x = Some k -> ~ In k A) ->
  Permutation (map it_node (r_out (visit h n idx mpo))) (snd (previsit h n mpr)) /\
  (forall k, tm_get (fst (previsit h n mpr)) k <> None <->
             (tm_get (r_trk (visit h n idx mpo)) k <> None \/ In k A)).
Proof.
  induction h as [|h IH]; intros n Hn idx mpo mpr A Hdom HA; [lia|].
  rewrite (visit_unfold children key Hwf) by exact Hn. cbn [PreOrder.previsit].
  (* the continuation once both traversals expand the node *)
  assert (Hgo : seen_before key mpo n = None -> forall mpr' A',
            (forall k, tm_get mpr' k <> None <-> (tm_get mpo k <> None \/ In k A')) ->
            (forall k, In k A' <-> (In k A \/ key n = Some k)) ->
            let l := ochild h (left_child_of (children n)) idx mpo in
            let r := ochild h (right_child_of (children n)) (c_index l) (c_trk l) in
            let fr := finish n (c_i l) (c_i r) (c_index r) (c_trk r) in
            let pl := pchild (previsit h) (left_child_of (children n)) mpr' in
            let pr := pchild (previsit h) (right_child_of (children n)) (fst pl) in
            Permutation (map it_node (c_out l ++ c_out r ++ r_out fr)) (n :: snd pl ++ snd pr) /\
            (forall k, tm_get (fst pr) k <> None <-> (tm_get (r_trk fr) k <> None \/ In k A))).
  { intros Hs mpr' A' Hdom' HA' l r fr pl pr.
    pose proof (fresh_after_children h n idx mpo Hn Hs) as Hfresh. cbv zeta in Hfresh.
    fold l in Hfresh. fold r in Hfresh.
    destruct (child_bounds h n Hn) as [Hlb Hrb].
    assert (Hoc : forall oc i mo mp, (match oc with Some c => is_child n c | None => True end) ->
              (forall k, tm_get mp k <> None <-> (tm_get mo k <> None \/ In k A')) ->
              Permutation (map it_node (c_out (ochild h oc i mo))) (snd (pchild (previsit h) oc mp)) /\
              (forall k, tm_get (fst (pchild (previsit h) oc mp)) k <> None <->
                         (tm_get (c_trk (ochild h oc i mo)) k <> None \/ In k A'))).
    { intros [c|] i mo mp Hc Hd; cbn [VisitFacts.ochild c_out c_trk pchild fst snd].
      - pose proof (is_child_lt children Hwf _ _ Hc) as Hlt.
        apply IH; [lia|exact Hd|].
        intros x k Hx Hk Hin. apply HA' in Hin. destruct Hin as [Hin|Hkn].
        + apply (HA x k); [eapply reach_step; eassumption|exact Hk|exact Hin].
        + apply (Hac n c x k Hc Hx Hkn Hk).
      - split; [apply perm_nil|exact Hd]. }
    assert (Hcl : match left_child_of (children n) with Some c => is_child n c | None => True end)
      by (destruct (left_child_of (children n)) eqn:E; [left; exact E|exact I]).
    assert (Hcr : match right_child_of (children n) with Some c => is_child n c | None => True end)
      by (destruct (right_child_of (children n)) eqn:E; [right; exact E|exact I]).
    destruct (Hoc _ idx mpo mpr' Hcl Hdom') as [P1 D1]. fold l in P1, D1. fold pl in P1, D1.
    destruct (Hoc _ (c_index l) (c_trk l) (fst pl) Hcr D1) as [P2 D2]. fold r in P2, D2. fold pr in P2, D2.
    subst fr. rewrite (finish_fresh n (c_i l) (c_i r) (c_index r) (c_trk r) Hfresh).
    cbn [r_out r_trk]. split.
    - rewrite !map_app. cbn [map it_node]. rewrite app_assoc.
      eapply Permutation_trans; [|apply Permutation_sym, Permutation_cons_append].
      apply Permutation_app_tail. apply Permutation_app; assumption.
    - intros k. rewrite D2, HA'. destruct (key n) as [kn|] eqn:Hkn.
      + cbn [tm_get]. destruct (kn =? k) eqn:E.
        * apply N.eqb_eq in E. subst kn. split; [intros _; left; discriminate|intros _; right; right; reflexivity].
        * apply N.eqb_neq in E. split.
          -- intros [H|[H|H]]; [left; exact H|right; exact H|congruence].
          -- intros [H|H]; [left; exact H|right; left; exact H].
      + split.
        * intros [H|[H|H]]; [left; exact H|right; exact H|discriminate].
        * intros [H|H]; [left; exact H|right; left; exact H]. }
  unfold seen_before in *. unfold record.
  destruct (key n) as [k|] eqn:Hk.
  - assert (HkA : ~ In k A) by (apply (HA n k); [apply reach_refl|exact Hk]).
    destruct (tm_get mpo k) as [jo|] eqn:Epo; destruct (tm_get mpr k) as [jr|] eqn:Epr.
    + cbn [r_out r_trk map fst snd]. split; [apply perm_nil|exact Hdom].
    + exfalso. assert (H : tm_get mpr k <> None) by (apply Hdom; left; congruence). congruence.
    + exfalso. assert (H : tm_get mpo k <> None \/ In k A) by (apply Hdom; congruence).
      destruct H as [H|H]; [congruence|contradiction].
    + cbn [r_out r_trk fst snd].
      apply (Hgo eq_refl ((k, 0) :: mpr) (k :: A)).
      * intros k'. cbn [tm_get In]. destruct (k =? k') eqn:E.
        -- apply N.eqb_eq in E. subst k'. split; [intros _; right; left; reflexivity|intros _; discriminate].
        -- apply N.eqb_neq in E. rewrite Hdom. split.
           ++ intros [H|H]; [left; exact H|right; right; exact H].
           ++ intros [H|[H|H]]; [left; exact H|congruence|right; exact H].
      * intros k'. cbn [In]. split.
        -- intros [<-|H]; [right; reflexivity|left; exact H].
        -- intros [H|[= <-]]; [right; exact H|left; reflexivity].
  - cbn [r_out r_trk fst snd].
    apply (Hgo eq_refl mpr A Hdom).
    intros k'. split; [intros H; left; exact H|intros [H|H]; [exact H|discriminate]].
Qed.

(* THEOREM: pre-order yields exactly the nodes the post-order yields (as a multiset) *)
Theorem pre_post_same_nodes : forall root,
  Permutation (map it_node (po_spec children key root)) (pre_spec children key root).
Proof.
  intros root. unfold po_spec, pre_spec.
  apply (pre_post_perm (S root) root ltac:(lia) 0 [] [] []).
  - intros k. cbn. tauto.
  - intros x k _ _ [].
Qed.

End Acyclic.

(* the standard trackers are acyclic *)
Lemma key_none_acyclic children : key_acyclic children key_none.
Proof. intros n c x k _ _ H. discriminate. Qed.

Lemma key_ptr_acyclic children : wfc children -> key_acyclic children key_ptr.
Proof.
  intros Hwf n c x k Hc Hx Hn Hk. unfold key_ptr in *.
  pose proof (is_child_lt children Hwf _ _ Hc). pose proof (reach_le children Hwf _ _ Hx).
  assert (N.of_nat n = N.of_nat x) by congruence. lia.
Qed.
