(* C04, phase 2 - first part of the refinement of the slab model (Infer/Slab.v) to the reference
   semantics: valuations of the UbElements in ground types.

     rsat al c     every element has the value of its representative, and the bound stored for every
                   representative holds (Free: nothing, Complete t: = t, Sum / Product: of the values
                   of the two child elements)
   Proved here:
     c_root_spec            bound.root() (path halving) returns the BoundRef of the representative and
                            changes neither the partition nor the models
     bind_complete_sound    `bind(existing, Bound::Complete(t))` - the Complete-vs-Incomplete arms of
                            context.rs with their recursion on both children, the Free arm and the
                            Complete/Complete comparison - is SOUND: every model of the resulting state
                            is a model of the state before in which the class of `existing` has type t;
                            the partition is unchanged (these arms never merge classes).
   The Sum/Sum and Product/Product arms (which go through UbElement::unify) and completeness are
   covered by the correspondence check only (Props/C04.v: C04_slab_refines_reference_statement). *)
From RS Require Import Lib.Tac Lib.Outcome Ty.Ty Core.Prog Infer.Constraints Infer.Infer Infer.UnionFind Infer.Slab.
Import ListNotations.
Local Open Scope outcome_scope.

Definition bref_of (u : uf) (e : nat) : nat :=
  match ub_data (ufget u e) with URoot b => b | UEq _ => 0%nat end.

Definition holds_r (al : nat -> ty) (e : nat) (b : rbound) : Prop :=
  match b with
  | RFree => True
  | RComplete t => al e = t
  | RSum x y => al e = Sum (al x) (al y)
  | RProd x y => al e = Prod (al x) (al y)
  end.

Definition rsat (al : nat -> ty) (c : ctx) : Prop :=
  let u := c_uf c in
  (forall e, (e < length u)%nat -> al e = al (rep u e)) /\
  (forall e, (e < length u)%nat -> is_uroot u e -> holds_r al e (slab_get c (bref_of u e))).

(* well-formed state: rank invariant, children of bounds are allocated elements, no two representatives
   share a BoundRef *)
Definition cwf (c : ctx) : Prop :=
  let u := c_uf c in
  uf_wf u /\
  (forall b x y, (slab_get c b = RSum x y \/ slab_get c b = RProd x y) -> (x < length u)%nat /\ (y < length u)%nat) /\
  (forall e e', (e < length u)%nat -> (e' < length u)%nat -> is_uroot u e -> is_uroot u e' ->
                bref_of u e = bref_of u e' -> e = e') /\
  (forall e, (e < length u)%nat -> is_uroot u e -> (bref_of u e < length (c_slab c))%nat).

(* u' represents the same partition with the same representatives carrying the same data *)
Definition same_part (u u' : uf) : Prop :=
  uf_wf u' /\ length u' = length u /\
  (forall e, (e < length u)%nat -> rep u' e = rep u e) /\
  (forall e, is_uroot u e -> ufget u' e = ufget u e) /\
  (forall e, is_uroot u' e -> is_uroot u e).

Lemma same_part_refl u : uf_wf u -> same_part u u.
Proof. intros W. repeat split; auto. Qed.

Lemma same_part_trans u1 u2 u3 : same_part u1 u2 -> same_part u2 u3 -> same_part u1 u3.
Proof.
  intros (W2 & L2 & R2 & D2 & I2) (W3 & L3 & R3 & D3 & I3).
  split; [exact W3|]. split; [congruence|]. split; [|split].
  - intros e He. rewrite R3 by lia. apply R2. exact He.
  - intros e He. rewrite D3; [apply D2; exact He|]. unfold is_uroot in *. rewrite (D2 e He). exact He.
  - intros e He. apply I2, I3. exact He.
Qed.

Lemma same_part_root u u' e : same_part u u' -> (is_uroot u e <-> is_uroot u' e).
Proof.
  intros (_ & _ & _ & D & I). split; [|apply I].
  intros H. unfold is_uroot in *. rewrite (D e H). exact H.
Qed.

Lemma same_part_bref u u' e : same_part u u' -> is_uroot u e -> bref_of u' e = bref_of u e.
Proof. intros (_ & _ & _ & D & _) H. unfold bref_of. rewrite (D e H). reflexivity. Qed.

Lemma rsat_same_part al c u' : same_part (c_uf c) u' -> (rsat al (put_uf c u') <-> rsat al c).
Proof.
  intros P. pose proof P as (W' & L & R & D & I). unfold rsat. cbn [put_uf c_uf c_slab].
  assert (SG : forall b, slab_get (put_uf c u') b = slab_get c b) by reflexivity.
  split; intros [H1 H2]; split.
  - intros e He. rewrite <- R by exact He. apply H1. lia.
  - intros e He Hr. pose proof (proj1 (same_part_root _ _ e P) Hr) as Hr'.
    specialize (H2 e ltac:(lia) Hr'). rewrite (same_part_bref _ _ e P Hr) in H2. exact H2.
  - intros e He. rewrite R by lia. apply H1. lia.
  - intros e He Hr. pose proof (I e Hr) as Hr0.
    specialize (H2 e ltac:(lia) Hr0). rewrite (same_part_bref _ _ e P Hr0). exact H2.
Qed.

Lemma cwf_same_part c u' : cwf c -> same_part (c_uf c) u' -> cwf (put_uf c u').
Proof.
  intros (W & Ch & Un & Br) P. pose proof P as (W' & L & R & D & I).
  unfold cwf. cbn [put_uf c_uf c_slab]. split; [exact W'|]. split; [|split].
  - intros b x y H. rewrite L. apply (Ch b x y). exact H.
  - intros e e' He He' Hr Hr' Eb. pose proof (I e Hr) as R0. pose proof (I e' Hr') as R0'.
    rewrite (same_part_bref _ _ e P R0), (same_part_bref _ _ e' P R0') in Eb.
    apply Un; auto; lia.
  - intros e He Hr. pose proof (I e Hr) as R0. rewrite (same_part_bref _ _ e P R0). apply Br; [lia|exact R0].
Qed.

(* ---- bound.root(): path halving *)
Lemma c_root_spec c e : cwf c -> (e < length (c_uf c))%nat ->
  exists u', c_root c e = Ok (put_uf c u', bref_of (c_uf c) (rep (c_uf c) e)) /\ same_part (c_uf c) u'.
Proof.
  intros (W & _) He. unfold c_root, root.
  destruct (root_element_ok (c_uf c) e W He) as (u' & E & W' & L & M & K & R & D & I).
  rewrite E. cbn [obind lift_u].
  destruct (rep_root (c_uf c) e W He) as [Rr Lr].
  unfold unwrap_root. rewrite (D _ Rr). unfold is_uroot in Rr. unfold bref_of.
  destruct (ub_data (ufget (c_uf c) (rep (c_uf c) e))) as [b|p]; [|tauto].
  cbn [obind lift_u]. exists u'. split; [reflexivity|]. repeat split; auto.
Qed.

(* ---- reassigning the bound of a representative *)
Lemma slab_get_lset_eq c b x : (b < length (c_slab c))%nat -> slab_get (mk_ctx (lset (c_slab c) b x) (c_uf c)) b = x.
Proof.
  unfold slab_get. cbn [c_slab]. generalize (c_slab c). intros l. revert b.
  induction l as [|y r IH]; intros [|b] H; cbn in *; try lia; auto. all: try (apply IH; lia).
Qed.

Lemma slab_get_lset_neq c b b' x : b <> b' -> slab_get (mk_ctx (lset (c_slab c) b x) (c_uf c)) b' = slab_get c b'.
Proof.
  unfold slab_get. cbn [c_slab]. generalize (c_slab c). intros l. revert b b'.
  induction l as [|y r IH]; intros [|b] [|b'] H; cbn; auto; try lia. all: try (apply IH; lia).
Qed.

Lemma slab_get_in c b : slab_get c b <> RFree -> (b < length (c_slab c))%nat.
Proof.
  intros H. destruct (Nat.lt_ge_cases b (length (c_slab c))); [assumption|].
  exfalso. apply H. unfold slab_get. apply nth_overflow. exact H0.
Qed.

(* does the element hold the bound ref (as a representative)? *)
Definition holds_ref (c : ctx) (e b : nat) : Prop :=
  (e < length (c_uf c))%nat /\ is_uroot (c_uf c) e /\ bref_of (c_uf c) e = b.

Definition no_children_bound (bd : rbound) : Prop :=
  match bd with RSum _ _ | RProd _ _ => False | _ => True end.

(* the state after `bind(b, Complete t)`: same union-find partition (these arms never unify) *)
Definition keeps_part (c c' : ctx) : Prop := same_part (c_uf c) (c_uf c').

Lemma lset_length {A} (l : list A) : forall i x, length (lset l i x) = length l.
Proof. induction l as [|y r IH]; intros [|i] x; cbn; auto. Qed.

Theorem bind_complete_sound : forall fuel c b t c' eb,
  cwf c -> holds_ref c eb b ->
  bind fuel c b (RComplete t) = Ok c' ->
  cwf c' /\ keeps_part c c' /\ length (c_slab c') = length (c_slab c) /\
  (forall al, rsat al c' -> rsat al c /\ al eb = t).
Proof.
  induction fuel as [|f IH]; intros c b t c' eb CW (Le & Re & Be) B; [discriminate|].
  pose proof CW as (W & Ch & Un & Br).
  assert (Lb : (b < length (c_slab c))%nat) by (rewrite <- Be; apply Br; assumption).
  cbn [bind] in B.
  destruct (slab_get c b) as [|ef|x1 x2|x1 x2] eqn:Eb.
  - (* Free: the bound is replaced *)
    unfold reassign_non_complete in B. rewrite Eb in B. injection B as <-.
    assert (SGb : slab_get (mk_ctx (lset (c_slab c) b (RComplete t)) (c_uf c)) b = RComplete t) by (apply slab_get_lset_eq; exact Lb).
    assert (SGn : forall b', b <> b' -> slab_get (mk_ctx (lset (c_slab c) b (RComplete t)) (c_uf c)) b' = slab_get c b')
      by (intros; apply slab_get_lset_neq; assumption).
    split; [|split; [apply same_part_refl; exact W|split]].
    + unfold cwf. cbn [c_uf c_slab]. split; [exact W|]. split; [|split; [exact Un|]].
      * intros b' x y H. destruct (Nat.eq_dec b b') as [<-|N]; [rewrite SGb in H; destruct H; discriminate|].
        rewrite SGn in H by exact N. apply (Ch b' x y H).
      * intros e He Hr. rewrite lset_length. apply Br; assumption.
    + cbn [c_slab]. apply lset_length.
    + intros al [H1 H2]. cbn [c_uf] in *. split; [split; [exact H1|]|].
      * intros e He Hr. destruct (Nat.eq_dec (bref_of (c_uf c) e) b) as [E|N].
        -- rewrite E, Eb. exact I.
        -- specialize (H2 e He Hr). rewrite SGn in H2 by auto. exact H2.
      * specialize (H2 eb Le Re). rewrite Be, SGb in H2. exact H2.
  - (* Complete / Complete *)
    assert (Et : ty_eqb ef t = true /\ c' = c).
    { destruct ef; destruct (ty_eqb _ t); try discriminate; injection B as <-; auto. }
    clear B. destruct Et as [Et ->]. apply ty_eqb_eq in Et.
    split; [exact CW|]. split; [apply same_part_refl; exact W|]. split; [reflexivity|].
    intros al Sa. split; [exact Sa|]. destruct Sa as [_ H2]. specialize (H2 eb Le Re). rewrite Be, Eb in H2.
    cbn in H2. congruence.
  - (* existing Sum, new Complete: recursion on the roots of both children *)
    destruct t as [|c1 c2|c1 c2]; try discriminate.
    destruct (Ch b x1 x2 (or_introl Eb)) as [Lx1 Lx2].
    destruct (c_root_spec c x1 CW Lx1) as (ua & Ea & Pa). rewrite Ea in B. cbn [obind] in B.
    pose proof (cwf_same_part c ua CW Pa) as CWa.
    assert (La : length ua = length (c_uf c)) by (destruct Pa as (_ & L & _); exact L).
    destruct (c_root_spec (put_uf c ua) x2 CWa ltac:(cbn [put_uf c_uf]; lia)) as (ub & Eb2 & Pb). rewrite Eb2 in B. cbn [obind] in B.
    cbn [put_uf c_uf c_slab] in *.
    set (cb := mk_ctx (c_slab c) ub) in *.
    change (put_uf (put_uf c ua) ub) with cb in *.
    pose proof (same_part_trans _ _ _ Pa Pb) as Pab.
    assert (CWb : cwf cb) by (apply (cwf_same_part c ub CW Pab)).
    assert (Lab : length ub = length (c_uf c)) by (destruct Pab as (_ & L & _); exact L).
    set (r1 := rep (c_uf c) x1) in *. set (r2 := rep ua x2) in *.
    destruct (rep_root (c_uf c) x1 W Lx1) as [Rr1 Lr1]. fold r1 in Rr1, Lr1.
    assert (Wa : uf_wf ua) by (destruct Pa; assumption).
    destruct (rep_root ua x2 Wa ltac:(lia)) as [Rr2 Lr2]. fold r2 in Rr2, Lr2.
    assert (Er2 : r2 = rep (c_uf c) x2) by (destruct Pa as (_ & _ & R & _); apply R; exact Lx2).
    destruct (bind f cb (bref_of (c_uf c) r1) (RComplete c1)) as [cc| | |] eqn:B1; cbn [obind] in B; try discriminate.
    assert (H1 : holds_ref cb r1 (bref_of (c_uf c) r1)).
    { unfold holds_ref, cb. cbn [c_uf]. split; [lia|]. split; [apply (proj1 (same_part_root _ _ r1 Pab)); exact Rr1|].
      apply same_part_bref; [exact Pab|exact Rr1]. }
    destruct (IH cb _ c1 cc r1 CWb H1 B1) as (CWc & Pc & Lc & S1).
    unfold keeps_part in Pc. cbn [c_uf] in Pc. change (c_uf cb) with ub in Pc.
    assert (Lcc : length (c_uf cc) = length (c_uf c)) by (destruct Pc as (_ & L & _); lia).
    assert (H2 : holds_ref cc r2 (bref_of ua r2)).
    { unfold holds_ref. split; [lia|].
      pose proof (proj1 (same_part_root _ _ r2 Pb) Rr2) as Rb2.
      split; [apply (proj1 (same_part_root _ _ r2 Pc)); exact Rb2|].
      rewrite (same_part_bref _ _ r2 Pc Rb2). apply same_part_bref; [exact Pb|exact Rr2]. }
    destruct (IH cc _ c2 c' r2 CWc H2 B) as (CW' & P' & L' & S2).
    unfold keeps_part in *.
    assert (Pall : same_part (c_uf c) (c_uf c')) by (eapply same_part_trans; [exact Pab|]; eapply same_part_trans; [exact Pc|exact P']).
    split; [exact CW'|]. split; [exact Pall|]. split; [unfold cb in Lc; cbn [c_slab] in Lc; congruence|].
    intros al Sa. destruct (S2 al Sa) as [Sc E2]. destruct (S1 al Sc) as [Sb E1].
    assert (S0 : rsat al c) by (apply (rsat_same_part al c ub Pab); exact Sb).
    split; [exact S0|]. destruct S0 as [G1 G2].
    specialize (G2 eb Le Re). rewrite Be, Eb in G2. cbn [holds_r] in G2.
    rewrite G2, (G1 x1 Lx1), (G1 x2 Lx2). fold r1. rewrite <- Er2, E1, E2. reflexivity.
  - (* existing Product, new Complete *)
    destruct t as [|c1 c2|c1 c2]; try discriminate.
    destruct (Ch b x1 x2 (or_intror Eb)) as [Lx1 Lx2].
    destruct (c_root_spec c x1 CW Lx1) as (ua & Ea & Pa). rewrite Ea in B. cbn [obind] in B.
    pose proof (cwf_same_part c ua CW Pa) as CWa.
    assert (La : length ua = length (c_uf c)) by (destruct Pa as (_ & L & _); exact L).
    destruct (c_root_spec (put_uf c ua) x2 CWa ltac:(cbn [put_uf c_uf]; lia)) as (ub & Eb2 & Pb). rewrite Eb2 in B. cbn [obind] in B.
    cbn [put_uf c_uf c_slab] in *.
    set (cb := mk_ctx (c_slab c) ub) in *.
    change (put_uf (put_uf c ua) ub) with cb in *.
    pose proof (same_part_trans _ _ _ Pa Pb) as Pab.
    assert (CWb : cwf cb) by (apply (cwf_same_part c ub CW Pab)).
    assert (Lab : length ub = length (c_uf c)) by (destruct Pab as (_ & L & _); exact L).
    set (r1 := rep (c_uf c) x1) in *. set (r2 := rep ua x2) in *.
    destruct (rep_root (c_uf c) x1 W Lx1) as [Rr1 Lr1]. fold r1 in Rr1, Lr1.
    assert (Wa : uf_wf ua) by (destruct Pa; assumption).
    destruct (rep_root ua x2 Wa ltac:(lia)) as [Rr2 Lr2]. fold r2 in Rr2, Lr2.
    assert (Er2 : r2 = rep (c_uf c) x2) by (destruct Pa as (_ & _ & R & _); apply R; exact Lx2).
    destruct (bind f cb (bref_of (c_uf c) r1) (RComplete c1)) as [cc| | |] eqn:B1; cbn [obind] in B; try discriminate.
    assert (H1 : holds_ref cb r1 (bref_of (c_uf c) r1)).
    { unfold holds_ref, cb. cbn [c_uf]. split; [lia|]. split; [apply (proj1 (same_part_root _ _ r1 Pab)); exact Rr1|].
      apply same_part_bref; [exact Pab|exact Rr1]. }
    destruct (IH cb _ c1 cc r1 CWb H1 B1) as (CWc & Pc & Lc & S1).
    unfold keeps_part in Pc. cbn [c_uf] in Pc. change (c_uf cb) with ub in Pc.
    assert (Lcc : length (c_uf cc) = length (c_uf c)) by (destruct Pc as (_ & L & _); lia).
    assert (H2 : holds_ref cc r2 (bref_of ua r2)).
    { unfold holds_ref. split; [lia|].
      pose proof (proj1 (same_part_root _ _ r2 Pb) Rr2) as Rb2.
      split; [apply (proj1 (same_part_root _ _ r2 Pc)); exact Rb2|].
      rewrite (same_part_bref _ _ r2 Pc Rb2). apply same_part_bref; [exact Pb|exact Rr2]. }
    destruct (IH cc _ c2 c' r2 CWc H2 B) as (CW' & P' & L' & S2).
    unfold keeps_part in *.
    assert (Pall : same_part (c_uf c) (c_uf c')) by (eapply same_part_trans; [exact Pab|]; eapply same_part_trans; [exact Pc|exact P']).
    split; [exact CW'|]. split; [exact Pall|]. split; [unfold cb in Lc; cbn [c_slab] in Lc; congruence|].
    intros al Sa. destruct (S2 al Sa) as [Sc E2]. destruct (S1 al Sc) as [Sb E1].
    assert (S0 : rsat al c) by (apply (rsat_same_part al c ub Pab); exact Sb).
    split; [exact S0|]. destruct S0 as [G1 G2].
    specialize (G2 eb Le Re). rewrite Be, Eb in G2. cbn [holds_r] in G2.
    rewrite G2, (G1 x1 Lx1), (G1 x2 Lx2). fold r1. rewrite <- Er2, E1, E2. reflexivity.
Qed.
