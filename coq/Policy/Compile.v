(* C16 - model of src/policy/serialize.rs (fragment compilers, generic over the node type),
   Policy::serialize_no_witness / commit / cmr (src/policy/ast.rs), the root-only algebra
   ConstructibleCmr (src/merkle/cmr.rs) and the Hiding wrapper (src/node/hiding.rs).

   serialize.rs is generic over `N: CoreConstructible + WitnessConstructible<W>`; here the
   same code is generic over a record `alg` of constructors.  Three instances: node terms,
   commitment roots only, and Hiding over any base instance.  The hash is abstract: one
   function per combinator tag (a record `hashfns`, always a Section variable), exactly the
   interface of `Cmr::{iden, unit, injl, .., comp, case, pair, witness, fail, const_word}` and
   `Jet::cmr`.

   Not modelled: type inference inside the constructors.  `comp`, `case`, `pair`, `assertl`,
   `assertr` return `Result<_, types::Error>` and serialize.rs calls `.expect("consistent
   types")`; every policy fragment has type 1 -> 1, so unification succeeds; a failure would
   be visible as a panic in the harness (result 9). *)
From RS Require Import Lib.Tac Lib.Outcome Policy.PolicyAst.
Import ListNotations.
Local Open Scope N_scope.
Local Open Scope outcome_scope.
Set Implicit Arguments.

(* the Elements jets used by serialize.rs *)
Inductive jet :=
| SigAllHash | Bip0340Verify | CheckLockHeight | CheckLockDistance   (* BrokenDoNotUseCheckLockDistance *)
| Sha256Ctx8Init | Sha256Ctx8Add32 | Sha256Ctx8Finalize | Verify | Eq256 | Eq32 | Add32.

Definition jet_code (j : jet) : N :=
  match j with
  | SigAllHash => 0 | Bip0340Verify => 1 | CheckLockHeight => 2 | CheckLockDistance => 3
  | Sha256Ctx8Init => 4 | Sha256Ctx8Add32 => 5 | Sha256Ctx8Finalize => 6 | Verify => 7
  | Eq256 => 8 | Eq32 => 9 | Add32 => 10
  end.

(* witness data, abstractly: the selector bit, "the signature the satisfier holds for key k",
   "the preimage the satisfier holds for image h" *)
Inductive wval := WBit (b : bool) | WSig (k : N) | WPre (h : N).

Section Nodes.
  Variable H : Type.     (* commitment roots *)

  (* one tagged hash per combinator *)
  Record hashfns : Type := {
    h_iden : H; h_unit : H;
    h_injl : H -> H; h_injr : H -> H; h_take : H -> H; h_drop : H -> H;
    h_comp : H -> H -> H; h_case : H -> H -> H; h_pair : H -> H -> H;
    h_witness : H;
    h_fail : N -> H;
    h_word : N -> N -> H;       (* Cmr::const_word: bit width, value *)
    h_jet : jet -> H }.         (* Jet::cmr *)

  (* program terms (trees; sharing is irrelevant for everything stated here) *)
  Inductive node : Type :=
  | NIden | NUnit
  | NInjl (c : node) | NInjr (c : node) | NTake (c : node) | NDrop (c : node)
  | NComp (a b : node) | NCase (a b : node)
  | NAssertL (a : node) (hr : H) | NAssertR (hl : H) (b : node)
  | NPair (a b : node)
  | NFail (e : N)
  | NWord (wbits wvalue : N)
  | NJet (j : jet)
  | NWitness (w : option wval).

  (* the constructor interface (CoreConstructible + WitnessConstructible) *)
  Record alg (A : Type) : Type := {
    a_iden : A; a_unit : A;
    a_injl : A -> A; a_injr : A -> A; a_take : A -> A; a_drop : A -> A;
    a_comp : A -> A -> A; a_case : A -> A -> A;
    a_assertl : A -> H -> A; a_assertr : H -> A -> A;
    a_pair : A -> A -> A;
    a_fail : N -> A; a_word : N -> N -> A; a_jet : jet -> A;
    a_witness : option wval -> A }.

  Definition node_alg : alg node :=
    {| a_iden := NIden; a_unit := NUnit; a_injl := NInjl; a_injr := NInjr; a_take := NTake; a_drop := NDrop;
       a_comp := NComp; a_case := NCase; a_assertl := NAssertL; a_assertr := NAssertR; a_pair := NPair;
       a_fail := NFail; a_word := NWord; a_jet := NJet; a_witness := NWitness |}.

  Variable hf : hashfns.

  (* the root cached by every node constructor (node/mod.rs; C09 is about that in detail) *)
  Fixpoint cmr (n : node) : H :=
    match n with
    | NIden => h_iden hf | NUnit => h_unit hf
    | NInjl c => h_injl hf (cmr c) | NInjr c => h_injr hf (cmr c)
    | NTake c => h_take hf (cmr c) | NDrop c => h_drop hf (cmr c)
    | NComp a b => h_comp hf (cmr a) (cmr b)
    | NCase a b => h_case hf (cmr a) (cmr b)
    | NAssertL a hr => h_case hf (cmr a) hr
    | NAssertR hl b => h_case hf hl (cmr b)
    | NPair a b => h_pair hf (cmr a) (cmr b)
    | NFail e => h_fail hf e
    | NWord w v => h_word hf w v
    | NJet j => h_jet hf j
    | NWitness _ => h_witness hf
    end.

  (* ConstructibleCmr (merkle/cmr.rs) *)
  Definition cmr_alg : alg H :=
    {| a_iden := h_iden hf; a_unit := h_unit hf; a_injl := h_injl hf; a_injr := h_injr hf;
       a_take := h_take hf; a_drop := h_drop hf; a_comp := h_comp hf; a_case := h_case hf;
       a_assertl := fun l r => h_case hf l r; a_assertr := fun l r => h_case hf l r;
       a_pair := h_pair hf; a_fail := h_fail hf; a_word := h_word hf; a_jet := h_jet hf;
       a_witness := fun _ => h_witness hf |}.

  (* Hiding<N> (node/hiding.rs): Result<N, Cmr> = inl node | inr root of a "hidden" node *)
  Section Hiding.
    Context {A : Type} (base : alg A) (base_cmr : A -> H).   (* N: CoreConstructible + HasCmr *)

    Definition hres : Type := (A + H)%type.

    Definition hcmr (x : hres) : H := match x with inl n => base_cmr n | inr h => h end.
    Definition hide (x : hres) : hres := match x with inl n => inr (base_cmr n) | inr h => inr h end.
    Definition as_node (x : hres) : option A := match x with inl n => Some n | inr _ => None end.
    Definition is_node (x : hres) : bool := match x with inl _ => true | inr _ => false end.

    Definition hid1 (fn : A -> A) (fh : H -> H) (c : hres) : hres :=
      match c with inl n => inl (fn n) | inr h => inr (fh h) end.

    Definition hid2 (fn : A -> A -> A) (fh : H -> H -> H) (l r : hres) : hres :=
      match l, r with
      | inl a, inl b => inl (fn a b)
      | _, _ => inr (fh (hcmr l) (hcmr r))
      end.

    Definition hiding_alg : alg hres :=
      {| a_iden := inl (a_iden base); a_unit := inl (a_unit base);
         a_injl := hid1 (a_injl base) (h_injl hf); a_injr := hid1 (a_injr base) (h_injr hf);
         a_take := hid1 (a_take base) (h_take hf); a_drop := hid1 (a_drop base) (h_drop hf);
         a_comp := hid2 (a_comp base) (h_comp hf);
         a_case := fun l r =>
           match l, r with
           | inl a, inl b => inl (a_case base a b)
           | inr hl, inl b => inl (a_assertr base hl b)
           | inl a, inr hr => inl (a_assertl base a hr)
           | inr hl, inr hr => inr (h_case hf hl hr)
           end;
         a_assertl := fun l hr =>
           match l with inl a => inl (a_assertl base a hr) | inr hl => inr (h_case hf hl hr) end;
         a_assertr := fun hl r =>
           match r with inl b => inl (a_assertr base hl b) | inr hr => inr (h_case hf hl hr) end;
         a_pair := hid2 (a_pair base) (h_pair hf);
         a_fail := fun e => inl (a_fail base e);
         a_word := fun w v => inl (a_word base w v);
         a_jet := fun j => inl (a_jet base j);
         a_witness := fun w => inl (a_witness base w) |}.
  End Hiding.

  (* ---------------------------------------------------------------- serialize.rs, generic *)
  Section Fragments.
    Context {A : Type} (al : alg A).

    Definition f_unsatisfiable (e : N) : A := a_fail al e.
    Definition f_trivial : A := a_unit al.

    Definition f_key (k : N) (w : option wval) : A :=
      let const_key := a_word al 256 k in
      let sighash_all := a_jet al SigAllHash in
      let pair_key_msg := a_pair al const_key sighash_all in
      let witness := a_witness al w in
      let pair_key_msg_sig := a_pair al pair_key_msg witness in
      let bip_0340_verify := a_jet al Bip0340Verify in
      a_comp al pair_key_msg_sig bip_0340_verify.

    Definition f_after (n : N) : A :=
      a_comp al (a_word al 32 n) (a_jet al CheckLockHeight).

    Definition f_older (n : N) : A :=
      a_comp al (a_word al 16 n) (a_jet al CheckLockDistance).

    Definition f_compute_sha256 (witness256 : A) : A :=
      let ctx := a_jet al Sha256Ctx8Init in
      let pair_ctx_witness := a_pair al ctx witness256 in
      let add256 := a_jet al Sha256Ctx8Add32 in
      let digest_ctx := a_comp al pair_ctx_witness add256 in
      let finalize := a_jet al Sha256Ctx8Finalize in
      a_comp al digest_ctx finalize.

    Definition f_verify_bexp (input bexp : A) : A :=
      let computed_bexp := a_comp al input bexp in
      a_comp al computed_bexp (a_jet al Verify).

    Definition f_sha256 (h : N) (w : option wval) : A :=
      let const_hash := a_word al 256 h in
      let witness256 := a_witness al w in
      let computed_hash := f_compute_sha256 witness256 in
      let pair_hash_computed_hash := a_pair al const_hash computed_hash in
      f_verify_bexp pair_hash_computed_hash (a_jet al Eq256).

    Definition f_and (l r : A) : A := a_comp al l r.

    Definition f_selector (w : option wval) : A := a_pair al (a_witness al w) (a_unit al).

    Definition f_or (l r : A) (w : option wval) : A :=
      let drop_left := a_drop al l in
      let drop_right := a_drop al r in
      let case_left_right := a_case al drop_left drop_right in
      a_comp al (f_selector w) case_left_right.

    Definition f_thresh_summand (child : A) (w : option wval) : A :=
      let selector := f_selector w in
      let const_one := a_word al 32 1 in
      let child_one := a_comp al child const_one in
      let const_zero := a_word al 32 0 in
      let drop_left := a_drop al const_zero in
      let drop_right := a_drop al child_one in
      let child_one_or_zero := a_case al drop_left drop_right in
      a_comp al selector child_one_or_zero.

    Definition f_thresh_add (sum summand : A) : A :=
      let pair_sum_summand := a_pair al sum summand in
      let full_sum := a_comp al pair_sum_summand (a_jet al Add32) in
      let drop_iden := a_drop al (a_iden al) in
      a_comp al full_sum drop_iden.

    Definition f_thresh_verify (sum : A) (k : N) : A :=
      let const_k := a_word al 32 k in
      let pair_k_sum := a_pair al const_k sum in
      f_verify_bexp pair_k_sum (a_jet al Eq32).

    (* the loop of `threshold`: sum = summand(subs[0]); for the rest: sum = add(sum, summand) *)
    Fixpoint f_thresh_sum (sum : A) (rest : list (A * option wval)) : A :=
      match rest with
      | [] => sum
      | (s, w) :: t => f_thresh_sum (f_thresh_add sum (f_thresh_summand s w)) t
      end.

    (* pub fn threshold(k: u32, subs: &[N], witness_bits: &[W]).  Panic codes:
       4 = more than 2^32 children, 5 = `assert!(k <= n)`, 6 = `assert!(!subs.is_empty())`,
       7 = witness_bits[0] out of range (callers always pass slices of equal length) *)
    Definition f_threshold (k : N) (subs : list A) (wits : list (option wval)) : outcome unit A :=
      if 2 ^ 32 <=? N.of_nat (length subs) then Panic 4
      else if N.of_nat (length subs) <? k then Panic 5
      else match subs, wits with
           | [], _ => Panic 6
           | _ :: _, [] => Panic 7
           | s0 :: st, w0 :: wt => Ok (f_thresh_verify (f_thresh_sum (f_thresh_summand s0 w0) (combine st wt)) k)
           end.

    (* Policy::serialize_no_witness.  Panic 3 = `u32::try_from(k).expect(..)` *)
    Fixpoint compile (p : policy) : outcome unit A :=
      match p with
      | Unsat e => Ok (f_unsatisfiable e)
      | Trivial => Ok f_trivial
      | After n => Ok (f_after n)
      | Older n => Ok (f_older n)
      | Key k => Ok (f_key k None)
      | Sha256 h => Ok (f_sha256 h None)
      | And l r => l' <- compile l ;; r' <- compile r ;; Ok (f_and l' r')
      | Or l r => l' <- compile l ;; r' <- compile r ;; Ok (f_or l' r' None)
      | Thresh k subs =>
          if 2 ^ 32 <=? k then Panic 3
          else
            subs' <- (fix go (l : list policy) : outcome unit (list A) :=
                        match l with
                        | [] => Ok []
                        | x :: t => x' <- compile x ;; t' <- go t ;; Ok (x' :: t')
                        end) subs ;;
            f_threshold k subs' (repeat None (length subs'))
      end.
  End Fragments.

  Fixpoint omapM {X Y} (f : X -> outcome unit Y) (l : list X) : outcome unit (list Y) :=
    match l with
    | [] => Ok []
    | x :: t => x' <- f x ;; t' <- omapM f t ;; Ok (x' :: t')
    end.

  Lemma compile_thresh {A} (al : alg A) k subs :
    compile al (Thresh k subs) =
    if 2 ^ 32 <=? k then Panic 3
    else subs' <- omapM (compile al) subs ;; f_threshold al k subs' (repeat None (length subs')).
  Proof.
    cbn [compile]. destruct (2 ^ 32 <=? k); auto. f_equal.
    induction subs as [|x t IH]; cbn [omapM]; auto. rewrite IH. reflexivity.
  Qed.

  (* Policy::commit (without the type finalisation) and Policy::cmr *)
  Definition policy_commit (p : policy) : outcome unit node := compile node_alg p.
  Definition policy_cmr (p : policy) : outcome unit H := compile cmr_alg p.

  (* ---------------------------------------------------------------- homomorphisms *)
  (* `f` reads the commitment root off a value of the instance, and every constructor of the
     instance computes the root that ConstructibleCmr computes from the roots of the arguments *)
  Record alg_hom {A : Type} (al : alg A) (f : A -> H) : Prop := {
    hom_iden : f (a_iden al) = h_iden hf;
    hom_unit : f (a_unit al) = h_unit hf;
    hom_injl : forall c, f (a_injl al c) = h_injl hf (f c);
    hom_injr : forall c, f (a_injr al c) = h_injr hf (f c);
    hom_take : forall c, f (a_take al c) = h_take hf (f c);
    hom_drop : forall c, f (a_drop al c) = h_drop hf (f c);
    hom_comp : forall a b, f (a_comp al a b) = h_comp hf (f a) (f b);
    hom_case : forall a b, f (a_case al a b) = h_case hf (f a) (f b);
    hom_assertl : forall a h, f (a_assertl al a h) = h_case hf (f a) h;
    hom_assertr : forall h b, f (a_assertr al h b) = h_case hf h (f b);
    hom_pair : forall a b, f (a_pair al a b) = h_pair hf (f a) (f b);
    hom_fail : forall e, f (a_fail al e) = h_fail hf e;
    hom_word : forall w v, f (a_word al w v) = h_word hf w v;
    hom_jet : forall j, f (a_jet al j) = h_jet hf j;
    hom_witness : forall w, f (a_witness al w) = h_witness hf }.

  Lemma node_hom : alg_hom node_alg cmr.
  Proof. constructor; reflexivity. Qed.

  Lemma cmr_alg_hom : alg_hom cmr_alg (fun h => h).
  Proof. constructor; reflexivity. Qed.

  Lemma hiding_hom {A} (base : alg A) (bc : A -> H) :
    alg_hom base bc -> alg_hom (hiding_alg base bc) (hcmr bc).
  Proof.
    intros Hb. constructor; cbn [hiding_alg a_iden a_unit a_injl a_injr a_take a_drop a_comp a_case
      a_assertl a_assertr a_pair a_fail a_word a_jet a_witness hcmr hid1 hid2]; intros;
      repeat match goal with x : hres |- _ => destruct x end; cbn [hcmr];
      try reflexivity; try apply Hb.
  Qed.

  Lemma hide_cmr {A} (bc : A -> H) (x : @hres A) : hcmr bc (hide bc x) = hcmr bc x.
  Proof. destruct x; reflexivity. Qed.

  Section Hom.
    Context {A : Type} (al : alg A) (f : A -> H) (Hh : alg_hom al f).

    Ltac hom := repeat first
      [ rewrite (hom_comp Hh) | rewrite (hom_pair Hh) | rewrite (hom_case Hh)
      | rewrite (hom_drop Hh) | rewrite (hom_word Hh) | rewrite (hom_jet Hh)
      | rewrite (hom_witness Hh) | rewrite (hom_unit Hh) | rewrite (hom_iden Hh)
      | rewrite (hom_fail Hh) ].

    Lemma f_key_hom k w : f (f_key al k w) = f_key cmr_alg k None.
    Proof. unfold f_key. hom. reflexivity. Qed.
    Lemma f_after_hom n : f (f_after al n) = f_after cmr_alg n.
    Proof. unfold f_after. hom. reflexivity. Qed.
    Lemma f_older_hom n : f (f_older al n) = f_older cmr_alg n.
    Proof. unfold f_older. hom. reflexivity. Qed.
    Lemma f_sha256_hom h w : f (f_sha256 al h w) = f_sha256 cmr_alg h None.
    Proof. unfold f_sha256, f_verify_bexp, f_compute_sha256. hom. reflexivity. Qed.
    Lemma f_unsat_hom e : f (f_unsatisfiable al e) = f_unsatisfiable cmr_alg e.
    Proof. unfold f_unsatisfiable. hom. reflexivity. Qed.
    Lemma f_trivial_hom : f (f_trivial al) = f_trivial cmr_alg.
    Proof. unfold f_trivial. hom. reflexivity. Qed.
    Lemma f_and_hom l r : f (f_and al l r) = f_and cmr_alg (f l) (f r).
    Proof. unfold f_and. hom. reflexivity. Qed.
    Lemma f_or_hom l r w : f (f_or al l r w) = f_or cmr_alg (f l) (f r) None.
    Proof. unfold f_or, f_selector. hom. reflexivity. Qed.
    Lemma f_summand_hom c w : f (f_thresh_summand al c w) = f_thresh_summand cmr_alg (f c) None.
    Proof. unfold f_thresh_summand, f_selector. hom. reflexivity. Qed.
    Lemma f_add_hom a b : f (f_thresh_add al a b) = f_thresh_add cmr_alg (f a) (f b).
    Proof. unfold f_thresh_add. hom. reflexivity. Qed.
    Lemma f_verify_hom s k : f (f_thresh_verify al s k) = f_thresh_verify cmr_alg (f s) k.
    Proof. unfold f_thresh_verify, f_verify_bexp. hom. reflexivity. Qed.

    Lemma f_thresh_sum_hom rest : forall sum (wits' : list (option wval)),
      length wits' = length rest ->
      f (f_thresh_sum al sum rest) =
      f_thresh_sum cmr_alg (f sum) (combine (map f (map fst rest)) wits').
    Proof.
      induction rest as [|[s w] t IH]; intros sum wits' Hl.
      - destruct wits'; [reflexivity|discriminate].
      - destruct wits' as [|w' wt']; [discriminate|]. cbn [map fst combine f_thresh_sum].
        rewrite (IH _ wt') by (cbn in Hl; lia).
        rewrite f_add_hom, f_summand_hom.
        (* the witness payload is irrelevant on the root side *)
        reflexivity.
    Qed.

    (* threshold with any witness bits has the root of threshold without witnesses *)
    Lemma f_threshold_hom k subs wits :
      length wits = length subs ->
      omap f (f_threshold al k subs wits) =
      f_threshold cmr_alg k (map f subs) (repeat None (length subs)).
    Proof.
      intros Hl. unfold f_threshold. rewrite map_length.
      destruct (2 ^ 32 <=? N.of_nat (length subs)); [reflexivity|].
      destruct (N.of_nat (length subs) <? k); [reflexivity|].
      destruct subs as [|s0 st]; [reflexivity|]. destruct wits as [|w0 wt]; [discriminate|].
      cbn [map length repeat omap obind]. f_equal.
      rewrite f_verify_hom. f_equal.
      assert (length wt = length st) as Hl' by (cbn in Hl; lia).
      rewrite (f_thresh_sum_hom (combine st wt) _ (repeat None (length st))).
      2:{ rewrite combine_length, repeat_length. lia. }
      rewrite f_summand_hom.
      assert (map fst (combine st wt) = st) as ->; [|reflexivity].
      clear -Hl'. revert wt Hl'. induction st as [|x xt IH]; intros [|w wt] Hl; try discriminate; auto.
      cbn [combine map fst]. f_equal. apply IH. cbn in Hl; lia.
    Qed.

    Lemma omapM_length {X Y} (g : X -> outcome unit Y) l r : omapM g l = Ok r -> length r = length l.
    Proof.
      revert r. induction l as [|x t IH]; cbn [omapM]; intros r Hr.
      - injection Hr as <-. reflexivity.
      - destruct (g x); cbn [obind] in Hr; try discriminate.
        destruct (omapM g t); cbn [obind] in Hr; try discriminate.
        injection Hr as <-. cbn. f_equal. apply IH. reflexivity.
    Qed.

    (* the compiled value of any homomorphic instance has the root Policy::cmr computes,
       and the two compilations fail (panic) on exactly the same policies *)
    Theorem compile_hom p : omap f (compile al p) = compile cmr_alg p.
    Proof.
      induction p using policy_ind'; try reflexivity.
      - cbn [compile omap obind]. rewrite f_unsat_hom. reflexivity.
      - cbn [compile omap obind]. rewrite f_trivial_hom. reflexivity.
      - cbn [compile omap obind]. rewrite f_key_hom. reflexivity.
      - cbn [compile omap obind]. rewrite f_after_hom. reflexivity.
      - cbn [compile omap obind]. rewrite f_older_hom. reflexivity.
      - cbn [compile omap obind]. rewrite f_sha256_hom. reflexivity.
      - cbn [compile]. rewrite <- IHp1, <- IHp2.
        destruct (compile al p1); cbn [omap obind]; try reflexivity.
        destruct (compile al p2); cbn [omap obind]; try reflexivity.
        rewrite f_and_hom. reflexivity.
      - cbn [compile]. rewrite <- IHp1, <- IHp2.
        destruct (compile al p1); cbn [omap obind]; try reflexivity.
        destruct (compile al p2); cbn [omap obind]; try reflexivity.
        rewrite f_or_hom. reflexivity.
      - rewrite !compile_thresh. destruct (2 ^ 32 <=? k); [reflexivity|].
        assert (omap (map f) (omapM (compile al) subs) = omapM (compile cmr_alg) subs) as HM.
        { match goal with HF : Forall _ _ |- _ => induction HF as [|x t Hx _ IH] end; [reflexivity|]. cbn [omapM].
          rewrite <- Hx, <- IH.
          destruct (compile al x); cbn [omap obind]; try reflexivity.
          destruct (omapM (compile al) t); cbn [omap obind]; reflexivity. }
        rewrite <- HM.
        destruct (omapM (compile al) subs) as [subs'| | |] eqn:E; cbn [omap obind]; try reflexivity.
        rewrite map_length.
        apply f_threshold_hom. apply repeat_length.
    Qed.
  End Hom.

  (* Policy::cmr() = commit().cmr() *)
  Corollary policy_cmr_commit p : omap cmr (policy_commit p) = policy_cmr p.
  Proof. apply compile_hom, node_hom. Qed.

  (* the same through the Hiding wrapper over any instance *)
  Corollary policy_cmr_hiding {A} (base : alg A) (bc : A -> H) p :
    alg_hom base bc -> omap (hcmr bc) (compile (hiding_alg base bc) p) = policy_cmr p.
  Proof. intros Hb. apply compile_hom, hiding_hom, Hb. Qed.

End Nodes.

Arguments hres H A : clear implicits.

Arguments NIden {H}. Arguments NUnit {H}. Arguments NInjl {H}. Arguments NInjr {H}. Arguments NTake {H}.
Arguments NDrop {H}. Arguments NComp {H}. Arguments NCase {H}. Arguments NAssertL {H}. Arguments NAssertR {H}.
Arguments NPair {H}. Arguments NFail {H}. Arguments NWord {H}. Arguments NJet {H}. Arguments NWitness {H}.
