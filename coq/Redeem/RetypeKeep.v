(* RetypeInfer.v generalised to an arbitrary set of constructed nodes [keep]: ONE pass of
   prune_with_tracker converts every node of the program it was given into the fresh inference context -
   also the nodes that the pass drops - so the types it leaves are the principal types of the pruned
   structure TOGETHER WITH the constraints of the dropped nodes.  Whenever [keep] contains the root, is closed
   under children and all kept nodes have a typing, reference inference on [tr_keep keep q] succeeds, types the
   kept structure, and lies below that typing on every kept node. *)
From RS Require Import Lib.Tac Lib.Outcome Lib.Bits Ty.Ty Core.Prog
  Redeem.Finalize Redeem.PruneProg Redeem.PruneFix Redeem.Retype
  Infer.Constraints Infer.Unify Infer.Infer Infer.Principal Infer.Gen Infer.Theorems Redeem.RetypeInfer.
Import ListNotations.
Local Open Scope nat_scope.

Definition infer_keep (jt : jet_table) (keep : nat -> bool) (q : rprog) : option arrows :=
  match infer jt None (tr_keep keep q) with
  | Ok tau => Some (arrows_of tau)
  | _ => None
  end.

Section Keep.
Variable q : rprog.
Variable root : nat.
Variable keep : nat -> bool.
Hypothesis W : rwf q = true.
Hypothesis K1 : keep root = true.
Hypothesis K2 : forall i n c, keep i = true -> nth_error q i = Some n -> In c (rchildren n) -> keep c = true.
Hypothesis K3 : forall i, keep i = true -> i < length q.

Definition tau_keep (ar : arrows) : list (option tarrow) :=
  interleave2 (fun _ => None) (fun i => if keep i then ar i else None) 0 (length q).

Definition struct_typed_on (jet_ty : N -> N -> option arrow) (ar : arrows) : Prop :=
  forall i n, keep i = true -> nth_error q i = Some n -> struct_okb jet_ty ar i n = true.

Definition words_small_on : Prop :=
  forall i n bits, keep i = true -> nth_error q i = Some (RWord n bits) -> n <= 31.

Lemma reach_kept i : reach q root i -> keep i = true.
Proof. induction 1 as [|k n c Hk IH Hn Hc]; [exact K1|]. eapply K2; eauto. Qed.

Lemma tr_keep_length : length (tr_keep keep q) = 2 * length q.
Proof. unfold tr_keep. apply interleave2_length. Qed.

Lemma tau_keep_length ar : length (tau_keep ar) = 2 * length q.
Proof. apply interleave2_length. Qed.

Lemma arrows_of_tau_keep ar i : i < length q -> arrows_of (tau_keep ar) i = if keep i then ar i else None.
Proof.
  intros Hi. unfold arrows_of, arr_of, tau_keep. rewrite interleave2_odd by exact Hi. cbn [Nat.add].
  destruct (keep i); [destruct (ar i)|]; reflexivity.
Qed.

Lemma struct_typed_check_keep jt ar :
  struct_typed_on (jet_ty_of jt) ar -> words_small_on ->
  check_typing jt None (tr_keep keep q) (tau_keep ar) = true.
Proof.
  intros Ht Hw. unfold check_typing. rewrite tr_keep_length, tau_keep_length, Nat.eqb_refl. cbn [andb check_root].
  rewrite andb_true_r.
  apply check_nodes_iff. intros k nd Hk. cbn [Nat.add].
  unfold tr_keep in Hk. destruct (interleave2_inv _ _ _ _ _ _ Hk) as (c & Hc & [[-> ->]|[-> ->]]); cbn [Nat.add].
  - assert (E : nth_error (tau_keep ar) (2 * c) = Some None)
      by (unfold tau_keep; rewrite interleave2_even by exact Hc; reflexivity).
    rewrite (nth_error_nth _ _ _ E). reflexivity.
  - assert (E : nth_error (tau_keep ar) (S (2 * c)) = Some (if keep c then ar c else None))
      by (unfold tau_keep; rewrite interleave2_odd by exact Hc; reflexivity).
    rewrite (nth_error_nth _ _ _ E).
    destruct (keep c) eqn:K; [|reflexivity].
    assert (En : nth_error q c = Some (nth c q RIden)) by (apply nth_error_nth'; exact Hc).
    apply okb_check.
    + apply Ht; assumption.
    + intros ch Hch. pose proof (rwf_children _ _ _ _ W En Hch) as Lt.
      rewrite arr_of_firstn by lia. fold (arrows_of (tau_keep ar) ch).
      rewrite arrows_of_tau_keep by lia. rewrite (K2 _ _ _ K En Hch). reflexivity.
    + rewrite hidden_at_firstn by lia. unfold hidden_at, tau_keep.
      rewrite interleave2_even by exact Hc. reflexivity.
    + rewrite arr_of_firstn by lia. unfold arr_of, tau_keep.
      rewrite interleave2_even by exact Hc. reflexivity.
    + intros k bits Ek. eapply Hw; [exact K|]. rewrite En, Ek. reflexivity.
Qed.

Lemma check_struct_typed_keep jt tau :
  (forall i h, keep i = true -> nth_error q i <> Some (RHole h)) ->
  check_typing jt None (tr_keep keep q) tau = true ->
  struct_typed_on (jet_ty_of jt) (arrows_of tau).
Proof.
  intros Hh C. unfold check_typing in C. apply andb_true_iff in C. destruct C as [C _].
  apply andb_true_iff in C. destruct C as [Cl Cn]. apply Nat.eqb_eq in Cl. rewrite tr_keep_length in Cl.
  pose proof (proj1 (check_nodes_iff jt tau (tr_keep keep q) 0) Cn) as P. cbn [Nat.add] in P.
  assert (Slot : forall c, c < length q -> nth_error tau (2 * c) = Some None).
  { intros c Hc. assert (Hk : nth_error (tr_keep keep q) (2 * c) = Some (NHidden (hid_of (nth c q RIden))))
      by (unfold tr_keep; rewrite interleave2_even by exact Hc; reflexivity).
    specialize (P _ _ Hk). cbn [check_node] in P.
    rewrite (nth_error_nth' tau None) by lia. destruct (nth (2 * c) tau None); [discriminate|reflexivity]. }
  assert (Node : forall c, keep c = true ->
            check_node jt (firstn (S (2 * c)) tau) (tr_node c (nth c q RIden)) (arrows_of tau c) = true).
  { intros c K. pose proof (K3 c K) as Hc.
    assert (Hk : nth_error (tr_keep keep q) (S (2 * c)) = Some (tr_node c (nth c q RIden))).
    { unfold tr_keep. rewrite interleave2_odd by exact Hc. cbn [Nat.add]. rewrite K. reflexivity. }
    specialize (P _ _ Hk). unfold arrows_of. rewrite arr_of_nth. exact P. }
  assert (Some_ : forall c, keep c = true -> arrows_of tau c <> None).
  { intros c K E. pose proof (Node c K) as N. rewrite E in N.
    pose proof (K3 c K) as Hc.
    assert (En : nth_error q c = Some (nth c q RIden)) by (apply nth_error_nth'; exact Hc).
    destruct (nth c q RIden) eqn:Nd; cbn [tr_node check_node] in N; try discriminate.
    eapply Hh; [exact K|exact En]. }
  intros i n K En. pose proof (K3 i K) as Hi.
  assert (Nd : nth i q RIden = n) by (apply nth_error_nth; exact En).
  pose proof (Node i K) as N. rewrite Nd in N.
  eapply check_okb; [exact N| | | |].
  - intros h E. apply (Hh i h K). rewrite En, E. reflexivity.
  - intros c Hc. pose proof (rwf_children _ _ _ _ W En Hc) as Lt.
    rewrite arr_of_firstn by lia. split; [reflexivity|]. apply Some_. eapply K2; eauto.
  - rewrite hidden_at_firstn by lia. unfold hidden_at. rewrite Slot by exact Hi. reflexivity.
  - rewrite arr_of_firstn by lia. unfold arr_of. rewrite Slot by exact Hi. reflexivity.
Qed.

Lemma struct_on_no_hole jet_ty ar : struct_typed_on jet_ty ar ->
  forall i h, keep i = true -> nth_error q i <> Some (RHole h).
Proof.
  intros H i h K E. specialize (H _ _ K E). cbn in H. unfold node_okb in H. destruct (ar i) as [[s t]|]; discriminate.
Qed.

(* existence, soundness and leastness of one pass's types *)
Theorem infer_keep_le jt ar :
  struct_typed_on (jet_ty_of jt) ar -> words_small_on ->
  exists ar', infer_keep jt keep q = Some ar' /\
    struct_typed_on (jet_ty_of jt) ar' /\
    (forall i s t s' t', keep i = true -> ar i = Some (s, t) -> ar' i = Some (s', t') ->
       ty_le s' s = true /\ ty_le t' t = true).
Proof.
  intros Ht Hw. pose proof (struct_typed_check_keep jt ar Ht Hw) as C.
  destruct (infer_complete _ _ _ _ C) as (tau0 & I).
  exists (arrows_of tau0). unfold infer_keep. rewrite I. split; [reflexivity|]. split.
  - apply check_struct_typed_keep; [eapply struct_on_no_hole; exact Ht|]. apply infer_sound. exact I.
  - intros i s t s' t' K Ea Ea'.
    pose proof (infer_least _ _ _ _ _ I C) as L.
    pose proof (typing_le_nth _ _ L (S (2 * i))) as Li.
    rewrite <- !arr_of_nth in Li. fold (arrows_of tau0 i) in Li. fold (arrows_of (tau_keep ar) i) in Li.
    rewrite arrows_of_tau_keep in Li by (apply K3; exact K).
    rewrite K, Ea, Ea' in Li. cbn [arrow_le] in Li. apply andb_true_iff in Li. exact Li.
Qed.

End Keep.

(* ------------------------------------------------------------------ the two standard keep sets *)

Lemma reach_list_length q root : rwf q = true -> length (reach_list q root) = length q.
Proof.
  intros W. unfold reach_list.
  destruct (marks_down_spec q root W (length q) []) as [L _]; [cbn; lia|intros k Hk; lia|exact L].
Qed.

Lemma keepb_lt q root i : rwf q = true -> keepb q root i = true -> i < length q.
Proof.
  intros W H. unfold keepb in H. destruct (Nat.lt_ge_cases i (length q)) as [L|G]; [exact L|].
  rewrite nth_overflow in H by (rewrite reach_list_length by exact W; exact G). discriminate.
Qed.

(* the nodes of a program p (what a pass on p constructs) as keep set for a pruning q of p *)
Lemma keep_of_program HS ident p T root : rwf p = true -> root < length p ->
  let q := prune_struct HS ident p T in
  keepb p root root = true /\
  (forall i n c, keepb p root i = true -> nth_error q i = Some n -> In c (rchildren n) -> keepb p root c = true) /\
  (forall i, keepb p root i = true -> i < length q).
Proof.
  intros W Hr q. split; [apply keepb_reach; [exact W|exact Hr|constructor]|]. split.
  - intros i n c K En Hc. pose proof (keepb_lt _ _ _ W K) as Li.
    apply (keepb_reach p root i W Li) in K.
    unfold q in En. rewrite prune_nth in En. destruct (nth_error p i) as [n0|] eqn:E0; [|discriminate].
    cbn in En. injection En as <-.
    assert (Hc0 : In c (rchildren n0)).
    { destruct (pnode_children ident (cmrs HS p) T i n0) as [E|(l & r & -> & [E|E])]; rewrite E in Hc.
      - exact Hc.
      - destruct Hc as [<-|[]]. left. reflexivity.
      - destruct Hc as [<-|[]]. right. left. reflexivity. }
    pose proof (rwf_children _ _ _ _ W E0 Hc0) as Lc.
    apply keepb_reach; [exact W|lia|]. eapply reach_step; eauto.
  - intros i K. unfold q, prune_struct. rewrite prune_from_length. eapply keepb_lt; eauto.
Qed.
