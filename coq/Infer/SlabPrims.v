(* C04, phase 3 - layer (c), first half: the primitives every arrow constructor of src/types/arrow.rs is made
   of, on the slab model, with their exact sets of models (generic domain, as SlabSim.v):

     Type::free / Type::complete / wrap_bound(alloc)  new_type_spec      one new element `length (c_uf c)`, whose value
                                                                         satisfies the new bound; old elements as before
     Type::sum / Type::product                        ty_pair_spec       total; the new element is the sum / product of
                                                                         the two children - also when eager completion
                                                                         stores a Complete bound instead
     Context::bind_product                            bind_product_spec  exactly the models in which `existing` is the
                                                                         product; Err only when there is none
     Context::unify                                   SlabSim.unify_spec_all
   NOT done: composing them into the per-combinator statement "r_node simulates Constraints.node_tmpl". *)
From RS Require Import Lib.Tac Lib.Outcome Ty.Ty Core.Prog Infer.Constraints Infer.Infer
  Infer.UnionFind Infer.Slab Infer.SlabProofs Infer.SlabSim.
Import ListNotations.
Local Open Scope outcome_scope.

(* ------------------------------------------------------------------ appending a singleton class *)

Lemma ufget_app_l (u : uf) x e : (e < length u)%nat -> ufget (u ++ [x]) e = ufget u e.
Proof. intros H. unfold ufget. apply app_nth1. exact H. Qed.

Lemma ufget_app_last (u : uf) x : ufget (u ++ [x]) (length u) = x.
Proof. unfold ufget. rewrite app_nth2 by lia. rewrite Nat.sub_diag. reflexivity. Qed.

Lemma max_rank_app0 u d : max_rank (u ++ [mk_ub d 0]) = max_rank u.
Proof. induction u as [|x r IH]; cbn [app max_rank ub_rank]; [reflexivity|]. rewrite IH. reflexivity. Qed.

Lemma rep_f_app u x : uf_wf u -> forall fuel e, (e < length u)%nat -> rep_f fuel (u ++ [x]) e = rep_f fuel u e.
Proof.
  intros W. induction fuel as [|f IH]; intros e He; [reflexivity|].
  cbn [rep_f]. rewrite (ufget_app_l u x e He). pose proof (W e He) as We.
  destruct (ub_data (ufget u e)) as [b|p]; [reflexivity|]. apply IH. tauto.
Qed.

Lemma rep_app u d e : uf_wf u -> (e < length u)%nat -> rep (u ++ [mk_ub d 0]) e = rep u e.
Proof. intros W He. unfold rep, uf_fuel. rewrite max_rank_app0. apply rep_f_app; assumption. Qed.

Lemma uf_wf_app_root u b : uf_wf u -> uf_wf (u ++ [mk_ub (URoot b) 0]).
Proof.
  intros W e He. rewrite app_length in He. cbn [length] in He.
  destruct (Nat.eq_dec e (length u)) as [->|N].
  - rewrite ufget_app_last. exact I.
  - assert (He' : (e < length u)%nat) by lia. rewrite (ufget_app_l u _ e He'). pose proof (W e He') as We.
    destruct (ub_data (ufget u e)) as [b'|p]; [exact I|]. destruct We as [Lp Rp].
    rewrite app_length. cbn [length]. split; [lia|]. rewrite (ufget_app_l u _ p Lp). exact Rp.
Qed.

Lemma slab_get_app_l c bnd u b : (b < length (c_slab c))%nat -> slab_get (mk_ctx (c_slab c ++ [bnd]) u) b = slab_get c b.
Proof. intros H. unfold slab_get. cbn [c_slab]. apply app_nth1. exact H. Qed.

Lemma slab_get_app_last c bnd u : slab_get (mk_ctx (c_slab c ++ [bnd]) u) (length (c_slab c)) = bnd.
Proof. unfold slab_get. cbn [c_slab]. rewrite app_nth2 by lia. rewrite Nat.sub_diag. reflexivity. Qed.

Lemma slab_get_app_out c bnd u b : (length (c_slab c) < b)%nat -> slab_get (mk_ctx (c_slab c ++ [bnd]) u) b = RFree.
Proof. intros H. unfold slab_get. cbn [c_slab]. apply nth_overflow. rewrite app_length. cbn [length]. lia. Qed.

Lemma new_type_eq c bnd : new_type c bnd =
  (mk_ctx (c_slab c ++ [bnd]) (c_uf c ++ [mk_ub (URoot (length (c_slab c))) 0]), length (c_uf c)).
Proof. reflexivity. Qed.

Section PrimDom.
  Variable D : Type.
  Variable deq : D -> D -> Prop.
  Variable done : D.
  Variable dsum dprod : D -> D -> D.
  Hypothesis deq_refl : forall a, deq a a.
  Hypothesis deq_sym : forall a b, deq a b -> deq b a.
  Hypothesis deq_trans : forall a b c, deq a b -> deq b c -> deq a c.
  Hypothesis dsum_cong : forall a b c d, deq a c -> deq b d -> deq (dsum a b) (dsum c d).
  Hypothesis dprod_cong : forall a b c d, deq a c -> deq b d -> deq (dprod a b) (dprod c d).
  Hypothesis dsum_inj : forall a b c d, deq (dsum a b) (dsum c d) -> deq a c /\ deq b d.
  Hypothesis dprod_inj : forall a b c d, deq (dprod a b) (dprod c d) -> deq a c /\ deq b d.
  Hypothesis one_sum : forall a b, ~ deq done (dsum a b).
  Hypothesis one_prod : forall a b, ~ deq done (dprod a b).
  Hypothesis sum_prod : forall a b c d, ~ deq (dsum a b) (dprod c d).

  Let ssat := drsat D deq done dsum dprod.
  Let sholds := dholds_r D deq done dsum dprod.
  Let sdof := dof D done dsum dprod.
  Let sdpair := dpair D dsum dprod.

  (* what a primitive that allocates one element guarantees *)
  Definition alloc_post (c c' : ctx) (e : nat) (bnd : rbound) : Prop :=
    e = length (c_uf c) /\ cwf c' /\ length (c_uf c') = S (length (c_uf c)) /\
    length (c_slab c') = S (length (c_slab c)) /\
    (forall e0, (e0 < length (c_uf c))%nat -> rep (c_uf c') e0 = rep (c_uf c) e0) /\
    (forall al, ssat al c' <-> ssat al c /\ sholds al e bnd).

  Theorem new_type_spec c bnd : cwf c -> bound_in (S (length (c_uf c))) bnd ->
    alloc_post c (fst (new_type c bnd)) (snd (new_type c bnd)) bnd.
  Proof.
    intros CW BI. pose proof CW as (W & Ch & Un & Br). rewrite new_type_eq. cbn [fst snd].
    set (u' := c_uf c ++ [mk_ub (URoot (length (c_slab c))) 0]).
    set (c' := mk_ctx (c_slab c ++ [bnd]) u').
    assert (Lu : length u' = S (length (c_uf c))) by (unfold u'; rewrite app_length; cbn [length]; lia).
    assert (Gl : forall e, (e < length (c_uf c))%nat -> ufget u' e = ufget (c_uf c) e) by (intros; apply ufget_app_l; assumption).
    assert (Gn : ufget u' (length (c_uf c)) = mk_ub (URoot (length (c_slab c))) 0) by apply ufget_app_last.
    assert (Rp : forall e, (e < length (c_uf c))%nat -> rep u' e = rep (c_uf c) e) by (intros; apply rep_app; assumption).
    assert (Rtl : forall e, (e < length (c_uf c))%nat -> (is_uroot u' e <-> is_uroot (c_uf c) e))
      by (intros e He; unfold is_uroot; rewrite (Gl e He); tauto).
    assert (Bfl : forall e, (e < length (c_uf c))%nat -> bref_of u' e = bref_of (c_uf c) e)
      by (intros e He; unfold bref_of; rewrite (Gl e He); reflexivity).
    assert (Rtn : is_uroot u' (length (c_uf c))) by (unfold is_uroot; rewrite Gn; exact I).
    assert (Bfn : bref_of u' (length (c_uf c)) = length (c_slab c)) by (unfold bref_of; rewrite Gn; reflexivity).
    assert (Rpn : rep u' (length (c_uf c)) = length (c_uf c)) by (apply rep_of_root; exact Rtn).
    assert (Sl : forall e, (e < length (c_uf c))%nat -> is_uroot (c_uf c) e ->
                 slab_get c' (bref_of (c_uf c) e) = slab_get c (bref_of (c_uf c) e)).
    { intros e He Hr. apply slab_get_app_l. apply Br; assumption. }
    assert (CW' : cwf c').
    { unfold cwf. change (c_uf c') with u'. split; [apply uf_wf_app_root; exact W|]. split; [|split].
      - intros b x y H. rewrite Lu.
        destruct (Nat.lt_trichotomy b (length (c_slab c))) as [Lb|[->|Gb]].
        + unfold c' in H. rewrite slab_get_app_l in H by exact Lb. destruct (Ch b x y H). lia.
        + unfold c' in H. rewrite slab_get_app_last in H. destruct H as [H|H]; rewrite H in BI; exact BI.
        + unfold c' in H. rewrite slab_get_app_out in H by exact Gb. destruct H; discriminate.
      - intros e e' He He' Hr Hr' Eb. rewrite Lu in He, He'.
        destruct (Nat.eq_dec e (length (c_uf c))) as [->|N]; destruct (Nat.eq_dec e' (length (c_uf c))) as [->|N']; try reflexivity.
        + exfalso. assert (L' : (e' < length (c_uf c))%nat) by lia. rewrite Bfn, (Bfl e' L') in Eb.
          pose proof (Br e' L' (proj1 (Rtl e' L') Hr')). lia.
        + exfalso. assert (L' : (e < length (c_uf c))%nat) by lia. rewrite Bfn, (Bfl e L') in Eb.
          pose proof (Br e L' (proj1 (Rtl e L') Hr)). lia.
        + assert (L1 : (e < length (c_uf c))%nat) by lia. assert (L2 : (e' < length (c_uf c))%nat) by lia.
          rewrite (Bfl e L1), (Bfl e' L2) in Eb. apply Un; auto; apply Rtl; assumption.
      - intros e He Hr. rewrite Lu in He. cbn [c' c_slab]. rewrite app_length. cbn [length].
        destruct (Nat.eq_dec e (length (c_uf c))) as [->|N]; [rewrite Bfn; lia|].
        assert (L1 : (e < length (c_uf c))%nat) by lia. rewrite (Bfl e L1).
        pose proof (Br e L1 (proj1 (Rtl e L1) Hr)). lia. }
    split; [reflexivity|]. split; [exact CW'|]. split; [exact Lu|].
    split; [cbn [c' c_slab]; rewrite app_length; cbn [length]; lia|]. split; [exact Rp|].
    intros al. unfold ssat, drsat. change (c_uf c') with u'. rewrite Lu. split.
    - intros [H1 H2]. split; [split|].
      + intros e He. rewrite <- (Rp e He). apply H1. lia.
      + intros e He Hr. specialize (H2 e ltac:(lia) (proj2 (Rtl e He) Hr)). rewrite (Bfl e He), (Sl e He Hr) in H2. exact H2.
      + specialize (H2 (length (c_uf c)) ltac:(lia) Rtn). rewrite Bfn in H2. unfold c' in H2. rewrite slab_get_app_last in H2. exact H2.
    - intros [[H1 H2] Hn]. split.
      + intros e He. destruct (Nat.eq_dec e (length (c_uf c))) as [->|N]; [rewrite Rpn; apply deq_refl|].
        assert (L1 : (e < length (c_uf c))%nat) by lia. rewrite (Rp e L1). apply H1. exact L1.
      + intros e He Hr. destruct (Nat.eq_dec e (length (c_uf c))) as [->|N].
        * rewrite Bfn. unfold c'. rewrite slab_get_app_last. exact Hn.
        * assert (L1 : (e < length (c_uf c))%nat) by lia. pose proof (proj1 (Rtl e L1) Hr) as Hr0.
          rewrite (Bfl e L1), (Sl e L1 Hr0). apply H2; assumption.
  Qed.

  (* Type::sum / Type::product: total, and the new element is the sum / product of its children *)
  Theorem ty_pair_spec s c l r : cwf c -> (l < length (c_uf c))%nat -> (r < length (c_uf c))%nat ->
    exists c' e, ty_pair s c l r = Ok (c', e) /\ e = length (c_uf c) /\ cwf c' /\
      length (c_uf c') = S (length (c_uf c)) /\
      (forall al, ssat al c' <-> ssat al c /\ deq (al e) (sdpair s (al l) (al r))).
  Proof.
    intros CW Ll Lr. pose proof CW as (W & Ch & Un & Br). unfold ty_pair, complete_pair_data.
    destruct (c_root_spec c l CW Ll) as (ua & Ea & Pa). rewrite Ea. cbn [obind].
    pose proof (cwf_same_part c ua CW Pa) as CWa.
    assert (La : length ua = length (c_uf c)) by (destruct Pa as (_ & L & _); exact L).
    destruct (c_root_spec (put_uf c ua) r CWa ltac:(cbn [put_uf c_uf]; lia)) as (ub & Eb2 & Pb). rewrite Eb2. cbn [obind].
    cbn [put_uf c_uf c_slab] in *.
    set (c1 := mk_ctx (c_slab c) ub) in *.
    change (put_uf (put_uf c ua) ub) with c1 in *.
    pose proof (same_part_trans _ _ _ Pa Pb) as Pab.
    assert (CW1 : cwf c1) by (apply (cwf_same_part c ub CW Pab)).
    assert (L1 : length (c_uf c1) = length (c_uf c)) by (destruct Pab as (_ & L & _); exact L).
    assert (S1 : forall al, ssat al c1 <-> ssat al c).
    { intros al. unfold ssat. change c1 with (put_uf c ub). apply (drsat_same_part D deq done dsum dprod); auto. }
    set (r1 := rep (c_uf c) l) in *. set (r2 := rep ua r) in *.
    destruct (rep_root (c_uf c) l W Ll) as [Rr1 Lr1]. fold r1 in Rr1, Lr1.
    assert (Er2 : r2 = rep (c_uf c) r) by (destruct Pa as (_ & _ & R & _); apply R; exact Lr).
    destruct (rep_root (c_uf c) r W Lr) as [Rr2 Lr2]. rewrite <- Er2 in Rr2, Lr2.
    assert (B1 : bref_of (c_uf c1) (rep (c_uf c1) l) = bref_of (c_uf c) r1).
    { change (c_uf c1) with ub. destruct Pab as (_ & _ & R & _). rewrite (R l Ll). fold r1.
      apply (same_part_bref _ _ r1 (same_part_trans _ _ _ Pa Pb) Rr1). }
    assert (B2 : bref_of (c_uf c1) (rep (c_uf c1) r) = bref_of ua r2).
    { change (c_uf c1) with ub. destruct Pab as (_ & _ & R & _). rewrite (R r Lr), <- Er2.
      apply (same_part_bref _ _ r2 Pb). apply (proj1 (same_part_root _ _ r2 Pa)). exact Rr2. }
    (* the incomplete case, used for every combination but Complete/Complete *)
    assert (Inc : exists c' e, Ok (new_type c1 (if s then RSum l r else RProd l r)) = @Ok (berr * ctx) _ (c', e) /\ e = length (c_uf c) /\ cwf c' /\
              length (c_uf c') = S (length (c_uf c)) /\
              (forall al, ssat al c' <-> ssat al c /\ deq (al e) (sdpair s (al l) (al r)))).
    { pose proof (new_type_spec c1 (rpair s l r)) as NT.
      destruct (new_type c1 (rpair s l r)) as [c' e] eqn:En. cbn [fst snd] in NT.
      destruct NT as (Ee & CW' & Lu & _ & _ & Sm); [exact CW1|destruct s; cbn [rpair bound_in]; lia|].
      exists c', e. split; [change (if s then RSum l r else RProd l r) with (rpair s l r); rewrite En; reflexivity|].
      split; [lia|]. split; [exact CW'|]. split; [lia|].
      intros al. rewrite Sm, S1. unfold sholds. rewrite dholds_rpair. reflexivity. }
    destruct (slab_get c1 (bref_of (c_uf c) r1)) as [|d1|? ?|? ?] eqn:G1; try exact Inc.
    destruct (slab_get c1 (bref_of ua r2)) as [|d2|? ?|? ?] eqn:G2; try exact Inc.
    clear Inc.
    pose proof (new_type_spec c1 (RComplete (tpair s d1 d2))) as NT.
    destruct (new_type c1 (RComplete (tpair s d1 d2))) as [c' e] eqn:En. cbn [fst snd] in NT.
    destruct NT as (Ee & CW' & Lu & _ & _ & Sm); [exact CW1|exact I|].
    exists c', e. cbn [obind]. split; [change (if s then Sum d1 d2 else Prod d1 d2) with (tpair s d1 d2); rewrite En; reflexivity|].
    split; [lia|]. split; [exact CW'|]. split; [lia|].
    intros al. rewrite Sm. unfold sholds. cbn [dholds_r]. rewrite dof_tpair.
    assert (V : ssat al c1 -> deq (al l) (dof D done dsum dprod d1) /\ deq (al r) (dof D done dsum dprod d2)).
    { intros Sa.
      assert (V1 : dholds_r D deq done dsum dprod al l (slab_get c1 (bref_of (c_uf c1) (rep (c_uf c1) l))))
        by (apply (drsat_bound D deq done dsum dprod); auto; lia).
      assert (V2 : dholds_r D deq done dsum dprod al r (slab_get c1 (bref_of (c_uf c1) (rep (c_uf c1) r))))
        by (apply (drsat_bound D deq done dsum dprod); auto; lia).
      rewrite B1, G1 in V1. rewrite B2, G2 in V2. split; assumption. }
    rewrite <- S1. split; intros [Sa G]; (split; [exact Sa|]); destruct (V Sa) as [V1 V2].
    - eapply deq_trans; [exact G|]. apply dpair_cong; auto; apply deq_sym; assumption.
    - eapply deq_trans; [exact G|]. apply dpair_cong; auto.
  Qed.

  (* Context::bind_product *)
  Theorem bind_product_spec f c ex l r : cwf c ->
    (ex < length (c_uf c))%nat -> (l < length (c_uf c))%nat -> (r < length (c_uf c))%nat ->
    match bind_product f c ex l r with
    | Ok c' => post c c' /\ (forall al, ssat al c' <-> ssat al c /\ deq (al ex) (dprod (al l) (al r)))
    | Err _ => forall al, ~ (ssat al c /\ deq (al ex) (dprod (al l) (al r)))
    | _ => True
    end.
  Proof.
    intros CW Lex Ll Lr. pose proof CW as (W & Ch & Un & Br). unfold bind_product.
    destruct (c_root_spec c ex CW Lex) as (ua & Ea & Pa). rewrite Ea. cbn [obind].
    pose proof (cwf_same_part c ua CW Pa) as CWa.
    assert (La : length ua = length (c_uf c)) by (destruct Pa as (_ & L & _); exact L).
    destruct (rep_root (c_uf c) ex W Lex) as [Rr Lrr]. set (rr := rep (c_uf c) ex) in *.
    assert (HR : holds_ref (put_uf c ua) rr (bref_of (c_uf c) rr)).
    { unfold holds_ref. cbn [put_uf c_uf]. split; [lia|]. split; [apply (proj1 (same_part_root _ _ rr Pa)); exact Rr|].
      apply same_part_bref; assumption. }
    pose proof (bind_spec_all D deq done dsum dprod deq_refl deq_sym deq_trans dsum_cong dprod_cong dsum_inj dprod_inj
                  one_sum one_prod sum_prod f (put_uf c ua) _ (RProd l r) rr CWa HR) as B.
    specialize (B ltac:(cbn [bound_in put_uf c_uf]; lia)).
    assert (Sa0 : forall al, ssat al (put_uf c ua) <-> ssat al c) by (intros al; unfold ssat; apply (drsat_same_part D deq done dsum dprod); auto).
    assert (V : forall al, ssat al c -> (deq (al rr) (dprod (al l) (al r)) <-> deq (al ex) (dprod (al l) (al r)))).
    { intros al Sa. pose proof (drsat_rep D deq done dsum dprod al c ex Sa Lex) as G. fold rr in G.
      split; intros H; eapply deq_trans; eauto. }
    destruct (bind f (put_uf c ua) (bref_of (c_uf c) rr) (RProd l r)) as [c'|e| |]; try exact I.
    - destruct B as [P Sm]. split; [eapply post_trans; [apply (post_same_part c ua CW Pa)|exact P]|].
      intros al. unfold ssat. rewrite Sm. cbn [dholds_r]. fold ssat. rewrite Sa0.
      split; intros [Sa G]; (split; [exact Sa|]); apply (V al Sa); exact G.
    - intros al [Sa G]. apply (B al). split; [apply Sa0; exact Sa|]. cbn [dholds_r]. apply (V al Sa). exact G.
  Qed.
End PrimDom.
