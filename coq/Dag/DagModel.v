(* C18 - model of src/dag.rs (rust-simplicity): DAGs as node tables, sharing trackers,
   PostOrderIter::next with its explicit stack, SwapChildren / unswap, PreOrderIter,
   VerbosePreOrderIter and DagLike::is_shared_as.

   Conventions
   - A DAG is a table `list dagnode`; node identity (Rust: pointer identity, `PointerId`)
     is the position in the table; the children of a node sit at smaller positions, so the
     graph is acyclic by construction (`wf`).  This is the shape decode.rs itself uses for
     `(usize, &[DecodeNode])`.
   - Node positions are `nat` (list positions); yield indices and keys are `N`.
   - A tracker is `key : nat -> option N` (the sharing id of a node, `None` = the node is
     never shared) plus a finite map from keys to the index recorded for them.
       NoSharing       : key = fun _ => None
       InternalSharing : key = fun n => Some n   (pointer identity)
       MaxSharing / EncodeSharing / any identity-hash sharing : arbitrary key.
   - Every model function mirrors one Rust function, with the same case analysis; the
     `assert!`s, index-out-of-range and `unreachable!` are explicit `Panic` outcomes. *)
From RS Require Import Lib.Tac Lib.Outcome.
Import ListNotations.
Local Open Scope N_scope.

(* ------------------------------------------------------------------ DAG tables *)
Inductive dagnode : Type :=
| Nul
| Un (i : nat)
| Bin (i j : nat).

Definition dag := list dagnode.

(* `self.1[self.0]`; positions beyond the table do not occur for well-formed tables *)
Definition node_at (d : dag) (n : nat) : dagnode := nth n d Nul.

(* DagLike::left_child / right_child / n_children (default implementations) *)
Definition left_child_of (dn : dagnode) : option nat :=
  match dn with Nul => None | Un s => Some s | Bin l _ => Some l end.
Definition right_child_of (dn : dagnode) : option nat :=
  match dn with Nul => None | Un _ => None | Bin _ r => Some r end.
Definition n_children_of (dn : dagnode) : N :=
  match dn with Nul => 0 | Un _ => 1 | Bin _ _ => 2 end.

(* children sit at smaller positions *)
Definition node_ok (n : nat) (dn : dagnode) : Prop :=
  match dn with Nul => True | Un i => (i < n)%nat | Bin i j => (i < n)%nat /\ (j < n)%nat end.
Definition wfc (children : nat -> dagnode) : Prop := forall n, node_ok n (children n).
Definition wf (d : dag) : Prop := wfc (node_at d).

Definition node_okb (n : nat) (dn : dagnode) : bool :=
  match dn with Nul => true | Un i => Nat.ltb i n | Bin i j => Nat.ltb i n && Nat.ltb j n end.
Fixpoint wfb_from (n : nat) (d : dag) : bool :=
  match d with [] => true | dn :: r => node_okb n dn && wfb_from (S n) r end.
Definition wfb (d : dag) : bool := wfb_from 0 d.

(* SwapChildren::as_dag_node *)
Definition swapnode (dn : dagnode) : dagnode :=
  match dn with Nul => Nul | Un s => Un s | Bin l r => Bin r l end.
Definition mirror (d : dag) : dag := map swapnode d.

(* ------------------------------------------------------------------ trackers *)
Definition tmap := list (N * N).   (* sharing id -> recorded index; newest first, never overwritten *)

Fixpoint tm_get (m : tmap) (k : N) : option N :=
  match m with
  | [] => None
  | (k', i) :: r => if k' =? k then Some i else tm_get r k
  end.

Definition key_none : nat -> option N := fun _ => None.             (* NoSharing *)
Definition key_ptr : nat -> option N := fun n => Some (N.of_nat n).  (* InternalSharing *)
Definition key_list (l : list (option N)) : nat -> option N := fun n => nth n l None.

Definition opt_is_some {A} (o : option A) : bool := match o with Some _ => true | None => false end.
Definition unwrap_or {A} (o : option A) (d : A) : A := match o with Some a => a | None => d end.

Section Model.
Variable children : nat -> dagnode.   (* DagLike::as_dag_node of the node at a position *)
Variable key : nat -> option N.       (* sharing id used by the tracker *)

(* SharingTracker::seen_before *)
Definition seen_before (m : tmap) (n : nat) : option N :=
  match key n with
  | Some k => tm_get m k
  | None => None
  end.

(* SharingTracker::record : returns the previously recorded index, if any; inserts otherwise *)
Definition record (m : tmap) (n : nat) (index : N) : option N * tmap :=
  match key n with
  | None => (None, m)
  | Some k =>
      match tm_get m k with
      | Some i => (Some i, m)
      | None => (None, (k, index) :: m)
      end
  end.

(* ------------------------------------------------------------------ PostOrderIter *)
Inductive child : Type :=
| CNone
| CRepeat (idx : N)
| CNew (c : nat).

Inductive previous : Type := Root | ParentLeft | SiblingLeft | ParentRight.

Record sitem : Type := mk_sitem {
  s_elem : nat;
  s_processed : bool;
  s_left : option N;
  s_right : option N;
  s_prev : previous }.

(* IterStackItem::unprocessed *)
Definition unprocessed (n : nat) (p : previous) : sitem := mk_sitem n false None None p.

Definition set_processed (s : sitem) : sitem :=
  mk_sitem (s_elem s) true (s_left s) (s_right s) (s_prev s).
Definition set_left (s : sitem) (i : N) : sitem :=
  mk_sitem (s_elem s) (s_processed s) (Some i) (s_right s) (s_prev s).
Definition set_right (s : sitem) (i : N) : sitem :=
  mk_sitem (s_elem s) (s_processed s) (s_left s) (Some i) (s_prev s).

(* IterStackItem::left_child / right_child *)
Definition classify (m : tmap) (c : option nat) : child :=
  match c with
  | Some c =>
      match seen_before m c with
      | Some idx => CRepeat idx
      | None => CNew c
      end
  | None => CNone
  end.
Definition item_left_child (m : tmap) (s : sitem) : child :=
  classify m (left_child_of (children (s_elem s))).
Definition item_right_child (m : tmap) (s : sitem) : child :=
  classify m (right_child_of (children (s_elem s))).

(* PostOrderIterItem *)
Record po_item : Type := mk_item {
  it_node : nat;
  it_index : N;
  it_left : option N;
  it_right : option N }.

(* PostOrderIter; the Rust `Vec` stack is a list whose head is the top (last element) *)
Record po_state : Type := mk_po {
  po_index : N;
  po_stack : list sitem;
  po_trk : tmap }.

Inductive po_res : Type :=
| PDone                                   (* stack empty: `self.stack.pop()?` returns None *)
| PYield (it : po_item) (st : po_state)   (* `return Some(..)` *)
| PCont (st : po_state)                   (* next iteration of `loop` *)
| PPanic (code : N).

(* The back-patching `match current.previous { .. }` on the stack after the pop.
   Panic codes: 1 assert_eq!(stack_len, 0); 2,3,4 assert!(..processed) for ParentLeft,
   ParentRight, SiblingLeft; 5 index out of range / `stack_len - k` underflow. *)
Definition patch (p : previous) (ci : N) (stk : list sitem) : outcome unit (list sitem) :=
  match p with
  | Root => match stk with [] => Ok [] | _ => Panic 1 end
  | ParentLeft =>
      match stk with
      | q :: r => if s_processed q then Ok (set_left q ci :: r) else Panic 2
      | [] => Panic 5
      end
  | ParentRight =>
      match stk with
      | q :: r => if s_processed q then Ok (set_right q ci :: r) else Panic 3
      | [] => Panic 5
      end
  | SiblingLeft =>
      match stk with
      | s :: q :: r => if s_processed q then Ok (s :: set_left q ci :: r) else Panic 4
      | _ => Panic 5
      end
  end.

(* The same back-patching in the `seen_before(&current.elem)` early exit of the unprocessed
   branch (commit 7ce2109): no assertions there; Root does nothing whatever the stack is. *)
Definition patch_seen (p : previous) (ci : N) (stk : list sitem) : outcome unit (list sitem) :=
  match p with
  | Root => Ok stk
  | ParentLeft =>
      match stk with
      | q :: r => Ok (set_left q ci :: r)
      | [] => Panic 5
      end
  | ParentRight =>
      match stk with
      | q :: r => Ok (set_right q ci :: r)
      | [] => Panic 5
      end
  | SiblingLeft =>
      match stk with
      | s :: q :: r => Ok (s :: set_left q ci :: r)
      | _ => Panic 5
      end
  end.

(* one iteration of the `loop` in PostOrderIter::next *)
Definition po_step (st : po_state) : po_res :=
  match po_stack st with
  | [] => PDone
  | current :: stk =>
      let index := po_index st in
      let trk := po_trk st in
      if negb (s_processed current) then
        (* the item may have been yielded since it was pushed: only point the parent at it *)
        match seen_before trk (s_elem current) with
        | Some seen_index =>
            match patch_seen (s_prev current) seen_index stk with
            | Ok stk' => PCont (mk_po index stk' trk)
            | Panic c => PPanic c
            | _ => PPanic 7
            end
        | None =>
        let current := set_processed current in
        match item_left_child trk current, item_right_child trk current with
        | CNone, _ =>
            PCont (mk_po index (current :: stk) trk)
        | CRepeat idx, CNone =>
            PCont (mk_po index (set_left current idx :: stk) trk)
        | CNew c, CNone =>
            PCont (mk_po index (unprocessed c ParentLeft :: current :: stk) trk)
        | CRepeat lidx, CRepeat ridx =>
            PCont (mk_po index (set_right (set_left current lidx) ridx :: stk) trk)
        | CNew c, CRepeat idx =>
            PCont (mk_po index (unprocessed c ParentLeft :: set_right current idx :: stk) trk)
        | CRepeat idx, CNew c =>
            PCont (mk_po index (unprocessed c ParentRight :: set_left current idx :: stk) trk)
        | CNew lc, CNew rc =>
            PCont (mk_po index (unprocessed lc SiblingLeft :: unprocessed rc ParentRight :: current :: stk) trk)
        end
        end
      else
        let '(rec, trk') := record trk (s_elem current) index in
        let already_yielded := opt_is_some rec in
        let current_index := unwrap_or rec index in
        match patch (s_prev current) current_index stk with
        | Ok stk' =>
            if already_yielded then PCont (mk_po index stk' trk')
            else PYield (mk_item (s_elem current) current_index (s_left current) (s_right current))
                        (mk_po (index + 1) stk' trk')
        | Panic c => PPanic c
        | _ => PPanic 7
        end
  end.

(* DagLike::post_order_iter *)
Definition po_init (root : nat) : po_state := mk_po 0 [unprocessed root Root] [].

(* collect the whole iterator; one unit of fuel per iteration of the inner `loop` *)
Fixpoint po_run (fuel : nat) (st : po_state) : outcome unit (list po_item) :=
  match fuel with
  | O => OutOfFuel
  | S f =>
      match po_step st with
      | PDone => Ok []
      | PYield it st' => omap (cons it) (po_run f st')
      | PCont st' => po_run f st'
      | PPanic c => Panic c
      end
  end.

(* a single call of `next` (the loop runs until something is yielded) *)
Fixpoint po_next (fuel : nat) (st : po_state) : outcome unit (option (po_item * po_state)) :=
  match fuel with
  | O => OutOfFuel
  | S f =>
      match po_step st with
      | PDone => Ok None
      | PYield it st' => Ok (Some (it, st'))
      | PCont st' => po_next f st'
      | PPanic c => Panic c
      end
  end.

(* ------------------------------------------------------------------ PreOrderIter *)
Record pre_state : Type := mk_pre {
  pre_stack : list nat;
  pre_trk : tmap }.

Inductive pre_res : Type :=
| QDone
| QYield (n : nat) (st : pre_state)
| QCont (st : pre_state).

Definition push_opt (o : option nat) (stk : list nat) : list nat :=
  match o with Some c => c :: stk | None => stk end.

(* one iteration of `while let Some(top) = self.stack.pop()` *)
Definition pre_step (st : pre_state) : pre_res :=
  match pre_stack st with
  | [] => QDone
  | top :: stk =>
      let '(rec, trk') := record (pre_trk st) top 0 in
      match rec with
      | None =>
          let stk1 := push_opt (right_child_of (children top)) stk in
          let stk2 := push_opt (left_child_of (children top)) stk1 in
          QYield top (mk_pre stk2 trk')
      | Some _ => QCont (mk_pre stk trk')
      end
  end.

Definition pre_init (root : nat) : pre_state := mk_pre [root] [].

Fixpoint pre_run (fuel : nat) (st : pre_state) : outcome unit (list nat) :=
  match fuel with
  | O => OutOfFuel
  | S f =>
      match pre_step st with
      | QDone => Ok []
      | QYield n st' => omap (cons n) (pre_run f st')
      | QCont st' => pre_run f st'
      end
  end.

(* ------------------------------------------------------------------ VerbosePreOrderIter *)
Record vitem : Type := mk_vitem {
  v_node : nat;
  v_parent : option nat;
  v_index : N;
  v_depth : N;
  v_ncy : N;            (* n_children_yielded *)
  v_complete : bool }.

(* PreOrderIterItem::initial *)
Definition v_initial (n : nat) (depth : N) (parent : option nat) : vitem :=
  mk_vitem n parent 0 depth 0 (match children n with Nul => true | _ => false end).
(* PreOrderIterItem::increment *)
Definition v_increment (v : vitem) (is_complete : bool) : vitem :=
  mk_vitem (v_node v) (v_parent v) (v_index v) (v_depth v) (v_ncy v + 1) is_complete.
Definition v_set_index (v : vitem) (i : N) : vitem :=
  mk_vitem (v_node v) (v_parent v) i (v_depth v) (v_ncy v) (v_complete v).

Record vp_state : Type := mk_vp {
  vp_stack : list vitem;
  vp_index : N;
  vp_trk : tmap }.

Inductive vp_res : Type :=
| VDone
| VYield (it : vitem) (st : vp_state)
| VCont (st : vp_state)
| VPanic (code : N).

(* `top.depth < self.max_depth.unwrap_or(top.depth + 1)` *)
Definition depth_ok (max_depth : option N) (depth : N) : bool :=
  depth <? unwrap_or max_depth (depth + 1).

(* one iteration of the `while let` of VerbosePreOrderIter::next.
   Panic codes: 11 `unreachable!()` (1,0); 12 the unwrap of a missing child;
   13 debug_assert_eq!((x, y), (2, 2)). *)
Definition vp_step (max_depth : option N) (st : vp_state) : vp_res :=
  match vp_stack st with
  | [] => VDone
  | top :: stk =>
      (* first part: `if top.n_children_yielded == 0 { if record(..).is_some() { continue; } set index }` *)
      let '(skip, top, index, trk) :=
        if v_ncy top =? 0 then
          let '(rec, trk') := record (vp_trk st) (v_node top) 0 in
          if opt_is_some rec then (true, top, vp_index st, trk')
          else (false, v_set_index top (vp_index st), vp_index st + 1, trk')
        else (false, top, vp_index st, vp_trk st) in
      if skip then VCont (mk_vp stk index trk)
      else
          let nch := n_children_of (children (v_node top)) in
          let push_child (oc : option nat) (stk' : list vitem) : outcome unit (list vitem) :=
            if depth_ok max_depth (v_depth top) then
              match oc with
              | Some c => Ok (v_initial c (v_depth top + 1) (Some (v_node top)) :: stk')
              | None => Panic 12
              end
            else Ok stk' in
          let res : outcome unit (list vitem) :=
            if v_ncy top =? 0 then
              if nch =? 0 then Ok stk
              else push_child (left_child_of (children (v_node top)))
                              (v_increment top (nch =? 1) :: stk)
            else if v_ncy top =? 1 then
              if nch =? 0 then Panic 11
              else if nch =? 1 then Ok stk
              else push_child (right_child_of (children (v_node top)))
                              (v_increment top true :: stk)
            else
              if (v_ncy top =? 2) && (nch =? 2) then Ok stk else Panic 13 in
          match res with
          | Ok stk' => VYield top (mk_vp stk' index trk)
          | Panic c => VPanic c
          | _ => VPanic 7
          end
  end.

Definition vp_init (root : nat) : vp_state := mk_vp [v_initial root 0 None] 0 [].

Fixpoint vp_run (max_depth : option N) (fuel : nat) (st : vp_state) : outcome unit (list vitem) :=
  match fuel with
  | O => OutOfFuel
  | S f =>
      match vp_step max_depth st with
      | VDone => Ok []
      | VYield it st' => omap (cons it) (vp_run max_depth f st')
      | VCont st' => vp_run max_depth f st'
      | VPanic c => Panic c
      end
  end.

End Model.

(* ------------------------------------------------------------------ rtl post order *)
(* DagLike::rtl_post_order_iter : PostOrderIter over SwapChildren(self), then unswap.
   The tracker sees through the wrapper (blanket impls / MaxSharing's explicit impl
   forward to the wrapped node), so `key` is unchanged. *)
Definition swapped (children : nat -> dagnode) : nat -> dagnode := fun n => swapnode (children n).

(* PostOrderIterItem::unswap : `matches!(self.node.as_dag_node(), Dag::Binary(..))` *)
Definition unswap (children : nat -> dagnode) (it : po_item) : po_item :=
  match swapped children (it_node it) with
  | Bin _ _ => mk_item (it_node it) (it_index it) (it_right it) (it_left it)
  | _ => it
  end.

Definition rtl_run (children : nat -> dagnode) (key : nat -> option N) (fuel : nat) (root : nat)
  : outcome unit (list po_item) :=
  omap (map (unswap children)) (po_run (swapped children) key fuel (po_init root)).

(* ------------------------------------------------------------------ is_shared_as *)
(* `for (data_is, data_ought) in iter_is.zip(iter_ought) { if ptr differ { return false } } true`.
   `zip` stops at the shorter sequence.  The two iterators are advanced alternately in Rust;
   since neither can panic (theorem po_refines) collecting each first gives the same answer. *)
Fixpoint zip_same (a b : list po_item) : bool :=
  match a, b with
  | x :: a', y :: b' => if Nat.eqb (it_node x) (it_node y) then zip_same a' b' else false
  | _, _ => true
  end.

Definition is_shared_as (children : nat -> dagnode) (key : nat -> option N) (fuel : nat) (root : nat)
  : outcome unit bool :=
  match po_run children key_ptr fuel (po_init root), po_run children key fuel (po_init root) with
  | Ok a, Ok b => Ok (zip_same a b)
  | Panic c, _ => Panic c
  | _, Panic c => Panic c
  | _, _ => OutOfFuel
  end.
