(* C04 - the typing constraints a program imposes, exactly as the constructors of
   src/types/arrow.rs create type variables and unify them.

   The inference state is a STORE of flat bounds (the analogue of the slab of `Bound`s in
   types/context.rs, with the union-find links folded in): every type the Rust code creates
   with Type::free / unit / sum / product / complete is one store variable,
       BFree            Bound::Free
       BOne             Bound::Complete(unit)
       BSum a b         Bound::Sum(a, b)        (a, b store variables)
       BProd a b        Bound::Product(a, b)
       BLink w          "this variable was unified with w" (UbData::EqualTo)
   Complete types (jets, words, 2^256 of disconnect) are laid out as store variables too
   (words as a chain of n+2 variables, i.e. shared like the precomputed Arc<Final>s).
   A construction only appends to the store; the unifications it performs are recorded as
   equations between variables, in the order the Rust code performs them.

     Arrow::iden / unit / injl / injr / take / drop_ / comp / case / assertl / assertr / pair /
     fail / const_word / jet / witness, Arrow::for_case, Arrow::for_disconnect (with and
     without right child), ConstructNode::set_arrow_to_program.

   `bind_product(existing, l, r)` is modelled as "allocate p := l * r, unify existing p". *)
From RS Require Import Lib.Tac Lib.Outcome Ty.Ty Core.Prog.
Import ListNotations.

Inductive bnd : Type :=
| BFree
| BLink (w : nat)
| BOne
| BSum (a b : nat)
| BProd (a b : nat).

Definition store := list bnd.

Definition sget (s : store) (v : nat) : bnd := nth v s BFree.

(* ground types as data: jets and words; GWord n = 2^(2^n) *)
Inductive gty : Type :=
| GOne
| GSum (a b : gty)
| GProd (a b : gty)
| GWord (n : nat).

Fixpoint gty_ty (g : gty) : ty :=
  match g with
  | GOne => One
  | GSum a b => Sum (gty_ty a) (gty_ty b)
  | GProd a b => Prod (gty_ty a) (gty_ty b)
  | GWord n => word_ty n
  end.

(* bounds laying out 2^(2^k) from variable n on; returns the bounds and the variable of the word *)
Fixpoint walloc (k : nat) (n : nat) : list bnd * nat :=
  match k with
  | O => ([BOne; BSum n n], 1 + n)
  | S k' => let '(l, r) := walloc k' n in (l ++ [BProd r r], length l + n)
  end.

Fixpoint galloc (g : gty) (n : nat) : list bnd * nat :=
  match g with
  | GOne => ([BOne], n)
  | GSum a b =>
      let '(l1, r1) := galloc a n in
      let '(l2, r2) := galloc b (length l1 + n) in
      (l1 ++ l2 ++ [BSum r1 r2], length l2 + (length l1 + n))
  | GProd a b =>
      let '(l1, r1) := galloc a n in
      let '(l2, r2) := galloc b (length l1 + n) in
      (l1 ++ l2 ++ [BProd r1 r2], length l2 + (length l1 + n))
  | GWord k => walloc k n
  end.

(* source and target variable of a node *)
Definition varrow := (nat * nat)%type.

(* jets: (family, index) -> source and target type, supplied as data *)
Definition jet_table := list (N * N * gty * gty).

Fixpoint jet_lookup (jt : jet_table) (fam id : N) : option (gty * gty) :=
  match jt with
  | [] => None
  | (f, i, s, t) :: r => if (N.eqb f fam && N.eqb i id)%bool then Some (s, t) else jet_lookup r fam id
  end.

(* arrow of an earlier node: None when the index is not an earlier node or the node is hidden *)
Definition arr_of {A} (ar : list (option A)) (c : nat) : option A :=
  match nth_error ar c with
  | Some (Some a) => Some a
  | _ => None
  end.

Definition hidden_at {A} (ar : list (option A)) (c : nat) : bool :=
  match nth_error ar c with
  | Some None => true
  | _ => false
  end.

(* What constructing one node appends to the store (first variable: n), which unifications it
   performs (in order) and its arrow.  None = malformed description (not a construction). *)
Definition node_tmpl (jt : jet_table) (n : nat) (ar : list (option varrow)) (nd : node)
  : option (list bnd * list (nat * nat) * option varrow) :=
  match nd with
  | NIden => Some ([BFree], [], Some (n, n))
  | NUnit => Some ([BFree; BOne], [], Some (n, 1 + n))
  | NInjL c =>
      match arr_of ar c with
      | Some (cs, ct) => Some ([BFree; BSum ct n], [], Some (cs, 1 + n))
      | None => None
      end
  | NInjR c =>
      match arr_of ar c with
      | Some (cs, ct) => Some ([BFree; BSum n ct], [], Some (cs, 1 + n))
      | None => None
      end
  | NTake c =>
      match arr_of ar c with
      | Some (cs, ct) => Some ([BFree; BProd cs n], [], Some (1 + n, ct))
      | None => None
      end
  | NDrop c =>
      match arr_of ar c with
      | Some (cs, ct) => Some ([BFree; BProd n cs], [], Some (1 + n, ct))
      | None => None
      end
  | NComp l r =>
      match arr_of ar l, arr_of ar r with
      | Some (ls, lt), Some (rs, rt) => Some ([], [(lt, rs)], Some (ls, rt))
      | _, _ => None
      end
  | NPair l r =>
      match arr_of ar l, arr_of ar r with
      | Some (ls, lt), Some (rs, rt) => Some ([BProd lt rt], [(ls, rs)], Some (ls, n))
      | _, _ => None
      end
  | NCase l r =>
      (* a = n, b = n+1, c = n+2, a+b = n+3, source (a+b)*c = n+4, target = n+5,
         a*c = n+6, b*c = n+7 *)
      let nb := [BFree; BFree; BFree; BSum n (1 + n); BProd (3 + n) (2 + n); BFree;
                 BProd n (2 + n); BProd (1 + n) (2 + n)] in
      let le := match arr_of ar l with
                | Some (ls, lt) => Some [(ls, 6 + n); (5 + n, lt)]
                | None => if hidden_at ar l then Some [] else None
                end in
      let re := match arr_of ar r with
                | Some (rs, rt) => Some [(rs, 7 + n); (5 + n, rt)]
                | None => if hidden_at ar r then Some [] else None
                end in
      if (hidden_at ar l && hidden_at ar r)%bool then None else
      match le, re with
      | Some e1, Some e2 => Some (nb, e1 ++ e2, Some (4 + n, 5 + n))
      | _, _ => None
      end
  | NDisconnect l ro =>
      (* right arrow (c, d): the child's, or two fresh variables n, n+1 *)
      match arr_of ar l with
      | None => None
      | Some (ls, lt) =>
          let right := match ro with
                       | Some r => match arr_of ar r with
                                   | Some (rs, rt) => Some ([], rs, rt)
                                   | None => None
                                   end
                       | None => Some ([BFree; BFree], n, 1 + n)
                       end in
          match right with
          | None => None
          | Some (pre, c, d) =>
              let m := length pre + n in
              (* a = m, b = m+1, 2^256 from m+2 (root w), then w*a, b*c, b*d *)
              let '(wl, w) := walloc 8 (2 + m) in
              let q := length wl + (2 + m) in
              Some (pre ++ [BFree; BFree] ++ wl ++ [BProd w m; BProd (1 + m) c; BProd (1 + m) d],
                    [(ls, q); (lt, 1 + q)], Some (m, 2 + q))
          end
      end
  | NHidden _ => Some ([], [], None)
  | NFail _ => Some ([BFree; BFree], [], Some (n, 1 + n))
  | NWitness _ => Some ([BFree; BFree], [], Some (n, 1 + n))
  | NWord k bits =>
      if (Nat.leb k 31 && Nat.eqb (length bits) (2 ^ k))%bool then
        let '(wl, w) := walloc k (1 + n) in Some (BOne :: wl, [], Some (n, w))
      else None
  | NJet fam id =>
      match jet_lookup jt fam id with
      | None => None
      | Some (gs, gt) =>
          let '(l1, r1) := galloc gs n in
          let '(l2, r2) := galloc gt (length l1 + n) in
          Some (l1 ++ l2, [], Some (r1, r2))
      end
  end.

Record gstate := mk_gstate {
  g_store : store;
  g_eqs : list (nat * nat);          (* unifications of the constructors, in order *)
  g_arr : list (option varrow)       (* arrow of every node; None for hidden nodes *)
}.

Fixpoint gen_nodes (jt : jet_table) (p : list node) (g : gstate) : option gstate :=
  match p with
  | [] => Some g
  | nd :: rest =>
      match node_tmpl jt (length (g_store g)) (g_arr g) nd with
      | None => None
      | Some (nb, ne, a) =>
          gen_nodes jt rest (mk_gstate (g_store g ++ nb) (g_eqs g ++ ne) (g_arr g ++ [a]))
      end
  end.

Definition gen (jt : jet_table) (p : prog) : option gstate :=
  gen_nodes jt p (mk_gstate [] [] []).

(* set_arrow_to_program on node `root`: one unit type, source = unit, target = unit *)
Definition root_tmpl (g : gstate) (root : option nat) : option (list bnd * list (nat * nat)) :=
  match root with
  | None => Some ([], [])
  | Some r =>
      match arr_of (g_arr g) r with
      | Some (rs, rt) => let u := length (g_store g) in Some ([BOne], [(rs, u); (rt, u)])
      | None => None
      end
  end.
